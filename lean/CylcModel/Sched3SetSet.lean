/-
Lemmas about `cylc set` in the `Sched3Set` model (property C29): prerequisites.
-/
import CylcModel.Sched3SetFlow

namespace CylcModel.Sched3Set

/-! ### `force_satisfy` -/

/-- what `force_satisfy` does to one prerequisite: the atoms stay, the requested ones (or all) get satisfied -/
def Pre.force (pr : Pre) (atoms : List Atom) (all : Bool) : Pre :=
  { pr with atoms := pr.atoms.map fun (b, s) => if all || atoms.contains b then (b, true) else (b, s) }

theorem forceSatisfy_pre (x : Proxy) (atoms : List Atom) (all : Bool) :
    (x.forceSatisfy atoms all).pre = x.pre.map fun pr => pr.force atoms all := rfl

/-- the prerequisites keep their atoms (and expression): nothing is invented -/
theorem force_keys (pr : Pre) (atoms : List Atom) (all : Bool) :
    (pr.force atoms all).atoms.map (·.1) = pr.atoms.map (·.1) ∧ (pr.force atoms all).expr = pr.expr := by
  unfold Pre.force
  refine ⟨?_, rfl⟩
  simp only [List.map_map]
  apply List.map_congr_left
  intro e _
  simp only [Function.comp]
  split <;> rfl

/-- an atom is satisfied afterwards iff it was before or it was requested -/
theorem force_flags (pr : Pre) (atoms : List Atom) (all : Bool) (b : Atom) (v : Bool) :
    (b, v) ∈ (pr.force atoms all).atoms ↔
      ∃ v0, (b, v0) ∈ pr.atoms ∧ v = (v0 || all || atoms.contains b) := by
  unfold Pre.force
  simp only [List.mem_map]
  constructor
  · rintro ⟨⟨b0, v0⟩, hm, he⟩
    cases hc : (all || atoms.contains b0) with
    | true =>
      simp only [hc, if_true, Prod.mk.injEq] at he
      obtain ⟨h1, h2⟩ := he
      subst h1
      refine ⟨v0, hm, ?_⟩
      rw [← h2, Bool.or_assoc, hc]; simp
    | false =>
      simp only [hc, Bool.false_eq_true, if_false, Prod.mk.injEq] at he
      obtain ⟨h1, h2⟩ := he
      subst h1
      refine ⟨v0, hm, ?_⟩
      rw [← h2, Bool.or_assoc, hc]; simp
  · rintro ⟨v0, hm, hv⟩
    refine ⟨(b, v0), hm, ?_⟩
    cases hc : (all || atoms.contains b) with
    | true =>
      simp only [hc, if_true, Prod.mk.injEq, true_and]
      rw [hv, Bool.or_assoc, hc]; simp
    | false =>
      simp only [hc, Bool.false_eq_true, if_false, Prod.mk.injEq, true_and]
      rw [hv, Bool.or_assoc, hc]; simp

/-! ### all prerequisites set: the task is ready -/

/-- the atom indices of an and/or expression are within the prerequisite's atoms -/
def BE.bounded (n : Nat) : BE → Prop
  | .atom i => i < n
  | .and l r => l.bounded n ∧ r.bounded n
  | .or l r => l.bounded n ∧ r.bounded n

/-- well-formed prerequisite: its expression only refers to its own atoms -/
def Pre.wf (pr : Pre) : Prop := ∀ e, pr.expr = some e → e.bounded pr.atoms.length

theorem eval_all_true (atoms : List (Atom × Bool)) (hall : ∀ e ∈ atoms, e.2 = true) :
    ∀ (e : BE), e.bounded atoms.length →
      e.eval (fun i => match atoms[i]? with | some a => a.2 | none => false) = true := by
  intro e
  induction e with
  | atom i =>
    intro hb
    simp only [BE.bounded] at hb
    simp only [BE.eval]
    have : atoms[i]? = some atoms[i] := List.getElem?_eq_getElem hb
    rw [this]
    exact hall _ (List.getElem_mem hb)
  | and l r ihl ihr =>
    intro hb
    simp only [BE.bounded] at hb
    simp only [BE.eval, ihl hb.1, ihr hb.2, Bool.and_self]
  | or l r ihl _ =>
    intro hb
    simp only [BE.bounded] at hb
    simp only [BE.eval, ihl hb.1, Bool.true_or]

/-- `--pre=all`: every (well-formed) prerequisite of the proxy is satisfied afterwards -/
theorem forceSatisfy_all_satisfied (x : Proxy) (atoms : List Atom) (hwf : ∀ pr ∈ x.pre, pr.wf) :
    (x.forceSatisfy atoms true).prereqsSatisfied = true := by
  unfold Proxy.prereqsSatisfied
  rw [forceSatisfy_pre]
  simp only [List.all_eq_true, List.mem_map]
  rintro pr' ⟨pr, hpr, rfl⟩
  have hall : ∀ e ∈ (pr.force atoms true).atoms, e.2 = true := by
    intro e he
    unfold Pre.force at he
    simp only [Bool.true_or, if_true, List.mem_map] at he
    obtain ⟨e0, _, rfl⟩ := he
    rfl
  unfold Pre.isSatisfied
  have hexpr : (pr.force atoms true).expr = pr.expr := rfl
  rw [hexpr]
  cases he : pr.expr with
  | none => simp only [List.all_eq_true]; exact hall
  | some e =>
    simp only
    apply eval_all_true _ hall
    have hlen : (pr.force atoms true).atoms.length = pr.atoms.length := by unfold Pre.force; simp
    rw [hlen]
    exact hwf pr hpr e he

/-! ### `cylc set --pre`: what happens to the pool -/

@[simp] theorem pool_useFlow (s : State) (n : Nat) : (useFlow s n).pool = s.pool := by
  unfold useFlow; split <;> rfl

@[simp] theorem pool_newFlow (s : State) : (newFlow s).1.pool = s.pool := by
  unfold newFlow; simp

theorem pool_foldl_useFlow (ns : List Nat) (s : State) : (ns.foldl useFlow s).pool = s.pool := by
  induction ns generalizing s with
  | nil => rfl
  | cons n ns ih => simp only [List.foldl_cons]; rw [ih]; simp

theorem pool_cliFlows (s : State) (f : FlowSpec) : (cliFlows s f).1.pool = s.pool := by
  unfold cliFlows
  cases f with
  | default => rfl
  | new => simp
  | none => rfl
  | nums ns =>
    simp only
    split <;> exact pool_foldl_useFlow ns s

/-- the fields of the state that `cylc set` can touch besides the flow manager -/
def core (s : State) : List Proxy × List Proxy × List Row × List Row × List Upd × List (String × Int) :=
  (s.pool, s.ghosts, s.rows, s.qIns, s.qUpd, s.tasksToHold)

theorem core_useFlow (s : State) (n : Nat) : core (useFlow s n) = core s := by
  unfold useFlow; split <;> rfl

theorem core_foldl_useFlow (ns : List Nat) (s : State) : core (ns.foldl useFlow s) = core s := by
  induction ns generalizing s with
  | nil => rfl
  | cons n ns ih => simp only [List.foldl_cons]; rw [ih, core_useFlow]

theorem core_cliFlows (s : State) (f : FlowSpec) : core (cliFlows s f).1 = core s := by
  unfold cliFlows
  cases f with
  | default => rfl
  | new => simp only [newFlow]; rw [core_useFlow]; rfl
  | none => rfl
  | nums ns =>
    simp only
    split <;> exact core_foldl_useFlow ns s

/-- **a command that names no prerequisite of the task changes nothing** (pool, transient objects, database
rows and queue, hold record): only the flow manager may have registered the `--flow` numbers -/
theorem setCmd_no_valid_prereq (g : Graph) (s : State) (id : Int × String) (outs : List String) (pre : PreSpec)
    (flow : FlowSpec) (wait : Bool) (hpre : pre.given = true) (hall : pre.isAll = false)
    (hvalid : validPrereqs g id.1 id.2 (pre.atoms g) = []) :
    core (setCmd g s id outs pre flow wait) = core s := by
  unfold setCmd
  simp only [hpre, hall, Bool.true_and, Bool.false_or, hvalid]
  split
  · rfl
  · split
    · split
      · exact core_cliFlows s flow
      · unfold setPrePooled
        simp only [List.isEmpty_nil, Bool.not_true, Bool.or_self, Bool.not_false, if_true]
        exact core_cliFlows s flow
    · split
      · exact core_cliFlows s flow
      · unfold setPreInactive
        simp only [List.isEmpty_nil, Bool.not_true, Bool.or_self, Bool.not_false, if_true]
        exact core_cliFlows s flow

theorem get?_cliFlows (s : State) (f : FlowSpec) (p : Int) (n : String) : (cliFlows s f).1.get? p n = s.get? p n :=
  get?_of_pool_eq (pool_cliFlows s f) p n

/-- `merge_flows` leaves the prerequisites of the proxy alone (and it stays pooled) -/
theorem mergeFlows_pre (g : Graph) (s : State) (x : Proxy) (f : Flows) (hx : s.get? x.pt x.name = some x) :
    ∃ y, (mergeFlows g s x f).get? x.pt x.name = some y ∧ y.pre = x.pre := by
  cases h : (f.isEmpty || f == x.flows) with
  | true => rw [mergeFlows_noop g s x f h]; exact ⟨x, hx, rfl⟩
  | false =>
    unfold mergeFlows
    simp only [h, Bool.false_eq_true, if_false]
    have hsome : (s.get? x.pt x.name).isSome = true := by rw [hx]; rfl
    have h1 : (dbInsert (s.put (x.merged f)) (x.merged f)).get? x.pt x.name = some (x.merged f) := by
      rw [get?_of_pool_eq (pool_dbInsert _ _)]
      exact get?_put_self s (x.merged f) hsome
    generalize dbInsert (s.put (x.merged f)) (x.merged f) = s1 at h1
    have hsome1 : (s1.get? x.pt x.name).isSome = true := by rw [h1]; rfl
    split
    · refine ⟨queueTask ((x.merged f).reset (status := some .waiting)), ?_, ?_⟩
      · have := get?_put_self s1 (queueTask ((x.merged f).reset (status := some .waiting))) (by simpa using hsome1)
        simpa using this
      · unfold queueTask; simp [Proxy.merged]
    · split
      · refine ⟨(x.merged f).noWait, ?_, rfl⟩
        apply (spawnOnAllOutputs_ok g (s1.put (x.merged f).noWait) (x.merged f).noWait).1
        have := get?_put_self s1 (x.merged f).noWait (by simpa using hsome1)
        simpa using this
      · exact ⟨x.merged f, h1, rfl⟩

/-- **`cylc set --pre` on a pooled task satisfies only prerequisites the task has**: afterwards the task is in
the pool with the prerequisites it had, the requested ones that it has (`valid`; all of them with `--pre=all`)
satisfied and nothing else changed in them -/
theorem setPrePooled_pre (g : Graph) (s : State) (x : Proxy) (flows : Flows) (valid : List Atom) (setAll : Bool)
    (hx : s.get? x.pt x.name = some x) (hsome : (setAll || !valid.isEmpty) = true) :
    ∃ y, (setPrePooled g s x flows valid setAll).get? x.pt x.name = some y ∧
      y.pre = x.pre.map fun pr => pr.force valid setAll := by
  unfold setPrePooled
  simp only [hsome, Bool.not_true, Bool.false_eq_true, if_false]
  obtain ⟨y1, hy1, hpre1⟩ := mergeFlows_pre g s x flows hx
  rw [hy1]
  simp only
  have hk := get?_key hy1
  refine ⟨y1.forceSatisfy valid setAll, ?_, ?_⟩
  · have := get?_put_self (mergeFlows g s x flows) (y1.forceSatisfy valid setAll)
      (by
        show ((mergeFlows g s x flows).get? y1.pt y1.name).isSome = true
        rw [hk.1, hk.2, hy1]; rfl)
    have e1 : (y1.forceSatisfy valid setAll).pt = x.pt := hk.1
    have e2 : (y1.forceSatisfy valid setAll).name = x.name := hk.2
    rw [e1, e2] at this
    exact this
  · rw [forceSatisfy_pre, hpre1]

end CylcModel.Sched3Set
