/-
Helper lemmas for C17 (`ISO8601Sequence` wrapper + caches over an abstract recurrence).

* generic: following a stepping function through excluded points of a list sorted by a relation
  (`chase_sound`, `chase_complete`) - used forwards (`get_next_point_on_sequence`) and backwards
  (`get_prev_point`);
* the specification (`Seq.L`, `specValid`, `specNext`, ...: brute force over the iterated list);
* the cache invariant `Inv` and its preservation by every query (`step_ref`);
* every answer is a function of the query alone (`refAns`), and equals brute force under the
  side conditions `Covered` (`ref_spec`).
-/
import CylcModel.IsoSeq
namespace CylcModel.IsoSeq

section Gen
variable (r : Int → Int → Bool)

/-- in a list sorted by `r`, the first element satisfying `P` is `r`-below every other element satisfying `P` -/
theorem find_first_rel {P : Int → Bool} {l : List Int} {q x : Int}
    (hs : l.Pairwise (fun a b => r a b = true)) (hf : l.find? P = some q) (hx : x ∈ l) (hp : P x = true) :
    x = q ∨ r q x = true := by
  induction l with
  | nil => cases hx
  | cons a t ih =>
    rw [List.pairwise_cons] at hs
    rw [List.find?_cons] at hf
    by_cases ha : P a = true
    · simp [ha] at hf
      subst hf
      rcases List.mem_cons.1 hx with h | h
      · exact Or.inl h
      · exact Or.inr (hs.1 x h)
    · simp [ha] at hf
      rcases List.mem_cons.1 hx with h | h
      · subst h; exact absurd hp ha
      · exact ih hs.2 hf h

theorem find_strengthen {P Q : Int → Bool} {l : List Int} {q : Int}
    (hf : l.find? P = some q) (hq : Q q = true) (himp : ∀ x, Q x = true → P x = true) :
    l.find? Q = some q := by
  induction l with
  | nil => cases hf
  | cons a t ih =>
    rw [List.find?_cons] at hf ⊢
    by_cases ha : P a = true
    · simp [ha] at hf
      subst hf
      simp [hq]
    · simp [ha] at hf
      have : Q a = false := by
        cases h : Q a with
        | false => rfl
        | true => exact absurd (himp a h) ha
      simp [this]
      exact ih hf

theorem find_congr_mem {P Q : Int → Bool} {l : List Int} (h : ∀ x ∈ l, P x = Q x) :
    l.find? P = l.find? Q := by
  induction l with
  | nil => rfl
  | cons a t ih =>
    rw [List.find?_cons, List.find?_cons, h a (List.mem_cons_self ..), ih (fun x hx => h x (List.mem_cons_of_mem _ hx))]


/-- hypotheses on the order `r`, the list and the stepping function -/
structure StepSys (l : List Int) (step : Int → Option Int) : Prop where
  trans : ∀ a b c, r a b = true → r b c = true → r a c = true
  irrefl : ∀ a, r a a = false
  sorted : l.Pairwise (fun a b => r a b = true)
  stepOK : ∀ p ∈ l, step p = l.find? (r p)

theorem chase_congr {l : List Int} {step : Int → Option Int} (h : StepSys r l step) (excl : Int → Bool)
    {p q : Int} (hq : l.find? (r p) = some q) (hx : excl q = true) :
    l.find? (fun x => r p x && !excl x) = l.find? (fun x => r q x && !excl x) := by
  apply find_congr_mem
  intro x hxl
  have hpq : r p q = true := by simpa using List.find?_some hq
  cases he : excl x with
  | true => simp
  | false =>
    simp only [Bool.not_false, Bool.and_true]
    cases hr : r p x with
    | true =>
      rcases find_first_rel r h.sorted hq hxl hr with h1 | h1
      · subst h1; rw [hx] at he; cases he
      · exact h1.symm
    | false =>
      cases hr2 : r q x with
      | false => rfl
      | true => rw [h.trans p q x hpq hr2] at hr; cases hr

/-- whatever `chase` returns is the first non-excluded element beyond `p` (no fuel condition) -/
theorem chase_sound {l : List Int} {step : Int → Option Int} (h : StepSys r l step) (excl : Int → Bool) :
    ∀ (f : Nat) (p q : Int), p ∈ l → chase step excl f p = some q →
      l.find? (fun x => r p x && !excl x) = some q := by
  intro f
  induction f with
  | zero => intro p q _ hc; simp [chase] at hc
  | succ f ih =>
    intro p q hp hc
    unfold chase at hc
    rw [h.stepOK p hp] at hc
    cases hs : l.find? (r p) with
    | none => rw [hs] at hc; cases hc
    | some q1 =>
      rw [hs] at hc
      simp only at hc
      by_cases hx : excl q1 = true
      · rw [if_pos hx] at hc
        rw [chase_congr r h excl hs hx]
        exact ih q1 q (List.mem_of_find?_eq_some hs) hc
      · rw [if_neg hx] at hc
        injection hc with hc; subst hc
        apply find_strengthen hs
        · have : r p q1 = true := by simpa using List.find?_some hs
          simp [this, hx]
        · intro x hxx; simp at hxx; exact hxx.1

/-- with enough fuel `chase` finds it -/
theorem chase_complete {l : List Int} {step : Int → Option Int} (h : StepSys r l step) (excl : Int → Bool) :
    ∀ (f : Nat) (p : Int), p ∈ l → (l.filter (r p)).length < f →
      chase step excl f p = l.find? (fun x => r p x && !excl x) := by
  intro f
  induction f with
  | zero => intro p _ hl; omega
  | succ f ih =>
    intro p hp hl
    unfold chase
    rw [h.stepOK p hp]
    cases hs : l.find? (r p) with
    | none =>
      simp only
      symm
      rw [List.find?_eq_none] at hs ⊢
      intro x hx; have := hs x hx; simp at this ⊢; intro h1; rw [h1] at this; cases this
    | some q1 =>
      simp only
      have hq1 : q1 ∈ l := List.mem_of_find?_eq_some hs
      have hpq : r p q1 = true := by simpa using List.find?_some hs
      by_cases hx : excl q1 = true
      · rw [if_pos hx, chase_congr r h excl hs hx]
        apply ih q1 hq1
        have hsub : l.filter (r q1) = (l.filter (r p)).filter (r q1) := by
          rw [List.filter_filter]
          apply List.filter_congr
          intro x _
          cases hr2 : r q1 x with
          | false => simp
          | true => simp [h.trans p q1 x hpq hr2]
        have hlt : ((l.filter (r p)).filter (r q1)).length < (l.filter (r p)).length := by
          rw [List.length_filter_lt_length_iff_exists]
          exact ⟨q1, List.mem_filter.2 ⟨hq1, hpq⟩, by simp [h.irrefl]⟩
        rw [hsub]; omega
      · rw [if_neg hx]
        symm
        apply find_strengthen hs
        · simp [hpq, hx]
        · intro x hxx; simp at hxx; exact hxx.1

end Gen

/-! ### specification: brute force over the iterated list -/

/-- the ordered list obtained by iterating the recurrence and removing excluded points -/
def Seq.L (s : Seq) : List Int := s.rc.pts.filter (fun x => !s.excl x)

def specValid (s : Seq) (p : Int) : Bool := s.L.contains p
def specNext (s : Seq) (p : Int) : Option Int := s.L.find? (fun x => decide (p < x))
def specFirst (s : Seq) (p : Int) : Option Int := s.L.find? (fun x => decide (p ≤ x))
def specPrev (s : Seq) (p : Int) : Option Int := s.L.reverse.find? (fun x => decide (x < p))
def specStart (s : Seq) : Option Int := s.L.head?
def specStop (s : Seq) : Option Int := s.L.getLast?

/-- the iteration is strictly increasing -/
def Sorted (s : Seq) : Prop := s.rc.pts.Pairwise (· < ·)

/-- stepping forward from a member (re-parsed from its string) gives the next member of the iteration -/
def NextOK (s : Seq) : Prop :=
  ∀ p ∈ s.rc.pts, s.rc.next p = s.rc.pts.find? (fun x => decide (p < x))

/-- stepping backward from a member gives the previous member of the iteration -/
def PrevOK (s : Seq) : Prop :=
  (∀ p ∈ s.rc.pts, s.rc.prevC p = s.rc.pts.reverse.find? (fun x => decide (x < p))) ∧
  (∀ k, s.val k ∈ s.rc.pts → s.rc.prevK k = s.rc.pts.reverse.find? (fun x => decide (x < s.val k)))

def ltB (a b : Int) : Bool := decide (a < b)
def gtB (a b : Int) : Bool := decide (b < a)

theorem sysNext {s : Seq} (hs : Sorted s) (hn : NextOK s) : StepSys ltB s.rc.pts s.rc.next where
  trans := by intro a b c; simp [ltB]; omega
  irrefl := by intro a; simp [ltB]
  sorted := by simpa [ltB, Sorted] using hs
  stepOK := hn

theorem sysPrev {s : Seq} (hs : Sorted s) (hp : PrevOK s) : StepSys gtB s.rc.pts.reverse s.rc.prevC where
  trans := by intro a b c; simp [gtB]; omega
  irrefl := by intro a; simp [gtB]
  sorted := by
    rw [List.pairwise_reverse]
    simpa [gtB, Sorted] using hs
  stepOK := by intro p hp'; exact hp.1 p (List.mem_reverse.1 hp')

theorem specValid_eq (s : Seq) (p : Int) : specValid s p = (s.rc.pts.contains p && !s.excl p) := by
  unfold specValid Seq.L
  rw [Bool.eq_iff_iff]
  simp [List.mem_filter]

theorem specNext_eq (s : Seq) (p : Int) :
    specNext s p = s.rc.pts.find? (fun x => decide (p < x) && !s.excl x) := by
  unfold specNext Seq.L
  rw [List.find?_filter]
  apply find_congr_mem; intro x _; cases s.excl x <;> simp

theorem specFirst_eq (s : Seq) (p : Int) :
    specFirst s p = s.rc.pts.find? (fun x => decide (p ≤ x) && !s.excl x) := by
  unfold specFirst Seq.L
  rw [List.find?_filter]
  apply find_congr_mem; intro x _; cases s.excl x <;> simp

theorem specPrev_eq (s : Seq) (p : Int) :
    specPrev s p = s.rc.pts.reverse.find? (fun x => decide (x < p) && !s.excl x) := by
  unfold specPrev Seq.L
  rw [← List.filter_reverse, List.find?_filter]
  apply find_congr_mem; intro x _; cases s.excl x <;> simp

/-! ### get_next_point_on_sequence and the loops built on it -/

theorem nextOnSeq_sound {s : Seq} (hs : Sorted s) (hn : NextOK s) (f : Nat) (p q : Int)
    (hp : p ∈ s.rc.pts) (h : nextOnSeq s f p = some q) :
    s.rc.pts.find? (fun x => decide (p < x) && !s.excl x) = some q :=
  chase_sound ltB (sysNext hs hn) s.excl f p q hp h

theorem nextOnSeq_mem {s : Seq} (hs : Sorted s) (hn : NextOK s) (f : Nat) (p q : Int)
    (hp : p ∈ s.rc.pts) (h : nextOnSeq s f p = some q) : q ∈ s.rc.pts ∧ s.excl q = false ∧ p < q := by
  have h1 := nextOnSeq_sound hs hn f p q hp h
  have h2 := List.find?_some h1
  simp at h2
  exact ⟨List.mem_of_find?_eq_some h1, h2.2, h2.1⟩

theorem nextOnSeq_complete {s : Seq} (hs : Sorted s) (hn : NextOK s) (f : Nat) (p : Int)
    (hp : p ∈ s.rc.pts) (hf : s.rc.pts.length < f) :
    nextOnSeq s f p = s.rc.pts.find? (fun x => decide (p < x) && !s.excl x) := by
  apply chase_complete ltB (sysNext hs hn) s.excl f p hp
  exact Nat.lt_of_le_of_lt (List.length_filter_le ..) hf

theorem advance_mem {s : Seq} (hs : Sorted s) (hn : NextOK s) (fuel : Nat) (go : Int → Bool) :
    ∀ (n : Nat) (cur c : Int), cur ∈ s.rc.pts → advance s fuel go n cur = some c → c ∈ s.rc.pts := by
  intro n
  induction n with
  | zero => intro cur c _ h; simp [advance] at h
  | succ n ih =>
    intro cur c hc h
    unfold advance at h
    by_cases hg : go cur = true
    · rw [if_pos hg] at h
      cases hx : nextOnSeq s fuel cur with
      | none => rw [hx] at h; cases h
      | some c1 =>
        rw [hx] at h
        exact ih c1 c (nextOnSeq_mem hs hn fuel cur c1 hc hx).1 h
    · rw [if_neg hg] at h
      injection h with h; subst h; exact hc

theorem advance_next {s : Seq} (hs : Sorted s) (hn : NextOK s) (fuel : Nat) (p : Int) :
    ∀ (n : Nat) (cur c : Int), cur ∈ s.rc.pts →
      (cur ≤ p ∨ s.rc.pts.find? (fun x => decide (p < x) && !s.excl x) = some cur) →
      advance s fuel (fun c => decide (c ≤ p)) n cur = some c →
      s.rc.pts.find? (fun x => decide (p < x) && !s.excl x) = some c := by
  intro n
  induction n with
  | zero => intro cur c _ _ h; simp [advance] at h
  | succ n ih =>
    intro cur c hc hinv h
    unfold advance at h
    by_cases hg : cur ≤ p
    · simp only [hg, decide_true, if_true] at h
      cases hx : nextOnSeq s fuel cur with
      | none => rw [hx] at h; cases h
      | some c1 =>
        rw [hx] at h
        have hm := nextOnSeq_mem hs hn fuel cur c1 hc hx
        have hf := nextOnSeq_sound hs hn fuel cur c1 hc hx
        apply ih c1 c hm.1 _ h
        by_cases h1 : c1 ≤ p
        · exact Or.inl h1
        · right
          apply find_strengthen hf
          · simp [hm.2.1]; omega
          · intro x hx'; simp at hx' ⊢; exact ⟨by omega, hx'.2⟩
    · simp only [hg, decide_false] at h
      injection h with h; subst h
      rcases hinv with h1 | h1
      · exact absurd h1 hg
      · exact h1

/-! ### the cache invariant -/

/-- Every cache entry agrees with brute force; every recent valid point is a non-excluded member. -/
structure Inv (s : Seq) (st : St) : Prop where
  valid : ∀ k b, (k, b) ∈ st.validC → b = specValid s (s.val k)
  lru : ∀ k b, (k, b) ∈ st.lru → b = specValid s (s.val k)
  next : ∀ k v, (k, v) ∈ st.nextC → specNext s (s.val k) = some v
  first : ∀ k v, (k, v) ∈ st.firstC → specFirst s (s.val k) = some v
  recent : ∀ v ∈ st.recent, v ∈ s.rc.pts ∧ s.excl v = false

theorem inv_init (s : Seq) : Inv s {} := by
  constructor <;> intros <;> simp_all

theorem look_mem {α : Type} {k : String} {l : List (String × α)} {v : α} (h : look k l = some v) :
    (k, v) ∈ l := by
  induction l with
  | nil => simp [look] at h
  | cons a t ih =>
    obtain ⟨k', v'⟩ := a
    unfold look at h
    by_cases hk : k' = k
    · rw [if_pos hk] at h; injection h with h; subst h; subst hk; exact List.mem_cons_self ..
    · rw [if_neg hk] at h; exact List.mem_cons_of_mem _ (ih h)

theorem mem_dictPut {α : Type} {cap : Nat} {d : List (String × α)} {k : String} {v : α} {e : String × α}
    (h : e ∈ dictPut cap d k v) : e ∈ d ∨ e = (k, v) := by
  unfold dictPut at h
  rcases List.mem_append.1 h with h1 | h1
  · left
    split at h1
    · exact List.dropLast_subset _ h1
    · exact h1
  · right; simpa using h1

theorem scanOn_eq {s : Seq} (hs : Sorted s) (hn : NextOK s) (fuel : Nat) (p : Int) :
    ∀ vs : List Int, (∀ v ∈ vs, v ∈ s.rc.pts) → scanOn s fuel p vs = s.rc.pts.contains p := by
  intro vs
  induction vs with
  | nil => intro _; rfl
  | cons v vs ih =>
    intro hv
    have hvm : v ∈ s.rc.pts := hv v (List.mem_cons_self ..)
    have ih' := ih (fun x hx => hv x (List.mem_cons_of_mem _ hx))
    unfold scanOn
    by_cases h1 : (v == p) = true
    · rw [if_pos h1]
      have : v = p := by simpa using h1
      subst this
      symm; simpa using hvm
    · rw [if_neg h1]
      by_cases h2 : v > p
      · rw [if_pos h2]; exact ih'
      · rw [if_neg h2]
        cases ha : advance s fuel (fun c => decide (c < p)) fuel v with
        | none => exact ih'
        | some c =>
          simp only
          by_cases h3 : (c == p) = true
          · rw [if_pos h3]
            have : c = p := by simpa using h3
            subst this
            symm; simpa using advance_mem hs hn fuel _ fuel v c hvm ha
          · rw [if_neg h3]; exact ih'

theorem isOnSeqRaw_eq {s : Seq} {st : St} (hs : Sorted s) (hn : NextOK s) (hi : Inv s st)
    (fuel : Nat) (key : String) : isOnSeqRaw s fuel st key = specValid s (s.val key) := by
  unfold isOnSeqRaw
  rw [specValid_eq]
  simp only
  cases he : s.excl (s.val key) with
  | true => simp
  | false =>
    simp only [Bool.false_eq_true, if_false, Bool.not_false, Bool.and_true]
    apply scanOn_eq hs hn
    intro v hv
    exact (hi.recent v (List.mem_reverse.1 hv)).1

theorem isOnSeq_spec {s : Seq} {st : St} (hs : Sorted s) (hn : NextOK s) (hi : Inv s st)
    (fuel : Nat) (key : String) :
    (isOnSeq s fuel st key).2 = specValid s (s.val key) ∧ Inv s (isOnSeq s fuel st key).1 := by
  unfold isOnSeq
  by_cases hc : s.cap = 0
  · rw [if_pos hc]; exact ⟨isOnSeqRaw_eq hs hn hi fuel key, hi⟩
  · rw [if_neg hc]
    cases hl : look key st.lru with
    | some b =>
      simp only
      refine ⟨hi.lru key b (look_mem hl), ?_⟩
      refine { hi with lru := ?_ }
      intro k b' hm
      rcases List.mem_append.1 hm with h1 | h1
      · exact hi.lru k b' (List.mem_filter.1 h1).1
      · have : (k, b') = (key, b) := by simpa using h1
        injection this with e1 e2; subst e1; subst e2
        exact hi.lru k b' (look_mem hl)
    | none =>
      simp only
      refine ⟨isOnSeqRaw_eq hs hn hi fuel key, ?_⟩
      refine { hi with lru := ?_ }
      intro k b' hm
      have hm' : (k, b') ∈ st.lru ++ [(key, isOnSeqRaw s fuel st key)] := by
        split at hm
        · exact List.mem_of_mem_tail hm
        · exact hm
      rcases List.mem_append.1 hm' with h1 | h1
      · exact hi.lru k b' h1
      · have : (k, b') = (key, isOnSeqRaw s fuel st key) := by simpa using h1
        injection this with e1 e2; subst e1; rw [e2]
        exact isOnSeqRaw_eq hs hn hi fuel k

theorem isValid_spec {s : Seq} {st : St} (hs : Sorted s) (hn : NextOK s) (hi : Inv s st)
    (fuel : Nat) (key : String) :
    (isValid s fuel st key).2 = specValid s (s.val key) ∧ Inv s (isValid s fuel st key).1 := by
  unfold isValid
  cases hl : look key st.validC with
  | some b => exact ⟨hi.valid key b (look_mem hl), hi⟩
  | none =>
    simp only
    obtain ⟨h1, h2⟩ := isOnSeq_spec hs hn hi fuel key
    refine ⟨h1, ?_⟩
    refine { h2 with valid := ?_ }
    intro k b hm
    rcases mem_dictPut hm with h3 | h3
    · exact h2.valid k b h3
    · injection h3 with e1 e2; subst e1; rw [e2]; exact h1

theorem scanNext_eq {s : Seq} (hs : Sorted s) (hn : NextOK s) (fuel : Nat) (p : Int) :
    ∀ vs : List Int, (∀ v ∈ vs, v ∈ s.rc.pts) → scanNext s fuel p vs = specNext s p := by
  intro vs
  induction vs with
  | nil => intro _; rw [specNext_eq]; rfl
  | cons v vs ih =>
    intro hv
    have hvm : v ∈ s.rc.pts := hv v (List.mem_cons_self ..)
    have ih' := ih (fun x hx => hv x (List.mem_cons_of_mem _ hx))
    unfold scanNext
    by_cases h1 : v ≥ p
    · rw [if_pos h1]; exact ih'
    · rw [if_neg h1]
      cases ha : advance s fuel (fun c => decide (c ≤ p)) fuel v with
      | none => exact ih'
      | some c =>
        simp only
        rw [specNext_eq]
        exact (advance_next hs hn fuel p fuel v c hvm (Or.inl (by omega)) ha).symm

theorem getNext_spec {s : Seq} {st : St} (hs : Sorted s) (hn : NextOK s) (hi : Inv s st)
    (fuel : Nat) (key : String) :
    (getNext s fuel st key).2 = specNext s (s.val key) ∧ Inv s (getNext s fuel st key).1 := by
  unfold getNext
  cases hl : look key st.nextC with
  | some v => exact ⟨(hi.next key v (look_mem hl)).symm, hi⟩
  | none =>
    simp only
    have hsc := scanNext_eq hs hn fuel (s.val key) st.recent.reverse
      (fun v hv => (hi.recent v (List.mem_reverse.1 hv)).1)
    cases hc : scanNext s fuel (s.val key) st.recent.reverse with
    | none => exact ⟨by rw [← hsc, hc], hi⟩
    | some c =>
      simp only
      have hspec : specNext s (s.val key) = some c := by rw [← hsc, hc]
      refine ⟨hspec.symm, ?_⟩
      have hcm : c ∈ s.rc.pts ∧ s.excl c = false := by
        rw [specNext_eq] at hspec
        have h2 := List.find?_some hspec
        simp at h2
        exact ⟨List.mem_of_find?_eq_some hspec, h2.2⟩
      unfold cacheNext
      refine { hi with next := ?_, recent := ?_ }
      · intro k v hm
        rcases mem_dictPut hm with h3 | h3
        · exact hi.next k v h3
        · injection h3 with e1 e2; subst e1; subst e2; exact hspec
      · intro v hm
        rcases List.mem_append.1 hm with h3 | h3
        · apply hi.recent v
          split at h3
          · exact List.mem_of_mem_tail h3
          · exact h3
        · have : v = c := by simpa using h3
          subst this; exact hcm

theorem getFirst_spec {s : Seq} {st : St} (hs : Sorted s) (hn : NextOK s) (hi : Inv s st)
    (fuel : Nat) (hf : s.rc.pts.length < fuel) (key : String) :
    (getFirst s fuel st key).2 = specFirst s (s.val key) ∧ Inv s (getFirst s fuel st key).1 := by
  unfold getFirst
  cases hl : look key st.firstC with
  | some v => exact ⟨(hi.first key v (look_mem hl)).symm, hi⟩
  | none =>
    simp only
    rw [specFirst_eq]
    cases hfd : s.rc.pts.find? (fun x => decide (s.val key ≤ x)) with
    | none =>
      simp only
      refine ⟨?_, hi⟩
      symm
      rw [List.find?_eq_none] at hfd ⊢
      intro x hx; have := hfd x hx; simp at this ⊢; omega
    | some r0 =>
      simp only
      have hr0 : s.val key ≤ r0 := by simpa using List.find?_some hfd
      have hr0m : r0 ∈ s.rc.pts := List.mem_of_find?_eq_some hfd
      by_cases hx : s.excl r0 = true
      · rw [if_pos hx]
        refine ⟨?_, hi⟩
        simp only
        rw [nextOnSeq_complete hs hn fuel r0 hr0m hf]
        apply find_congr_mem
        intro x hxm
        cases he : s.excl x with
        | true => simp
        | false =>
          simp only [Bool.not_false, Bool.and_true]
          by_cases hpx : s.val key ≤ x
          · have := find_first_rel ltB (by simpa [ltB, Sorted] using hs) hfd hxm (by simpa using hpx)
            rcases this with h1 | h1
            · subst h1; rw [hx] at he; cases he
            · simp [ltB] at h1; simp [h1, hpx]
          · have : ¬ r0 < x := by omega
            simp [hpx, this]
      · rw [if_neg hx]
        simp only
        have hspec : s.rc.pts.find? (fun x => decide (s.val key ≤ x) && !s.excl x) = some r0 := by
          apply find_strengthen hfd
          · simp [hr0, hx]
          · intro x hxx; simp at hxx ⊢; exact hxx.1
        refine ⟨hspec.symm, ?_⟩
        refine { hi with first := ?_ }
        intro k v hm
        rcases mem_dictPut hm with h3 | h3
        · exact hi.first k v h3
        · injection h3 with e1 e2; subst e1; subst e2; rw [specFirst_eq]; exact hspec

/-! ### previous points -/

theorem getPrev_spec {s : Seq} (hs : Sorted s) (hp : PrevOK s) (fuel : Nat) (hf : s.rc.pts.length < fuel)
    (key : String) (hm : s.val key ∈ s.rc.pts) : getPrev s fuel key = specPrev s (s.val key) := by
  unfold getPrev
  rw [specPrev_eq, hp.2 key hm]
  have hsys := sysPrev hs hp
  have hsrt : s.rc.pts.reverse.Pairwise (fun a b => gtB a b = true) := hsys.sorted
  cases hfd : s.rc.pts.reverse.find? (fun x => decide (x < s.val key)) with
  | none =>
    simp only
    symm
    rw [List.find?_eq_none] at hfd ⊢
    intro x hx; have := hfd x hx; simp at this ⊢; omega
  | some r0 =>
    simp only
    have hr0 : r0 < s.val key := by simpa using List.find?_some hfd
    have hr0m : r0 ∈ s.rc.pts.reverse := List.mem_of_find?_eq_some hfd
    by_cases hx : s.excl r0 = true
    · rw [if_pos hx]
      rw [chase_complete gtB hsys s.excl fuel r0 hr0m
        (Nat.lt_of_le_of_lt (List.length_filter_le ..) (by simpa using hf))]
      apply find_congr_mem
      intro x hxm
      cases he : s.excl x with
      | true => simp
      | false =>
        simp only [Bool.not_false, Bool.and_true, gtB]
        by_cases hpx : x < s.val key
        · have := find_first_rel gtB hsrt hfd hxm (by simpa using hpx)
          rcases this with h1 | h1
          · subst h1; rw [hx] at he; cases he
          · simp [gtB] at h1; simp [h1, hpx]
        · have : ¬ x < r0 := by omega
          simp [hpx, this]
    · rw [if_neg hx]
      symm
      apply find_strengthen hfd
      · simp [hr0, hx]
      · intro x hxx; simp at hxx ⊢; exact hxx.1

theorem nearestScan_eq (excl : Int → Bool) (p : Int) :
    ∀ (l : List Int) (acc : Option Int), l.Pairwise (· < ·) →
      nearestScan excl p l acc = (l.reverse.find? (fun x => decide (x ≤ p) && !excl x)).or acc := by
  intro l
  induction l with
  | nil => intro acc _; simp [nearestScan]
  | cons a t ih =>
    intro acc hs
    rw [List.pairwise_cons] at hs
    unfold nearestScan
    rw [List.reverse_cons, List.find?_append]
    by_cases h1 : a > p
    · rw [if_pos h1]
      have h2 : t.reverse.find? (fun x => decide (x ≤ p) && !excl x) = none := by
        rw [List.find?_eq_none]
        intro x hx
        have := hs.1 x (List.mem_reverse.1 hx)
        simp; omega
      have h3 : [a].find? (fun x => decide (x ≤ p) && !excl x) = none := by
        simp; intro h; omega
      rw [h2, h3]; simp
    · rw [if_neg h1, ih _ hs.2]
      have h4 : a ≤ p := by omega
      cases hfd : t.reverse.find? (fun x => decide (x ≤ p) && !excl x) with
      | some y => simp
      | none =>
        cases he : excl a <;> simp [h4, he]

theorem nearestScan_spec {s : Seq} (hs : Sorted s) (p : Int) (hv : specValid s p = false) :
    nearestScan s.excl p s.rc.pts none = specPrev s p := by
  rw [nearestScan_eq s.excl p s.rc.pts none hs, specPrev_eq, Option.or_none]
  apply find_congr_mem
  intro x hxm
  cases he : s.excl x with
  | true => simp
  | false =>
    simp only [Bool.not_false, Bool.and_true]
    by_cases hxp : x = p
    · subst hxp
      rw [specValid_eq] at hv
      have : s.rc.pts.contains x = true := by simpa using List.mem_reverse.1 hxm
      rw [this, he] at hv; cases hv
    · have : (x ≤ p) ↔ (x < p) := by omega
      simp [this]

/-! ### start and stop -/

theorem getStart_spec (s : Seq) : getStart s = specStart s := by
  unfold getStart specStart Seq.L
  rw [List.head?_filter]

theorem foldl_last (excl : Int → Bool) :
    ∀ (l : List Int) (acc : Option Int),
      l.foldl (fun acc r => if excl r then acc else some r) acc
        = ((l.filter (fun x => !excl x)).getLast?).or acc := by
  intro l
  induction l with
  | nil => intro acc; simp
  | cons a t ih =>
    intro acc
    rw [List.foldl_cons, ih]
    cases he : excl a with
    | true => simp [he]
    | false =>
      simp only [List.filter_cons, he, Bool.not_false, if_true, Bool.false_eq_true, if_false]
      cases hft : t.filter (fun x => !excl x) with
      | nil => simp
      | cons b u =>
        rw [List.getLast?_cons_cons]
        cases hl : (b :: u).getLast? with
        | none => simp at hl
        | some y => simp

theorem lastTwo_concat (l : List Int) (a : Int) :
    ∀ (c p : Option Int), lastTwo (l ++ [a]) c p = (some a, (lastTwo l c p).1) := by
  induction l with
  | nil => intro c p; simp [lastTwo]
  | cons b t ih => intro c p; simp [lastTwo, ih]

theorem lastTwo_fst (l : List Int) : (lastTwo l none none).1 = l.getLast? := by
  rcases List.eq_nil_or_concat l with h | ⟨t, a, h⟩
  · subst h; rfl
  · rw [List.concat_eq_append] at h; subst h; rw [lastTwo_concat]; simp

/-- one of the last two points of the iteration is not excluded -/
def lastTwoOK (s : Seq) : Bool := (s.rc.pts.reverse.take 2).any (fun x => !s.excl x)

theorem getStop_spec (s : Seq) (hb : s.rc.bounded = true)
    (h : stopSkipsExcluded = true ∨ lastTwoOK s = true) : getStop s = .pt (specStop s) := by
  unfold getStop specStop Seq.L
  simp only [hb, Bool.not_true, Bool.false_eq_true, if_false]
  by_cases hflag : stopSkipsExcluded = true
  · rw [if_pos hflag, foldl_last, Option.or_none]
  · rw [if_neg hflag]
    have hok : lastTwoOK s = true := by
      rcases h with h | h
      · exact absurd h hflag
      · exact h
    unfold lastTwoOK at hok
    rcases List.eq_nil_or_concat s.rc.pts with h0 | ⟨t, a, h0⟩
    · rw [h0] at hok; simp at hok
    · rw [List.concat_eq_append] at h0
      rw [h0, lastTwo_concat, lastTwo_fst]
      simp only
      cases hea : s.excl a with
      | false => simp [List.filter_append, hea]
      | true =>
        simp only [if_true]
        rcases List.eq_nil_or_concat t with h1 | ⟨u, b, h1⟩
        · subst h1; rw [h0] at hok; simp [hea] at hok
        · rw [List.concat_eq_append] at h1
          subst h1
          rw [h0] at hok
          have hb' : s.excl b = false := by
            simp [hea] at hok
            exact hok
          simp [List.filter_append, hea, hb']

/-! ### every answer is a function of the query alone -/

/-- The state-free reference answer of a query: brute force wherever the wrapper consults its
caches; the (state-free) code itself for `get_prev_point` and `get_stop_point`. -/
def refAns (s : Seq) (fuel : Nat) : Q → Ans
  | .valid k => .bool (specValid s (s.val k))
  | .onSeq k => .bool (specValid s (s.val k))
  | .next k => .pt (specNext s (s.val k))
  | .prev k => .pt (getPrev s fuel k)
  | .nearestPrev k =>
    .pt (if specValid s (s.val k) then getPrev s fuel k else nearestScan s.excl (s.val k) s.rc.pts none)
  | .first k => .pt (specFirst s (s.val k))
  | .start => .pt (specStart s)
  | .stop => getStop s

theorem step_ref {s : Seq} {st : St} (hs : Sorted s) (hn : NextOK s) (fuel : Nat)
    (hf : s.rc.pts.length < fuel) (hi : Inv s st) (q : Q) :
    (step s fuel st q).2 = refAns s fuel q ∧ Inv s (step s fuel st q).1 := by
  cases q with
  | valid k =>
    obtain ⟨h1, h2⟩ := isValid_spec hs hn hi fuel k
    exact ⟨by simp [step, refAns, h1], h2⟩
  | onSeq k =>
    obtain ⟨h1, h2⟩ := isOnSeq_spec hs hn hi fuel k
    exact ⟨by simp [step, refAns, h1], h2⟩
  | next k =>
    obtain ⟨h1, h2⟩ := getNext_spec hs hn hi fuel k
    exact ⟨by simp [step, refAns, h1], h2⟩
  | prev k => exact ⟨rfl, hi⟩
  | nearestPrev k =>
    obtain ⟨h1, h2⟩ := isOnSeq_spec hs hn hi fuel k
    simp only [step, refAns, getNearestPrev]
    rw [h1]
    cases hv : specValid s (s.val k) with
    | true => exact ⟨rfl, h2⟩
    | false => exact ⟨rfl, h2⟩
  | first k =>
    obtain ⟨h1, h2⟩ := getFirst_spec hs hn hi fuel hf k
    exact ⟨by simp [step, refAns, h1], h2⟩
  | start => exact ⟨by simp [step, refAns, getStart_spec], hi⟩
  | stop => exact ⟨rfl, hi⟩

theorem run_inv {s : Seq} (hs : Sorted s) (hn : NextOK s) (fuel : Nat) (hf : s.rc.pts.length < fuel) :
    ∀ (qs : List Q) (st : St), Inv s st → Inv s (run s fuel st qs) := by
  intro qs
  induction qs with
  | nil => intro st hi; exact hi
  | cons q qs ih => intro st hi; exact ih _ (step_ref hs hn fuel hf hi q).2

theorem answers_eq {s : Seq} (hs : Sorted s) (hn : NextOK s) (fuel : Nat) (hf : s.rc.pts.length < fuel) :
    ∀ (qs : List Q) (st : St), Inv s st → answers s fuel st qs = qs.map (refAns s fuel) := by
  intro qs
  induction qs with
  | nil => intro st _; rfl
  | cons q qs ih =>
    intro st hi
    obtain ⟨h1, h2⟩ := step_ref hs hn fuel hf hi q
    simp only [answers, List.map_cons, h1, ih _ h2]

/-- the brute-force answer of every query -/
def specAns (s : Seq) : Q → Ans
  | .valid k => .bool (specValid s (s.val k))
  | .onSeq k => .bool (specValid s (s.val k))
  | .next k => .pt (specNext s (s.val k))
  | .prev k => .pt (specPrev s (s.val k))
  | .nearestPrev k => .pt (specPrev s (s.val k))
  | .first k => .pt (specFirst s (s.val k))
  | .start => .pt (specStart s)
  | .stop => .pt (if s.rc.bounded then specStop s else none)

/-- the side conditions under which the code's answer is proved to be the brute-force answer -/
def Covered (s : Seq) : Q → Prop
  | .prev k => PrevOK s ∧ s.val k ∈ s.rc.pts
  | .nearestPrev k => specValid s (s.val k) = false ∨ PrevOK s
  | .stop => s.rc.bounded = false ∨ stopSkipsExcluded = true ∨ lastTwoOK s = true
  | _ => True

theorem ref_spec {s : Seq} (hs : Sorted s) (fuel : Nat) (hf : s.rc.pts.length < fuel) (q : Q)
    (hc : Covered s q) : refAns s fuel q = specAns s q := by
  cases q with
  | valid k => rfl
  | onSeq k => rfl
  | next k => rfl
  | first k => rfl
  | start => rfl
  | prev k =>
    simp only [refAns, specAns]
    rw [getPrev_spec hs hc.1 fuel hf k hc.2]
  | nearestPrev k =>
    simp only [refAns, specAns]
    cases hv : specValid s (s.val k) with
    | false => simp only [Bool.false_eq_true, if_false]; rw [nearestScan_spec hs _ hv]
    | true =>
      simp only [if_true]
      rcases hc with h | h
      · rw [hv] at h; cases h
      · have hm : s.val k ∈ s.rc.pts := by
          rw [specValid_eq] at hv
          simp at hv; exact hv.1
        rw [getPrev_spec hs h fuel hf k hm]
  | stop =>
    simp only [refAns, specAns]
    cases hb : s.rc.bounded with
    | false => simp [getStop, hb]
    | true =>
      simp only [if_true]
      apply getStop_spec s hb
      rcases hc with h | h | h
      · rw [hb] at h; cases h
      · exact Or.inl h
      · exact Or.inr h

end CylcModel.IsoSeq
