/-
Reading the observation trace of a real scheduler run (harness/sched/runner.py) for the judges of C01, C02, C31.
Core Lean + JSON only.  Nothing here calls the transition functions of the `Sched` model: the judges evaluate the
property text on what the real scheduler did.
-/
import CylcModel.SchedJson
open Lean CylcModel.Drv

namespace CylcModel.SchedObs
open CylcModel.Sched

/-- one pooled proxy as observed -/
structure PObs where
  p : Int
  n : String
  st : String
  q : Bool
  rh : Bool
  sn : Nat
  out : List String                                -- completed outputs (trigger names)
  pre : List (List (Int × String × String × Bool)) -- prerequisites: atoms (point, task, message, satisfied)
  deriving Inhabited

def parseAtom (a : Json) : Option (Int × String × String × Bool) :=
  match jArr? a with
  | some [p, n, m, s] => do pure (← jInt? p, ← jStr? n, ← jStr? m, ← jBool? s)
  | _ => none

def parsePObs (t : Json) : PObs :=
  { p := (jIntField? t "p").getD 0, n := (jStrField? t "n").getD "", st := (jStrField? t "st").getD "",
    q := (jBoolField? t "q").getD false, rh := (jBoolField? t "rh").getD false, sn := (jNatField? t "sn").getD 0,
    out := ((jArrField? t "out").getD []).filterMap jStr?,
    pre := ((jArrField? t "pre").getD []).map fun pr => ((jArr? pr).getD []).filterMap parseAtom }

def poolObs (ob : Json) : List PObs := (poolOf ob).map parsePObs

def findP (pool : List PObs) (p : Int) (n : String) : Option PObs := pool.find? fun x => x.p == p && x.n == n

def launchesOf (ob : Json) : List (Int × String × Nat) :=
  ((jArrField? ob "launch").getD []).filterMap fun l =>
    match jArr? l with
    | some [p, n, sn] => do pure (← jInt? p, ← jStr? n, ← jNat? sn)
    | _ => none

/-- removed proxies of one operation: point, name, status, completed outputs (triggers) at removal -/
def removedOf (ob : Json) : List (Int × String × String × List String) :=
  ((jArrField? ob "removed").getD []).filterMap fun r =>
    match jArr? r with
    | some (p :: n :: st :: outs :: _) => do
        pure (← jInt? p, ← jStr? n, ← jStr? st, ((jArr? outs).getD []).filterMap jStr?)
    | _ => none

/-- one `process_message` call as logged by the runner -/
structure MRec where
  p : Int
  n : String
  fl : String
  sn : Nat
  m : String
  depth : Nat
  transient : Bool
  inPool : Bool
  bSt : String
  bSn : Nat
  bOut : List String
  bSub : Nat
  bExec : Nat
  aSt : String
  aOut : List String
  aSub : Nat
  aExec : Nat
  hasAfter : Bool
  deriving Inhabited

def snapOf (j : Json) : Option (String × Nat × List String × Nat × Nat) :=
  match jArr? j with
  | some [st, sn, outs, tries] =>
    match jArr? tries with
    | some [a, b] => do
        pure (← jStr? st, ← jNat? sn, ((jArr? outs).getD []).filterMap jStr?, ← jNat? a, ← jNat? b)
    | _ => none
  | _ => none

def msgsOf (ob : Json) : List MRec :=
  ((jArrField? ob "msgs").getD []).filterMap fun r => do
    let b ← snapOf ((jField? r "b").getD Json.null)
    let a := snapOf ((jField? r "a").getD Json.null)
    let a' := a.getD b
    pure { p := (jIntField? r "p").getD 0, n := (jStrField? r "n").getD "", fl := (jStrField? r "fl").getD "",
           sn := (jNatField? r "sn").getD 0, m := (jStrField? r "m").getD "", depth := (jNatField? r "d").getD 0,
           transient := (jBoolField? r "tr").getD false, inPool := (jBoolField? r "in").getD true,
           bSt := b.1, bSn := b.2.1, bOut := b.2.2.1, bSub := b.2.2.2.1, bExec := b.2.2.2.2,
           aSt := a'.1, aOut := a'.2.2.1, aSub := a'.2.2.2.1, aExec := a'.2.2.2.2, hasAfter := a.isSome }

/-- the message of an output given its trigger name -/
def trigToMsg (g : Graph) (n : String) (trig : String) : String :=
  match g.task? n with
  | some t => match t.outputs.find? (·.trigger == trig) with
    | some o => o.message
    | none => trig
  | none => trig

/-- output completions visible in one observation, as (point, task, message): on pooled proxies and on the proxies
removed during the operation -/
def completionsOf (g : Graph) (ob : Json) : List Atom :=
  ((poolObs ob).flatMap fun x => x.out.map fun t => (⟨x.p, x.n, trigToMsg g x.n t⟩ : Atom)) ++
  ((removedOf ob).flatMap fun r => r.2.2.2.map fun t => (⟨r.1, r.2.1, trigToMsg g r.2.1 t⟩ : Atom))

/-- spec-side evaluation of an and/or expression -/
def evalB (sat : Nat → Bool) : BE → Bool
  | .atom i => sat i
  | .and l r => evalB sat l && evalB sat r
  | .or l r => evalB sat l || evalB sat r

/-- truth of a graph prerequisite under a valuation of its atoms (no expression = conjunction) -/
def preTrue (pre : Pre) (val : Atom → Bool) : Bool :=
  match pre.expr with
  | none => pre.atoms.all fun ab => val ab.1
  | some e => evalB (fun i => match pre.atoms[i]? with | some ab => val ab.1 | none => false) e

def instOf (g : Graph) (n : String) (p : Int) : Option InstDef := (g.task? n).bind (·.inst? p)

/-- run `f` over the observations with the index, the previous observation and the completions seen in all
earlier observations; stop at the first complaint -/
def scanObs (g : Graph) (obs : List Json)
    (f : Nat → Json → Json → List Atom → Option String) : Option String :=
  let rec go (i : Nat) (prev : Json) (seen : List Atom) : List Json → Option String
    | [] => none
    | ob :: rest =>
      match f i prev ob seen with
      | some w => some w
      | none => go (i + 1) ob (seen ++ completionsOf g ob) rest
  match obs with
  | [] => none
  | ob0 :: rest => go 1 ob0 (completionsOf g ob0) rest

def jsonSequential (i : Json) (n : String) : Bool :=
  ((((jField? i "graph").bind fun g => jField? g "tasks").bind fun t => jField? t n).bind
    fun t => jBoolField? t "sequential").getD false

end CylcModel.SchedObs
