/-
`spawn_on_output` satisfies the prerequisite of the child on the completed output (property C29: "spawns the
children of those outputs with the corresponding prerequisites satisfied").
-/
import CylcModel.Sched3XActive3

namespace CylcModel.Sched3X

/-- every occurrence of the atom in the proxy's prerequisites (ordinary and suicide) is satisfied -/
def AtomSat (a : Atom) (y : Proxy) : Prop :=
  (∀ pr ∈ y.pre, ∀ e ∈ pr.atoms, e.1 = a → e.2 = true) ∧ (∀ pr ∈ y.sui, ∀ e ∈ pr.atoms, e.1 = a → e.2 = true)

theorem pre_satisfy_sat (pr : Pre) (a : Atom) : ∀ e ∈ (pr.satisfy a).atoms, e.1 = a → e.2 = true := by
  intro e he hea
  unfold Pre.satisfy at he
  simp only [List.mem_map] at he
  obtain ⟨⟨b, v⟩, _, rfl⟩ := he
  change (if (b == a) = true then (b, true) else (b, v)).1 = a at hea
  show (if (b == a) = true then (b, true) else (b, v)).2 = true
  by_cases hb : (b == a) = true
  · rw [if_pos hb]
  · rw [if_neg hb] at hea
    have hba : b = a := hea
    exact absurd (by rw [hba]; simp : (b == a) = true) hb

theorem pre_satisfy_mono (pr : Pre) (a a' : Atom) (h : ∀ e ∈ pr.atoms, e.1 = a → e.2 = true) :
    ∀ e ∈ (pr.satisfy a').atoms, e.1 = a → e.2 = true := by
  intro e he hea
  unfold Pre.satisfy at he
  simp only [List.mem_map] at he
  obtain ⟨⟨b, v⟩, hm, rfl⟩ := he
  change (if (b == a') = true then (b, true) else (b, v)).1 = a at hea
  show (if (b == a') = true then (b, true) else (b, v)).2 = true
  by_cases hb : (b == a') = true
  · rw [if_pos hb]
  · rw [if_neg hb] at hea ⊢
    exact h (b, v) hm hea

theorem atomSat_satisfyMe (a : Atom) (y : Proxy) : AtomSat a (y.satisfyMe a) := by
  unfold AtomSat Proxy.satisfyMe
  constructor
  · intro pr hpr
    simp only [List.mem_map] at hpr
    obtain ⟨pr0, _, rfl⟩ := hpr
    exact pre_satisfy_sat pr0 a
  · intro pr hpr
    simp only [List.mem_map] at hpr
    obtain ⟨pr0, _, rfl⟩ := hpr
    exact pre_satisfy_sat pr0 a

theorem atomSat_satisfyMe_mono (a a' : Atom) (y : Proxy) (h : AtomSat a y) : AtomSat a (y.satisfyMe a') := by
  unfold AtomSat Proxy.satisfyMe
  constructor
  · intro pr hpr
    simp only [List.mem_map] at hpr
    obtain ⟨pr0, hpr0, rfl⟩ := hpr
    exact pre_satisfy_mono pr0 a a' (h.1 pr0 hpr0)
  · intro pr hpr
    simp only [List.mem_map] at hpr
    obtain ⟨pr0, hpr0, rfl⟩ := hpr
    exact pre_satisfy_mono pr0 a a' (h.2 pr0 hpr0)

/-- one step of `satisfyTargets` -/
def satStep (atom : Atom) (a : State × List (Int × String)) (k : Int × String) : State × List (Int × String) :=
  match a.1.get? k.1 k.2 with
  | none => a
  | some z =>
    (a.1.put (z.satisfyMe atom),
     if (z.satisfyMe atom).suicideNow && !a.2.contains k then a.2 ++ [k] else a.2)

theorem satisfyTargets_eq (atom : Atom) (targets : List (Int × String)) (acc : State × List (Int × String)) :
    satisfyTargets atom targets acc = targets.foldl (satStep atom) acc := rfl

theorem satStep_preserve (atom : Atom) (k0 : Int × String) (a : State × List (Int × String)) (k : Int × String)
    (h : ∀ y, a.1.get? k0.1 k0.2 = some y → AtomSat atom y) :
    ∀ y, (satStep atom a k).1.get? k0.1 k0.2 = some y → AtomSat atom y := by
  intro y hy
  unfold satStep at hy
  split at hy
  · exact h y hy
  · rename_i z hz
    have hk := get?_key hz
    simp only at hy
    rw [get?_put] at hy
    by_cases hc : (z.satisfyMe atom).pt = k0.1 ∧ (z.satisfyMe atom).name = k0.2
    · simp only [hc, and_self, if_true] at hy
      split at hy
      · have : z.satisfyMe atom = y := Option.some.inj hy
        rw [← this]; exact atomSat_satisfyMe atom z
      · cases hy
    · simp only [hc, if_false] at hy
      exact h y hy

theorem satStep_establish (atom : Atom) (k0 : Int × String) (a : State × List (Int × String)) :
    ∀ y, (satStep atom a k0).1.get? k0.1 k0.2 = some y → AtomSat atom y := by
  intro y hy
  unfold satStep at hy
  split at hy
  · rename_i hn; rw [hn] at hy; cases hy
  · rename_i z hz
    have hk := get?_key hz
    simp only at hy
    rw [get?_put] at hy
    have hc : (z.satisfyMe atom).pt = k0.1 ∧ (z.satisfyMe atom).name = k0.2 := hk
    simp only [hc, and_self, if_true] at hy
    split at hy
    · have : z.satisfyMe atom = y := Option.some.inj hy
      rw [← this]; exact atomSat_satisfyMe atom z
    · cases hy

theorem satisfyTargets_sat (atom : Atom) (k0 : Int × String) : ∀ (targets : List (Int × String))
    (acc : State × List (Int × String)),
    (k0 ∈ targets ∨ ∀ y, acc.1.get? k0.1 k0.2 = some y → AtomSat atom y) →
    ∀ y, (satisfyTargets atom targets acc).1.get? k0.1 k0.2 = some y → AtomSat atom y := by
  intro targets
  induction targets with
  | nil =>
    intro acc h y hy
    rcases h with h | h
    · cases h
    · exact h y hy
  | cons k ks ih =>
    intro acc h
    rw [satisfyTargets_eq]
    simp only [List.foldl_cons]
    rw [← satisfyTargets_eq]
    apply ih
    rcases h with h | h
    · rcases List.mem_cons.mp h with rfl | h'
      · exact Or.inr (satStep_establish atom k0 acc)
      · exact Or.inl h'
    · exact Or.inr (satStep_preserve atom k0 acc k h)

/-- **children get the prerequisite satisfied**: when `spawn_on_output` has the child proxy of output `out` of the
parent `(p, n)` in hand (found in the pool, or spawned), the child is in the pool afterwards only with every
occurrence of the prerequisite atom `p/n:out` satisfied -/
theorem spawnChild_child_satisfied (g : Graph) (p : Int) (n out : String) (acc : State × List (Int × String)) (c : Child)
    (hR : (findOrSpawnChild g (recordAbs acc.1 ⟨p, n, out⟩ c.isAbs) p n (parentFlows acc.1 p n) c).2.isSome = true)
    (y : Proxy) (hy : (spawnChild g p n out acc c).1.get? c.pt c.name = some y) : AtomSat ⟨p, n, out⟩ y := by
  unfold spawnChild at hy
  dsimp only at hy
  generalize findOrSpawnChild g (recordAbs acc.1 ⟨p, n, out⟩ c.isAbs) p n (parentFlows acc.1 p n) c = R at hR hy
  cases hR2 : R.2 with
  | none => rw [hR2] at hR; cases hR
  | some y' =>
    rw [hR2] at hy
    simp only at hy
    generalize (if ((recordAbs acc.1 ⟨p, n, out⟩ c.isAbs).get? c.pt c.name).isSome = true then R.1
      else R.1.add (y'.satisfyMe ⟨p, n, out⟩)) = st at hy
    apply satisfyTargets_sat ⟨p, n, out⟩ (c.pt, c.name) _ _ _ y hy
    left
    split
    · split
      · rename_i h; simpa using h
      · exact List.mem_append_right _ List.mem_cons_self
    · exact List.mem_cons_self

/-- ... in particular for a child that is in the pool already (and is not the parent itself) -/
theorem spawnChild_pooled_child_satisfied (g : Graph) (p : Int) (n out : String) (acc : State × List (Int × String))
    (c : Child) (hne : ¬ (c.pt = p ∧ c.name = n)) (y0 : Proxy) (h0 : acc.1.get? c.pt c.name = some y0)
    (y : Proxy) (hy : (spawnChild g p n out acc c).1.get? c.pt c.name = some y) : AtomSat ⟨p, n, out⟩ y := by
  apply spawnChild_child_satisfied g p n out acc c _ y hy
  have h0' : (recordAbs acc.1 ⟨p, n, out⟩ c.isAbs).get? c.pt c.name = some y0 := by
    rw [get?_of_pool_eq (pool_recordAbs _ _ _)]; exact h0
  obtain ⟨h1, ⟨z, hz, _⟩, _⟩ := findOrSpawnChild_pooled g _ p n (parentFlows acc.1 p n) c hne y0 h0'
  rw [h1, hz]; rfl

end CylcModel.Sched3X
