/-
Lines — executable model for C36 (configuration processing is idempotent).

Port of the line-level part of `cylc/flow/parsec/fileparse.py` / `include.py`:
  reading a file into lines (universal newlines), `%include` inlining over a file map,
  Jinja2 (an OPAQUE function `J` on line lists, applied when the first line is a `#!jinja2`
  shebang), `_concatenate` (line continuation), the final `rstrip`, and the dump of the
  processed lines (`'\n'.join(lines) + '\n'`).
The key/value grammar (`parse` proper) is not modelled: it is an opaque function of the
processed lines.

Behaviour flags (probed from the live code into `Generated.LinesCfg`):
  `cc` : `_concatenate` checks "whitespace after the continuation character" on every COMPLETED
         logical line (repaired) instead of only on the first physical line of each (unrepaired);
  `ke` : the final strip keeps trailing whitespace where removing it would expose a backslash
         at the end of the line (repaired) instead of always stripping (unrepaired).

Lines are `List Char`.  Core Lean only.
-/
import CylcModel.Generated.LinesCfg

namespace CylcModel.Lines

abbrev Line := List Char

/-- `str.isspace` = `\s` of `re` (table regenerated from the live interpreter) -/
def isSp (c : Char) : Bool := Generated.LinesCfg.pySpace.contains c.toNat

/-- `dropWhile` from the right end -/
def dropRightWhile (p : Char → Bool) (l : Line) : Line := (l.reverse.dropWhile p).reverse

/-- `str.rstrip()` -/
def rstrip (l : Line) : Line := dropRightWhile isSp l

/-- `line.endswith('\\')` -/
def endsBs (l : Line) : Bool := l.getLast? == some '\\'

/-- `_BAD_CONTINUATION_TRAILING_WHITESPACE`, `^([^#\n]+)?\\\s+$`: the line ends with a backslash
followed by whitespace only (at least one), and nothing before that backslash is `#` or a newline -/
def badCont (l : Line) : Bool :=
  let s := rstrip l
  decide (s.length < l.length) && endsBs s && !(s.dropLast.any (fun c => c == '#' || c == '\n'))

/-- all trailing backslashes removed ("continuation char on the last line ... safe to strip it") -/
def stripBs (l : Line) : Line := dropRightWhile (· == '\\') l

/-! ## `_concatenate` -/

structure CState where
  out : List Line := []
  pending : Option Line := none      -- a logical line still ending with a backslash
  err : Bool := false
  deriving Repr, DecidableEq

/-- a completed logical line -/
def emit (check : Bool) (s : CState) (l : Line) : CState :=
  if check && badCont l then { s with err := true, pending := none } else { s with out := s.out ++ [l], pending := none }

def cstep (cc : Bool) (s : CState) (l : Line) : CState :=
  if s.err then s else
  match s.pending with
  | none => if endsBs l then { s with pending := some l } else emit true s l
  | some p =>
    let j := p.dropLast ++ l
    if endsBs j then { s with pending := some j } else emit cc s j

def cfinish (cc : Bool) (s : CState) : Option (List Line) :=
  if s.err then none else
  match s.pending with
  | none => some s.out
  | some p =>
    let l := stripBs p
    if cc && badCont l then none else some (s.out ++ [l])

/-- `_concatenate(lines)`; `none` = `FileParseError` -/
def concatenate (cc : Bool) (ls : List Line) : Option (List Line) :=
  cfinish cc (ls.foldl (cstep cc) {})

/-- the last step of `read_and_proc` on one line -/
def finalStrip (ke : Bool) (l : Line) : Line :=
  let s := rstrip l
  if ke && endsBs s then l else s

/-! ## `%include` -/

def isQuote (c : Char) : Bool := c == '\'' || c == '"'

def stripPrefix : Line → Line → Option Line
  | [], l => some l
  | _ :: _, [] => none
  | p :: ps, c :: cs => if p == c then stripPrefix ps cs else none

/-- `include_re = \s*%include\s+(['"]?)(.*?)(['"]?)\s*$` with `re.match`: `(q1, name, q2)` -/
def includeMatch (l : Line) : Option (Option Char × Line × Option Char) :=
  match stripPrefix "%include".toList (l.dropWhile isSp) with
  | none => none
  | some r =>
    let r1 := r.dropWhile isSp
    if r1.length == r.length then none else
    let (q1, r2) : Option Char × Line := match r1 with
      | c :: t => if isQuote c then (some c, t) else (none, r1)
      | [] => (none, [])
    let t := rstrip r2
    match t.getLast? with
    | some c => if isQuote c then some (q1, t.dropLast, some c) else some (q1, t, none)
    | none => some (q1, [], none)

abbrev Files := List (Line × List Line)

def fileLookup (files : Files) (name : Line) : Option (List Line) :=
  (files.find? (fun f => f.1 == name)).map (·.2)

/-- one level of `include.inline`; `sub` inlines the body of an included file -/
def inlineWith (sub : List Line → Option (List Line)) (files : Files) : List Line → Option (List Line)
  | [] => some []
  | l :: rest =>
    match includeMatch l with
    | none => (inlineWith sub files rest).map (l :: ·)
    | some (q1, name, q2) =>
      if q1.isSome && q1 != q2 then none else
      match fileLookup files name with
      | none => none
      | some body =>
        match sub body, inlineWith sub files rest with
        | some a, some b => some (a ++ b)
        | _, _ => none

/-- `include.inline`: recursive inlining (`fuel` bounds the include depth); `none` = mismatched
quotes or include file not found -/
def inline : Nat → Files → List Line → Option (List Line)
  | 0, _, _ => none
  | f + 1, files, ls => inlineWith (inline f files) files ls

/-! ## reading and dumping -/

/-- lines of a text file opened in text mode: `\n`, `\r\n`, `\r` end a line; no empty last line -/
def splitAux : List Char → Line → List Line
  | [], cur => if cur.isEmpty then [] else [cur]
  | '\n' :: r, cur => cur :: splitAux r []
  | '\r' :: '\n' :: r, cur => cur :: splitAux r []
  | '\r' :: r, cur => cur :: splitAux r []
  | c :: r, cur => splitAux r (cur ++ [c])

def splitLines (text : List Char) : List Line := splitAux text []

/-- `'\n'.join(flines) + '\n'` -/
def dump (ps : List Line) : List Char :=
  match ps with
  | [] => ['\n']
  | _ => ps.flatMap (· ++ ['\n'])

/-- `re.match(r'^#![jJ]inja2\s*', flines[0])` -/
def isJinja (ls : List Line) : Bool :=
  match ls with
  | l :: _ => (stripPrefix "#!jinja2".toList l).isSome || (stripPrefix "#!Jinja2".toList l).isSome
  | [] => false

def includeDepth : Nat := 40

/-- `read_and_proc`: `J` is Jinja2 (given the inlined lines including the shebang; `none` = error) -/
def readAndProc (cc ke : Bool) (J : List Line → Option (List Line)) (files : Files) (text : List Char) :
    Option (List Line) :=
  match inline includeDepth files (splitLines text) with
  | none => none
  | some inl =>
    match (if isJinja inl then J inl else some inl) with
    | none => none
    | some jl =>
      match concatenate cc jl with
      | none => none
      | some cl => some (cl.map (finalStrip ke))

end CylcModel.Lines
