/-
A ready task is submitted by the queue-if-ready sweep and the release / submit step of the main loop
(property C29: "once all of them are satisfied the task runs").
-/
import CylcModel.Sched3XSat

namespace CylcModel.Sched3X

/-- the proxy at key `(p, n)` is waiting, not held, released from the runahead pool, its prerequisites are
satisfied, it has been submitted `sn` times, and (unless it is queued already) each retry xtrigger it carries is
satisfied or has a zero delay (so that the clock check of the sweep satisfies it) -/
def ReadyAt (g : Graph) (s : State) (p : Int) (n : String) (sn : Nat) (queued : Bool) : Prop :=
  ∃ y, s.get? p n = some y ∧ y.status = .waiting ∧ y.held = false ∧ y.runahead = false ∧
    y.prereqsSatisfied = true ∧ y.submitNum = sn ∧ (queued = true → y.queued = true) ∧
    (y.queued = false → (clockChecked g y).retryWait = false)

theorem clockChecked_fields (g : Graph) (y : Proxy) :
    (clockChecked g y).pt = y.pt ∧ (clockChecked g y).name = y.name ∧ (clockChecked g y).status = y.status ∧
    (clockChecked g y).held = y.held ∧ (clockChecked g y).runahead = y.runahead ∧
    (clockChecked g y).queued = y.queued ∧ (clockChecked g y).pre = y.pre ∧
    (clockChecked g y).submitNum = y.submitNum := by
  unfold clockChecked
  split <;> exact ⟨rfl, rfl, rfl, rfl, rfl, rfl, rfl, rfl⟩

theorem reset_queued_fields (y : Proxy) :
    (y.reset (queued := some true)).status = y.status ∧ (y.reset (queued := some true)).held = y.held ∧
    (y.reset (queued := some true)).runahead = y.runahead ∧ (y.reset (queued := some true)).pre = y.pre ∧
    (y.reset (queued := some true)).submitNum = y.submitNum ∧ (y.reset (queued := some true)).queued = true ∧
    (y.reset (queued := some true)).pt = y.pt ∧ (y.reset (queued := some true)).name = y.name := by
  unfold Proxy.reset
  simp only [Option.getD_none, Option.getD_some]
  split
  · rename_i hc
    simp only [Bool.and_eq_true, beq_iff_eq] at hc
    exact ⟨rfl, rfl, rfl, rfl, rfl, hc.1.1.2.symm, rfl, rfl⟩
  · exact ⟨rfl, rfl, rfl, rfl, rfl, rfl, rfl, rfl⟩

/-- one step of the sweep -/
def sweepStep (g : Graph) (st : State) (x : Proxy) : State :=
  match st.get? x.pt x.name with
  | some y =>
    if y.status == .waiting && !y.queued && !y.runahead then
      queueIfReady (st.put (clockChecked g y)) (clockChecked g y)
    else st
  | none => st

theorem sweepQueue_eq (g : Graph) (s : State) : sweepQueue g s = s.pool.foldl (sweepStep g) s := rfl

theorem sweepStep_ready (g : Graph) (st : State) (x : Proxy) (p : Int) (n : String) (sn : Nat) (q : Bool)
    (h : ReadyAt g st p n sn q) :
    ReadyAt g (sweepStep g st x) p n sn (q || (x.pt == p && x.name == n)) := by
  obtain ⟨y, hy, hw, hh, hr, hp, hs, hq, hxr⟩ := h
  unfold sweepStep
  by_cases hk : x.pt = p ∧ x.name = n
  · -- the turn of the task itself
    obtain ⟨h1, h2⟩ := hk
    subst h1; subst h2
    simp only [hy, beq_self_eq_true, Bool.and_self, Bool.or_true]
    by_cases hyq : y.queued = true
    · -- queued already
      have hcond : (y.status == Status.waiting && !y.queued && !y.runahead) = false := by simp [hyq]
      simp only [hcond, Bool.false_eq_true, if_false]
      exact ⟨y, hy, hw, hh, hr, hp, hs, fun _ => hyq, fun e => by rw [hyq] at e; cases e⟩
    · have hyq' : y.queued = false := by simpa using hyq
      have hcond : (y.status == Status.waiting && !y.queued && !y.runahead) = true := by simp [hw, hyq', hr]
      simp only [hcond, if_true]
      have hk2 := get?_key hy
      -- the proxy with the retry flag down is ready: it is queued
      have key : ∀ z : Proxy, z.pt = x.pt → z.name = x.name → z.status = .waiting → z.held = false →
          z.runahead = false → z.queued = false → z.prereqsSatisfied = true → z.retryWait = false → z.submitNum = sn →
          ReadyAt g (queueIfReady (st.put z) z) x.pt x.name sn true := by
        intro z e1 e2 zw zh zr zq zp zrw zs
        have hready : z.isReadyToRun = true := by
          unfold Proxy.isReadyToRun
          simp [zh, zw, zp, zrw]
        unfold queueIfReady
        simp only [zq, zr, hready, Bool.not_false, Bool.and_self, if_true]
        obtain ⟨f1, f2, f3, f4, f5, f6, f7, f8⟩ := reset_queued_fields z
        have hsome1 : ((st.put z).get? z.pt z.name).isSome = true := by
          rw [get?_put_self st z (by rw [e1, e2, hy]; rfl)]; rfl
        have hget := get?_put_self (st.put z) (z.reset (queued := some true)) (by rw [f7, f8]; exact hsome1)
        rw [f7, f8, e1, e2] at hget
        refine ⟨_, hget, ?_, ?_, ?_, ?_, ?_, fun _ => f6, fun e => by rw [f6] at e; cases e⟩
        · rw [f1]; exact zw
        · rw [f2]; exact zh
        · rw [f3]; exact zr
        · unfold Proxy.prereqsSatisfied; rw [f4]; exact zp
        · rw [f5]; exact zs
      obtain ⟨c1, c2, c3, c4, c5, c6, c7, c8⟩ := clockChecked_fields g y
      exact key (clockChecked g y) (c1.trans hk2.1) (c2.trans hk2.2) (c3.trans hw) (c4.trans hh) (c5.trans hr)
        (c6.trans hyq') (by unfold Proxy.prereqsSatisfied; rw [c7]; exact hp) (hxr hyq') (c8.trans hs)
  · -- the turn of another task: the proxy at (p, n) is not touched
    have hkb : (x.pt == p && x.name == n) = false := by
      cases hc : (x.pt == p && x.name == n) with
      | false => rfl
      | true => simp only [Bool.and_eq_true, beq_iff_eq] at hc; exact absurd hc hk
    simp only [hkb, Bool.or_false]
    have keep : ∀ st' : State, st'.get? p n = st.get? p n → ReadyAt g st' p n sn q := by
      intro st' he
      exact ⟨y, by rw [he]; exact hy, hw, hh, hr, hp, hs, hq, hxr⟩
    split
    · rename_i z hz
      have hkz := get?_key hz
      have hcz := clockChecked_fields g z
      split
      · apply keep
        unfold queueIfReady
        split
        · rw [get?_put_other _ _ p n (by simpa [hkz.1, hkz.2, hcz.1, hcz.2.1] using hk),
              get?_put_other _ _ p n (by simpa [hkz.1, hkz.2, hcz.1, hcz.2.1] using hk)]
        · rw [get?_put_other _ _ p n (by simpa [hkz.1, hkz.2, hcz.1, hcz.2.1] using hk)]
      · exact ⟨y, hy, hw, hh, hr, hp, hs, hq, hxr⟩
    · exact ⟨y, hy, hw, hh, hr, hp, hs, hq, hxr⟩

theorem sweep_fold_ready (g : Graph) (p : Int) (n : String) (sn : Nat) : ∀ (l : List Proxy) (st : State) (q : Bool),
    ReadyAt g st p n sn q →
    ReadyAt g (l.foldl (sweepStep g) st) p n sn (q || l.any fun x => x.pt == p && x.name == n) := by
  intro l
  induction l with
  | nil => intro st q h; simpa using h
  | cons x l ih =>
    intro st q h
    simp only [List.foldl_cons, List.any_cons]
    have := ih _ _ (sweepStep_ready g st x p n sn q h)
    rw [Bool.or_assoc] at this
    exact this

/-- after the queue-if-ready sweep a ready task is queued -/
theorem sweepQueue_queues_ready (g : Graph) (s : State) (p : Int) (n : String) (sn : Nat)
    (h : ReadyAt g s p n sn false) : ReadyAt g (sweepQueue g s) p n sn true := by
  rw [sweepQueue_eq]
  have := sweep_fold_ready g p n sn s.pool s false h
  obtain ⟨y, hy, _⟩ := h
  have hmem : (s.pool.any fun x => x.pt == p && x.name == n) = true := by
    apply List.any_eq_true.mpr
    unfold State.get? at hy
    exact ⟨y, List.mem_of_find?_eq_some hy, by simpa using List.find?_some hy⟩
  rw [hmem] at this
  simpa using this

/-- a satisfied xtrigger stays satisfied under the clock check; an unsatisfied one of a non-zero delay stays
unsatisfied (only `cylc set` or the removal of the task ends the wait) -/
theorem clockXtrigs_long (x : Proxy) : (x.clockXtrigs true true).xExec = x.xExec ∧
    (x.clockXtrigs true true).xSub = x.xSub := by
  unfold Proxy.clockXtrigs
  constructor
  · show x.xExec.map _ = _
    cases x.xExec <;> simp
  · show x.xSub.map _ = _
    cases x.xSub <;> simp

/-- the release / submit step launches a job for every queued, unheld proxy of the pool -/
theorem releaseAndSubmit_launches (s : State) (x : Proxy) (hx : x ∈ s.pool) (hq : x.queued = true) (hh : x.held = false) :
    (x.pt, x.name, x.submitNum + 1) ∈ (releaseAndSubmit s).launched := by
  unfold releaseAndSubmit
  simp only
  have hrel : x ∈ s.pool.filter fun x => x.queued && !x.held := by
    apply List.mem_filter.mpr
    exact ⟨hx, by simp [hq, hh]⟩
  split
  · rename_i he
    have : (s.pool.filter fun x => x.queued && !x.held) = [] := by simpa using he
    rw [this] at hrel; cases hrel
  · show (x.pt, x.name, x.submitNum + 1) ∈ State.launched _
    have gen : ∀ (l : List Proxy) (st : State), (x ∈ l ∨ (x.pt, x.name, x.submitNum + 1) ∈ st.launched) →
        (x.pt, x.name, x.submitNum + 1) ∈ (l.foldl (fun (st : State) x =>
          { (st.put { ((x.reset (queued := some false)).reset (status := some .preparing)) with
              submitNum := x.submitNum + 1, live := true, timers := true }) with
            launched := st.launched ++ [(x.pt, x.name, x.submitNum + 1)] }) st).launched := by
      intro l
      induction l with
      | nil =>
        intro st h
        rcases h with h | h
        · cases h
        · exact h
      | cons a l ih =>
        intro st h
        simp only [List.foldl_cons]
        apply ih
        rcases h with h | h
        · rcases List.mem_cons.mp h with rfl | h'
          · right; exact List.mem_append_right _ List.mem_cons_self
          · left; exact h'
        · right; exact List.mem_append_left _ h
    exact gen _ s (Or.inl hrel)

/-- **a ready task runs**: a pooled task that is waiting, not held, released from the runahead pool, with all
prerequisites satisfied (e.g. by `cylc set --pre`) and every retry xtrigger it carries satisfied (e.g. by
`cylc set --pre=xtrigger/...`) or of zero delay is submitted under its next submit number by the
queue-if-ready sweep followed by the release / submit step of the main loop -/
theorem ready_task_is_launched (g : Graph) (s : State) (p : Int) (n : String) (sn : Nat)
    (h : ReadyAt g s p n sn false) :
    (p, n, sn + 1) ∈ (releaseAndSubmit (sweepQueue g s)).launched := by
  obtain ⟨y, hy, _, hh, _, _, hs, hq, _⟩ := sweepQueue_queues_ready g s p n sn h
  have hk := get?_key hy
  have hm : y ∈ (sweepQueue g s).pool := by
    unfold State.get? at hy
    exact List.mem_of_find?_eq_some hy
  have := releaseAndSubmit_launches (sweepQueue g s) y hm (hq rfl) hh
  rw [hk.1, hk.2, hs] at this
  exact this

end CylcModel.Sched3X
