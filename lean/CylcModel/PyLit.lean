/-
PyLit — executable model for C37 (template variables survive restart unchanged).

What cylc does with a template variable:
  start    value = ast.literal_eval(text)                      (templatevars.eval_var)
  store    workflow_template_vars[key] = repr(value)             (put_workflow_template_vars)
  restart  value' = ast.literal_eval(stored text), unless the key was given again on the
           command line                                          (Scheduler._load_template_vars)

The model works on TOKENS.  Leaf tokens (numbers, strings, bytes) carry their value: lexing a
leaf and printing a leaf are Python's own (`tokenize`, `repr` of `str`/`bytes`/finite `float`),
assumed to round-trip and checked by the harness on every case.  What is modelled — and proved
about — is everything structural: which token sequences `ast.literal_eval` accepts and what it
builds (`literalEval`: containers, nesting, signs, parentheses, trailing commas, `set()`,
hashability, the names it knows), what `repr` prints for containers and for the special leaves
(`reprToks`: `inf`, `nan`, `Ellipsis` are printed as NAMES, one-element tuples, empty set ...),
and the start / store / restart bookkeeping with command-line precedence.

Complex numbers are outside the model (`Res.unsup`).  Core Lean only.
-/
import CylcModel.Generated.PyLitCfg

namespace CylcModel.PyLit

/-- magnitude of a float as `repr` prints it: a finite token (`"1.5"`, `"1e+100"`, `"0.0"`), or the
two values that have no literal -/
inductive FMag
  | fin (tok : String)
  | inf
  | nan
  deriving DecidableEq, Repr

inductive Leaf
  | none
  | bool (b : Bool)
  | ellipsis
  | int (i : Int)
  | float (neg : Bool) (m : FMag)
  | str (cps : List Nat)       -- code points
  | bytes (bs : List Nat)
  deriving DecidableEq, Repr

mutual
/-- Python literal values.  A `set` lists its elements in iteration order, a `dict` its items in
insertion order; a display with equal elements / keys denotes no Python object and is not generated. -/
inductive Val
  | leaf (l : Leaf)
  | list (xs : Vals)
  | tuple (xs : Vals)
  | set (xs : Vals)
  | dict (kvs : Pairs)
inductive Vals
  | nil
  | cons (v : Val) (vs : Vals)
inductive Pairs
  | nil
  | cons (k v : Val) (ps : Pairs)
end

inductive Tok
  | lpar | rpar | lbr | rbr | lbrace | rbrace | comma | colon | plus | minus | dots
  | name (s : String)
  | int (n : Nat)               -- NUMBER tokens, already evaluated (never negative)
  | float (m : FMag)            -- `1e999` lexes to `float inf`
  | imag (m : String)
  | str (cps : List Nat)        -- adjacent STRING tokens merged and evaluated
  | bytes (bs : List Nat)
  | other (s : String)          -- anything else (operators, f-strings, keywords ...)
  | eof
  deriving DecidableEq, Repr

inductive Res (α : Type)
  | ok (a : α)
  | bad          -- ValueError / SyntaxError / TypeError: the text is refused
  | unsup        -- outside the model (complex numbers)
  deriving Repr

def Res.isOk {α} : Res α → Bool
  | .ok _ => true
  | _ => false

/-! ## repr -/

def leafToks : Leaf → List Tok
  | .none => [.name "None"]
  | .bool true => [.name "True"]
  | .bool false => [.name "False"]
  | .ellipsis => [.name "Ellipsis"]
  | .int i => if i < 0 then [.minus, .int i.natAbs] else [.int i.natAbs]
  | .float neg m =>
    (if neg then [.minus] else []) ++
      (match m with
       | .fin t => [Tok.float (.fin t)]
       | .inf => [.name "inf"]
       | .nan => [.name "nan"])
  | .str s => [.str s]
  | .bytes b => [.bytes b]

mutual
/-- tokens of `repr(v)` -/
def reprToks : Val → List Tok
  | .leaf l => leafToks l
  | .list .nil => [.lbr, .rbr]
  | .list (.cons v vs) => .lbr :: (reprToks v ++ (tailToks vs ++ [.rbr]))
  | .tuple .nil => [.lpar, .rpar]
  | .tuple (.cons v .nil) => .lpar :: (reprToks v ++ [.comma, .rpar])
  | .tuple (.cons v (.cons w ws)) => .lpar :: (reprToks v ++ (tailToks (.cons w ws) ++ [.rpar]))
  | .set .nil => [.name "set", .lpar, .rpar]
  | .set (.cons v vs) => .lbrace :: (reprToks v ++ (tailToks vs ++ [.rbrace]))
  | .dict .nil => [.lbrace, .rbrace]
  | .dict (.cons k v ps) => .lbrace :: (reprToks k ++ (.colon :: (reprToks v ++ (tailPairs ps ++ [.rbrace]))))
/-- `, x` for every further element -/
def tailToks : Vals → List Tok
  | .nil => []
  | .cons v vs => .comma :: (reprToks v ++ tailToks vs)
def tailPairs : Pairs → List Tok
  | .nil => []
  | .cons k v ps => .comma :: (reprToks k ++ (.colon :: (reprToks v ++ tailPairs ps)))
end

/-! ## ast.literal_eval -/

/-- what kind of AST node an expression is, as far as `literal_eval` cares:
a numeric `Constant`, a `UnaryOp` (plus or minus) of one, or anything else -/
inductive Kind | num | signed | other
  deriving DecidableEq, Repr

mutual
def hashable : Val → Bool
  | .leaf _ => true
  | .tuple xs => hashableAll xs
  | _ => false
def hashableAll : Vals → Bool
  | .nil => true
  | .cons v vs => hashable v && hashableAll vs
end

def keysHashable : Pairs → Bool
  | .nil => true
  | .cons k _ ps => hashable k && keysHashable ps

/-- unary `+` / `-` applied to a numeric constant -/
def applySign (neg : Bool) : Val → Val
  | .leaf (.int i) => .leaf (.int (if neg then -i else i))
  | .leaf (.float n m) => .leaf (.float (if neg then !n else n) m)
  | v => v

abbrev PR := Res (Val × Kind × List Tok)

/-- a binary `+` / `-` after a complete operand: only `real ± imaginary` is a literal, and
imaginary numbers are outside the model (texts containing one are answered `unsup` up front) -/
def noBin : PR → PR
  | .ok (_, _, .plus :: _) => .bad
  | .ok (_, _, .minus :: _) => .bad
  | r => r

def isCloser (t : Tok) : Bool := t == .rpar || t == .rbr || t == .rbrace || t == .eof

mutual
/-- one operand: signs, atoms, displays (`fuel` bounds the recursion) -/
def pFactor : Nat → List Tok → PR
  | 0, _ => .bad
  | _ + 1, [] => .bad
  | f + 1, t :: r =>
    match t with
    | .plus =>
      (match pFactor f r with
       | .ok (v, .num, r') => .ok (applySign false v, .signed, r')
       | .ok _ => .bad
       | e => e)
    | .minus =>
      (match pFactor f r with
       | .ok (v, .num, r') => .ok (applySign true v, .signed, r')
       | .ok _ => .bad
       | e => e)
    | .int n => .ok (.leaf (.int n), .num, r)
    | .float m => .ok (.leaf (.float false m), .num, r)
    | .imag _ => .unsup
    | .str s => .ok (.leaf (.str s), .other, r)
    | .bytes b => .ok (.leaf (.bytes b), .other, r)
    | .dots => .ok (.leaf .ellipsis, .other, r)
    | .name s =>
      if s == "None" then .ok (.leaf .none, .other, r)
      else if s == "True" then .ok (.leaf (.bool true), .other, r)
      else if s == "False" then .ok (.leaf (.bool false), .other, r)
      else if s == "set" then
        (match r with
         | .lpar :: .rpar :: r' => .ok (.set .nil, .other, r')
         | _ => .bad)
      else .bad
    | .lpar =>
      (if r.head? == some Tok.rpar then .ok (.tuple .nil, .other, r.tail) else
         match noBin (pFactor f r) with
         | .ok (v, k, .rpar :: r') => .ok (v, k, r')            -- parenthesised expression: same node
         | .ok (v, _, .comma :: r') =>
           (match pItems f .rpar r' with
            | .ok (vs, r'') => .ok (.tuple (.cons v vs), .other, r'')
            | .bad => .bad
            | .unsup => .unsup)
         | .ok _ => .bad
         | e => e)
    | .lbr =>
      (match pItems f .rbr r with
       | .ok (vs, r') => .ok (.list vs, .other, r')
       | .bad => .bad
       | .unsup => .unsup)
    | .lbrace =>
      (if r.head? == some Tok.rbrace then .ok (.dict .nil, .other, r.tail) else
         match noBin (pFactor f r) with
         | .ok (v, _, .rbrace :: r') => if hashable v then .ok (.set (.cons v .nil), .other, r') else .bad
         | .ok (v, _, .comma :: r') =>
           (match pItems f .rbrace r' with
            | .ok (vs, r'') => if hashable v && hashableAll vs then .ok (.set (.cons v vs), .other, r'') else .bad
            | .bad => .bad
            | .unsup => .unsup)
         | .ok (k, _, .colon :: r') =>
           (match noBin (pFactor f r') with
            | .ok (v, _, .rbrace :: r'') => if hashable k then .ok (.dict (.cons k v .nil), .other, r'') else .bad
            | .ok (v, _, .comma :: r'') =>
              (match pPairs f r'' with
               | .ok (ps, r3) => if hashable k && keysHashable ps then .ok (.dict (.cons k v ps), .other, r3) else .bad
               | .bad => .bad
               | .unsup => .unsup)
            | .ok _ => .bad
            | e => e)
         | .ok _ => .bad
         | e => e)
    | _ => .bad
/-- `[expr (, expr)* [,]] closer`, called after the opening bracket or after a comma -/
def pItems : Nat → Tok → List Tok → Res (Vals × List Tok)
  | 0, _, _ => .bad
  | _ + 1, _, [] => .bad
  | f + 1, closer, t :: r =>
    if t == closer then .ok (.nil, r) else
    match noBin (pFactor f (t :: r)) with
    | .ok (v, _, .comma :: r') =>
      (match pItems f closer r' with
       | .ok (vs, r'') => .ok (.cons v vs, r'')
       | e => e)
    | .ok (v, _, c :: r') => if c == closer then .ok (.cons v .nil, r') else .bad
    | .ok _ => .bad
    | .bad => .bad
    | .unsup => .unsup
/-- `[key : value (, key : value)* [,]] }`, called after a comma inside a dict display -/
def pPairs : Nat → List Tok → Res (Pairs × List Tok)
  | 0, _ => .bad
  | _ + 1, [] => .bad
  | f + 1, t :: r =>
    if t == .rbrace then .ok (.nil, r) else
    match noBin (pFactor f (t :: r)) with
    | .ok (k, _, .colon :: r') =>
      (match noBin (pFactor f r') with
       | .ok (v, _, .comma :: r'') =>
         (match pPairs f r'' with
          | .ok (ps, r3) => .ok (.cons k v ps, r3)
          | e => e)
       | .ok (v, _, .rbrace :: r'') => .ok (.cons k v .nil, r'')
       | .ok _ => .bad
       | .bad => .bad
       | .unsup => .unsup)
    | .ok _ => .bad
    | .bad => .bad
    | .unsup => .unsup
end

def fuelFor (toks : List Tok) : Nat := 2 * toks.length + 4

def isImag : Tok → Bool
  | .imag _ => true
  | _ => false

/-- `ast.literal_eval` on the token sequence of a text (an expression list: a top-level comma makes a tuple) -/
def literalEval (toks : List Tok) : Res Val :=
  if toks.any isImag then .unsup else
  let f := fuelFor toks
  match noBin (pFactor f (toks ++ [.eof])) with
  | .ok (v, _, [.eof]) => .ok v
  | .ok (v, _, .comma :: r) =>
    (match pItems f .eof r with
     | .ok (vs, []) => .ok (.tuple (.cons v vs))
     | .ok _ => .bad
     | .bad => .bad
     | .unsup => .unsup)
  | .ok _ => .bad
  | .bad => .bad
  | .unsup => .unsup

/-! ## start, store, restart -/

def decimalDigits (n : Nat) : Nat := (Nat.repr n).length

mutual
/-- `repr(v)` raises (an `int` with more decimal digits than `sys.get_int_max_str_digits()`) -/
def reprFails : Val → Bool
  | .leaf (.int i) => Generated.PyLitCfg.intMaxStrDigits != 0 && decimalDigits i.natAbs > Generated.PyLitCfg.intMaxStrDigits
  | .leaf _ => false
  | .list xs => reprFailsAll xs
  | .tuple xs => reprFailsAll xs
  | .set xs => reprFailsAll xs
  | .dict ps => reprFailsPairs ps
def reprFailsAll : Vals → Bool
  | .nil => false
  | .cons v vs => reprFails v || reprFailsAll vs
def reprFailsPairs : Pairs → Bool
  | .nil => false
  | .cons k v ps => reprFails k || reprFails v || reprFailsPairs ps
end

/-- `templatevars.eval_var`.  `reject` = the repaired behaviour: a value that cannot be read back
from its `repr` is refused (probed from the live code into `Generated.PyLitCfg.rejectsUnrestorable`). -/
def evalVar (reject : Bool) (toks : List Tok) : Res Val :=
  match literalEval toks with
  | .ok v => if reject && (reprFails v || !(literalEval (reprToks v)).isOk) then .bad else .ok v
  | e => e

/-- template variables: an insertion-ordered dictionary -/
abbrev TV := List (String × Val)
/-- rows of the `workflow_template_vars` table: key (primary) and the tokens of the stored text -/
abbrev Db := List (String × List Tok)

def lookup {α} (m : List (String × α)) (k : String) : Option α := (m.find? (fun p => p.1 == k)).map (·.2)
/-- `d[k] = v` on an insertion-ordered dictionary / `INSERT OR REPLACE` on a table with primary key `key` -/
def upsert {α} : List (String × α) → String → α → List (String × α)
  | [], k, v => [(k, v)]
  | p :: m, k, v => if p.1 == k then (k, v) :: m else p :: upsert m k v

/-- `put_workflow_template_vars` + commit (`INSERT OR REPLACE`); `none`: `repr` raised, nothing is written -/
def putDb (db : Db) (tv : TV) : Option Db :=
  if tv.any (fun p => reprFails p.2) then none
  else some (tv.foldl (fun d p => upsert d p.1 (reprToks p.2)) db)

/-- `Scheduler._load_template_vars` over all rows: command-line values take precedence -/
def restore (reject : Bool) : Db → TV → Res TV
  | [], tv => .ok tv
  | (k, toks) :: rows, tv =>
    if tv.any (fun p => p.1 == k) then restore reject rows tv
    else match evalVar reject toks with
      | .ok v => restore reject rows (tv ++ [(k, v)])
      | .bad => .bad
      | .unsup => .unsup

/-- `templatevars.get_template_vars_from_db` (used when the flow file is processed at restart:
`parsec.fileparse._prepend_old_templatevars`): EVERY stored row is evaluated, then the
command-line values are laid over the result -/
def restoreAll (reject : Bool) : Db → Res TV
  | [] => .ok []
  | (k, toks) :: rows =>
    match evalVar reject toks with
    | .ok v =>
      (match restoreAll reject rows with
       | .ok tv => .ok ((k, v) :: tv)
       | e => e)
    | .bad => .bad
    | .unsup => .unsup

/-- `old.update(cli)` as a map: command-line values first, then the stored ones not given again -/
def overlay (cli old : TV) : TV := cli ++ old.filter (fun q => !cli.any (fun p => p.1 == q.1))

end CylcModel.PyLit
