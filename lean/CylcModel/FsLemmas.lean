/-
Helper lemmas for property C38 about the abstract file tree `Fs`.

* `Res fs cur rest q` — fuel-free path resolution (what the kernel does when it does not give up);
  `resolve` (the executable, fuelled version) is sound for it, for every amount of fuel.
* resolution is deterministic, splits at every component boundary, and is monotone under deletion:
  whatever resolves in a tree from which entries were removed resolves to the same place in the
  original tree (`SubFs`).
* `rmtree` / `remove` only take away entries below / at the given physical path.
-/
import CylcModel.Fs
namespace CylcModel.Fs

/-! ### lookup and filtering -/

theorem look_filter (keep : P → Bool) (fs : Fs) (p : P) :
    look (fs.filter fun e => keep e.1) p = if keep p then look fs p else none := by
  induction fs with
  | nil => simp [look]
  | cons e fs ih =>
    obtain ⟨q, k⟩ := e
    by_cases hk : keep q = true
    · simp only [List.filter_cons, hk, if_true, look]
      by_cases hq : q = p
      · subst hq; simp [hk]
      · simp [hq, ih]
    · simp only [List.filter_cons, hk, look]
      by_cases hq : q = p
      · subst hq; simp [hk, ih]
      · simp [hq, ih]

/-- `fs'` was obtained from `fs` by deleting entries -/
def SubFs (fs' fs : Fs) : Prop := ∀ p k, kindAt fs' p = some k → kindAt fs p = some k

theorem SubFs.refl (fs : Fs) : SubFs fs fs := fun _ _ h => h

theorem SubFs.trans {a b c : Fs} (h1 : SubFs a b) (h2 : SubFs b c) : SubFs a c :=
  fun p k h => h2 p k (h1 p k h)

theorem subFs_filter (keep : P → Bool) (fs : Fs) : SubFs (fs.filter fun e => keep e.1) fs := by
  intro p k h
  unfold kindAt at h ⊢
  split
  · next hp => simpa [hp] using h
  · next hp =>
    simp only [hp, if_false] at h
    rw [look_filter] at h
    split at h
    · exact h
    · cases h

theorem subFs_rmtree (fs : Fs) (q : P) : SubFs (rmtree fs q) fs :=
  subFs_filter (fun p => !q.isPrefixOf p) fs

theorem subFs_remove (fs : Fs) (q : P) : SubFs (remove fs q) fs :=
  subFs_filter (fun p => p != q) fs

theorem mem_rmtree {fs : Fs} {q : P} {e : P × Kind} (he : e ∈ fs) (hne : e ∉ rmtree fs q) :
    q <+: e.1 := by
  simp only [rmtree, List.mem_filter, not_and, Bool.not_eq_true'] at hne
  have := hne he
  simpa [List.isPrefixOf_iff_prefix] using this

theorem mem_remove {fs : Fs} {q : P} {e : P × Kind} (he : e ∈ fs) (hne : e ∉ remove fs q) :
    e.1 = q := by
  simp only [remove, List.mem_filter, not_and] at hne
  have := hne he
  simpa using this

theorem rmtree_sub (fs : Fs) (q : P) : ∀ e ∈ rmtree fs q, e ∈ fs := by
  intro e he; exact (List.mem_filter.mp he).1

theorem remove_sub (fs : Fs) (q : P) : ∀ e ∈ remove fs q, e ∈ fs := by
  intro e he; exact (List.mem_filter.mp he).1

/-! ### semantic resolution -/

/-- `Res fs cur rest q`: starting in the physical directory `cur`, the path `rest` leads to the
physical location `q` (all links followed) -/
inductive Res (fs : Fs) : P → P → P → Prop
  | done (cur : P) : Res fs cur [] cur
  | dir (cur : P) (c : Name) (rest q : P) :
      kindAt fs (cur ++ [c]) = some .dir → Res fs (cur ++ [c]) rest q → Res fs cur (c :: rest) q
  | file (cur : P) (c : Name) :
      kindAt fs (cur ++ [c]) = some .file → Res fs cur [c] (cur ++ [c])
  | link (cur : P) (c : Name) (rest t q : P) (rel : Bool) :
      kindAt fs (cur ++ [c]) = some (.link t rel) → Res fs [] (t ++ rest) q → Res fs cur (c :: rest) q

theorem resolve_sound {fs : Fs} : ∀ (n : Nat) (cur rest q : P),
    resolve fs n cur rest = some q → Res fs cur rest q := by
  intro n
  induction n with
  | zero =>
    intro cur rest q h
    cases rest with
    | nil => simp [resolve] at h; subst h; exact .done _
    | cons c rest => simp [resolve] at h
  | succ n ih =>
    intro cur rest q h
    cases rest with
    | nil => simp [resolve] at h; subst h; exact .done _
    | cons c rest =>
      simp only [resolve] at h
      split at h
      · next t rel hk => exact .link cur c rest t q rel hk (ih _ _ _ h)
      · next hk => exact .dir cur c rest q hk (ih _ _ _ h)
      · next hk =>
        split at h
        · next hr => subst hr; simp at h; subst h; exact .file cur c hk
        · cases h
      · cases h

theorem Res.det {fs : Fs} {cur rest q q' : P} (h : Res fs cur rest q) (h' : Res fs cur rest q') :
    q = q' := by
  induction h generalizing q' with
  | done cur => cases h'; rfl
  | dir cur c rest q hk _ ih =>
    cases h' with
    | dir _ _ _ _ hk' hr' => exact ih hr'
    | file _ _ hk' => rw [hk] at hk'; cases hk'
    | link _ _ _ t _ rel hk' _ => rw [hk] at hk'; cases hk'
  | file cur c hk =>
    cases h' with
    | dir _ _ _ _ hk' _ => rw [hk] at hk'; cases hk'
    | file _ _ _ => rfl
    | link _ _ _ t _ rel hk' _ => rw [hk] at hk'; cases hk'
  | link cur c rest t q rel hk _ ih =>
    cases h' with
    | dir _ _ _ _ hk' _ => rw [hk] at hk'; cases hk'
    | file _ _ hk' => rw [hk] at hk'; cases hk'
    | link _ _ _ t' _ rel' hk' hr' =>
      rw [hk] at hk'
      cases hk'
      exact ih hr'

theorem Res.mono {fs' fs : Fs} (hs : SubFs fs' fs) {cur rest q : P} (h : Res fs' cur rest q) :
    Res fs cur rest q := by
  induction h with
  | done cur => exact .done cur
  | dir cur c rest q hk _ ih => exact .dir cur c rest q (hs _ _ hk) ih
  | file cur c hk => exact .file cur c (hs _ _ hk)
  | link cur c rest t q rel hk _ ih => exact .link cur c rest t q rel (hs _ _ hk) ih

theorem kindAt_root (fs : Fs) : kindAt fs [] = some .dir := by simp [kindAt]

/-- a resolution splits at any component boundary; the place where it splits is a directory
whenever something follows -/
theorem Res.split {fs : Fs} {cur p q : P} (h : Res fs cur p q) :
    ∀ xs ys, p = xs ++ ys → kindAt fs cur = some .dir →
      ∃ d, Res fs cur xs d ∧ Res fs d ys q ∧ (ys ≠ [] → kindAt fs d = some .dir) := by
  induction h with
  | done cur =>
    intro xs ys hp hc
    obtain ⟨hx, hy⟩ := List.append_eq_nil_iff.mp hp.symm
    subst hx hy
    exact ⟨cur, .done cur, .done cur, fun h => absurd rfl h⟩
  | dir cur c rest q hk hr ih =>
    intro xs ys hp hc
    cases xs with
    | nil =>
      simp at hp; subst hp
      exact ⟨cur, .done cur, .dir cur c rest q hk hr, fun _ => hc⟩
    | cons x xs =>
      simp at hp
      obtain ⟨rfl, hrest⟩ := hp
      obtain ⟨d, h1, h2, h3⟩ := ih xs ys hrest hk
      exact ⟨d, .dir cur c xs d hk h1, h2, h3⟩
  | file cur c hk =>
    intro xs ys hp hc
    cases xs with
    | nil =>
      simp at hp; subst hp
      exact ⟨cur, .done cur, .file cur c hk, fun _ => hc⟩
    | cons x xs =>
      simp at hp
      obtain ⟨rfl, hrest⟩ := hp
      obtain ⟨hx, hy⟩ := hrest
      subst hx hy
      exact ⟨cur ++ [c], .file cur c hk, .done _, fun h => absurd rfl h⟩
  | link cur c rest t q rel hk hr ih =>
    intro xs ys hp hc
    cases xs with
    | nil =>
      simp at hp; subst hp
      exact ⟨cur, .done cur, .link cur c rest t q rel hk hr, fun _ => hc⟩
    | cons x xs =>
      simp at hp
      obtain ⟨rfl, hrest⟩ := hp
      obtain ⟨d, h1, h2, h3⟩ := ih (t ++ xs) ys (by simp [hrest]) (kindAt_root fs)
      exact ⟨d, .link cur c xs t d rel hk h1, h2, h3⟩

/-- resolution of a one-component path -/
theorem Res.single {fs : Fs} {d q : P} {c : Name} (h : Res fs d [c] q) :
    (q = d ++ [c] ∧ (kindAt fs q = some .dir ∨ kindAt fs q = some .file)) ∨
    (∃ t rel, kindAt fs (d ++ [c]) = some (.link t rel) ∧ Res fs [] t q) := by
  cases h with
  | dir _ _ _ _ hk hr => cases hr; exact .inl ⟨rfl, .inl hk⟩
  | file _ _ hk => exact .inl ⟨rfl, .inr hk⟩
  | link _ _ _ t _ rel hk hr => exact .inr ⟨t, rel, hk, by simpa using hr⟩

/-! ### fuelled resolution: monotone under deletion, and prefixes need no more fuel -/

theorem resolve_mono {fs' fs : Fs} (hs : SubFs fs' fs) : ∀ (n : Nat) (cur rest q : P),
    resolve fs' n cur rest = some q → resolve fs n cur rest = some q := by
  intro n
  induction n with
  | zero =>
    intro cur rest q h
    cases rest with
    | nil => simpa [resolve] using h
    | cons c rest => simp [resolve] at h
  | succ n ih =>
    intro cur rest q h
    cases rest with
    | nil => simpa [resolve] using h
    | cons c rest =>
      simp only [resolve] at h ⊢
      split at h
      · next t rel hk => rw [hs _ _ hk]; exact ih _ _ _ h
      · next hk => rw [hs _ _ hk]; exact ih _ _ _ h
      · next hk => rw [hs _ _ hk]; exact h
      · cases h

theorem resolve_prefix {fs : Fs} : ∀ (n : Nat) (cur xs ys q : P),
    resolve fs n cur (xs ++ ys) = some q → ∃ d, resolve fs n cur xs = some d := by
  intro n
  induction n with
  | zero =>
    intro cur xs ys q h
    cases xs with
    | nil => exact ⟨cur, by simp [resolve]⟩
    | cons x xs => simp [resolve] at h
  | succ n ih =>
    intro cur xs ys q h
    cases xs with
    | nil => exact ⟨cur, by simp [resolve]⟩
    | cons x xs =>
      simp only [List.cons_append, resolve] at h ⊢
      split at h
      · next t rel hk =>
        rw [← List.append_assoc] at h
        exact ih _ _ _ _ h
      · next hk => exact ih _ _ _ _ h
      · next hk =>
        split at h
        · next hr =>
          have : xs = [] := by cases xs <;> simp_all
          subst this
          exact ⟨cur ++ [x], by simp⟩
        · cases h
      · cases h

/-! ### `lstat`-style facts -/

theorem lres_mono {fs' fs : Fs} (hs : SubFs fs' fs) (n : Nat) (p q : P)
    (h : lres fs' n p = some q) : lres fs n p = some q := by
  unfold lres at h ⊢
  split at h
  · exact h
  · next last hl =>
    split at h
    · next d hd =>
      rw [resolve_mono hs n _ _ _ hd]
      split at h
      · next hk => simp only [hs _ _ hk, if_true]; exact h
      · cases h
    · cases h

theorem isLink_mono {fs' fs : Fs} (hs : SubFs fs' fs) (n : Nat) (p : P)
    (h : isLink fs' n p = true) : isLink fs n p = true := by
  unfold isLink lkind at h ⊢
  cases hl : lres fs' n p with
  | none => simp [hl] at h
  | some q =>
    rw [lres_mono hs n p q hl]
    simp only [hl, Option.bind_some] at h ⊢
    cases hk : kindAt fs' q with
    | none => simp [hk] at h
    | some k => rw [hs _ _ hk]; simpa [hk] using h

/-- what `lres` returns, semantically -/
theorem lres_sound {fs : Fs} {n : Nat} {p q : P} (h : lres fs n p = some q) :
    (p = [] ∧ q = []) ∨
    (∃ d last, p = p.dropLast ++ [last] ∧ Res fs [] p.dropLast d ∧ kindAt fs d = some .dir ∧
      resolve fs n [] p.dropLast = some d ∧ q = d ++ [last]) := by
  unfold lres at h
  split at h
  · next hl =>
    have : p = [] := by simpa using hl
    simp at h
    exact .inl ⟨this, h⟩
  · next last hl =>
    split at h
    · next d hd =>
      split at h
      · next hk =>
        simp at h
        refine .inr ⟨d, last, ?_, resolve_sound _ _ _ _ hd, hk, hd, h.symm⟩
        have hne : p ≠ [] := by intro e; simp [e] at hl
        have := List.dropLast_concat_getLast hne
        rw [List.getLast?_eq_some_getLast hne] at hl
        simp at hl
        rw [hl] at this
        exact this.symm
      · cases h
    · cases h

end CylcModel.Fs
