/-
Helper lemmas for the C15 theorems (`Props/C15.lean`) about the `Fam` model.
-/
import CylcModel.Fam

namespace CylcModel.Fam
open CylcModel.Generated.FamTables

/-! ### trees -/

namespace Tree
variable {α β : Type}

theorem den_bind (σ : β → Bool) (f : α → Tree β) (t : Tree α) :
    (t.bind f).den σ = t.den (fun a => (f a).den σ) := by
  induction t with
  | leaf a => rfl
  | and l r ihl ihr => simp [bind, den, ihl, ihr]
  | or l r ihl ihr => simp [bind, den, ihl, ihr]
  | paren t ih => simp [bind, den, ih]
  | tt => rfl
  | ff => rfl

theorem den_congr (f g : α → Bool) (t : Tree α) (h : ∀ a ∈ t.leaves, f a = g a) :
    t.den f = t.den g := by
  induction t with
  | leaf a => exact h a (by simp [leaves])
  | and l r ihl ihr =>
    simp only [den]
    rw [ihl (fun a ha => h a (by simp [leaves, ha])), ihr (fun a ha => h a (by simp [leaves, ha]))]
  | or l r ihl ihr =>
    simp only [den]
    rw [ihl (fun a ha => h a (by simp [leaves, ha])), ihr (fun a ha => h a (by simp [leaves, ha]))]
  | paren t ih => simp only [den]; exact ih (fun a ha => h a (by simpa [leaves] using ha))
  | tt => rfl
  | ff => rfl

/-- no empty conjunction / disjunction: the trees that are the structure of a graph text -/
def noConst : Tree α → Bool
  | leaf _ => true
  | and l r => l.noConst && r.noConst
  | or l r => l.noConst && r.noConst
  | paren t => t.noConst
  | tt => false
  | ff => false

/-- a pure `&`-chain means the conjunction of its leaves -/
theorem den_of_flat (σ : α → Bool) (t : Tree α) (hc : t.noConst = true)
    (ho : t.hasOr = false) (hp : t.hasParen = false) : t.den σ = t.leaves.all σ := by
  induction t with
  | leaf a => simp [den, leaves]
  | and l r ihl ihr =>
    simp only [noConst, Bool.and_eq_true] at hc
    simp only [hasOr, Bool.or_eq_false_iff] at ho
    simp only [hasParen, Bool.or_eq_false_iff] at hp
    simp [den, leaves, ihl hc.1 ho.1 hp.1, ihr hc.2 ho.2 hp.2]
  | or l r _ _ => simp [hasOr] at ho
  | paren t _ => simp [hasParen] at hp
  | tt => simp [noConst] at hc
  | ff => simp [noConst] at hc

theorem leaves_bind (f : α → Tree β) (t : Tree α) :
    (t.bind f).leaves = t.leaves.flatMap fun a => (f a).leaves := by
  induction t with
  | leaf a => simp [bind, leaves]
  | and l r ihl ihr => simp [bind, leaves, ihl, ihr]
  | or l r ihl ihr => simp [bind, leaves, ihl, ihr]
  | paren t ih => simp [bind, leaves, ih]
  | tt => rfl
  | ff => rfl

/-- substituting atoms (leaves or parenthesised groups) for the leaves keeps the text well formed -/
theorem wf_bind (f : α → Tree β) (t : Tree α) (ht : t.WF = true)
    (hf : ∀ a ∈ t.leaves, (f a).WF = true ∧ (f a).isOr = false ∧ (f a).isEmpty = false) :
    (t.bind f).WF = true ∧ ((t.bind f).isOr = true → t.isOr = true) ∧
      ((t.bind f).isEmpty = true → t.isEmpty = true) := by
  induction t with
  | leaf a =>
    have := hf a (by simp [leaves])
    simp [bind, this.1, this.2.1, this.2.2]
  | and l r ihl ihr =>
    simp only [WF, Bool.and_eq_true, Bool.not_eq_true'] at ht
    obtain ⟨⟨⟨⟨⟨hl, hr⟩, hlo⟩, hro⟩, hle⟩, hre⟩ := ht
    have il := ihl hl (fun a ha => hf a (by simp [leaves, ha]))
    have ir := ihr hr (fun a ha => hf a (by simp [leaves, ha]))
    refine ⟨?_, by simp [bind, isOr], by simp [bind, isEmpty]⟩
    simp only [bind, WF, Bool.and_eq_true, Bool.not_eq_true']
    refine ⟨⟨⟨⟨⟨il.1, ir.1⟩, ?_⟩, ?_⟩, ?_⟩, ?_⟩
    · cases h : (l.bind f).isOr with
      | false => rfl
      | true => rw [il.2.1 h] at hlo; cases hlo
    · cases h : (r.bind f).isOr with
      | false => rfl
      | true => rw [ir.2.1 h] at hro; cases hro
    · cases h : (l.bind f).isEmpty with
      | false => rfl
      | true => rw [il.2.2 h] at hle; cases hle
    · cases h : (r.bind f).isEmpty with
      | false => rfl
      | true => rw [ir.2.2 h] at hre; cases hre
  | or l r ihl ihr =>
    simp only [WF, Bool.and_eq_true, Bool.not_eq_true'] at ht
    obtain ⟨⟨⟨hl, hr⟩, hle⟩, hre⟩ := ht
    have il := ihl hl (fun a ha => hf a (by simp [leaves, ha]))
    have ir := ihr hr (fun a ha => hf a (by simp [leaves, ha]))
    refine ⟨?_, by simp [isOr], by simp [bind, isEmpty]⟩
    simp only [bind, WF, Bool.and_eq_true, Bool.not_eq_true']
    refine ⟨⟨⟨il.1, ir.1⟩, ?_⟩, ?_⟩
    · cases h : (l.bind f).isEmpty with
      | false => rfl
      | true => rw [il.2.2 h] at hle; cases hle
    · cases h : (r.bind f).isEmpty with
      | false => rfl
      | true => rw [ir.2.2 h] at hre; cases hre
  | paren t ih =>
    simp only [WF] at ht
    have i := ih ht (fun a ha => hf a (by simpa [leaves] using ha))
    exact ⟨by simpa [bind, WF] using i.1, by simp [bind, isOr], by simp [bind, isEmpty]⟩
  | tt => simp [bind, WF, isOr, isEmpty]
  | ff => simp [bind, WF, isOr, isEmpty]

end Tree

theorem den_bigAnd {α : Type} (σ : α → Bool) :
    ∀ l : List (Tree α), (bigAnd l).den σ = l.all fun t => t.den σ
  | [] => rfl
  | [x] => by simp [bigAnd]
  | x :: y :: r => by
    have ih := den_bigAnd σ (y :: r)
    simp only [bigAnd, Tree.den, ih, List.all_cons]

theorem den_bigOr {α : Type} (σ : α → Bool) :
    ∀ l : List (Tree α), (bigOr l).den σ = l.any fun t => t.den σ
  | [] => rfl
  | [x] => by simp [bigOr]
  | x :: y :: r => by
    have ih := den_bigOr σ (y :: r)
    simp only [bigOr, Tree.den, ih, List.any_cons]

/-- a conjunction of atoms / parenthesised groups is well formed, and is not a bare `|` -/
theorem wf_bigAnd {α : Type} :
    ∀ l : List (Tree α), (∀ t ∈ l, t.WF = true ∧ t.isOr = false ∧ t.isEmpty = false) →
      (bigAnd l).WF = true ∧ (bigAnd l).isOr = false ∧ (l ≠ [] → (bigAnd l).isEmpty = false)
  | [], _ => by simp [bigAnd, Tree.WF, Tree.isOr]
  | [x], h => by
    have := h x (by simp)
    simp [bigAnd, this.1, this.2.1, this.2.2]
  | x :: y :: r, h => by
    have hx := h x (by simp)
    have ih := wf_bigAnd (y :: r) (fun t ht => h t (by simp [ht]))
    have he := ih.2.2 (by simp)
    refine ⟨?_, rfl, fun _ => rfl⟩
    show (Tree.and x (bigAnd (y :: r))).WF = true
    simp only [Tree.WF, hx.1, hx.2.1, hx.2.2, ih.1, ih.2.1, he]
    decide

theorem wf_bigOr {α : Type} :
    ∀ l : List (Tree α), (∀ t ∈ l, t.WF = true ∧ t.isOr = false ∧ t.isEmpty = false) →
      (bigOr l).WF = true ∧ (l ≠ [] → (bigOr l).isEmpty = false)
  | [], _ => by simp [bigOr, Tree.WF]
  | [x], h => by
    have := h x (by simp)
    simp [bigOr, this.1, this.2.2]
  | x :: y :: r, h => by
    have hx := h x (by simp)
    have ih := wf_bigOr (y :: r) (fun t ht => h t (by simp [ht]))
    have he := ih.2 (by simp)
    refine ⟨?_, fun _ => rfl⟩
    show (Tree.or x (bigOr (y :: r))).WF = true
    simp only [Tree.WF, hx.1, hx.2.2, ih.1, he]
    decide

/-! ### association lists -/

theorem mem_of_lookup {κ β : Type} [BEq κ] [LawfulBEq κ] {k : κ} {v : β} :
    ∀ {l : List (κ × β)}, l.lookup k = some v → (k, v) ∈ l
  | [], h => by simp [List.lookup] at h
  | (k', v') :: r, h => by
    rw [List.lookup_cons] at h
    cases hk : (k == k') with
    | true =>
      rw [hk] at h
      have : k = k' := by simpa using hk
      simp at h
      simp [this, h]
    | false =>
      rw [hk] at h
      exact List.mem_cons_of_mem _ (mem_of_lookup h)

theorem lookup_aset_self {κ β : Type} [BEq κ] [LawfulBEq κ] (k : κ) (v : β) :
    ∀ l : List (κ × β), (aset k v l).lookup k = some v
  | [] => by simp [aset, List.lookup]
  | (k', v') :: r => by
    simp only [aset]
    cases hk : (k' == k) with
    | true => simp [List.lookup]
    | false =>
      have : (k == k') = false := by
        cases h : (k == k') with
        | false => rfl
        | true =>
          have e : k = k' := by simpa using h
          subst e
          simp at hk
      simp [List.lookup_cons, this, lookup_aset_self k v r]

theorem lookup_aset_ne {κ β : Type} [BEq κ] [LawfulBEq κ] (k k2 : κ) (v : β) (hne : k2 ≠ k) :
    ∀ l : List (κ × β), (aset k v l).lookup k2 = l.lookup k2
  | [] => by
    have : (k2 == k) = false := by simpa using hne
    simp [aset, List.lookup, this]
  | (k', v') :: r => by
    simp only [aset]
    cases hk : (k' == k) with
    | true =>
      have e : k' = k := by simpa using hk
      subst e
      have : (k2 == k') = false := by simpa using hne
      simp [List.lookup_cons, this]
    | false =>
      simp only [Bool.false_eq_true, ↓reduceIte, List.lookup_cons]
      rw [lookup_aset_ne k k2 v hne r]

/-- equal as finite maps: each agrees with the other on all its own entries -/
def lookupAgree (l1 l2 : List (String × String)) : Bool :=
  (l1.all fun e => l2.lookup e.1 == l1.lookup e.1) && (l2.all fun e => l1.lookup e.1 == l2.lookup e.1)

theorem lookup_eq_of_agree {l1 l2 : List (String × String)} (h : lookupAgree l1 l2 = true) (q : String) :
    l1.lookup q = l2.lookup q := by
  simp only [lookupAgree, Bool.and_eq_true, List.all_eq_true, beq_iff_eq] at h
  cases h1 : l1.lookup q with
  | some v =>
    have := h.1 (q, v) (mem_of_lookup h1)
    simp at this
    rw [this, h1]
  | none =>
    cases h2 : l2.lookup q with
    | none => rfl
    | some v =>
      have := h.2 (q, v) (mem_of_lookup h2)
      simp at this
      rw [this, h2] at h1
      cases h1

/-! ### the specification tables -/

theorem Stem.mem_all (s : Stem) : s ∈ Stem.all := by cases s <;> decide

theorem specAlt_mem {q v : String} (h : specAlt.lookup q = some v) :
    ∃ s : Stem, q = s.name ∧ v = s.output := by
  have := mem_of_lookup h
  simp only [specAlt, List.mem_map] at this
  obtain ⟨s, _, hs⟩ := this
  exact ⟨s, by simpa using (congrArg Prod.fst hs).symm, by simpa using (congrArg Prod.snd hs).symm⟩

/-! ### what the theorems need from the generated tables (proved by `decide` in `Props/C15.lean`) -/

/-- every entry of `fam_to_mem_trigger_map` is `(<q>-all|any, (member output of q, all?))` -/
def trigEntriesOk : Bool :=
  famToMemTrigger.all fun e =>
    Stem.all.any fun s => [true, false].any fun b => e == (s.famQual b, (s.output, b))

structure TablesOK : Prop where
  trig : ∀ s ∈ Stem.all, ∀ b : Bool, famToMemTrigger.lookup (s.famQual b) = some (s.output, b)
  trigOnly : trigEntriesOk = true
  alt : lookupAgree altQualifiers specAlt = true
  stdNotFam : ∀ s ∈ Stem.all, famToMemTrigger.lookup s.output = none
  cSucceeded : outSucceeded = "succeeded"
  cFailed : outFailed = "failed"
  cFinished : outFinished = "finished"
  cSucceedAll : qualSucceedAll = "succeed-all"
  outTab : ∀ s ∈ Stem.all, ∀ b : Bool, famToMemOutput.lookup (s.famQual b) = some s.outputs
  outReal : (famToMemOutput.all fun e => !(e.2.contains outFinished)) = true

theorem famQual?_famQual (s : Stem) (b : Bool) : famQual? (s.famQual b) = some (s, b) := by
  cases s <;> cases b <;> decide

theorem stdQual_eq_specStd (T : TablesOK) (q : String) : stdQual q = specStd q := by
  unfold stdQual specStd
  rw [lookup_eq_of_agree T.alt q]

/-- a successful look-up in the family trigger table is a family qualifier of the property -/
theorem trig_lookup_spec (T : TablesOK) {q ttype : String} {all : Bool}
    (h : famToMemTrigger.lookup q = some (ttype, all)) :
    ∃ s : Stem, q = s.famQual all ∧ ttype = s.output := by
  have hm := mem_of_lookup h
  have := T.trigOnly
  simp only [trigEntriesOk, List.all_eq_true, List.any_eq_true, beq_iff_eq] at this
  obtain ⟨s, _, b, _, hb⟩ := this _ hm
  have h1 : q = s.famQual b := congrArg Prod.fst hb
  have h2 : (ttype, all) = (s.output, b) := congrArg Prod.snd hb
  have h3 : ttype = s.output := congrArg Prod.fst h2
  have h4 : all = b := congrArg Prod.snd h2
  subst h4
  exact ⟨s, h1, h3⟩

/-- a qualifier whose standard form is a family trigger is that family trigger itself -/
theorem stdQual_fam (T : TablesOK) {q : String} (h : (famToMemTrigger.lookup (stdQual q)).isSome = true) :
    stdQual q = q := by
  rw [stdQual_eq_specStd T] at h ⊢
  unfold specStd at h ⊢
  cases hl : specAlt.lookup q with
  | none => rfl
  | some v =>
    obtain ⟨s, _, hv⟩ := specAlt_mem hl
    rw [hl] at h
    simp only [Option.getD_some] at h
    rw [hv, T.stdNotFam s (Stem.mem_all s)] at h
    cases h

theorem den_memberT (T : TablesOK) (σ : String → Bool) (m off out : String) :
    (memberT m off out).den σ = outSpec σ m off out := by
  unfold memberT outSpec
  rw [T.cFinished, T.cSucceeded, T.cFailed]
  split <;> rfl

theorem isXtrig_stdN (n : Node) : (stdN n).isXtrig = n.isXtrig := by
  unfold stdN
  split
  · rfl
  · rfl

/-- **node level**: the expansion of a checked left node means what the property says -/
theorem den_expandLeaf (T : TablesOK) (fm : FamMap) (σ : String → Bool) (n : Node)
    (hc : checkNode fm n = true) : (expandLeaf fm (stdN n)).den σ = nodeSpec fm σ n := by
  cases hx : n.isXtrig with
  | true =>
    have h1 : stdN n = n := by simp [stdN, hx]
    simp [h1, expandLeaf, nodeSpec, hx, Tree.den]
  | false =>
    have hx' : (stdN n).isXtrig = false := by rw [isXtrig_stdN, hx]
    have hname : (stdN n).name = n.name := by simp [stdN, hx]
    have hoff : (stdN n).offset = n.offset := by simp [stdN, hx]
    have hqual : (stdN n).qual = if n.qual = "" then outSucceeded else stdQual n.qual := by
      simp [stdN, hx]
    simp only [checkNode, hx, Bool.false_or, Bool.and_eq_true] at hc
    cases hf : fm.lookup n.name with
    | some ms =>
      rw [hf] at hc
      simp only [bne_iff_ne, ne_eq, Bool.and_eq_true, decide_eq_true_eq] at hc
      obtain ⟨_, hq, hsome⟩ := hc
      have hq' : (stdN n).qual = n.qual := by rw [hqual, if_neg hq, stdQual_fam T hsome]
      rw [stdQual_fam T hsome] at hsome
      obtain ⟨⟨ttype, all⟩, hlk⟩ := Option.isSome_iff_exists.mp hsome
      obtain ⟨s, hs, ht⟩ := trig_lookup_spec T hlk
      have hfq : famQual? n.qual = some (s, all) := by rw [hs, famQual?_famQual]
      simp only [expandLeaf, hx', hname, hoff, hq', hf, hlk, nodeSpec, hx, hfq, Bool.false_eq_true,
        ↓reduceIte, Tree.den]
      cases all with
      | true =>
        simp only [↓reduceIte, den_bigAnd, List.all_map]
        congr 1
        funext m
        simp [den_memberT T, ht]
      | false =>
        simp only [Bool.false_eq_true, ↓reduceIte, den_bigOr, List.any_map]
        congr 1
        funext m
        simp [den_memberT T, ht]
    | none =>
      rw [hf] at hc
      obtain ⟨_, hnone⟩ := hc
      have hnone' : famToMemTrigger.lookup (stdN n).qual = none := by
        simpa using hnone
      have hsp : (stdN n).qual = if n.qual = "" then "succeeded" else specStd n.qual := by
        rw [hqual, T.cSucceeded]
        split
        · rfl
        · exact stdQual_eq_specStd T _
      simp only [expandLeaf, hx', hname, hoff, hf, nodeSpec, hx, Bool.false_eq_true, ↓reduceIte]
      rw [den_memberT T, hsp]

theorem famQual?_some {q : String} {s : Stem} {b : Bool} (h : famQual? q = some (s, b)) :
    q = s.famQual b := by
  have hm := mem_of_lookup h
  simp only [famQualTable, List.mem_flatMap] at hm
  obtain ⟨s', _, hs'⟩ := hm
  simp only [List.mem_cons, Prod.mk.injEq, List.not_mem_nil, or_false] at hs'
  rcases hs' with ⟨h1, h2, h3⟩ | ⟨h1, h2, h3⟩
  · subst h2 h3; exact h1
  · subst h2 h3; exact h1

/-! ### the parser state: `_set_triggers`, `_set_output_opt` -/

theorem setTrigger_spec {tr tr' : Trigs} {name expr : String} {sui : Bool} {trigs : List String}
    (h : setTrigger tr name sui trigs expr = some tr') :
    tr'.lookup (name, expr) = some (trigs, sui) ∧
    ∀ k, k ≠ (name, expr) → tr'.lookup k = tr.lookup k := by
  have : tr' = aset (name, expr) (trigs, sui) tr := by
    unfold setTrigger at h
    split at h
    · split at h
      · cases h
      · exact (Option.some.inj h).symm
    · exact (Option.some.inj h).symm
  subst this
  exact ⟨lookup_aset_self _ _ _, fun k hk => lookup_aset_ne _ _ _ hk _⟩

/-- later `_set_triggers` calls with the same expression and trigger keep what an earlier one recorded -/
theorem setTrigger_keeps {tr tr' : Trigs} {name m expr : String} {sui : Bool} {trigs : List String}
    (h : setTrigger tr name sui trigs expr = some tr')
    (hm : tr.lookup (m, expr) = some (trigs, sui)) : tr'.lookup (m, expr) = some (trigs, sui) := by
  have hs := setTrigger_spec h
  by_cases e : m = name
  · subst e; exact hs.1
  · rw [hs.2 (m, expr) (by simp [e])]; exact hm

/-- "recorded with family default `v`, unless an explicit member declaration has fixed it" -/
def famDefault (o : Opts) (k : String × String) (v : Bool) : Prop :=
  ∃ a d f, o.lookup k = some (a, d, f) ∧ (f = true ∨ d = v)

/-- `o'` keeps every entry of `o` -/
def keeps (o o' : Opts) : Prop := ∀ k x, o.lookup k = some x → o'.lookup k = some x

theorem keeps_refl (o : Opts) : keeps o o := fun _ _ h => h
theorem keeps_trans {a b c : Opts} (h1 : keeps a b) (h2 : keeps b c) : keeps a c :=
  fun k x h => h2 k x (h1 k x h)
theorem famDefault_keeps {o o' : Opts} {k : String × String} {v : Bool}
    (h : famDefault o k v) (hk : keeps o o') : famDefault o' k v := by
  obtain ⟨a, d, f, hl, hp⟩ := h
  exact ⟨a, d, f, hk _ _ hl, hp⟩

/-- a family-member call never changes an existing entry and leaves the family default recorded -/
theorem optUpd_fam {opts o1 : Opts} {name out : String} {v : Bool}
    (h : optUpd opts name out v true = some o1) :
    keeps opts o1 ∧ famDefault o1 (name, out) v := by
  unfold optUpd at h
  cases hl : opts.lookup (name, out) with
  | none =>
    rw [hl] at h
    simp only [Bool.not_true, Option.some.injEq] at h
    subst h
    refine ⟨?_, v, v, false, lookup_aset_self _ _ _, Or.inr rfl⟩
    intro k x hk
    have hne : k ≠ (name, out) := by
      intro e; subst e; rw [hl] at hk; cases hk
    rw [lookup_aset_ne _ _ _ hne]; exact hk
  | some pv =>
    obtain ⟨po, pd, pf⟩ := pv
    rw [hl] at h
    cases pf with
    | true =>
      simp only [↓reduceIte, Option.some.injEq] at h
      subst h
      exact ⟨keeps_refl _, po, pd, true, hl, Or.inl rfl⟩
    | false =>
      simp only [Bool.false_eq_true, ↓reduceIte] at h
      split at h
      · cases h
      · rename_i hne
        simp only [Option.some.injEq] at h
        subst h
        refine ⟨keeps_refl _, po, pd, false, hl, Or.inr ?_⟩
        exact (by simpa using hne : v = pd).symm

theorem setOpt1_fam {opts o1 : Opts} {name out : String} {v : Bool}
    (h : setOpt1 opts name out v true = some o1) :
    keeps opts o1 ∧ famDefault o1 (name, out) v := by
  unfold setOpt1 at h
  split at h
  · cases h
  · rename_i o' ho'
    split at h
    · simp only [Option.some.injEq] at h
      subst h
      exact optUpd_fam ho'
    · cases h

/-- `_set_output_opt` for a family member and a real output -/
theorem setOutputOpt_fam {opts o1 : Opts} {name out : String} {v : Bool} (hnf : out ≠ outFinished)
    (h : setOutputOpt opts name out v false true = some o1) :
    keeps opts o1 ∧ famDefault o1 (name, out) v := by
  unfold setOutputOpt at h
  simp only [Bool.false_eq_true, ↓reduceIte, hnf] at h
  split at h
  all_goals first | exact setOpt1_fam h | cases h

theorem foldlM_cons_some {σ α : Type} (f : σ → α → Option σ) (s : σ) (a : α) (l : List α) :
    (a :: l).foldlM f s = (f s a).bind fun s' => l.foldlM f s' := by
  simp [List.foldlM_cons]

theorem setOutputs_fam {name : String} {v : Bool} :
    ∀ (outs : List String) {opts o1 : Opts}, (outFinished ∉ outs) →
      setOutputs opts name outs v false true = some o1 →
      keeps opts o1 ∧ ∀ out ∈ outs, famDefault o1 (name, out) v
  | [], opts, o1, _, h => by
    simp only [setOutputs, List.foldlM_nil] at h
    cases h
    exact ⟨keeps_refl _, by simp⟩
  | out :: r, opts, o1, hnf, h => by
    simp only [setOutputs] at h
    rw [foldlM_cons_some] at h
    cases h1 : setOutputOpt opts name out v false true with
    | none => rw [h1] at h; cases h
    | some o' =>
      rw [h1] at h
      have hne : out ≠ outFinished := fun e => hnf (by simp [e])
      have s1 := setOutputOpt_fam hne h1
      have s2 := setOutputs_fam r (fun hm => hnf (by simp [hm])) (by simpa [setOutputs] using h)
      refine ⟨keeps_trans s1.1 s2.1, ?_⟩
      intro o ho
      simp only [List.mem_cons] at ho
      rcases ho with e | ho
      · subst e; exact famDefault_keeps s1.2 s2.1
      · exact s2.2 o ho

/-- the member loop of `_compute_triggers` for a family on the right -/
theorem applyMembers_fam {r : Node} {trigs : List String} {expr : String} {outs : List String}
    {optional : Bool} (hnf : outFinished ∉ outs) :
    ∀ (mems : List String) {st st' : State},
      applyMembers st mems r trigs expr outs optional true = some st' →
      -- what was recorded before is still there
      ((r.offset = "" → ∀ m, st.trigs.lookup (m, expr) = some (trigs, r.suicide) →
          st'.trigs.lookup (m, expr) = some (trigs, r.suicide)) ∧
       (r.suicide = false → keeps st.opts st'.opts)) ∧
      -- and every member got the trigger and the optionality
      (r.offset = "" → ∀ m ∈ mems, st'.trigs.lookup (m, expr) = some (trigs, r.suicide)) ∧
      (r.suicide = false → ∀ m ∈ mems, ∀ out ∈ outs, famDefault st'.opts (m, out) optional)
  | [], st, st', h => by
    simp only [applyMembers, List.foldlM_nil] at h
    cases h
    exact ⟨⟨fun _ _ h => h, fun _ => keeps_refl _⟩, by simp, by simp⟩
  | mem :: rest, st, st', h => by
    simp only [applyMembers] at h
    rw [foldlM_cons_some] at h
    -- the first member
    cases htr : (if r.offset = "" then setTrigger st.trigs mem r.suicide trigs expr else some st.trigs) with
    | none => simp [memberStep, htr] at h
    | some tr1 =>
      cases hop : setOutputs st.opts mem outs optional r.suicide true with
      | none => simp [memberStep, htr, hop] at h
      | some op1 =>
        have hstep : memberStep r trigs expr outs optional true st mem = some ⟨tr1, op1⟩ := by
          simp only [memberStep, htr, hop]
        rw [hstep] at h
        simp only [Option.bind_some] at h
        have ih := applyMembers_fam hnf rest (st := ⟨tr1, op1⟩) (st' := st') (by simpa [applyMembers] using h)
        obtain ⟨⟨ihk1, ihk2⟩, ih1, ih2⟩ := ih
        refine ⟨⟨?_, ?_⟩, ?_, ?_⟩
        · intro ho m hm
          apply ihk1 ho
          rw [if_pos ho] at htr
          exact setTrigger_keeps htr hm
        · intro hs
          rw [hs] at hop
          exact keeps_trans (setOutputs_fam outs hnf hop).1 (ihk2 hs)
        · intro ho m hm
          simp only [List.mem_cons] at hm
          rcases hm with e | hm
          · subst e
            apply ihk1 ho
            rw [if_pos ho] at htr
            exact (setTrigger_spec htr).1
          · exact ih1 ho m hm
        · intro hs m hm out hout
          simp only [List.mem_cons] at hm
          rcases hm with e | hm
          · subst e
            rw [hs] at hop
            exact famDefault_keeps ((setOutputs_fam outs hnf hop).2 out hout) (ihk2 hs)
          · exact ih2 hs m hm out hout

theorem all_congr_mem {α : Type} {f g : α → Bool} :
    ∀ {l : List α}, (∀ a ∈ l, f a = g a) → l.all f = l.all g
  | [], _ => rfl
  | a :: r, h => by
    simp only [List.all_cons]
    rw [h a (by simp), all_congr_mem (fun x hx => h x (by simp [hx]))]

/-- the qualifier a family on the right stands for: a bare family that is a lone / first node
(no left-hand expression) means `succeed-all` -/
def effQual (r : Node) (expr : String) : String :=
  if r.qual = "" ∧ expr = "" then "succeed-all" else r.qual

theorem famRightQual_spec (T : TablesOK) {r : Node} {expr output : String} {optional : Bool}
    (h : famRightQual r expr = some (output, optional)) :
    output = effQual r expr ∧
    ∀ s b, famQual? output = some (s, b) → optional = (if s = Stem.finish then true else r.opt) := by
  unfold famRightQual at h
  unfold effQual
  by_cases c1 : r.qual = "" ∧ expr = ""
  · have : (decide (r.qual = "") && decide (expr = "")) = true := by simp [c1.1, c1.2]
    rw [if_pos this] at h
    simp only [Option.some.injEq, Prod.mk.injEq] at h
    obtain ⟨h1, h2⟩ := h
    rw [T.cSucceedAll] at h1
    refine ⟨by rw [if_pos c1]; exact h1.symm, ?_⟩
    intro s b hq
    rw [← h1] at hq
    have : s = Stem.succeed := by
      have := famQual?_some hq
      cases s <;> cases b <;> first | rfl | exact absurd this (by decide)
    subst this
    simp [h2]
  · have : ¬ (decide (r.qual = "") && decide (expr = "")) = true := by
      simpa using c1
    rw [if_neg this] at h
    by_cases c2 : (r.qual != "" && "finish".toList.isPrefixOf r.qual.toList) = true
    · rw [if_pos c2] at h
      by_cases c3 : r.opt = true
      · rw [if_pos c3] at h; cases h
      · rw [if_neg c3] at h
        simp only [Option.some.injEq, Prod.mk.injEq] at h
        obtain ⟨h1, h2⟩ := h
        refine ⟨by rw [if_neg c1]; exact h1.symm, ?_⟩
        intro s b hq
        have hq' := famQual?_some hq
        rw [← h1] at hq'
        rw [hq'] at c2
        have : s = Stem.finish := by
          cases s <;> cases b <;> first | rfl | exact absurd c2 (by decide)
        subst this
        simp [h2]
    · rw [if_neg c2] at h
      simp only [Option.some.injEq, Prod.mk.injEq] at h
      obtain ⟨h1, h2⟩ := h
      refine ⟨by rw [if_neg c1]; exact h1.symm, ?_⟩
      intro s b hq
      have hq' := famQual?_some hq
      rw [← h1] at hq'
      rw [hq'] at c2
      have : s ≠ Stem.finish := by
        intro e; subst e
        apply c2
        cases b <;> decide
      simp [this, h2]

/-- what `rightSpec` returns for a family on the right -/
theorem rightSpec_fam (T : TablesOK) {fm : FamMap} {eoc : List String} {expr : String} {r : Node}
    {ms mems outs : List String} {optional fam : Bool} (hF : fm.lookup r.name = some ms)
    (h : rightSpec fm eoc expr r = some (mems, outs, optional, fam)) :
    mems = ms ∧ fam = true ∧ outFinished ∉ outs ∧
    ∀ s b, famQual? (effQual r expr) = some (s, b) →
      outs = s.outputs ∧ optional = (if s = Stem.finish then true else r.opt) := by
  unfold rightSpec at h
  rw [hF] at h
  simp only at h
  cases hq : famRightQual r expr with
  | none => rw [hq] at h; cases h
  | some p =>
    obtain ⟨output, optional'⟩ := p
    rw [hq] at h
    simp only at h
    have hs := famRightQual_spec T hq
    by_cases ho : output = ""
    · rw [if_pos ho] at h
      simp only [Option.some.injEq, Prod.mk.injEq] at h
      obtain ⟨rfl, rfl, rfl, rfl⟩ := h
      refine ⟨rfl, rfl, by simp, ?_⟩
      intro s b hfq
      exfalso
      rw [← hs.1, ho] at hfq
      have := famQual?_some hfq
      cases s <;> cases b <;> exact absurd this (by decide)
    · rw [if_neg ho] at h
      cases hl : famToMemOutput.lookup output with
      | none => rw [hl] at h; cases h
      | some outs' =>
        rw [hl] at h
        simp only [Option.some.injEq, Prod.mk.injEq] at h
        obtain ⟨rfl, rfl, rfl, rfl⟩ := h
        refine ⟨rfl, rfl, ?_, ?_⟩
        · intro hmem
          have := List.all_eq_true.mp T.outReal _ (mem_of_lookup hl)
          simp only [Bool.not_eq_true', List.contains_eq_mem, decide_eq_false_iff_not] at this
          exact this hmem
        · intro s b hfq
          rw [← hs.1] at hfq
          refine ⟨?_, hs.2 s b hfq⟩
          rw [famQual?_some hfq, T.outTab s (Stem.mem_all s) b] at hl
          exact (Option.some.inj hl).symm

/-! ### nesting: the family map from `[runtime]` inheritance -/

/-- `n` inherits from `p`, directly or through any number of intermediate namespaces -/
inductive Inherits (d : Decls) : String → String → Prop
  | direct {n p : String} : p ∈ parentsOf d n → Inherits d n p
  | step {n q p : String} : q ∈ parentsOf d n → Inherits d q p → Inherits d n p

/-- … through at most `k` inheritance steps -/
inductive InheritsN (d : Decls) : Nat → String → String → Prop
  | direct {k : Nat} {n p : String} : p ∈ parentsOf d n → InheritsN d (k + 1) n p
  | step {k : Nat} {n q p : String} : q ∈ parentsOf d n → InheritsN d k q p → InheritsN d (k + 1) n p

/-- … along a path whose inheriting namespaces all come from the list `S` -/
inductive InhIn (d : Decls) (S : List String) : String → String → Prop
  | direct {n p : String} : n ∈ S → p ∈ parentsOf d n → InhIn d S n p
  | step {n q p : String} : n ∈ S → q ∈ parentsOf d n → InhIn d S q p → InhIn d S n p

theorem mem_ancestors_iff (d : Decls) : ∀ (k : Nat) (n p : String),
    p ∈ ancestors d k n ↔ InheritsN d k n p
  | 0, n, p => by
    simp only [ancestors, List.not_mem_nil, false_iff]
    intro h; cases h
  | k + 1, n, p => by
    simp only [ancestors, List.mem_append, List.mem_flatMap]
    constructor
    · rintro (h | ⟨q, hq, hp⟩)
      · exact .direct h
      · exact .step hq ((mem_ancestors_iff d k q p).mp hp)
    · intro h
      cases h with
      | direct h => exact Or.inl h
      | step hq hp => exact Or.inr ⟨_, hq, (mem_ancestors_iff d k _ p).mpr hp⟩

theorem InheritsN.mono {d : Decls} : ∀ {k j : Nat} {n p : String}, InheritsN d k n p → k ≤ j → InheritsN d j n p
  | _, j, _, _, .direct h, hkj => by
    obtain ⟨j', rfl⟩ : ∃ j', j = j' + 1 := ⟨j - 1, by omega⟩
    exact .direct h
  | _, j, _, _, .step hq hp, hkj => by
    obtain ⟨j', rfl⟩ : ∃ j', j = j' + 1 := ⟨j - 1, by omega⟩
    exact .step hq (InheritsN.mono hp (by omega))

theorem InheritsN.toInherits {d : Decls} : ∀ {k : Nat} {n p : String}, InheritsN d k n p → Inherits d n p
  | _, _, _, .direct h => .direct h
  | _, _, _, .step hq hp => .step hq hp.toInherits

theorem InhIn.src_mem {d : Decls} {S : List String} {n p : String} (h : InhIn d S n p) : n ∈ S := by
  cases h <;> assumption

/-- either the path avoids `a`, or the part after its last visit to `a` does -/
theorem InhIn.split {d : Decls} {S : List String} {n p : String} (h : InhIn d S n p) (a : String) :
    InhIn d (S.erase a) n p ∨ ∃ q, q ∈ parentsOf d a ∧ (q = p ∨ InhIn d (S.erase a) q p) := by
  induction h with
  | @direct n p hn hp =>
    by_cases e : n = a
    · subst e; exact Or.inr ⟨p, hp, Or.inl rfl⟩
    · exact Or.inl (.direct ((List.mem_erase_of_ne e).mpr hn) hp)
  | @step n q p hn hq _ ih =>
    rcases ih with ih | ih
    · by_cases e : n = a
      · subst e; exact Or.inr ⟨q, hq, Or.inr ih⟩
      · exact Or.inl (.step ((List.mem_erase_of_ne e).mpr hn) hq ih)
    · exact Or.inr ih

/-- pigeon-hole: a path whose sources come from `S` can be shortened to at most `|S|` steps -/
theorem InhIn.bounded {d : Decls} : ∀ (k : Nat) (S : List String) {n p : String},
    S.length ≤ k → InhIn d S n p → InheritsN d k n p
  | 0, S, n, p, hk, h => by
    have := h.src_mem
    have : S = [] := List.eq_nil_of_length_eq_zero (by omega)
    subst this
    simp at *
  | k + 1, S, n, p, hk, h => by
    have hn := h.src_mem
    have hlen : (S.erase n).length ≤ k := by
      rw [List.length_erase_of_mem hn]; omega
    rcases h.split n with h' | ⟨q, hq, h'⟩
    · exact (InhIn.bounded k _ hlen h').mono (by omega)
    · rcases h' with rfl | h'
      · exact .direct hq
      · exact .step hq (InhIn.bounded k _ hlen h')

theorem mem_namespaces_of_parents {d : Decls} {n p : String} (h : p ∈ parentsOf d n) : n ∈ namespaces d := by
  unfold namespaces
  rw [List.mem_eraseDups]
  unfold parentsOf at h
  by_cases hr : n = rootName
  · simp [hr] at h
  · rw [if_neg hr] at h
    cases hl : d.lookup n with
    | none => rw [hl] at h; simp at h
    | some ps =>
      exact List.mem_cons_of_mem _ (List.mem_map.mpr ⟨_, mem_of_lookup hl, rfl⟩)

theorem Inherits.toInhIn {d : Decls} {n p : String} (h : Inherits d n p) : InhIn d (namespaces d) n p := by
  induction h with
  | direct hp => exact .direct (mem_namespaces_of_parents hp) hp
  | step hq _ ih => exact .step (mem_namespaces_of_parents hq) hq ih

/-- the fuel of `ancestors` is enough: it finds every ancestor -/
theorem mem_ancestors_full (d : Decls) (n p : String) :
    p ∈ ancestors d (namespaces d).length n ↔ Inherits d n p := by
  rw [mem_ancestors_iff]
  exact ⟨InheritsN.toInherits, fun h => InhIn.bounded _ _ (Nat.le_refl _) h.toInhIn⟩

theorem mem_insertStr (x a : String) : ∀ l : List String, x ∈ insertStr a l ↔ x = a ∨ x ∈ l
  | [] => by simp [insertStr]
  | b :: r => by
    unfold insertStr
    split
    · simp
    · simp only [List.mem_cons, mem_insertStr x a r]
      constructor
      · rintro (h | h | h)
        · exact Or.inr (Or.inl h)
        · exact Or.inl h
        · exact Or.inr (Or.inr h)
      · rintro (h | h | h)
        · exact Or.inr (Or.inl h)
        · exact Or.inl h
        · exact Or.inr (Or.inr h)

theorem mem_sortStrings (x : String) : ∀ l : List String, x ∈ sortStrings l ↔ x ∈ l
  | [] => by simp [sortStrings]
  | a :: r => by
    have ih := mem_sortStrings x r
    unfold sortStrings at ih ⊢
    simp only [List.foldr_cons, mem_insertStr, ih, List.mem_cons]

theorem lookup_map_graph {β : Type} (g : String → β) :
    ∀ (l : List String) {k : String} {v : β}, (l.map fun a => (a, g a)).lookup k = some v → v = g k ∧ k ∈ l
  | [], _, _, h => by simp [List.lookup] at h
  | a :: r, k, v, h => by
    simp only [List.map_cons, List.lookup_cons] at h
    cases hk : (k == a) with
    | true =>
      rw [hk] at h
      have e : k = a := by simpa using hk
      subst e
      simp only [Option.some.injEq] at h
      exact ⟨h.symm, by simp⟩
    | false =>
      rw [hk] at h
      have := lookup_map_graph g r h
      exact ⟨this.1, List.mem_cons_of_mem _ this.2⟩

theorem isFamily_iff (d : Decls) (t : String) : isFamily d t = true ↔ ∃ x, Inherits d x t := by
  unfold isFamily descendants
  constructor
  · intro h
    cases hf : (namespaces d).filter (fun n => (ancestors d (namespaces d).length n).contains t) with
    | nil => rw [hf] at h; simp at h
    | cons x r =>
      have : x ∈ (namespaces d).filter (fun n => (ancestors d (namespaces d).length n).contains t) := by
        rw [hf]; simp
      rw [List.mem_filter] at this
      exact ⟨x, (mem_ancestors_full d x t).mp (by simpa using this.2)⟩
  · rintro ⟨x, hx⟩
    have hx' : x ∈ (namespaces d).filter (fun n => (ancestors d (namespaces d).length n).contains t) := by
      rw [List.mem_filter]
      refine ⟨?_, by simpa using (mem_ancestors_full d x t).mpr hx⟩
      cases hx with
      | direct h => exact mem_namespaces_of_parents h
      | step h _ => exact mem_namespaces_of_parents h
    cases hf : (namespaces d).filter (fun n => (ancestors d (namespaces d).length n).contains t) with
    | nil => rw [hf] at hx'; simp at hx'
    | cons _ _ => simp

/-- the members of a family in the family map: the namespaces that inherit from it, directly or
through nested families, and from which nothing inherits (the tasks) -/
theorem familyMap_members (d : Decls) (F : String) (ms : List String)
    (h : (familyMap d).lookup F = some ms) (m : String) :
    m ∈ ms ↔ (Inherits d m F ∧ ¬ ∃ x, Inherits d x m) := by
  unfold familyMap at h
  have := (lookup_map_graph _ _ h).1
  subst this
  rw [mem_sortStrings, List.mem_filter]
  unfold descendants
  rw [List.mem_filter]
  constructor
  · rintro ⟨⟨_, h1⟩, h2⟩
    refine ⟨(mem_ancestors_full d m F).mp (by simpa using h1), ?_⟩
    intro hx
    have := (isFamily_iff d m).mpr hx
    simp [this] at h2
  · rintro ⟨h1, h2⟩
    refine ⟨⟨?_, by simpa using (mem_ancestors_full d m F).mpr h1⟩, ?_⟩
    · cases h1 with
      | direct h => exact mem_namespaces_of_parents h
      | step h _ => exact mem_namespaces_of_parents h
    · cases hf : isFamily d m with
      | false => rfl
      | true => exact absurd ((isFamily_iff d m).mp hf) h2

end CylcModel.Fam
