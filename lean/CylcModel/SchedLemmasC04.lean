/-
C04 — helper lemmas about the runahead part of the `Sched` model (core Lean only, no Mathlib).

* ascending-list facts for `insertSorted` / `sortDedup`, and the key lemma `nth_of_union`;
* the specification limit `limitAt` (SchedSpecC04): lower bound, monotonicity in the base point;
* `computeRunahead_spec`: what the model's `compute_runahead` establishes (recomputation, cached
  sequence points, both early returns);
* the frame pass `K_*`: one lemma per primitive of the model, following `SchedLemmas` -- every other
  primitive leaves the runahead fields alone, releases nothing and spawns nothing before the cached
  base point; lifted to `rhInv_run`;
* `releaseRunahead_flips`, `releaseRunahead_base`: the release step itself.
-/
import CylcModel.SchedLemmas
import CylcModel.SchedSpecC04
namespace CylcModel.Sched

theorem mem_insertSorted (x y : Int) : ∀ l : List Int, y ∈ insertSorted x l ↔ y = x ∨ y ∈ l := by
  intro l
  induction l with
  | nil => simp [insertSorted]
  | cons a l ih =>
    unfold insertSorted
    split
    · simp
    · split
      · rename_i h1 h2
        have : x = a := by simpa using h2
        subst this
        simp
      · simp [ih]
        constructor
        · rintro (h | h | h) <;> simp [h]
        · rintro (h | h | h) <;> simp [h]

theorem sorted_insertSorted (x : Int) : ∀ l : List Int, l.Pairwise (· < ·) → (insertSorted x l).Pairwise (· < ·) := by
  intro l
  induction l with
  | nil => intro _; simp [insertSorted]
  | cons a l ih =>
    intro h
    unfold insertSorted
    have ha := List.pairwise_cons.mp h
    split
    · rename_i hlt
      refine List.pairwise_cons.mpr ⟨?_, h⟩
      intro y hy
      rcases List.mem_cons.mp hy with rfl | hy
      · exact hlt
      · exact Int.lt_trans hlt (ha.1 y hy)
    · split
      · exact h
      · rename_i h1 h2
        have hne : x ≠ a := by simpa using h2
        have hgt : a < x := by omega
        refine List.pairwise_cons.mpr ⟨?_, ih ha.2⟩
        intro y hy
        rcases (mem_insertSorted x y l).mp hy with rfl | hy
        · exact hgt
        · exact ha.1 y hy

theorem sortDedup_aux (l : List Int) : ∀ acc : List Int, acc.Pairwise (· < ·) →
    (l.foldl (fun acc x => insertSorted x acc) acc).Pairwise (· < ·) ∧
    ∀ y, y ∈ l.foldl (fun acc x => insertSorted x acc) acc ↔ y ∈ l ∨ y ∈ acc := by
  induction l with
  | nil => intro acc h; simp [h]
  | cons a l ih =>
    intro acc h
    simp only [List.foldl_cons]
    obtain ⟨h1, h2⟩ := ih (insertSorted a acc) (sorted_insertSorted a acc h)
    refine ⟨h1, ?_⟩
    intro y
    rw [h2, mem_insertSorted]
    simp only [List.mem_cons]
    constructor
    · rintro (h | h | h) <;> simp [h]
    · rintro ((h | h) | h) <;> simp [h]

theorem sorted_sortDedup (l : List Int) : (sortDedup l).Pairwise (· < ·) :=
  (sortDedup_aux l [] List.Pairwise.nil).1

theorem mem_sortDedup (l : List Int) (y : Int) : y ∈ sortDedup l ↔ y ∈ l := by
  have := (sortDedup_aux l [] List.Pairwise.nil).2 y
  simpa [sortDedup] using this

/-- a strictly ascending list is determined by its members -/
theorem sorted_ext : ∀ (l₁ l₂ : List Int), l₁.Pairwise (· < ·) → l₂.Pairwise (· < ·) →
    (∀ x, x ∈ l₁ ↔ x ∈ l₂) → l₁ = l₂ := by
  intro l₁
  induction l₁ with
  | nil =>
    intro l₂ _ _ h
    cases l₂ with
    | nil => rfl
    | cons b l₂ => exact absurd ((h b).mpr (by simp)) (by simp)
  | cons a l₁ ih =>
    intro l₂ h1 h2 h
    cases l₂ with
    | nil => exact absurd ((h a).mp (by simp)) (by simp)
    | cons b l₂ =>
      have ha := List.pairwise_cons.mp h1
      have hb := List.pairwise_cons.mp h2
      have hab : a = b := by
        have h3 : a ∈ b :: l₂ := (h a).mp (by simp)
        have h4 : b ∈ a :: l₁ := (h b).mpr (by simp)
        rcases List.mem_cons.mp h3 with h3 | h3
        · exact h3
        · rcases List.mem_cons.mp h4 with h4 | h4
          · exact h4.symm
          · have := hb.1 a h3; have := ha.1 b h4; omega
      subst hab
      congr 1
      apply ih l₂ ha.2 hb.2
      intro x
      constructor
      · intro hx
        have : x ∈ a :: l₂ := (h x).mp (by simp [hx])
        rcases List.mem_cons.mp this with rfl | h5
        · have := ha.1 x hx; omega
        · exact h5
      · intro hx
        have : x ∈ a :: l₁ := (h x).mpr (by simp [hx])
        rcases List.mem_cons.mp this with rfl | h5
        · have := hb.1 x hx; omega
        · exact h5

end CylcModel.Sched

namespace CylcModel.Sched

/-- a point among the first `k` of an ascending list `A` is among the first `k` of every ascending
sub-collection `q` of `A` that contains it -/
theorem mem_take_of_sorted : ∀ (k : Nat) (A q : List Int), A.Pairwise (· < ·) → q.Pairwise (· < ·) →
    (∀ z ∈ q, z ∈ A) → ∀ x, x ∈ q → x ∈ A.take k → x ∈ q.take k := by
  intro k
  induction k with
  | zero => intro A q _ _ _ x _ h; simp at h
  | succ k ih =>
    intro A q hA hq hsub x hxq hxA
    cases A with
    | nil => simp at hxA
    | cons a A' =>
      cases q with
      | nil => simp at hxq
      | cons y q' =>
        have ha := List.pairwise_cons.mp hA
        have hy := List.pairwise_cons.mp hq
        simp only [List.take_succ_cons, List.mem_cons] at hxA ⊢
        rcases List.mem_cons.mp hxq with rfl | hxq'
        · exact Or.inl rfl
        · right
          have hyx : y < x := hy.1 x hxq'
          have hay : a ≤ y := by
            rcases List.mem_cons.mp (hsub y (by simp)) with h | h
            · omega
            · have := ha.1 y h; omega
          have hsub' : ∀ z ∈ q', z ∈ A' := by
            intro z hz
            have hz1 := hy.1 z hz
            rcases List.mem_cons.mp (hsub z (by simp [hz])) with h | h
            · omega
            · exact h
          rcases hxA with h | h
          · omega
          · exact ih A' q' ha.2 hy.2 hsub' x hxq' h

/-- two ascending lists, one contained in the other and containing the other's first `k`, share their first `k` -/
theorem take_eq_of_subset : ∀ (k : Nat) (A B : List Int), A.Pairwise (· < ·) → B.Pairwise (· < ·) →
    (∀ x ∈ B, x ∈ A) → (∀ x ∈ A.take k, x ∈ B) → B.take k = A.take k := by
  intro k
  induction k with
  | zero => intros; simp
  | succ k ih =>
    intro A B hA hB hBA hAB
    cases A with
    | nil =>
      cases B with
      | nil => rfl
      | cons b B' => exact absurd (hBA b (by simp)) (by simp)
    | cons a A' =>
      have ha := List.pairwise_cons.mp hA
      cases B with
      | nil => exact absurd (hAB a (by simp)) (by simp)
      | cons b B' =>
        have hb := List.pairwise_cons.mp hB
        have hab : b = a := by
          have h1 : a ∈ b :: B' := hAB a (by simp)
          have h2 : b ∈ a :: A' := hBA b (by simp)
          rcases List.mem_cons.mp h1 with h1 | h1
          · exact h1.symm
          · rcases List.mem_cons.mp h2 with h2 | h2
            · exact h2
            · have := hb.1 a h1; have := ha.1 b h2; omega
        subst hab
        simp only [List.take_succ_cons]
        congr 1
        apply ih A' B' ha.2 hb.2
        · intro x hx
          have := hb.1 x hx
          rcases List.mem_cons.mp (hBA x (by simp [hx])) with h | h
          · omega
          · exact h
        · intro x hx
          have h1 : x ∈ A' := List.mem_of_mem_take hx
          have := ha.1 x h1
          rcases List.mem_cons.mp (hAB x (by simp [hx])) with h | h
          · omega
          · exact h

/-- **the (n+1) smallest of a union of sorted lists are the (n+1) smallest of the union of each
list's first (n+1)** — which is all `compute_runahead` looks at per recurrence -/
theorem nth_of_union (k : Nat) (ls : List (List Int)) (h : ∀ q ∈ ls, q.Pairwise (· < ·)) :
    (sortDedup (ls.flatMap fun q => q.take k)).take k = (sortDedup (ls.flatMap fun q => q)).take k := by
  apply take_eq_of_subset k _ _ (sorted_sortDedup _) (sorted_sortDedup _)
  · intro x hx
    rw [mem_sortDedup] at hx ⊢
    obtain ⟨q, hq, hxq⟩ := List.mem_flatMap.mp hx
    exact List.mem_flatMap.mpr ⟨q, hq, List.mem_of_mem_take hxq⟩
  · intro x hx
    have hxA : x ∈ sortDedup (ls.flatMap fun q => q) := List.mem_of_mem_take hx
    rw [mem_sortDedup] at hxA ⊢
    obtain ⟨q, hq, hxq⟩ := List.mem_flatMap.mp hxA
    refine List.mem_flatMap.mpr ⟨q, hq, ?_⟩
    apply mem_take_of_sorted k _ q (sorted_sortDedup _) (h q hq) _ x hxq hx
    intro z hz
    rw [mem_sortDedup]
    exact List.mem_flatMap.mpr ⟨q, hq, hz⟩

end CylcModel.Sched

namespace CylcModel.Sched

/-- the last of the first `k`, or `d` -/
def lastTake (k : Nat) (L : List Int) (d : Int) : Int := ((L.take k).getLast?).getD d

theorem lastTake_nil (k : Nat) (d : Int) : lastTake k [] d = d := by simp [lastTake]

theorem lastTake_zero (L : List Int) (d : Int) : lastTake 0 L d = d := by simp [lastTake]

theorem lastTake_cons (k : Nat) (a : Int) (L : List Int) (d : Int) :
    lastTake (k + 1) (a :: L) d = lastTake k L a := by
  simp [lastTake, List.getLast?_cons]

theorem lastTake_succ_mono : ∀ (L : List Int) (m : Nat) (d : Int), L.Pairwise (· < ·) → (∀ x ∈ L, d ≤ x) →
    lastTake m L d ≤ lastTake (m + 1) L d := by
  intro L
  induction L with
  | nil => intro m d _ _; simp [lastTake_nil]
  | cons a L ih =>
    intro m d h hd
    have ha := List.pairwise_cons.mp h
    cases m with
    | zero =>
      rw [lastTake_zero, lastTake_cons, lastTake_zero]
      exact hd a (by simp)
    | succ m =>
      rw [lastTake_cons, lastTake_cons]
      exact ih m a ha.2 (fun x hx => Int.le_of_lt (ha.1 x hx))

theorem lastTake_ge : ∀ (L : List Int) (k : Nat) (d : Int), (∀ x ∈ L, d ≤ x) → d ≤ lastTake k L d := by
  intro L k d h
  unfold lastTake
  cases hl : (L.take k).getLast? with
  | none => simp
  | some v =>
    simp only [Option.getD_some]
    exact h v (List.mem_of_mem_take (List.mem_of_getLast? hl))

/-- raising the base point never lowers the limit -/
theorem lastTake_filter_mono (k : Nat) (b : Int) : ∀ (T : List Int) (b' : Int), T.Pairwise (· < ·) →
    (∀ x ∈ T, b' ≤ x) → b' ≤ b →
    lastTake (k + 1) T b' ≤ lastTake (k + 1) (T.filter (· ≥ b)) b := by
  intro T
  induction T with
  | nil => intro b' _ _ h; simpa [lastTake_nil] using h
  | cons t T ih =>
    intro b' hT hb' hle
    have ht := List.pairwise_cons.mp hT
    by_cases htb : b ≤ t
    · -- nothing is filtered out
      have hall : (t :: T).filter (· ≥ b) = t :: T := by
        apply List.filter_eq_self.mpr
        intro x hx
        rcases List.mem_cons.mp hx with rfl | hx
        · simpa using htb
        · have := ht.1 x hx; simp; omega
      rw [hall, lastTake_cons, lastTake_cons]
      exact Int.le_refl _
    · have hdrop : (t :: T).filter (· ≥ b) = T.filter (· ≥ b) := by
        rw [List.filter_cons]
        simp [htb]
      rw [hdrop, lastTake_cons]
      have h1 : lastTake k T t ≤ lastTake (k + 1) T t :=
        lastTake_succ_mono T k t ht.2 (fun x hx => Int.le_of_lt (ht.1 x hx))
      have h2 := ih t ht.2 (fun x hx => Int.le_of_lt (ht.1 x hx)) (by omega)
      omega

/-! ### the specification limit -/

theorem sorted_pointsFrom (g : Graph) (b : Int) : (pointsFrom g b).Pairwise (· < ·) := sorted_sortDedup _

theorem mem_pointsFrom (g : Graph) (b x : Int) : x ∈ pointsFrom g b ↔ (∃ q ∈ g.seqs, x ∈ q) ∧ b ≤ x := by
  unfold pointsFrom
  rw [mem_sortDedup, List.mem_flatMap]
  constructor
  · rintro ⟨q, hq, hx⟩
    have := List.mem_filter.mp hx
    exact ⟨⟨q, hq, this.1⟩, by simpa using this.2⟩
  · rintro ⟨⟨q, hq, hx⟩, hb⟩
    exact ⟨q, hq, List.mem_filter.mpr ⟨hx, by simpa using hb⟩⟩

theorem pointsFrom_filter (g : Graph) (b' b : Int) (h : b' ≤ b) :
    pointsFrom g b = (pointsFrom g b').filter (· ≥ b) := by
  apply sorted_ext _ _ (sorted_pointsFrom g b) ((sorted_pointsFrom g b').filter _)
  intro x
  rw [List.mem_filter, mem_pointsFrom, mem_pointsFrom]
  constructor
  · rintro ⟨hq, hb⟩; exact ⟨⟨hq, by omega⟩, by simpa using hb⟩
  · rintro ⟨⟨hq, _⟩, hb⟩; exact ⟨hq, by simpa using hb⟩

theorem limit0At_eq (g : Graph) (b : Int) : limit0At g b = lastTake (g.runahead + 1) (pointsFrom g b) b := rfl

theorem limit0At_ge (g : Graph) (b : Int) : b ≤ limit0At g b := by
  rw [limit0At_eq]
  exact lastTake_ge _ _ _ (fun x hx => ((mem_pointsFrom g b x).mp hx).2)

theorem limit0At_mono (g : Graph) (b' b : Int) (h : b' ≤ b) : limit0At g b' ≤ limit0At g b := by
  rw [limit0At_eq, limit0At_eq, pointsFrom_filter g b' b h]
  exact lastTake_filter_mono g.runahead b _ b' (sorted_pointsFrom g b')
    (fun x hx => ((mem_pointsFrom g b' x).mp hx).2) h

theorem capStop_mono (g : Graph) (l l' : Int) (h : l ≤ l') : capStop g l ≤ capStop g l' := by
  unfold capStop
  split
  · omega
  · exact h

theorem limitAt_mono (g : Graph) (b' b : Int) (h : b' ≤ b) : limitAt g b' ≤ limitAt g b :=
  capStop_mono g _ _ (limit0At_mono g b' b h)

theorem capStop_le_stop (g : Graph) (l sp : Int) (h : g.stopPoint = some sp) : capStop g l ≤ sp := by
  unfold capStop; rw [h]; simp only; omega

theorem limitAt_ge (g : Graph) (b : Int) (h : ∀ sp, g.stopPoint = some sp → b ≤ sp) : b ≤ limitAt g b := by
  have h0 := limit0At_ge g b
  unfold limitAt capStop
  split
  · rename_i sp hsp
    have := h sp hsp
    omega
  · exact h0

/-- the points `compute_runahead` collects: the first n+1 of every recurrence from the base point -/
def seqPts (g : Graph) (b : Int) : List Int :=
  sortDedup (g.seqs.flatMap fun q => (q.filter (· ≥ b)).take (g.runahead + 1))

theorem seqPts_take (g : Graph) (b : Int) (hwf : wfSeqs g = true) :
    (seqPts g b).take (g.runahead + 1) = (pointsFrom g b).take (g.runahead + 1) := by
  have h := nth_of_union (g.runahead + 1) (g.seqs.map fun q => q.filter (· ≥ b)) (by
    intro q hq
    obtain ⟨q0, hq0, rfl⟩ := List.mem_map.mp hq
    have : q0.Pairwise (· < ·) := by
      have := List.all_eq_true.mp hwf q0 hq0
      simpa using this
    exact this.filter _)
  simpa [seqPts, pointsFrom, List.flatMap_map] using h

end CylcModel.Sched

namespace CylcModel.Sched

theorem foldl_min_spec : ∀ (xs : List Int) (x : Int),
    (xs.foldl min x ∈ x :: xs) ∧ ∀ y ∈ x :: xs, xs.foldl min x ≤ y := by
  intro xs
  induction xs with
  | nil => intro x; simp
  | cons a xs ih =>
    intro x
    simp only [List.foldl_cons]
    obtain ⟨h1, h2⟩ := ih (min x a)
    constructor
    · rcases List.mem_cons.mp h1 with h | h
      · rw [h]
        by_cases hxa : x ≤ a
        · simp [Int.min_def, hxa]
        · simp [Int.min_def, hxa]
      · simp [h]
    · intro y hy
      have hm := h2 (min x a) (by simp)
      rcases List.mem_cons.mp hy with rfl | hy
      · have : min y a ≤ y := Int.min_le_left _ _
        omega
      · rcases List.mem_cons.mp hy with rfl | hy
        · have : min x y ≤ y := Int.min_le_right _ _
          omega
        · exact h2 y (by simp [hy])

theorem minOf_spec (l : List Int) (b : Int) (h : minOf l = some b) : b ∈ l ∧ ∀ y ∈ l, b ≤ y := by
  cases l with
  | nil => simp [minOf] at h
  | cons x xs =>
    simp only [minOf, Option.some.injEq] at h
    subst h
    exact foldl_min_spec xs x

theorem basePoint_spec (s : State) (b : Int) (h : basePoint s = some b) :
    (∃ x ∈ s.pool, x.pt = b) ∧ ∀ x ∈ s.pool, b ≤ x.pt := by
  obtain ⟨h1, h2⟩ := minOf_spec _ _ h
  constructor
  · obtain ⟨x, hx, rfl⟩ := List.mem_map.mp h1
    exact ⟨x, hx, rfl⟩
  · intro x hx
    exact h2 x.pt (List.mem_map.mpr ⟨x, hx, rfl⟩)

theorem basePoint_isSome (s : State) (x : Proxy) (hx : x ∈ s.pool) : ∃ b, basePoint s = some b := by
  unfold basePoint
  cases hp : s.pool with
  | nil => rw [hp] at hx; simp at hx
  | cons a l => simp [minOf]

/-! ### the invariant -/

/-- a proxy is consistent with limit `lim` and cached base point `pb`: if released it lies within the
limit, and it is not earlier than the cached base point -/
def Ok (lim pb : Option Int) (x : Proxy) : Prop :=
  (x.runahead = false → ∃ l, lim = some l ∧ x.pt ≤ l) ∧ (∀ b', pb = some b' → b' ≤ x.pt)

/-- the stored limit is the specification limit of the cached base point; the cached sequence
points are those of the cached base point -/
def Cache (g : Graph) (lim pb : Option Int) (sp : List Int) : Prop :=
  (∀ l, lim = some l → ∃ b', pb = some b' ∧ l = limitAt g b') ∧
  (sp ≠ [] → ∃ b', pb = some b' ∧ sp = seqPts g b')

def RhInv (g : Graph) (s : State) : Prop :=
  Cache g s.rhLimit s.prevBase s.prevSeqPts ∧ ∀ x ∈ s.pool, Ok s.rhLimit s.prevBase x

theorem limit_of_seqPts (g : Graph) (b : Int) (hwf : wfSeqs g = true) :
    capStop g (match ((seqPts g b).take (g.runahead + 1)).getLast? with | none => b | some l => l) = limitAt g b := by
  rw [seqPts_take g b hwf]
  unfold limitAt limit0At
  congr 1
  cases ((pointsFrom g b).take (g.runahead + 1)).getLast? <;> rfl

theorem capStop_eq (g : Graph) (l : Int) :
    (match g.stopPoint with | some sp => min sp l | none => l) = capStop g l := rfl


/-- the base point `computeRunahead` starts from -/
def baseSel (g : Graph) (s : State) : Option Int :=
  if s.pool.isEmpty then minOf (g.seqs.filterMap fun q => q.find? (· ≥ g.start))
  else minOf (s.pool.map (·.pt))

theorem baseSel_of_basePoint (g : Graph) (s : State) (b : Int) (h : basePoint s = some b) : baseSel g s = some b := by
  unfold baseSel
  have : s.pool.isEmpty = false := by
    cases hp : s.pool with
    | nil => simp [basePoint, hp, minOf] at h
    | cons a l => rfl
  simp [this]
  exact h

/-- the three ways `computeRunahead` can go -/
theorem computeRunahead_shape (g : Graph) (s : State) (f : Bool) :
    (baseSel g s = none ∧ computeRunahead g s f = s) ∨
    (∃ b, baseSel g s = some b ∧
      (!f && s.rhLimit.isSome && (b == s.prevBase.getD b || s.rhLimit == g.stopPoint)) = true ∧
      computeRunahead g s f = { s with prevBase := some (s.prevBase.getD b) }) ∨
    (∃ b, baseSel g s = some b ∧
      ¬ (!f && s.rhLimit.isSome && (b == s.prevBase.getD b || s.rhLimit == g.stopPoint)) = true ∧
      computeRunahead g s f =
        let pts := if (!f && !s.prevSeqPts.isEmpty && b == s.prevBase.getD b) = true then s.prevSeqPts else seqPts g b
        { s with prevSeqPts := pts, prevBase := some b,
                 rhLimit := some (capStop g (match (pts.take (g.runahead + 1)).getLast? with | none => b | some l => l)) }) := by
  unfold computeRunahead baseSel
  simp only
  generalize (if s.pool.isEmpty = true then minOf (List.filterMap (fun q => List.find? (fun x => decide (x ≥ g.start)) q) g.seqs)
      else minOf (List.map (fun x => x.pt) s.pool)) = base
  cases base with
  | none => exact Or.inl ⟨rfl, rfl⟩
  | some b =>
    simp only
    split
    · rename_i h
      exact Or.inr (Or.inl ⟨b, rfl, h, rfl⟩)
    · rename_i h
      exact Or.inr (Or.inr ⟨b, rfl, h, rfl⟩)

/-- what `computeRunahead` establishes: the invariant is kept, and with a non-empty pool the limit
afterwards is the specification limit of the current base point -- whether it was recomputed, taken
from the cached sequence points, or left alone by one of the two early returns -/
theorem computeRunahead_spec (g : Graph) (s : State) (f : Bool) (hwf : wfSeqs g = true) (hinv : RhInv g s) :
    RhInv g (computeRunahead g s f) ∧
    ∀ b, basePoint s = some b → (computeRunahead g s f).rhLimit = some (limitAt g b) := by
  obtain ⟨⟨hc1, hc2⟩, hok⟩ := hinv
  rcases computeRunahead_shape g s f with ⟨hb, he⟩ | ⟨b, hb, hearly, he⟩ | ⟨b, hb, hnot, he⟩
  · rw [he]
    refine ⟨⟨⟨hc1, hc2⟩, hok⟩, ?_⟩
    intro b hbp
    rw [baseSel_of_basePoint g s b hbp] at hb
    exact absurd hb (by simp)
  · -- early return: nothing changes (the cached base point is already set)
    have hsome : s.rhLimit.isSome = true := by
      simp only [Bool.and_eq_true] at hearly
      exact hearly.1.2
    obtain ⟨l, hl⟩ := Option.isSome_iff_exists.mp hsome
    obtain ⟨b0, hpb, hlim⟩ := hc1 l hl
    have hsame : computeRunahead g s f = s := by
      have : some (s.prevBase.getD b) = s.prevBase := by rw [hpb]; rfl
      rw [he, this]
    rw [hsame]
    refine ⟨⟨⟨hc1, hc2⟩, hok⟩, ?_⟩
    intro b1 hbp
    have hb1 := baseSel_of_basePoint g s b1 hbp
    rw [hb] at hb1
    have hbb : b = b1 := by simpa using hb1
    subst hbb
    rw [hl, hlim]
    congr 1
    obtain ⟨⟨xb, hxb, hxbp⟩, _⟩ := basePoint_spec s b hbp
    have hb0b : b0 ≤ b := by
      have := (hok xb hxb).2 b0 hpb
      omega
    simp only [Bool.and_eq_true, Bool.or_eq_true, beq_iff_eq, hpb, Option.getD_some] at hearly
    rcases hearly.2 with h | h
    · rw [h]
    · -- the limit sits at the stop point: it stays there as the base point moves forward
      rw [hl] at h
      have hstop : g.stopPoint = some l := by
        cases hsp : g.stopPoint with
        | none => rw [hsp] at h; simp at h
        | some sp => rw [hsp] at h; simp at h; rw [h]
      have hm := limit0At_mono g b0 b hb0b
      have h0 : limitAt g b0 = min l (limit0At g b0) := by unfold limitAt capStop; rw [hstop]
      have h1 : limitAt g b = min l (limit0At g b) := by unfold limitAt capStop; rw [hstop]
      rw [h0, h1]
      rw [h0] at hlim
      omega
  · -- recomputation (or the cached sequence points of the same base point)
    have hpts : (if (!f && !s.prevSeqPts.isEmpty && b == s.prevBase.getD b) = true then s.prevSeqPts else seqPts g b)
        = seqPts g b := by
      split
      · rename_i hc
        simp only [Bool.and_eq_true, Bool.not_eq_true', beq_iff_eq] at hc
        have hne : s.prevSeqPts ≠ [] := by
          intro h; rw [h] at hc; simp at hc
        obtain ⟨b0, hpb, hsp⟩ := hc2 hne
        rw [hpb] at hc
        simp only [Option.getD_some] at hc
        rw [hsp, hc.2]
      · rfl
    simp only [hpts] at he
    rw [limit_of_seqPts g b hwf] at he
    rw [he]
    refine ⟨⟨⟨?_, ?_⟩, ?_⟩, ?_⟩
    · intro l hl
      simp only [Option.some.injEq] at hl
      exact ⟨b, rfl, hl.symm⟩
    · intro _
      exact ⟨b, rfl, rfl⟩
    · intro x hx
      simp only at hx ⊢
      -- the pool is not empty, so `b` is its earliest point
      have hbp : basePoint s = some b := by
        unfold baseSel at hb
        have : s.pool.isEmpty = false := by
          cases hp : s.pool with
          | nil => rw [hp] at hx; simp at hx
          | cons a l => rfl
        unfold basePoint
        simpa [this] using hb
      obtain ⟨⟨xb, hxb, hxbp⟩, hmin⟩ := basePoint_spec s b hbp
      constructor
      · intro hrel
        obtain ⟨l, hl, hle⟩ := (hok x hx).1 hrel
        obtain ⟨b0, hpb, hlim⟩ := hc1 l hl
        have hb0b : b0 ≤ b := by
          have := (hok xb hxb).2 b0 hpb
          omega
        have := limitAt_mono g b0 b hb0b
        exact ⟨limitAt g b, rfl, by omega⟩
      · intro b' hb'
        simp only [Option.some.injEq] at hb'
        subst hb'
        exact hmin x hx
    · intro b1 hbp
      have hb1 := baseSel_of_basePoint g s b1 hbp
      rw [hb] at hb1
      have hbb : b = b1 := by simpa using hb1
      subst hbb
      rfl

end CylcModel.Sched

namespace CylcModel.Sched

/-! ### frame: every other primitive leaves the runahead fields alone, releases nothing and spawns
nothing before the cached base point -/

def K (lim pb : Option Int) (sp : List Int) (s : State) : Prop :=
  s.rhLimit = lim ∧ s.prevBase = pb ∧ s.prevSeqPts = sp ∧ ∀ x ∈ s.pool, Ok lim pb x

/-- not earlier than the cached base point -/
def Above (pb : Option Int) (p : Int) : Prop := ∀ b', pb = some b' → b' ≤ p

theorem Ok.congr {lim pb : Option Int} {x y : Proxy} (h : Ok lim pb x) (hp : y.pt = x.pt)
    (hr : y.runahead = x.runahead) : Ok lim pb y := by
  unfold Ok at *
  rw [hp, hr]; exact h

theorem Ok.new {lim pb : Option Int} {y : Proxy} (hr : y.runahead = true) (hp : Above pb y.pt) : Ok lim pb y := by
  refine ⟨?_, hp⟩
  intro h; rw [hr] at h; exact absurd h (by simp)

theorem Ok.above {lim pb : Option Int} {x : Proxy} (h : Ok lim pb x) : Above pb x.pt := h.2

theorem get?_mem (s : State) (p : Int) (n : String) (x : Proxy) (h : s.get? p n = some x) :
    x ∈ s.pool ∧ x.pt = p ∧ x.name = n := by
  unfold State.get? at h
  have h1 := List.mem_of_find?_eq_some h
  have h2 := List.find?_some h
  simp only [Bool.and_eq_true, beq_iff_eq] at h2
  exact ⟨h1, h2.1, h2.2⟩

theorem lookup_mem (s : State) (p : Int) (n : String) (x : Proxy) (tr : Bool)
    (h : lookup s p n = some (x, tr)) (htr : tr = false) : x ∈ s.pool ∧ x.pt = p := by
  unfold lookup at h
  split at h
  · rename_i y hy
    simp only [Option.some.injEq, Prod.mk.injEq] at h
    obtain ⟨rfl, _⟩ := h
    exact ⟨(get?_mem s p n _ hy).1, (get?_mem s p n _ hy).2.1⟩
  · cases hf : s.ghosts.find? fun x => x.pt == p && x.name == n with
    | none => rw [hf] at h; simp at h
    | some v => rw [hf] at h; simp at h; rw [htr] at h; exact absurd h.2 (by simp)

@[simp] theorem reset_pt (x : Proxy) (a : Option Status) (b c : Option Bool) : (x.reset a b c).pt = x.pt := by
  unfold Proxy.reset
  simp only
  split <;> rfl

@[simp] theorem reset_name (x : Proxy) (a : Option Status) (b c : Option Bool) : (x.reset a b c).name = x.name := by
  unfold Proxy.reset
  simp only
  split <;> rfl

@[simp] theorem reset_rh_none (x : Proxy) (a : Option Status) (b : Option Bool) :
    (x.reset a b none).runahead = x.runahead := by
  unfold Proxy.reset
  simp only
  split <;> rfl

@[simp] theorem satisfyMe_pt (x : Proxy) (a : Atom) : (x.satisfyMe a).pt = x.pt := rfl
@[simp] theorem satisfyMe_rh (x : Proxy) (a : Atom) : (x.satisfyMe a).runahead = x.runahead := rfl

theorem foldl_satisfyMe (l : List Atom) : ∀ y : Proxy,
    (l.foldl (fun z a => z.satisfyMe a) y).pt = y.pt ∧ (l.foldl (fun z a => z.satisfyMe a) y).runahead = y.runahead := by
  induction l with
  | nil => intro y; exact ⟨rfl, rfl⟩
  | cons a l ih => intro y; simp only [List.foldl_cons]; exact ih _

@[simp] theorem setComplete_pt (g : Graph) (x : Proxy) (m : String) : (setComplete g x m).1.pt = x.pt := by
  unfold setComplete
  split
  · rfl
  · split <;> rfl

@[simp] theorem setComplete_rh (g : Graph) (x : Proxy) (m : String) : (setComplete g x m).1.runahead = x.runahead := by
  unfold setComplete
  split
  · rfl
  · split <;> rfl

variable {lim pb : Option Int} {sp : List Int}

theorem K_put (s : State) (x : Proxy) (h : K lim pb sp s) (hx : Ok lim pb x) : K lim pb sp (s.put x) := by
  obtain ⟨h1, h2, h3, h4⟩ := h
  refine ⟨h1, h2, h3, ?_⟩
  intro y hy
  unfold State.put at hy
  simp only at hy
  obtain ⟨z, hz, rfl⟩ := List.mem_map.mp hy
  split
  · exact hx
  · exact h4 z hz

theorem K_add (s : State) (x : Proxy) (h : K lim pb sp s) (hx : Ok lim pb x) : K lim pb sp (s.add x) := by
  unfold State.add
  split
  · exact h
  · obtain ⟨h1, h2, h3, h4⟩ := h
    refine ⟨h1, h2, h3, ?_⟩
    intro y hy
    simp only at hy
    rcases List.mem_append.mp hy with hy | hy
    · exact h4 y hy
    · simp at hy; subst hy; exact hx

theorem mkProxy_new (g : Graph) (n : String) (p : Int) (x : Proxy) (h : mkProxy g n p = some x) :
    x.pt = p ∧ x.runahead = true := by
  unfold mkProxy at h
  cases ht : g.task? n with
  | none => simp [ht] at h
  | some t =>
    simp only [ht, Option.bind_eq_bind, Option.bind_some] at h
    split at h
    · simp at h
    · cases hd : t.inst? p with
      | none => simp [hd] at h
      | some d =>
        simp [hd] at h
        subst h
        exact ⟨rfl, rfl⟩

theorem spawnTask_new (g : Graph) (s : State) (n : String) (p : Int) (y : Proxy)
    (h : spawnTask g s n p = some y) : y.pt = p ∧ y.runahead = true := by
  unfold spawnTask at h
  simp only at h
  split at h
  · simp at h
  · split at h
    · simp at h
    · rename_i x hx
      obtain ⟨hxp, hxr⟩ := mkProxy_new g n p x hx
      obtain ⟨y0, hy0, hy⟩ := Option.map_eq_some_iff.mp h
      have hy0' : y0.pt = p ∧ y0.runahead = true := by
        split at hy0
        · simp at hy0; subst hy0; exact ⟨hxp, hxr⟩
        · split at hy0
          · simp at hy0
          · split at hy0
            · split at hy0
              · split at hy0
                · simp at hy0
                · simp at hy0; subst hy0; exact ⟨hxp, hxr⟩
              · simp at hy0
            · simp at hy0; subst hy0; exact ⟨hxp, hxr⟩
      subst hy
      split
      · split
        · have := foldl_satisfyMe s.absDone y0
          exact ⟨this.1.trans hy0'.1, this.2.trans hy0'.2⟩
        · exact hy0'
      · exact hy0'

theorem K_spawnAndAdd (g : Graph) (s : State) (n : String) (p : Int) (h : K lim pb sp s) (hp : Above pb p) :
    K lim pb sp (spawnAndAdd g s n p) := by
  unfold spawnAndAdd
  split
  · exact h
  · split
    · rename_i x hx
      obtain ⟨h1, h2⟩ := spawnTask_new g s n p x hx
      exact K_add s x h (Ok.new h2 (by rw [h1]; exact hp))
    · exact h

theorem find?_inst (t : TaskDefn) (p : Int) (d : InstDef) (h : t.inst? p = some d) : (p, d) ∈ t.insts := by
  unfold TaskDefn.inst? at h
  obtain ⟨pd, hpd, rfl⟩ := Option.map_eq_some_iff.mp h
  have h1 := List.mem_of_find?_eq_some hpd
  have h2 := List.find?_some hpd
  simp only [beq_iff_eq] at h2
  rw [← h2]
  exact h1

theorem task?_mem (g : Graph) (n : String) (t : TaskDefn) (h : g.task? n = some t) : t ∈ g.tasks :=
  List.mem_of_find?_eq_some h

theorem wfForward_inst (g : Graph) (hwf : wfForward g = true) (n : String) (t : TaskDefn) (p : Int) (d : InstDef)
    (ht : g.task? n = some t) (hd : t.inst? p = some d) :
    (∀ oc ∈ d.children, ∀ c ∈ oc.2, p ≤ c.pt) ∧ (∀ np, d.nextParentless = some np → p < np) := by
  unfold wfForward at hwf
  have h1 := List.all_eq_true.mp hwf t (task?_mem g n t ht)
  have h2 := List.all_eq_true.mp h1 (p, d) (find?_inst t p d hd)
  simp only [Bool.and_eq_true] at h2
  constructor
  · intro oc hoc c hc
    have h3 := List.all_eq_true.mp h2.1 oc hoc
    have h4 := List.all_eq_true.mp h3 c hc
    simpa using h4
  · intro np hnp
    have h3 := h2.2
    rw [hnp] at h3
    simpa using h3

theorem nextParentless_gt (g : Graph) (hwf : wfForward g = true) (x : Proxy) (np : Int)
    (h : nextParentless g x = some np) : x.pt < np := by
  unfold nextParentless at h
  cases ht : g.task? x.name with
  | none => simp [ht] at h
  | some t =>
    cases hd : t.inst? x.pt with
    | none => simp [ht, hd] at h
    | some d =>
      simp [ht, hd] at h
      exact (wfForward_inst g hwf x.name t x.pt d ht hd).2 np h

theorem Above.mono {pb : Option Int} {p q : Int} (h : Above pb p) (hpq : p ≤ q) : Above pb q := by
  intro b' hb'; have := h b' hb'; omega

theorem K_spawnNextParentless (g : Graph) (hwf : wfForward g = true) (s : State) (x : Proxy)
    (h : K lim pb sp s) (hx : Above pb x.pt) : K lim pb sp (spawnNextParentless g s x) := by
  unfold spawnNextParentless
  split
  · exact h
  · split
    · rename_i np hnp
      have := nextParentless_gt g hwf x np hnp
      exact K_spawnAndAdd g s x.name np h (hx.mono (by omega))
    · exact h

end CylcModel.Sched

namespace CylcModel.Sched
variable {lim pb : Option Int} {sp : List Int}

theorem reset_rh_false (x : Proxy) : (x.reset none none (some false)).runahead = false := by
  unfold Proxy.reset
  simp only [Option.getD_none, Option.getD_some]
  split
  · rename_i h
    simp only [Bool.and_eq_true, beq_iff_eq] at h
    simpa using h.2.symm
  · rfl

/-- `releaseRunahead` releases only within the stored limit -/
theorem K_releaseRunahead (g : Graph) (hwf : wfForward g = true) (s : State) (h : K lim pb sp s) :
    K lim pb sp (releaseRunahead g s).1 := by
  unfold releaseRunahead
  split
  · exact h
  · rename_i l hl
    split
    · exact h
    · simp only
      have hlim : lim = some l := by rw [← h.1]; exact hl
      -- every snapshot member is Ok and within the limit
      have hrel : ∀ x ∈ s.pool.filter (fun x => decide (x.pt ≤ l) && x.runahead), Ok lim pb x ∧ x.pt ≤ l := by
        intro x hx
        have := List.mem_filter.mp hx
        simp only [Bool.and_eq_true, decide_eq_true_eq] at this
        exact ⟨h.2.2.2 x this.1, this.2.1⟩
      generalize (s.pool.filter (fun x => decide (x.pt ≤ l) && x.runahead)) = rel at hrel
      have key : ∀ (rel : List Proxy) (s : State), K lim pb sp s → (∀ x ∈ rel, Ok lim pb x ∧ x.pt ≤ l) →
          K lim pb sp (rel.foldl (fun (st : State) x =>
            let st := match st.get? x.pt x.name with
              | some y => st.put (y.reset (runahead := some false))
              | none => st
            spawnNextParentless g st x) s) := by
        intro rel
        induction rel with
        | nil => intro s h _; exact h
        | cons x rel ih =>
          intro s h hrel
          simp only [List.foldl_cons]
          apply ih
          · apply K_spawnNextParentless g hwf _ x _ (hrel x (by simp)).1.above
            split
            · rename_i y hy
              obtain ⟨hy1, hy2, _⟩ := get?_mem _ _ _ _ hy
              apply K_put _ _ h
              refine ⟨?_, ?_⟩
              · intro _
                refine ⟨l, hlim, ?_⟩
                rw [reset_pt, hy2]
                exact (hrel x (by simp)).2
              · rw [reset_pt]
                exact (h.2.2.2 y hy1).2
            · exact h
          · intro z hz
            exact hrel z (by simp [hz])
      exact key rel s h hrel

theorem K_releaseRunaheadN (g : Graph) (hwf : wfForward g = true) : ∀ (n : Nat) (s : State), K lim pb sp s →
    K lim pb sp (releaseRunaheadN g n s) := by
  intro n; induction n with
  | zero => intro s h; exact h
  | succ n ih =>
    intro s h
    unfold releaseRunaheadN
    simp only
    split
    · exact ih _ (K_releaseRunahead g hwf s h)
    · exact K_releaseRunahead g hwf s h

theorem K_queueIfReady (s : State) (x : Proxy) (h : K lim pb sp s) (hx : Ok lim pb x) :
    K lim pb sp (queueIfReady s x) := by
  unfold queueIfReady; split
  · exact K_put _ _ h (hx.congr (by simp) (by simp))
  · exact h

theorem K_releaseAndSubmit (s : State) (h : K lim pb sp s) : K lim pb sp (releaseAndSubmit s) := by
  unfold releaseAndSubmit
  simp only
  split
  · exact h
  · have hrel : ∀ x ∈ s.pool.filter (·.queued), Ok lim pb x := fun x hx => h.2.2.2 x (List.mem_filter.mp hx).1
    generalize (s.pool.filter (·.queued)) = rel at hrel
    have : ∀ (l : List Proxy) (st : State), (∀ x ∈ l, Ok lim pb x) → K lim pb sp st →
        K lim pb sp (l.foldl (fun (st : State) x =>
          let y := x.reset (queued := some false)
          let y := { (y.reset (status := some .preparing)) with submitNum := x.submitNum + 1 }
          { (st.put y) with launched := st.launched ++ [(x.pt, x.name, x.submitNum + 1)] }) st) := by
      intro l; induction l with
      | nil => intro st _ hst; exact hst
      | cons a l ih =>
        intro st hl hst
        simp only [List.foldl_cons]
        apply ih _ (fun x hx => hl x (by simp [hx]))
        have := K_put st { ((a.reset (queued := some false)).reset (status := some .preparing)) with submitNum := a.submitNum + 1 }
          hst ((hl a (by simp)).congr (by simp) (by simp))
        exact this
    have h2 := this rel s hrel h
    exact h2

theorem K_remove (g : Graph) (hwf : wfForward g = true) (s : State) (x : Proxy) (h : K lim pb sp s)
    (hx : Above pb x.pt) : K lim pb sp (remove g s x) := by
  unfold remove
  simp only
  have h1 : K lim pb sp (if (!x.flows.isEmpty && x.runahead) = true then spawnNextParentless g s x else s) := by
    split
    · exact K_spawnNextParentless g hwf _ _ h hx
    · exact h
  obtain ⟨a, b, c, d⟩ := h1
  exact ⟨a, b, c, fun y hy => d y (List.mem_filter.mp hy).1⟩

theorem K_removeIfComplete (g : Graph) (hwf : wfForward g = true) (s : State) (x : Proxy) (h : K lim pb sp s)
    (hx : Above pb x.pt) : K lim pb sp (removeIfComplete g s x) := by
  unfold removeIfComplete
  split
  · exact h
  · split
    · exact h
    · split
      · exact K_remove g hwf _ _ h hx
      · exact h

theorem K_spawnChild (g : Graph) (p : Int) (n out : String) (acc : State × List (Int × String)) (c : Child)
    (h : K lim pb sp acc.1) (hc : Above pb c.pt) : K lim pb sp (spawnChild g p n out acc c).1 := by
  obtain ⟨st, sui⟩ := acc
  unfold spawnChild
  simp only
  have h0 : K lim pb sp (if (c.isAbs && !st.absDone.contains ⟨p, n, out⟩) = true then
      { st with absDone := st.absDone ++ [⟨p, n, out⟩] } else st) := by
    split
    · exact h
    · exact h
  generalize (if (c.isAbs && !st.absDone.contains ⟨p, n, out⟩) = true then
      { st with absDone := st.absDone ++ [⟨p, n, out⟩] } else st) = st0 at h0 ⊢
  have hfold : ∀ (ks : List (Int × String)) (a : State × List (Int × String)), K lim pb sp a.1 →
      K lim pb sp (ks.foldl (fun (a : State × List (Int × String)) k =>
        match a.1.get? k.1 k.2 with
        | none => a
        | some z =>
          let z := z.satisfyMe ⟨p, n, out⟩
          (a.1.put z, if (z.suicideNow && !a.2.contains k) = true then a.2 ++ [k] else a.2)) a).1 := by
    intro ks; induction ks with
    | nil => intro a ha; exact ha
    | cons k ks ih =>
      intro a ha
      apply ih
      simp only
      split
      · exact ha
      · rename_i z hz
        exact K_put _ _ ha ((ha.2.2.2 z (get?_mem _ _ _ _ hz).1).congr rfl rfl)
  split
  · exact h0
  · rename_i y hy
    apply hfold
    simp only
    split
    · exact h0
    · apply K_add _ _ h0
      -- a newly spawned child: runahead-limited, at the child's point
      have hnew : y.pt = c.pt ∧ y.runahead = true := by
        rename_i hnot
        cases hg : st0.get? c.pt c.name with
        | some y0 => rw [hg] at hnot; simp at hnot
        | none =>
          rw [hg] at hy
          exact spawnTask_new g st0 c.name c.pt y hy
      exact Ok.new (by simp [hnew.2]) (by simp [hnew.1]; exact hc)

theorem childrenOf_ge (g : Graph) (hwf : wfForward g = true) (x : Proxy) (out : String) :
    ∀ c ∈ childrenOf g x out, x.pt ≤ c.pt := by
  intro c hc
  unfold childrenOf at hc
  split at hc
  · simp at hc
  · rename_i d hd
    split at hc
    · rename_i o cs hf
      cases ht : g.task? x.name with
      | none => simp [ht] at hd
      | some t =>
        simp only [ht, Option.bind_some] at hd
        have hmem := List.mem_of_find?_eq_some hf
        exact (wfForward_inst g hwf x.name t x.pt d ht hd).1 (o, cs) hmem c hc
    · simp at hc

theorem K_spawnOnOutput (g : Graph) (hwf : wfForward g = true) (s : State) (p : Int) (n out : String)
    (h : K lim pb sp s) : K lim pb sp (spawnOnOutput g s p n out) := by
  unfold spawnOnOutput
  split
  · exact h
  · rename_i x hx
    obtain ⟨hxm, hxp, _⟩ := get?_mem _ _ _ _ hx
    have hxa : Above pb x.pt := (h.2.2.2 x hxm).above
    simp only
    have hcs : ∀ c ∈ (if x.flows.isEmpty = true then [] else childrenOf g x out), Above pb c.pt := by
      intro c hc
      split at hc
      · simp at hc
      · exact hxa.mono (childrenOf_ge g hwf x out c hc)
    generalize (if x.flows.isEmpty = true then [] else childrenOf g x out) = cs at hcs
    have h1 : ∀ (cs : List Child) (acc : State × List (Int × String)), (∀ c ∈ cs, Above pb c.pt) → K lim pb sp acc.1 →
        K lim pb sp (cs.foldl (spawnChild g p n out) acc).1 := by
      intro cs; induction cs with
      | nil => intro acc _ ha; exact ha
      | cons c cs ih =>
        intro acc hc ha
        exact ih _ (fun c' hc' => hc c' (by simp [hc'])) (K_spawnChild g p n out acc c ha (hc c (by simp)))
    have h2 : ∀ (ks : List (Int × String)) (st : State), K lim pb sp st →
        K lim pb sp (ks.foldl (fun (st : State) k => match st.get? k.1 k.2 with
          | some z => remove g st z
          | none => st) st) := by
      intro ks; induction ks with
      | nil => intro st hst; exact hst
      | cons k ks ih =>
        intro st hst
        apply ih
        simp only
        split
        · rename_i z hz
          exact K_remove g hwf _ _ hst (hst.2.2.2 z (get?_mem _ _ _ _ hz).1).above
        · exact hst
    generalize hR : (List.foldl (spawnChild g p n out) (s, []) cs) = R
    have hRn : K lim pb sp R.1 := by rw [← hR]; exact h1 _ _ hcs h
    have h3 := h2 R.2 R.1 hRn
    split
    · rename_i x' hx'
      exact K_removeIfComplete g hwf _ _ h3 (h3.2.2.2 x' (get?_mem _ _ _ _ hx').1).above
    · exact h3

theorem K_store (s : State) (x : Proxy) (tr : Bool) (h : K lim pb sp s) (hx : tr = false → Ok lim pb x) :
    K lim pb sp (store s x tr) := by
  unfold store; split
  · exact h
  · rename_i htr
    exact K_put _ _ h (hx (by simpa using htr))

theorem K_spawnChildren (g : Graph) (hwf : wfForward g = true) (s : State) (p : Int) (n out : String) (tr : Bool)
    (h : K lim pb sp s) : K lim pb sp (spawnChildren g s p n out tr) := by
  unfold spawnChildren; split
  · exact h
  · exact K_spawnOnOutput g hwf _ _ _ _ h

end CylcModel.Sched

namespace CylcModel.Sched
variable {lim pb : Option Int} {sp : List Int}

theorem K_processMessage (g : Graph) (hwf : wfForward g = true) : ∀ (fuel : Nat) (s : State) (p : Int) (n : String)
    (flag : Flag) (sn : Nat) (msg : String), K lim pb sp s → K lim pb sp (processMessage g fuel s p n flag sn msg).1 := by
  intro fuel
  induction fuel with
  | zero => intro s p n flag sn msg h; exact h
  | succ fuel ih =>
    intro s p n flag sn msg h
    unfold processMessage
    split
    · exact h
    · rename_i x tr hlk
      split
      · exact h
      · split
        · exact h
        · simp only
          have hstore : ∀ (y : Proxy), y.pt = x.pt → y.runahead = x.runahead → K lim pb sp (store s y tr) :=
            fun y hp hr => K_store _ _ _ h (fun htr => (h.2.2.2 x (lookup_mem _ _ _ _ _ hlk htr).1).congr hp hr)
          have himp : ∀ (l : List String) (st : State), K lim pb sp st →
              K lim pb sp (l.foldl (fun st m => (processMessage g fuel st p n .internal sn m).1) st) := by
            intro l; induction l with
            | nil => intro st hst; exact hst
            | cons a l ihl => intro st hst; exact ihl _ (ih _ _ _ _ _ _ hst)
          generalize hS : (List.foldl (fun st m => (processMessage g fuel st p n Flag.internal sn m).1) _ _) = S
          have hSn : K lim pb sp S := by
            rw [← hS]
            apply himp
            apply hstore
            · split <;> simp
            · split <;> simp
          split
          · exact hSn
          · rename_i x2 tr2 hlk2
            have hst2 : ∀ (y : Proxy), y.pt = x2.pt → y.runahead = x2.runahead → K lim pb sp (store S y tr2) :=
              fun y hp hr => K_store _ _ _ hSn (fun htr => (hSn.2.2.2 x2 (lookup_mem _ _ _ _ _ hlk2 htr).1).congr hp hr)
            repeat' split
            all_goals first
              | exact hSn
              | exact hst2 _ (by simp) (by simp)
              | exact K_spawnChildren g hwf _ _ _ _ _ (hst2 _ (by simp) (by simp))
              | exact K_spawnChildren g hwf _ _ _ _ _ hSn


theorem K_processQueue (g : Graph) (hwf : wfForward g = true) (s : State) (h : K lim pb sp s) :
    K lim pb sp (processQueue g s) := by
  unfold processQueue
  apply foldl_inv (K lim pb sp)
  · intro st grp hst
    simp only
    split
    · exact hst
    · have : ∀ (l : List Msg) (acc : State × Bool), K lim pb sp acc.1 →
          K lim pb sp (l.foldl (fun (acc : State × Bool) m =>
            let (st', pl) := processMessage g 4 acc.1 grp.1.1 grp.1.2 .received m.submitNum m.text
            (st', acc.2 || pl)) acc).1 := by
        intro l; induction l with
        | nil => intro acc ha; exact ha
        | cons m l ihl =>
          intro acc ha
          apply ihl
          exact K_processMessage g hwf 4 _ _ _ _ _ _ ha
      have h2 := this grp.2 (st, false) hst
      split
      · exact h2
      · exact h2
  · exact h

theorem K_checkStalled (g : Graph) (s : State) (h : K lim pb sp s) : K lim pb sp (checkStalled g s) := by
  unfold checkStalled; split
  · exact h
  · split <;> exact h

theorem K_checkAutoShutdown (g : Graph) (s : State) (h : K lim pb sp s) : K lim pb sp (checkAutoShutdown g s).1 := by
  unfold checkAutoShutdown
  simp only
  split
  · exact K_checkStalled _ _ h
  · split <;> exact K_checkStalled _ _ h

theorem K_sweepQueue (s : State) (h : K lim pb sp s) : K lim pb sp (sweepQueue s) := by
  unfold sweepQueue
  apply foldl_inv (K lim pb sp)
  · intro st x hst
    split
    · rename_i y hy
      split
      · have hy' : Ok lim pb { y with retryWait := false } := (hst.2.2.2 y (get?_mem _ _ _ _ hy).1).congr rfl rfl
        exact K_queueIfReady _ _ (K_put _ _ hst hy') hy'
      · exact hst
    · exact hst
  · exact h

theorem K_finishLoop (g : Graph) (s : State) (h : K lim pb sp s) : K lim pb sp (finishLoop g s) := by
  unfold finishLoop
  simp only
  have h5 : K lim pb sp (if (s.schedUpd || s.pool.any (·.upd)) = true then
      { s with stalled := false, schedUpd := false, pool := s.pool.map fun x => { x with upd := false } }
    else s) := by
    split
    · obtain ⟨a, b, c, d⟩ := h
      refine ⟨a, b, c, ?_⟩
      intro y hy
      simp only at hy
      obtain ⟨z, hz, rfl⟩ := List.mem_map.mp hy
      exact (d z hz).congr rfl rfl
    · exact h
  generalize (if (s.schedUpd || s.pool.any (·.upd)) = true then
      { s with stalled := false, schedUpd := false, pool := s.pool.map fun x => { x with upd := false } }
    else s) = s5 at h5 ⊢
  have h6 : K lim pb sp { s5 with db := some s5.pool } := h5
  split
  · exact K_checkStalled _ _ h6
  · exact h6

end CylcModel.Sched

namespace CylcModel.Sched

theorem RhInv.toK {g : Graph} {s : State} (h : RhInv g s) : K s.rhLimit s.prevBase s.prevSeqPts s :=
  ⟨rfl, rfl, rfl, h.2⟩

theorem RhInv.ofK {g : Graph} {lim pb : Option Int} {sp : List Int} {s : State} (hc : Cache g lim pb sp)
    (h : K lim pb sp s) : RhInv g s := by
  obtain ⟨a, b, c, d⟩ := h
  unfold RhInv
  rw [a, b, c]
  exact ⟨hc, d⟩

theorem rhInv_empty (g : Graph) : RhInv g ({} : State) := by
  refine ⟨⟨?_, ?_⟩, ?_⟩
  · intro l h; simp at h
  · intro h; simp at h
  · intro x hx; simp at hx

theorem cache_none (g : Graph) : Cache g none none [] := by
  refine ⟨?_, ?_⟩
  · intro l h; simp at h
  · intro h; simp at h

theorem rhInv_loadFromPoint (g : Graph) (hwf1 : wfSeqs g = true) (hwf2 : wfForward g = true) :
    RhInv g (loadFromPoint g) := by
  unfold loadFromPoint
  simp only
  -- spawning the first parentless instances into the empty state
  have k1 : K none none [] (g.tasks.foldl (fun st t =>
      match t.firstParentless with
      | some p => spawnAndAdd g st t.name p
      | none => st) ({} : State)) := by
    apply foldl_inv (K none none [])
    · intro st t hst
      split
      · exact K_spawnAndAdd g st t.name _ hst (by intro b' hb'; simp at hb')
      · exact hst
    · exact ⟨rfl, rfl, rfl, by intro x hx; simp at hx⟩
  have h1 := RhInv.ofK (cache_none g) k1
  have h2 := (computeRunahead_spec g _ false hwf1 h1).1
  have k3 := K_releaseRunaheadN g hwf2 10 _ h2.toK
  refine RhInv.ofK h2.1 ?_
  apply foldl_inv (K _ _ _)
  · intro st x hst
    split
    · rename_i y hy
      exact K_queueIfReady _ _ hst (hst.2.2.2 y (get?_mem _ _ _ _ hy).1)
    · exact hst
  · exact k3

theorem rhInv_mainLoop (g : Graph) (hwf1 : wfSeqs g = true) (hwf2 : wfForward g = true) (s : State)
    (h : RhInv g s) : RhInv g (mainLoop g s) := by
  unfold mainLoop
  split
  · exact h
  · simp only
    have h1 := (computeRunahead_spec g s false hwf1 h).1
    have k2 := K_releaseRunahead g hwf2 _ h1.toK
    have k3 := K_checkAutoShutdown g _ k2
    split
    · exact RhInv.ofK h1.1 k3
    · exact RhInv.ofK h1.1 (K_finishLoop g _ (K_processQueue g hwf2 _ (K_releaseAndSubmit _ (K_sweepQueue _ k3))))

theorem rhInv_step (g : Graph) (hwf1 : wfSeqs g = true) (hwf2 : wfForward g = true) (s : State) (op : Op)
    (h : RhInv g s) : RhInv g (step g s op) := by
  unfold step
  have hc : RhInv g (clearOp s) := h
  cases op with
  | loop => exact rhInv_mainLoop g hwf1 hwf2 _ hc
  | subres p n ok sn => exact RhInv.ofK hc.1 (K_processMessage g hwf2 4 _ _ _ _ _ _ hc.toK)
  | msg p n sn text => exact hc

/-- the runahead invariant holds in every state of every run -/
theorem rhInv_run (g : Graph) (hwf1 : wfSeqs g = true) (hwf2 : wfForward g = true) (ops : List Op) :
    ∀ s ∈ run g ops, RhInv g s :=
  run_inv (RhInv g) g (rhInv_loadFromPoint g hwf1 hwf2) (rhInv_step g hwf1 hwf2) ops

/-- in a state satisfying the invariant every released proxy lies within the specification limit
of the *current* pool -/
theorem released_within_limit (g : Graph) (s : State) (h : RhInv g s) (x : Proxy) (hx : x ∈ s.pool)
    (hr : x.runahead = false) : ∃ b, basePoint s = some b ∧ x.pt ≤ limitAt g b := by
  obtain ⟨b, hb⟩ := basePoint_isSome s x hx
  refine ⟨b, hb, ?_⟩
  obtain ⟨l, hl, hle⟩ := (h.2 x hx).1 hr
  obtain ⟨b0, hpb, hlim⟩ := h.1.1 l hl
  obtain ⟨⟨xb, hxb, hxbp⟩, _⟩ := basePoint_spec s b hb
  have hb0b : b0 ≤ b := by
    have := (h.2 xb hxb).2 b0 hpb
    omega
  have := limitAt_mono g b0 b hb0b
  omega

/-- after a main loop every released proxy -- in particular every proxy this loop released -- lies
within the specification limit of the pool the loop started with -/
theorem mainLoop_release_sound (g : Graph) (hwf1 : wfSeqs g = true) (hwf2 : wfForward g = true) (s : State)
    (h : RhInv g s) (b : Int) (hb : basePoint s = some b) :
    ∀ x ∈ (mainLoop g s).pool, x.runahead = false → x.pt ≤ limitAt g b := by
  unfold mainLoop
  split
  · -- stopped: nothing happens
    intro x hx hr
    obtain ⟨b1, hb1, hle⟩ := released_within_limit g s h x hx hr
    rw [hb] at hb1
    simp only [Option.some.injEq] at hb1
    subst hb1
    exact hle
  · simp only
    obtain ⟨h1, hlimit⟩ := computeRunahead_spec g s false hwf1 h
    have hl := hlimit b hb
    have k2 := K_releaseRunahead g hwf2 _ h1.toK
    have k3 := K_checkAutoShutdown g _ k2
    have fin : ∀ s' : State, K (computeRunahead g s).rhLimit (computeRunahead g s).prevBase
        (computeRunahead g s).prevSeqPts s' → ∀ x ∈ s'.pool, x.runahead = false → x.pt ≤ limitAt g b := by
      intro s' k x hx hr
      obtain ⟨l, hl', hle⟩ := (k.2.2.2 x hx).1 hr
      rw [hl] at hl'
      simp only [Option.some.injEq] at hl'
      omega
    split
    · exact fin _ k3
    · exact fin _ (K_finishLoop g _ (K_processQueue g hwf2 _ (K_releaseAndSubmit _ (K_sweepQueue _ k3))))

end CylcModel.Sched

namespace CylcModel.Sched

/-- the (n+1)-th element, or the last one when there are fewer, or `d` -/
theorem lastTake_eq_get : ∀ (L : List Int) (k : Nat) (d : Int),
    lastTake (k + 1) L d = match L[k]? with | some p => p | none => L.getLast?.getD d := by
  intro L
  induction L with
  | nil => intro k d; simp [lastTake_nil]
  | cons a L ih =>
    intro k d
    rw [lastTake_cons]
    cases k with
    | zero => simp [lastTake_zero]
    | succ k =>
      rw [ih k a]
      simp [List.getLast?_cons]

/-! ### what a pool primitive adds -/

theorem add_pool (s : State) (x z : Proxy) (hz : z ∈ (s.add x).pool) : z ∈ s.pool ∨ z = x := by
  unfold State.add at hz
  split at hz
  · exact Or.inl hz
  · simp only at hz
    rcases List.mem_append.mp hz with h | h
    · exact Or.inl h
    · simp at h; exact Or.inr h

theorem spawnNextParentless_pool (g : Graph) (hwf : wfForward g = true) (s : State) (x z : Proxy)
    (hz : z ∈ (spawnNextParentless g s x).pool) : z ∈ s.pool ∨ (z.runahead = true ∧ x.pt < z.pt) := by
  unfold spawnNextParentless at hz
  split at hz
  · exact Or.inl hz
  · split at hz
    · rename_i np hnp
      have hgt := nextParentless_gt g hwf x np hnp
      unfold spawnAndAdd at hz
      split at hz
      · exact Or.inl hz
      · split at hz
        · rename_i y hy
          obtain ⟨h1, h2⟩ := spawnTask_new g s x.name np y hy
          rcases add_pool s y z hz with h | h
          · exact Or.inl h
          · subst h; exact Or.inr ⟨h2, by omega⟩
        · exact Or.inl hz
    · exact Or.inl hz

theorem put_pool (s : State) (x z : Proxy) (hz : z ∈ (s.put x).pool) :
    z = x ∨ (z ∈ s.pool ∧ ¬ (z.pt = x.pt ∧ z.name = x.name)) := by
  unfold State.put at hz
  simp only at hz
  obtain ⟨y, hy, rfl⟩ := List.mem_map.mp hz
  split
  · exact Or.inl rfl
  · rename_i hne
    refine Or.inr ⟨hy, ?_⟩
    simpa using hne

theorem get?_none (s : State) (p : Int) (n : String) (h : s.get? p n = none) :
    ∀ z ∈ s.pool, ¬ (z.pt = p ∧ z.name = n) := by
  intro z hz
  unfold State.get? at h
  have := List.find?_eq_none.mp h z hz
  simpa using this

/-- **a runahead release flips `is_runahead` only within the stored limit**: every proxy that is
released after `releaseRunahead` was released before, or lies at or before the limit -/
theorem releaseRunahead_flips (g : Graph) (hwf : wfForward g = true) (s : State) :
    ∀ x ∈ (releaseRunahead g s).1.pool, x.runahead = false →
      (∃ y ∈ s.pool, y.pt = x.pt ∧ y.name = x.name ∧ y.runahead = false) ∨
      (∃ l, s.rhLimit = some l ∧ x.pt ≤ l) := by
  have triv : ∀ x ∈ s.pool, x.runahead = false →
      (∃ y ∈ s.pool, y.pt = x.pt ∧ y.name = x.name ∧ y.runahead = false) ∨
      (∃ l, s.rhLimit = some l ∧ x.pt ≤ l) := fun x hx hr => Or.inl ⟨x, hx, rfl, rfl, hr⟩
  unfold releaseRunahead
  split
  · exact triv
  · rename_i l hl
    split
    · exact triv
    · simp only
      have hrel : ∀ x ∈ s.pool.filter (fun x => decide (x.pt ≤ l) && x.runahead), x.pt ≤ l := by
        intro x hx
        have := (List.mem_filter.mp hx).2
        simp only [Bool.and_eq_true, decide_eq_true_eq] at this
        exact this.1
      generalize (s.pool.filter (fun x => decide (x.pt ≤ l) && x.runahead)) = rel at hrel
      have key : ∀ (rel : List Proxy) (st : State), (∀ x ∈ rel, x.pt ≤ l) →
          (∀ x ∈ st.pool, x.runahead = false →
            (∃ y ∈ s.pool, y.pt = x.pt ∧ y.name = x.name ∧ y.runahead = false) ∨ x.pt ≤ l) →
          ∀ x ∈ (rel.foldl (fun (st : State) x =>
            let st := match st.get? x.pt x.name with
              | some y => st.put (y.reset (runahead := some false))
              | none => st
            spawnNextParentless g st x) st).pool, x.runahead = false →
            (∃ y ∈ s.pool, y.pt = x.pt ∧ y.name = x.name ∧ y.runahead = false) ∨ x.pt ≤ l := by
        intro rel
        induction rel with
        | nil => intro st _ h; exact h
        | cons a rel ih =>
          intro st hrel h
          simp only [List.foldl_cons]
          apply ih _ (fun x hx => hrel x (by simp [hx]))
          intro z hz hzr
          rcases spawnNextParentless_pool g hwf _ a z hz with hz | hz
          · split at hz
            · rename_i y hy
              rcases put_pool _ _ _ hz with rfl | ⟨hz, _⟩
              · right
                rw [reset_pt, (get?_mem _ _ _ _ hy).2.1]
                exact hrel a (by simp)
              · exact h z hz hzr
            · exact h z hz hzr
          · rw [hz.1] at hzr; exact absurd hzr (by simp)
      intro x hx hr
      rcases key rel s hrel (fun x hx hr => Or.inl ⟨x, hx, rfl, rfl, hr⟩) x hx hr with h | h
      · exact Or.inl h
      · exact Or.inr ⟨l, hl, h⟩

/-- **the base cycle is always released**: with the limit at or after the base point `b`, no proxy
at the base point is runahead-limited after `releaseRunahead` -/
theorem releaseRunahead_base (g : Graph) (hwf : wfForward g = true) (s : State) (b l : Int)
    (hb : basePoint s = some b) (hl : s.rhLimit = some l) (hbl : b ≤ l) :
    ∀ x ∈ (releaseRunahead g s).1.pool, x.pt = b → x.runahead = false := by
  obtain ⟨⟨xb, hxb, _⟩, hmin⟩ := basePoint_spec s b hb
  unfold releaseRunahead
  rw [hl]
  simp only
  have hne : s.pool.isEmpty = false := by
    cases hp : s.pool with
    | nil => rw [hp] at hxb; simp at hxb
    | cons a t => rfl
  simp only [hne, Bool.false_eq_true, if_false]
  have key : ∀ (rel : List Proxy) (st : State), (∀ x ∈ rel, b ≤ x.pt) →
      (∀ z ∈ st.pool, z.pt = b → z.runahead = false ∨ ∃ x ∈ rel, x.pt = z.pt ∧ x.name = z.name) →
      ∀ z ∈ (rel.foldl (fun (st : State) x =>
        let st := match st.get? x.pt x.name with
          | some y => st.put (y.reset (runahead := some false))
          | none => st
        spawnNextParentless g st x) st).pool, z.pt = b → z.runahead = false := by
    intro rel
    induction rel with
    | nil =>
      intro st _ h z hz hzb
      rcases h z hz hzb with h | ⟨x, hx, _⟩
      · exact h
      · simp at hx
    | cons a rel ih =>
      intro st hrel h
      simp only [List.foldl_cons]
      apply ih _ (fun x hx => hrel x (by simp [hx]))
      intro z hz hzb
      rcases spawnNextParentless_pool g hwf _ a z hz with hz | hz
      · cases hg : st.get? a.pt a.name with
        | some y =>
          rw [hg] at hz
          simp only at hz
          rcases put_pool _ _ _ hz with rfl | ⟨hz, hne⟩
          · exact Or.inl (reset_rh_false y)
          · rcases h z hz hzb with h | ⟨x, hx, hxz⟩
            · exact Or.inl h
            · rcases List.mem_cons.mp hx with rfl | hx
              · exfalso
                apply hne
                rw [reset_pt, reset_name, (get?_mem _ _ _ _ hg).2.1, (get?_mem _ _ _ _ hg).2.2]
                exact ⟨hxz.1.symm, hxz.2.symm⟩
              · exact Or.inr ⟨x, hx, hxz⟩
        | none =>
          rw [hg] at hz
          simp only at hz
          have hzs : z ∈ st.pool := hz
          rcases h z hzs hzb with h | ⟨x, hx, hxz⟩
          · exact Or.inl h
          · rcases List.mem_cons.mp hx with hxa | hx
            · exfalso
              rw [hxa] at hxz
              exact get?_none _ _ _ hg z hzs ⟨hxz.1.symm, hxz.2.symm⟩
            · exact Or.inr ⟨x, hx, hxz⟩
      · have := hrel a (by simp)
        omega
  apply key
  · intro x hx
    exact hmin x (List.mem_filter.mp hx).1
  · intro z hz hzb
    cases hr : z.runahead with
    | false => exact Or.inl rfl
    | true =>
      right
      refine ⟨z, List.mem_filter.mpr ⟨hz, ?_⟩, rfl, rfl⟩
      simp only [Bool.and_eq_true, decide_eq_true_eq]
      exact ⟨by omega, hr⟩

end CylcModel.Sched

