/-
`GoodLog`: every logged expiry event was a waiting, not manually triggered proxy whose expiry time had come -
for every state of every run whose history has no job message with the text `expired` (`NoExpiredMsg`), and for
every run at all once such messages are ignored (`ExpFlags.jobMsgExpires = false`).
-/
import CylcModel.Sched3ExpLemmasQ

namespace CylcModel.Sched3Exp

/-- what the property demands of an expiry: the proxy was waiting, not manually triggered, and its expiry time
(it has one) was not later than the clock -/
def GoodEvent (e : ExpEvent) : Prop :=
  e.frm = .waiting ∧ e.manual = false ∧ ∃ t, e.exp = some t ∧ t ≤ e.now

def GoodLog (s : State) : Prop := ∀ e ∈ s.expLog, GoodEvent e

/-- no queued job message can expire a task: none has the text `expired`, or such messages are ignored -/
def MsgOK (s : State) : Prop := QueueOK s ∨ ExpFlags.jobMsgExpires = false

theorem goodLog_of_eq {s s' : State} (h : s'.expLog = s.expLog) (hs : GoodLog s) : GoodLog s' := by
  intro e he; rw [h] at he; exact hs e he

theorem goodLog_nil {s : State} (h : s.expLog = []) : GoodLog s := by
  intro e he; rw [h] at he; simp at he

/-- the guard of `clock_expire_tasks`, spelled out -/
theorem expireNow_spec {x : Proxy} {now : Int} (h : x.expireNow now = true) :
    x.status = .waiting ∧ x.manual = false ∧ ∃ t, x.expire = some t ∧ t ≤ now := by
  unfold Proxy.expireNow Proxy.clockExpire at h
  simp only [Bool.and_eq_true, Bool.not_eq_true', beq_iff_eq] at h
  obtain ⟨⟨hm, hw⟩, hc⟩ := h
  refine ⟨hw, hm, ?_⟩
  split at hc
  · simp at hc
  · rename_i t ht
    simp only [Bool.and_eq_true, bne_iff_ne, ne_eq, Bool.not_eq_true', decide_eq_false_iff_not, Int.not_lt] at hc
    exact ⟨t, ht, hc.2⟩

theorem goodLog_clockExpireOne (g : Graph) (s : State) (k : Int × String) (h : GoodLog s) :
    GoodLog (clockExpireOne g s k) := by
  unfold clockExpireOne
  split
  · exact h
  · rename_i x tr hl
    split
    · rename_i hx
      obtain ⟨hw, hm, t, ht, hle⟩ := expireNow_spec hx
      rcases processMessage_expired_log g 3 s k.1 k.2 .internal x.submitNum x tr hl with h1 | ⟨_, e, he, _, _, h3, h4, h5, h6⟩
      · exact goodLog_of_eq h1 h
      · intro e' he'
        rw [he] at he'
        rcases List.mem_append.mp he' with h' | h'
        · exact h e' h'
        · simp at h'; subst h'
          exact ⟨h3.trans hw, h4.trans hm, t, h5.trans ht, by rw [h6]; exact hle⟩
    · exact h

theorem goodLog_clockExpireTasks (g : Graph) (s : State) (h : GoodLog s) : GoodLog (clockExpireTasks g s) := by
  unfold clockExpireTasks
  exact foldl_inv GoodLog (clockExpireOne g) (fun st k hst => goodLog_clockExpireOne g st k hst) _ _ h

/-- repaired code: a received `expired` message is dropped at the checks -/
theorem expLog_processMessage_live (g : Graph) (hf : ExpFlags.jobMsgExpires = false) (fuel : Nat) (s : State)
    (p : Int) (n : String) (sn : Nat) (msg : String) :
    (processMessage g fuel s p n .received sn msg).1.expLog = s.expLog := by
  by_cases hm : msg = "expired"
  · subst hm
    cases fuel with
    | zero => rfl
    | succ fuel =>
      unfold processMessage
      split
      · rfl
      · have : ∀ (x : Proxy) (tr : Bool), pmSkip x tr .received sn "expired" = true := by
          intro x tr; unfold pmSkip; simp [hf]
        simp only [this, if_true]
  · exact expLog_processMessage_ne g fuel s p n _ sn msg hm

theorem expLog_processQueue_ok (g : Graph) (s : State) (hq : MsgOK s) : (processQueue g s).expLog = s.expLog := by
  rcases hq with hq | hf
  · exact expLog_processQueue g s hq
  · unfold processQueue
    refine foldl_inv (fun st : State => st.expLog = s.expLog) _ ?_ _ _ rfl
    intro st grp hst
    simp only
    split
    · exact hst
    · have : ∀ (l : List Msg) (acc : State × Bool),
          (l.foldl (fun (acc : State × Bool) m =>
            let (st', pl) := processMessage g 4 acc.1 grp.1.1 grp.1.2 .received m.submitNum m.text
            (st', acc.2 || pl)) acc).1.expLog = acc.1.expLog := by
        intro l; induction l with
        | nil => intro acc; rfl
        | cons m l ihl =>
          intro acc
          simp only [List.foldl_cons]
          rw [ihl]
          exact expLog_processMessage_live g hf 4 _ _ _ _ _
      have h2 := this grp.2 (st, false)
      split
      · simp only; rw [h2]; exact hst
      · rw [h2]; exact hst

theorem msgOK_of_queue {s s' : State} (h : s'.queue = s.queue) (hs : MsgOK s) : MsgOK s' := by
  rcases hs with hs | hs
  · left; intro m hm; rw [h] at hm; exact hs m hm
  · right; exact hs

/-- `workflow_shutdown` touches neither the log nor the queue -/
theorem loopShutdown_keep (g : Graph) (s : State) :
    (loopShutdown g s).expLog = s.expLog ∧ (loopShutdown g s).queue = s.queue := by
  unfold loopShutdown
  split
  · simp only
    split
    · exact ⟨expLog_stopTaskDone s, queue_stopTaskDone s⟩
    · split
      · exact ⟨(expLog_checkAutoShutdown g _).trans (expLog_stopTaskDone s),
          (queue_checkAutoShutdown g _).trans (queue_stopTaskDone s)⟩
      · exact ⟨(expLog_checkAutoShutdown g _).trans (expLog_stopTaskDone s),
          (queue_checkAutoShutdown g _).trans (queue_stopTaskDone s)⟩
  · exact ⟨rfl, rfl⟩

theorem loopHead_keep (g : Graph) (s : State) :
    (loopHead g s).expLog = s.expLog ∧ (loopHead g s).queue = s.queue := by
  unfold loopHead
  have h := loopShutdown_keep g (releaseRunahead g (computeRunahead g s)).1
  exact ⟨h.1.trans ((expLog_releaseRunahead g _).trans (expLog_computeRunahead g s false)),
    h.2.trans ((queue_releaseRunahead g _).trans (queue_computeRunahead g s false))⟩

theorem loopExpire_queue (g : Graph) (s : State) : (loopExpire g s).queue = s.queue := by
  unfold loopExpire
  exact (queue_clockExpireTasks g _).trans (queue_sweepQueue s)

theorem goodLog_loopExpire (g : Graph) (s : State) (h : GoodLog s) : GoodLog (loopExpire g s) := by
  unfold loopExpire
  exact goodLog_clockExpireTasks g _ (goodLog_of_eq (expLog_sweepQueue s) h)

theorem goodLog_mainLoop (g : Graph) (s : State) (h : GoodLog s) (hq : MsgOK s) : GoodLog (mainLoop g s) := by
  unfold mainLoop
  split
  · exact h
  · extract_lets s3 s5 s6
    have h3 := loopHead_keep g s
    split
    · exact goodLog_of_eq h3.1 h
    · have h5 : GoodLog s5 := goodLog_loopExpire g s3 (goodLog_of_eq h3.1 h)
      have h5q : s5.queue = s.queue := (loopExpire_queue g s3).trans h3.2
      have h6 : GoodLog s6 := by
        simp only [s6]; split
        · exact goodLog_of_eq (expLog_releaseAndSubmit s5) h5
        · exact h5
      have h6q : s6.queue = s.queue := by
        simp only [s6]; split
        · exact (queue_releaseAndSubmit s5).trans h5q
        · exact h5q
      have h7 : GoodLog (processQueue g s6) :=
        goodLog_of_eq (expLog_processQueue_ok g s6 (msgOK_of_queue h6q hq)) h6
      exact goodLog_of_eq (expLog_finishLoop g _) h7

/-- **every op logs only good expiries** (the log is cleared when the op starts) -/
theorem goodLog_step (g : Graph) (s : State) (op : Op) (hq : MsgOK s) : GoodLog (step g s op) := by
  unfold step
  have hc : (clearOp s).expLog = [] := rfl
  have hcq : MsgOK (clearOp s) := msgOK_of_queue rfl hq
  cases op with
  | loop => exact goodLog_mainLoop g _ (goodLog_nil hc) hcq
  | subres p n ok sn =>
    simp only
    apply goodLog_nil
    rw [expLog_processMessage_ne g 4 _ _ _ _ _ _ (by split <;> decide)]; exact hc
  | msg p n sn text => exact goodLog_nil hc
  | hold ids => simp only; apply goodLog_nil; rw [expLog_holdTasks]; exact hc
  | release ids => simp only; apply goodLog_nil; rw [expLog_releaseTasks]; exact hc
  | setHoldPoint p => simp only; apply goodLog_nil; rw [expLog_setHoldPoint]; exact hc
  | releaseHoldPoint => simp only; apply goodLog_nil; rw [expLog_releaseHoldPoint]; exact hc
  | stop mode => exact goodLog_nil hc
  | stopPoint p => simp only; apply goodLog_nil; rw [expLog_setStopPoint]; exact hc
  | stopTask p n => exact goodLog_nil hc
  | pause => exact goodLog_nil hc
  | resume => exact goodLog_nil hc
  | restart => exact goodLog_nil (expLog_restart g _)
  | tick dt => exact goodLog_nil hc
  | trig p n => simp only; apply goodLog_nil; rw [expLog_trigger]; exact hc

/-! ### the queue along a run -/

theorem queue_processQueue_nil (g : Graph) (s : State) : (processQueue g s).queue = [] := by
  unfold processQueue
  refine foldl_inv (fun st : State => st.queue = []) _ ?_ _ _ rfl
  intro st grp hst
  simp only
  split
  · exact hst
  · have : ∀ (l : List Msg) (acc : State × Bool),
        (l.foldl (fun (acc : State × Bool) m =>
          let (st', pl) := processMessage g 4 acc.1 grp.1.1 grp.1.2 .received m.submitNum m.text
          (st', acc.2 || pl)) acc).1.queue = acc.1.queue := by
      intro l; induction l with
      | nil => intro acc; rfl
      | cons m l ihl =>
        intro acc
        simp only [List.foldl_cons]
        rw [ihl]
        exact queue_processMessage g 4 _ _ _ _ _ _
    have h2 := this grp.2 (st, false)
    split
    · simp only; rw [h2]; exact hst
    · rw [h2]; exact hst

theorem queue_restart (g : Graph) (s : State) : (restart g s).queue = [] := by
  unfold restart
  extract_lets restore cfgStop pool wait s'
  split
  · rw [queue_setHoldPoint]
  · rfl

/-- a main loop only removes messages from the queue -/
theorem queue_mainLoop_sub (g : Graph) (s : State) : ∀ m ∈ (mainLoop g s).queue, m ∈ s.queue := by
  unfold mainLoop
  split
  · exact fun m h => h
  · extract_lets s3 s5 s6
    split
    · intro m hm; exact (loopHead_keep g s).2 ▸ hm
    · intro m hm
      rw [queue_finishLoop, queue_processQueue_nil] at hm
      simp at hm

/-- no op is a job message with the text `expired` -/
def NoExpiredMsg (ops : List Op) : Prop := ∀ p n sn t, Op.msg p n sn t ∈ ops → t ≠ "expired"

theorem queueOK_step (g : Graph) (s : State) (op : Op) (h : QueueOK s)
    (hop : ∀ p n sn t, op = Op.msg p n sn t → t ≠ "expired") : QueueOK (step g s op) := by
  unfold step
  have hc : QueueOK (clearOp s) := h
  have keep : ∀ s' : State, s'.queue = (clearOp s).queue → QueueOK s' := by
    intro s' hs m hm; rw [hs] at hm; exact hc m hm
  cases op with
  | loop => intro m hm; exact hc m (queue_mainLoop_sub g _ m hm)
  | subres p n ok sn => exact keep _ (queue_processMessage g 4 _ _ _ _ _ _)
  | msg p n sn text =>
    intro m hm
    simp only [List.mem_append, List.mem_singleton] at hm
    rcases hm with hm | hm
    · exact hc m hm
    · subst hm; exact hop p n sn text rfl
  | hold ids => exact keep _ (queue_holdTasks _ _)
  | release ids => exact keep _ (queue_releaseTasks _ _)
  | setHoldPoint p => exact keep _ (queue_setHoldPoint _ _)
  | releaseHoldPoint => exact keep _ (queue_releaseHoldPoint _)
  | stop mode => exact keep _ rfl
  | stopPoint p => exact keep _ (queue_setStopPoint _ _)
  | stopTask p n => exact keep _ rfl
  | pause => exact keep _ rfl
  | resume => exact keep _ rfl
  | restart => intro m hm; rw [queue_restart] at hm; simp at hm
  | tick dt => exact keep _ rfl
  | trig p n => exact keep _ (queue_trigger _ _ _ _)

theorem queue_loadFromPoint (g : Graph) : (loadFromPoint g).queue = [] := by
  unfold loadFromPoint
  extract_lets s0 s1 s2 s3
  have h1 : s1.queue = [] := by
    simp only [s1]
    refine foldl_inv (fun st : State => st.queue = []) _ ?_ _ _ rfl
    intro st t hst
    split
    · rw [queue_spawnAndAdd]; exact hst
    · exact hst
  have h2 : s2.queue = [] := by simp only [s2]; rw [queue_computeRunahead]; exact h1
  have hN : ∀ (n : Nat) (st : State), st.queue = [] → (releaseRunaheadN g n st).queue = [] := by
    intro n; induction n with
    | zero => intro st h; exact h
    | succ n ih =>
      intro st h
      unfold releaseRunaheadN
      have hr := queue_releaseRunahead g st
      generalize releaseRunahead g st = R at hr
      obtain ⟨st', r⟩ := R
      simp only at hr ⊢
      split
      · exact ih _ (hr.trans h)
      · exact hr.trans h
  have h3 : s3.queue = [] := hN 10 s2 h2
  refine foldl_inv (fun st : State => st.queue = []) _ ?_ _ _ h3
  intro st x hst
  split
  · rw [queue_queueIfReady]; exact hst
  · exact hst

theorem queueOK_init (g : Graph) : QueueOK (init g) := by
  intro m hm
  have : (init g).queue = [] := by unfold init; exact queue_loadFromPoint g
  rw [this] at hm; simp at hm

/-- states reached by op lists: `QueueOK` is kept when no op is an `expired` job message -/
theorem queueOK_foldl (g : Graph) : ∀ (ops : List Op) (s : State), QueueOK s → NoExpiredMsg ops →
    QueueOK (ops.foldl (step g) s) := by
  intro ops
  induction ops with
  | nil => intro s h _; exact h
  | cons op ops ih =>
    intro s h hn
    simp only [List.foldl_cons]
    apply ih
    · exact queueOK_step g s op h (fun p n sn t ht => hn p n sn t (by rw [ht]; exact List.mem_cons_self))
    · intro p n sn t hm; exact hn p n sn t (List.mem_cons_of_mem _ hm)

/-- every state of a run is the start-up state or `step g s op` of a state reached by a prefix -/
theorem mem_run_cases (g : Graph) (ops : List Op) (s : State) (h : s ∈ run g ops) :
    s = init g ∨ ∃ pre op post, ops = pre ++ op :: post ∧ s = step g (pre.foldl (step g) (init g)) op := by
  unfold run at h
  have key : ∀ (ops : List Op) (acc : List State) (cur : State) (done : List Op),
      cur = done.foldl (step g) (init g) →
      (∀ s ∈ acc, s = init g ∨ ∃ pre op post, done ++ ops = pre ++ op :: post ∧
          s = step g (pre.foldl (step g) (init g)) op) →
      ∀ s ∈ (ops.foldl (fun (a : List State × State) op =>
          let s' := step g a.2 op; (a.1 ++ [s'], s')) (acc, cur)).1,
        s = init g ∨ ∃ pre op post, done ++ ops = pre ++ op :: post ∧
          s = step g (pre.foldl (step g) (init g)) op := by
    intro ops
    induction ops with
    | nil => intro acc cur done _ hacc s hs; exact hacc s hs
    | cons op ops ih =>
      intro acc cur done hcur hacc s hs
      simp only [List.foldl_cons] at hs
      have := ih (acc ++ [step g cur op]) (step g cur op) (done ++ [op])
        (by rw [List.foldl_append, ← hcur]; rfl)
        (by
          intro s' hs'
          rcases List.mem_append.mp hs' with h' | h'
          · rcases hacc s' h' with h0 | ⟨pre, o, post, he, hs0⟩
            · exact Or.inl h0
            · exact Or.inr ⟨pre, o, post, by rw [List.append_assoc]; exact he, hs0⟩
          · simp at h'; subst h'
            exact Or.inr ⟨done, op, ops, by simp, by rw [hcur]⟩)
        s hs
      rcases this with h0 | ⟨pre, o, post, he, hs0⟩
      · exact Or.inl h0
      · exact Or.inr ⟨pre, o, post, by rw [← he]; simp, hs0⟩
  have := key ops [init g] (init g) [] rfl (by intro s hs; simp at hs; exact Or.inl hs) s h
  simpa using this

theorem noExpiredMsg_prefix {pre post : List Op} {op : Op} (h : NoExpiredMsg (pre ++ op :: post)) :
    NoExpiredMsg pre := by
  intro p n sn t hm; exact h p n sn t (List.mem_append_left _ hm)

theorem expLog_init (g : Graph) : (init g).expLog = [] := by
  unfold init loadFromPoint
  extract_lets s0 s1 s2 s3 s4
  have h1 : s1.expLog = [] := by
    simp only [s1]
    refine foldl_inv (fun st : State => st.expLog = []) _ ?_ _ _ rfl
    intro st t hst
    split
    · rw [expLog_spawnAndAdd]; exact hst
    · exact hst
  have h2 : s2.expLog = [] := by simp only [s2]; rw [expLog_computeRunahead]; exact h1
  have hN : ∀ (n : Nat) (st : State), st.expLog = [] → (releaseRunaheadN g n st).expLog = [] := by
    intro n; induction n with
    | zero => intro st h; exact h
    | succ n ih =>
      intro st h
      unfold releaseRunaheadN
      have hr := expLog_releaseRunahead g st
      generalize releaseRunahead g st = R at hr
      obtain ⟨st', r⟩ := R
      simp only at hr ⊢
      split
      · exact ih _ (hr.trans h)
      · exact hr.trans h
  have h3 : s3.expLog = [] := hN 10 s2 h2
  show (List.foldl _ s3 s3.pool).expLog = []
  refine foldl_inv (fun st : State => st.expLog = []) _ ?_ _ _ h3
  intro st x hst
  split
  · rw [expLog_queueIfReady]; exact hst
  · exact hst

/-- **GoodLog along runs** -/
theorem goodLog_run (g : Graph) (ops : List Op) (h : NoExpiredMsg ops ∨ ExpFlags.jobMsgExpires = false) :
    ∀ s ∈ run g ops, GoodLog s := by
  intro s hs
  rcases mem_run_cases g ops s hs with h0 | ⟨pre, op, post, he, hs0⟩
  · subst h0; exact goodLog_nil (expLog_init g)
  · subst hs0
    apply goodLog_step
    rcases h with h | h
    · left; exact queueOK_foldl g pre _ (queueOK_init g) (noExpiredMsg_prefix (he ▸ h))
    · right; exact h

end CylcModel.Sched3Exp
