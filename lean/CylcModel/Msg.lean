/-
`Msg` — the per-task job-message step function (DESIGN §4 layer A), and the extension of the
`Sched` op alphabet by poll results.

* `Msg.step` is `Sched.processMessage` seen from the one task proxy the message is addressed to:
  the same recursion (output completion, implied outputs first, backward checks, retries), with the
  pool replaced by the proxy and "removed from the pool while finished and complete" recorded in the
  `tr` (transient) flag.  `SchedLemmasC09.pm_sim` / `SchedLemmasC09b.pm_simP` prove that
  `Sched.processMessage` acts on the addressed proxy exactly as `Msg.step`, for every instance graph
  without self-triggering children.
* `XOp` adds the op `poll` (the result of a jobs-poll command, dispatched by submit number and then
  processed by the same `process_message` with `FLAG_POLLED`) to the frozen `Sched.Op`; `stepX`/`runX` extend
  `Sched.step`/`Sched.run` conservatively (`runX_base`).

Anchors: cylc/flow/task_events_mgr.py (process_message, _process_message_check and helpers),
cylc/flow/task_outputs.py (set_message_complete, get_incomplete_implied),
cylc/flow/task_job_mgr.py (_poll_task_job_callback).  Core Lean only.
-/
import CylcModel.Sched

namespace CylcModel.Msg
open CylcModel.Sched

/-- the addressed proxy and whether it is a transient object (removed from the pool) -/
structure PS where
  x : Proxy
  tr : Bool := false
  deriving Repr, Inhabited

def hasOut (ot : Option TaskDefn) (msg : String) : Bool :=
  match ot with
  | some t => t.outputs.any (·.message == msg)
  | none => false

/-- `TaskOutputs.set_message_complete` -/
def setDone (ot : Option TaskDefn) (x : Proxy) (msg : String) : Proxy × Option Bool :=
  if !hasOut ot msg then (x, none)
  else if x.isDone msg then (x, some false)
  else ({ x with done := x.done ++ [msg] }, some true)

def complete (ot : Option TaskDefn) (done : List String) : Bool :=
  match ot with
  | some t => isComplete t done
  | none => false

/-- what `spawn_children` does to the proxy itself: `remove_if_complete` -/
def afterSpawn (ot : Option TaskDefn) (ps : PS) : PS :=
  if ps.tr then ps
  else if ps.x.status.isFinal && complete ot ps.x.done then { ps with tr := true }
  else ps

/-- `get_incomplete_implied` -/
def implied (x : Proxy) (msg : String) : List String :=
  (if msg == "succeeded" || msg == "failed" then ["submitted", "started"]
   else if msg == "started" then ["submitted"] else []).filter fun m => !x.isDone m

/-- `_process_message_check`: a received message of another submit number, or any message for a waiting
task with a retry lined up, is dropped (a transient object skips the checks) -/
def dropped (ps : PS) (flag : Flag) (sn : Nat) : Bool :=
  (!ps.tr && flag == .received && sn != ps.x.submitNum) ||
  (!ps.tr && ps.x.status == .waiting && ps.x.submitNum > 0 && (ps.x.subTry > 0 || ps.x.execTry > 0))

/-- complete the output named by the message (not for the two failure events) -/
def pre (ot : Option TaskDefn) (x : Proxy) (msg : String) : Proxy × Option Bool :=
  if msg == "submit-failed" || msg == "failed" then (x, some false) else setDone ot x msg

def execMax (ot : Option TaskDefn) : Nat := match ot with | some t => t.execRetries | none => 0
def subMax (ot : Option TaskDefn) : Nat := match ot with | some t => t.subRetries | none => 0

def finStarted (ot : Option TaskDefn) (ps : PS) (flag : Flag) : PS × Bool :=
  if flag == .received && ps.x.status.rank > Status.running.rank then (ps, true) else
  (afterSpawn ot { ps with x := { (ps.x.reset (status := some .running)) with subTry := 0 } }, false)

def finSucceeded (ot : Option TaskDefn) (ps : PS) : PS × Bool :=
  (afterSpawn ot { ps with x := ps.x.reset (status := some .succeeded) }, false)

def finFailed (ot : Option TaskDefn) (ps : PS) (flag : Flag) : PS × Bool :=
  if flag == .received && ps.x.status.rank > Status.failed.rank then (ps, true) else
  if ps.x.submitNum > 0 && ps.x.execTry < execMax ot then
    -- an execution retry is lined up: back to waiting behind a retry xtrigger
    ({ ps with x := { (ps.x.reset (status := some .waiting)) with execTry := ps.x.execTry + 1, retryWait := true } },
     false)
  else
  let y := ps.x.reset (status := some .failed)
  let y := if ps.x.status != .failed then (setDone ot y "failed").1 else y
  (afterSpawn ot { ps with x := y }, false)

def finSubFailed (ot : Option TaskDefn) (ps : PS) (flag : Flag) : PS × Bool :=
  if flag == .received && ps.x.status.rank > Status.submitFailed.rank then (ps, true) else
  if ps.x.submitNum > 0 && ps.x.subTry < subMax ot then
    ({ ps with x := { (ps.x.reset (status := some .waiting)) with subTry := ps.x.subTry + 1, retryWait := true } },
     false)
  else
  let y := ps.x.reset (status := some .submitFailed)
  let y := if ps.x.status != .submitFailed then (setDone ot y "submit-failed").1 else y
  (afterSpawn ot { ps with x := y }, false)

def finSubmitted (ot : Option TaskDefn) (ps : PS) (flag : Flag) : PS × Bool :=
  if flag == .received && ps.x.status.rank ≥ Status.submitted.rank then (ps, true) else
  let ps3 : PS :=
    if ps.x.status == .preparing then
      { ps with x := (ps.x.reset (status := some .submitted)).reset (queued := some false) }
    else ps
  (afterSpawn ot ps3, false)

/-- the status part of `process_message`, after the output and the implied outputs are complete -/
def finish (ot : Option TaskDefn) (ps : PS) (flag : Flag) (msg : String) (completed : Option Bool) : PS × Bool :=
  if msg == "started" then finStarted ot ps flag
  else if msg == "succeeded" then finSucceeded ot ps
  else if msg == "failed" then finFailed ot ps flag
  else if msg == "submit-failed" then finSubFailed ot ps flag
  else if msg == "submitted" then finSubmitted ot ps flag
  else if completed == some true then (afterSpawn ot ps, false)
  else (ps, false)

/-- `TaskEventsManager.process_message` (non-forced) on one proxy; returns the proxy and whether a
poll is requested.  Same fuel discipline as `Sched.processMessage`: implied outputs are processed
first, as internal messages. -/
def step (ot : Option TaskDefn) : Nat → PS → Flag → Nat → String → PS × Bool
  | 0, ps, _, _, _ => (ps, false)
  | fuel + 1, ps, flag, sn, msg =>
    if dropped ps flag sn then (ps, false) else
    let xc := pre ot ps.x msg
    let ps2 := (implied xc.1 msg).foldl (fun st m => (step ot fuel st .internal sn m).1) { ps with x := xc.1 }
    finish ot ps2 flag msg xc.2

/-- one delivered message: flag, submit number carried by the message, text -/
structure Dlv where
  flag : Flag
  sn : Nat
  text : String
  deriving Repr

/-- any sequence of deliveries to one proxy (fuel 4 as in `Sched.step` / `processQueue`) -/
def deliver (ot : Option TaskDefn) (ps : PS) (ms : List Dlv) : PS :=
  ms.foldl (fun st m => (step ot 4 st m.flag m.sn m.text).1) ps

/-- the statuses passed through while delivering `ms` (start included) -/
def trace (ot : Option TaskDefn) (ps : PS) : List Dlv → List Status
  | [] => [ps.x.status]
  | m :: ms => ps.x.status :: trace ot (step ot 4 ps m.flag m.sn m.text).1 ms

/-! ### run signals (`task_message.split_run_signal`) -/

/-- `split_run_signal`: "failed/ERR" ↦ ("failed", some "ERR"), "failed" ↦ ("failed", none) -/
def splitRunSignal (m : String) : String × Option String :=
  let cs := m.toList
  let pre := cs.takeWhile (· != '/')
  match cs.dropWhile (· != '/') with
  | [] => (String.ofList pre, none)
  | _ :: rest => (String.ofList pre, some (String.ofList rest))

/-- the message as `process_message` acts on it: a failure reported with a run signal (`failed/ERR`,
`failed/SIGTERM` … — what job scripts send from their traps) and an abort (`aborted/<reason>`) are the
task output `failed`: the same output completion, implied outputs, backward check, retry / failed state
as the bare message `failed` (only the recorded event text differs).  Other texts are taken as they are. -/
def canon (m : String) : String :=
  match splitRunSignal m with
  | (pre, some _) => if pre == "failed" || pre == "aborted" then "failed" else m
  | (_, none) => m

/-- `_poll_task_job_callback`: the message a poll result stands for.  The poll op carries the job's state as
found by jobs-poll: `submitted`, `started`, `succeeded`, `failed` (error trap ran), `failed/<SIGNAL>`
(killed by a signal, trap ran), `submission failed`, or `killed` — the job had started, is gone from the job
runner and left neither an exit time nor a run status (died without its error trap: SIGKILL, node lost) —
which is reported as `failed`; anything else is a message line of the job status file, passed on as it is. -/
def pollMessage (state : String) : String :=
  if state == "killed" then "failed" else state

/-- a job vacation message `vacated/<SIGNAL>` (the batch system pre-empted the job and will run it again) -/
def isVacated (m : String) : Bool :=
  match splitRunSignal m with
  | (pre, some _) => pre == "vacated"
  | (_, none) => false

/-- `process_message` for a vacation message (non-forced): dropped like any message while a retry is lined
up; otherwise the task is believed to be back in the batch queue — status submitted (and not queued),
submission try number reset; no output is involved (tasks with an output named `vacated` are not modelled). -/
def vacateProxy (x : Proxy) : Proxy :=
  if x.status == .waiting && x.submitNum > 0 && (x.subTry > 0 || x.execTry > 0) then x
  else if x.status == .submitted then { x with subTry := 0 }
  else { ((x.reset (status := some .submitted)).reset (queued := some false)) with subTry := 0 }

/-! ### well-formedness of instance graphs assumed by the lifting theorems (checked by the drivers
on every extracted graph) -/

/-- no task instance has itself among its own graph children: a child with the task's own name is at
another cycle point and is not an absolute-trigger child (those address every pooled instance) -/
def noSelfChild (g : Graph) : Bool :=
  g.tasks.all fun t => t.insts.all fun pd => pd.2.children.all fun oc => oc.2.all fun c =>
    !(c.name == t.name) || (c.pt != pd.1 && !c.isAbs)

/-- every task has the standard outputs `submitted` and `started` -/
def stdOutputs (g : Graph) : Bool :=
  g.tasks.all fun t => hasOut (some t) "submitted" && hasOut (some t) "started"

/-! ### `Sched` ops + poll results -/

inductive XOp where
  | base (op : Op)
  | poll (pt : Int) (name : String) (sn : Nat) (text : String)
  deriving Repr

/-- the result of a jobs-poll command for job (p, n, sn).  `_poll_task_jobs_callback` hands the output
line to the task proxy it finds under point / name / CURRENT submit number (`_manip_task_jobs_callback`;
proxies that were never submitted are not looked up), so the result of an older job is dropped there;
`_poll_task_job_callback` then turns the job status into a message and calls
`process_message(..., FLAG_POLLED)`, which itself never looks at submit numbers. -/
def pollMatches (s : State) (p : Int) (n : String) (sn : Nat) : Bool :=
  match s.get? p n with
  | some x => x.submitNum == sn && sn != 0
  | none => false

def stepX (g : Graph) (s : State) : XOp → State
  | .base op => Sched.step g s op
  | .poll p n sn text =>
    if pollMatches s p n sn then
      if isVacated text then
        match (clearOp s).get? p n with
        | some x => (clearOp s).put (vacateProxy x)
        | none => clearOp s
      else (processMessage g 4 (clearOp s) p n .polled sn text).1
    else clearOp s

def runX (g : Graph) (ops : List XOp) : List State :=
  (ops.foldl (fun (acc : List State × State) op =>
    let s' := stepX g acc.2 op
    (acc.1 ++ [s'], s')) ([init g], init g)).1

end CylcModel.Msg
