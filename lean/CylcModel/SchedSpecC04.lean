/-
C04 — the prose runahead limit as an executable definition, and the decidable well-formedness
conditions on instance graphs under which the C04 theorems about `Sched` are stated.

Core Lean only: shared by the theorems (`SchedLemmasC04`, `Props/C04`) and by the judge in
`Drv/C04` (which evaluates `limitAt` on pools observed from the real scheduler and checks
`wfSeqs` / `wfForward` on every instance graph extracted from the real configuration).

`limitAt` does not follow the code: it sorts *all* points of *all* recurrences at or after the
base point (the code only looks at the first n+1 of each recurrence, caches them per base point
and skips the computation when the base point did not move); `Props/C04.limitAt_meaning`
states what it computes without reference to any sorting function.
-/
import CylcModel.Sched

namespace CylcModel.Sched

/-- every recurrence is given as the strictly ascending list of its points -/
def wfSeqs (g : Graph) : Bool := g.seqs.all fun q => decide (q.Pairwise (· < ·))

/-- no future triggers: graph children are never at an earlier point than their parent, and the
next parentless instance of a task is at a later point (Sched v1 has no `max_future_offset`) -/
def wfForward (g : Graph) : Bool :=
  g.tasks.all fun t => t.insts.all fun pd =>
    (pd.2.children.all fun oc => oc.2.all fun c => decide (pd.1 ≤ c.pt)) &&
    (match pd.2.nextParentless with
     | some np => decide (pd.1 < np)
     | none => true)

/-- all points of the workflow's recurrences at or after `b`: distinct, ascending -/
def pointsFrom (g : Graph) (b : Int) : List Int :=
  sortDedup (g.seqs.flatMap fun q => q.filter (· ≥ b))

/-- cap at the stop point -/
def capStop (g : Graph) (l : Int) : Int :=
  match g.stopPoint with
  | some sp => min sp l
  | none => l

/-- the limit before the stop-point cap: the (n+1)-th earliest point of the recurrences at or after
the base point `b` (the latest one when there are fewer; `b` itself when there is none) -/
def limit0At (g : Graph) (b : Int) : Int :=
  (((pointsFrom g b).take (g.runahead + 1)).getLast?).getD b

/-- `RunaheadSpec` for a count limit `Pn` without future-trigger offsets -/
def limitAt (g : Graph) (b : Int) : Int := capStop g (limit0At g b)

/-- the runahead base point: the earliest cycle point in the pool -/
def basePoint (s : State) : Option Int := minOf (s.pool.map (·.pt))

end CylcModel.Sched
