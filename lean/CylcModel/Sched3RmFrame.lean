/-
Lemmas about the `Sched3Rm` model used by the C30 theorems, part 2: the *frame* of a removal.  `Keeps K s s'`:
every pooled proxy whose key is not in `K` is still in the pool of `s'`, unchanged.  Proved primitive by primitive
(`put`, `add_to_pool`, `spawn_task` with its flow-wait recursion, `merge_flows`, `spawn_next_parentless`,
`release_held_active_task`, `remove`, the stand-down of a child, the pool part of a removal) and lifted over the
loops of `_remove_matched_tasks`.
-/
import CylcModel.Sched3RmLemmas

namespace CylcModel.Sched3Rm

abbrev Key := Int × String

theorem get?_congr {s s' : State} (h : s'.pool = s.pool) (p : Int) (n : String) : s'.get? p n = s.get? p n := by
  unfold State.get?; rw [h]

/-- every pooled proxy whose key is not in `K` is still in the pool of `s'`, unchanged -/
def Keeps (K : List Key) (s s' : State) : Prop :=
  ∀ p n x, (p, n) ∉ K → s.get? p n = some x → s'.get? p n = some x

theorem Keeps.refl (K : List Key) (s : State) : Keeps K s s := fun _ _ _ _ h => h

theorem Keeps.trans {K : List Key} {s s' s'' : State} (h1 : Keeps K s s') (h2 : Keeps K s' s'') : Keeps K s s'' :=
  fun p n x hk h => h2 p n x hk (h1 p n x hk h)

theorem Keeps.mono {K K' : List Key} {s s' : State} (h : Keeps K s s') (hK : ∀ k ∈ K, k ∈ K') : Keeps K' s s' :=
  fun p n x hk hx => h p n x (fun hc => hk (hK _ hc)) hx

theorem Keeps.of_pool {K : List Key} {s s' : State} (h : s'.pool = s.pool) : Keeps K s s' :=
  fun p n x _ hx => by rw [get?_congr h]; exact hx

theorem keeps_put (s : State) (x : Proxy) : Keeps [(x.pt, x.name)] s (s.put x) := by
  intro p n y hk hy
  rw [get?_put_other s x p n]
  · exact hy
  · intro hc
    apply hk
    rw [hc.1, hc.2]
    exact List.mem_singleton.mpr rfl

/-- `put` of a proxy filed under the key `k` -/
theorem keeps_put_key (s : State) (x : Proxy) (k : Key) (h1 : x.pt = k.1) (h2 : x.name = k.2) :
    Keeps [k] s (s.put x) := by
  have := keeps_put s x
  rw [h1, h2] at this
  exact this

theorem keeps_put_of (K : List Key) (s : State) (y : Proxy) (h : (y.pt, y.name) ∈ K) : Keeps K s (s.put y) :=
  (keeps_put s y).mono (fun k hk => by rw [List.mem_singleton.mp hk]; exact h)

theorem keeps_add (K : List Key) (s : State) (x : Proxy) : Keeps K s (s.add x) := by
  intro p n y _ hy
  unfold State.add
  split
  · exact hy
  · unfold State.get? at hy ⊢
    simp [List.find?_append, hy]

theorem find?_filter_other (l : List Proxy) (k : Key) (p : Int) (n : String) (h : (p, n) ≠ k) :
    (l.filter fun y => !(y.pt == k.1 && y.name == k.2)).find? (fun x => x.pt == p && x.name == n) =
      l.find? (fun x => x.pt == p && x.name == n) := by
  induction l with
  | nil => rfl
  | cons a l ih =>
    by_cases ha : (a.pt == k.1 && a.name == k.2) = true
    · have hk : a.pt = k.1 ∧ a.name = k.2 := by simpa using ha
      have hn : (a.pt == p && a.name == n) = false := by
        apply Bool.eq_false_iff.mpr
        intro hc
        simp only [Bool.and_eq_true, beq_iff_eq] at hc
        apply h
        rw [← hc.1, ← hc.2, hk.1, hk.2]
      rw [List.filter_cons, List.find?_cons]
      simp only [ha, Bool.not_true, Bool.false_eq_true, if_false, hn]
      exact ih
    · have ha' : (a.pt == k.1 && a.name == k.2) = false := by simpa using ha
      rw [List.filter_cons]
      simp only [ha', Bool.not_false, if_true]
      rw [List.find?_cons, List.find?_cons, ih]

theorem find?_filter_self (l : List Proxy) (k : Key) :
    (l.filter fun y => !(y.pt == k.1 && y.name == k.2)).find? (fun x => x.pt == k.1 && x.name == k.2) = none := by
  rw [List.find?_eq_none]
  intro x hx hc
  have h := (List.mem_filter.mp hx).2
  rw [hc] at h
  exact absurd h (by decide)

/-- a fold keeps what every step keeps -/
theorem foldl_keeps {α σ : Type} (proj : σ → State) (f : σ → α → σ) (K : List Key)
    (h : ∀ acc a, Keeps K (proj acc) (proj (f acc a))) : ∀ (l : List α) (acc : σ), Keeps K (proj acc) (proj (l.foldl f acc))
  | [], acc => Keeps.refl K _
  | a :: l, acc => by
    simp only [List.foldl_cons]
    exact (h acc a).trans (foldl_keeps proj f K h l (f acc a))

/-- ... with a set of touched keys per step -/
theorem foldl_keeps_flat {α σ : Type} (proj : σ → State) (f : σ → α → σ) (Kf : α → List Key)
    (h : ∀ acc a, Keeps (Kf a) (proj acc) (proj (f acc a))) :
    ∀ (l : List α) (acc : σ), Keeps (l.flatMap Kf) (proj acc) (proj (l.foldl f acc))
  | [], acc => Keeps.refl _ _
  | a :: l, acc => by
    simp only [List.foldl_cons, List.flatMap_cons]
    exact ((h acc a).mono (fun k hk => List.mem_append_left _ hk)).trans
      ((foldl_keeps_flat proj f Kf h l (f acc a)).mono (fun k hk => List.mem_append_right _ hk))

/-! ### Pool-neutral primitives -/

theorem dbFlush_pool (s : State) : (dbFlush s).pool = s.pool := rfl

theorem dbAddNewFlowRows_pool (s : State) (x : Proxy) : (dbAddNewFlowRows s x).pool = s.pool := rfl

theorem putUpdateTaskState_pool (s : State) (x : Proxy) (t : Bool) : (putUpdateTaskState s x t).pool = s.pool := rfl

theorem putUpdateTaskOutputs_pool (g : Graph) (s : State) (x : Proxy) : (putUpdateTaskOutputs g s x).pool = s.pool := rfl

theorem storeGhost_pool (s : State) (x : Proxy) : (storeGhost s x).pool = s.pool := rfl

theorem removeTaskFromFlows_pool (s : State) (n : String) (p : Int) (F : List Nat) :
    (removeTaskFromFlows s n p F).1.pool = s.pool := by
  unfold removeTaskFromFlows
  simp only
  split <;> rfl

theorem eraseHistory_pool (g : Graph) (s : State) (k : Key) (F : List Nat) : (eraseHistory g s k F).1.pool = s.pool := by
  unfold eraseHistory
  simp only
  split
  · rw [dbFlush_pool, removeTaskFromFlows_pool]
  · rw [removeTaskFromFlows_pool]

theorem holdProxy_pool (s : State) (x : Proxy) : (holdProxy s x).1.pool = s.pool := by
  unfold holdProxy
  simp only
  split <;> rfl

theorem loadDbTaskProxy_pool (g : Graph) (s : State) (name : String) (p : Int) (F : List Nat) (st : Status)
    (fw : Bool) (sn : Nat) : (loadDbTaskProxy g s name p F st fw sn).1.pool = s.pool := by
  unfold loadDbTaskProxy
  split
  · rfl
  · simp only
    split
    · rfl
    · repeat' split
      all_goals rfl

theorem holdOnSpawn_pool (s : State) (x : Proxy) (name : String) (p : Int) : (holdOnSpawn s x name p).1.pool = s.pool := by
  unfold holdOnSpawn
  split
  · exact holdProxy_pool s x
  · split
    · split
      · exact holdProxy_pool s x
      · rfl
    · rfl

theorem spawnFinish_pool (g : Graph) (s : State) (x : Proxy) (name : String) (p : Int) (isNew : Bool) :
    (spawnFinish g s x name p isNew).1.pool = s.pool := by
  unfold spawnFinish
  simp only
  split
  · rw [dbAddNewFlowRows_pool]; exact holdOnSpawn_pool s x name p
  · exact holdOnSpawn_pool s x name p

/-! ### `spawn_task` and what it spawns after a flow-wait -/

theorem spawnOnAllWith_keeps (spawn : State → String → Int → List Nat → State × Option Proxy)
    (hsp : ∀ st n q f, Keeps [] st (spawn st n q f).1) (g : Graph) (s : State) (x : Proxy) (K : List Key) :
    Keeps K s (spawnOnAllWith spawn g s x) := by
  unfold spawnOnAllWith
  split
  · exact Keeps.refl K s
  · simp only
    apply foldl_keeps (fun st => st)
    intro st m
    apply foldl_keeps (fun st => st)
    intro st c
    split
    · exact Keeps.refl K st
    · have h := hsp st c.name c.pt x.flows
      generalize spawn st c.name c.pt x.flows = r at h
      obtain ⟨st', o⟩ := r
      cases o with
      | none => exact h.mono (fun _ hk => absurd hk (by simp))
      | some y => exact (h.mono (fun _ hk => absurd hk (by simp))).trans (keeps_add K st' _)

theorem spawnAfterFlowWait_keeps (spawn : State → String → Int → List Nat → State × Option Proxy)
    (hsp : ∀ st n q f, Keeps [] st (spawn st n q f).1) (g : Graph) (s : State) (x : Proxy) (K : List Key) :
    Keeps K s (spawnAfterFlowWait spawn g s x).1 := by
  unfold spawnAfterFlowWait
  exact (spawnOnAllWith_keeps spawn hsp g s x K).trans (Keeps.of_pool rfl)

theorem spawnTaskF_keeps (g : Graph) : ∀ (fuel : Nat) (s : State) (name : String) (p : Int) (F : List Nat) (fw : Bool),
    Keeps [] s (spawnTaskF g fuel s name p F fw).1
  | 0, s, _, _, _, _ => by unfold spawnTaskF; exact Keeps.refl [] s
  | fuel + 1, s, name, p, F, fw => by
    have ih : ∀ st n q f, Keeps [] st ((fun st n q f => spawnTaskF g fuel st n q f false) st n q f).1 :=
      fun st n q f => spawnTaskF_keeps g fuel st n q f false
    unfold spawnTaskF
    simp only
    split
    · exact Keeps.refl [] s
    · have hl := loadDbTaskProxy_pool g s name p F ((taskHistory s name p F).2.1.getD .waiting) fw (taskHistory s name p F).1
      generalize loadDbTaskProxy g s name p F ((taskHistory s name p F).2.1.getD .waiting) fw (taskHistory s name p F).1 = r at hl
      obtain ⟨s1, o⟩ := r
      cases o with
      | none => exact Keeps.of_pool hl
      | some x =>
        simp only
        have h1 : Keeps [] s s1 := Keeps.of_pool hl
        split
        · exact h1
        · have hr : Keeps [] s1 (if (finalOf (taskHistory s name p F).2.1 && (taskHistory s name p F).2.2) = true then
              spawnAfterFlowWait (fun st n q f => spawnTaskF g fuel st n q f false) g s1 x else (s1, x)).1 := by
            split
            · exact spawnAfterFlowWait_keeps _ ih g s1 x []
            · exact Keeps.refl _ _
          generalize (if (finalOf (taskHistory s name p F).2.1 && (taskHistory s name p F).2.2) = true then
              spawnAfterFlowWait (fun st n q f => spawnTaskF g fuel st n q f false) g s1 x else (s1, x)) = r at hr ⊢
          split
          · exact h1.trans hr
          · exact h1.trans (hr.trans (Keeps.of_pool (spawnFinish_pool ..)))

theorem spawnTask_keeps (g : Graph) (s : State) (name : String) (p : Int) (F : List Nat) (fw : Bool) (K : List Key) :
    Keeps K s (spawnTask g s name p F fw).1 := by
  unfold spawnTask
  exact (spawnTaskF_keeps g g.fuel s name p F fw).mono (fun _ hk => absurd hk (by simp))

theorem spawnOnAll_keeps (g : Graph) (s : State) (x : Proxy) (K : List Key) : Keeps K s (spawnOnAll g s x) := by
  unfold spawnOnAll
  exact spawnOnAllWith_keeps _ (fun st n q f => spawnTask_keeps g st n q f false []) g s x K

/-! ### `merge_flows`, parentless spawning, `remove` -/

theorem mergeFlows_keeps (g : Graph) (s : State) (x : Proxy) (F : List Nat) :
    Keeps [(x.pt, x.name)] s (mergeFlows g s x F) := by
  unfold mergeFlows
  split
  · exact Keeps.refl _ s
  · simp only
    have h1 : Keeps [(x.pt, x.name)] s (dbAddNewFlowRows (s.put { x with flows := unionF x.flows F })
        { x with flows := unionF x.flows F }) :=
      (keeps_put_key s { x with flows := unionF x.flows F } (x.pt, x.name) rfl rfl).trans (Keeps.of_pool rfl)
    split
    · refine h1.trans (keeps_put_key _ _ (x.pt, x.name) ?_ ?_)
      · simp [reset_pt]
      · simp [reset_name]
    · split
      · exact h1.trans (Keeps.trans
          (keeps_put_key _ { x with flows := unionF x.flows F, flowWait := false } (x.pt, x.name) rfl rfl)
          (spawnOnAll_keeps g _ _ _))
      · exact h1

theorem spawnAndAdd_keeps (g : Graph) (s : State) (name : String) (p : Int) (F : List Nat) :
    Keeps [(p, name)] s (spawnAndAdd g s name p F) := by
  unfold spawnAndAdd
  split
  · rename_i y hy
    have hk := get?_some_key s p name y hy
    have := mergeFlows_keeps g s y F
    rw [hk.1, hk.2] at this
    exact this
  · have h := spawnTask_keeps g s name p F false [(p, name)]
    generalize spawnTask g s name p F = r at h
    obtain ⟨s1, o⟩ := r
    cases o with
    | none => exact h
    | some x => exact h.trans (keeps_add _ s1 x)

/-- the key of the next parentless instance of `k` (what `spawn_next_parentless` may spawn or merge into) -/
def succKey (g : Graph) (k : Key) : List Key :=
  match (instOf g k).bind (·.nextParentless) with
  | some np => [(np, k.2)]
  | none => []

theorem nextParentless_eq (g : Graph) (x : Proxy) :
    nextParentless g x = (instOf g (x.pt, x.name)).bind (·.nextParentless) := by
  unfold nextParentless instOf
  cases g.task? x.name with
  | none => rfl
  | some t =>
    simp only [bind, Option.bind]

theorem spawnNextParentless_keeps (g : Graph) (s : State) (x : Proxy) :
    Keeps (succKey g (x.pt, x.name)) s (spawnNextParentless g s x) := by
  unfold spawnNextParentless
  split
  · exact Keeps.refl _ s
  · unfold succKey
    rw [← nextParentless_eq]
    cases nextParentless g x with
    | none => exact Keeps.refl _ s
    | some np => exact spawnAndAdd_keeps g s x.name np x.flows

theorem releaseHeldActive_keeps (s : State) (x : Proxy) (qir : Bool) :
    Keeps [(x.pt, x.name)] s (releaseHeldActive s x qir) := by
  unfold releaseHeldActive
  simp only
  split
  · refine (keeps_put_key s _ (x.pt, x.name) ?_ ?_).trans (Keeps.of_pool rfl)
    · split <;> simp [reset_pt]
    · split <;> simp [reset_name]
  · exact Keeps.of_pool rfl

theorem remove_keeps (g : Graph) (s : State) (x : Proxy) :
    Keeps ((x.pt, x.name) :: succKey g (x.pt, x.name)) s (remove g s x) := by
  unfold remove
  simp only
  have h1 : Keeps ((x.pt, x.name) :: succKey g (x.pt, x.name)) s (releaseHeldActive s x g.releaseQueueIfReady) :=
    (releaseHeldActive_keeps s x g.releaseQueueIfReady).mono (fun k hk => by
      rw [List.mem_singleton.mp hk]; exact List.mem_cons_self)
  -- the proxy looked up again is filed under the same key
  have hkey : ((releaseHeldActive s x g.releaseQueueIfReady).get? x.pt x.name).getD x = ((releaseHeldActive s x g.releaseQueueIfReady).get? x.pt x.name).getD x := rfl
  generalize hx' : ((releaseHeldActive s x g.releaseQueueIfReady).get? x.pt x.name).getD x = x' at hkey
  have hk' : x'.pt = x.pt ∧ x'.name = x.name := by
    cases hq : (releaseHeldActive s x g.releaseQueueIfReady).get? x.pt x.name with
    | none => rw [hq] at hx'; simp only [Option.getD_none] at hx'; rw [← hx']; exact ⟨rfl, rfl⟩
    | some y =>
      rw [hq] at hx'; simp only [Option.getD_some] at hx'; rw [← hx']
      exact get?_some_key _ _ _ _ hq
  rw [hk'.1, hk'.2]
  have h2 : Keeps ((x.pt, x.name) :: succKey g (x.pt, x.name)) (releaseHeldActive s x g.releaseQueueIfReady)
      (if (!x'.flows.isEmpty && x'.runahead) = true then spawnNextParentless g (releaseHeldActive s x g.releaseQueueIfReady) x'
       else releaseHeldActive s x g.releaseQueueIfReady) := by
    split
    · have := spawnNextParentless_keeps g (releaseHeldActive s x g.releaseQueueIfReady) x'
      rw [hk'.1, hk'.2] at this
      exact this.mono (fun k hk => List.mem_cons_of_mem _ hk)
    · exact Keeps.refl _ _
  generalize (if (!x'.flows.isEmpty && x'.runahead) = true then spawnNextParentless g (releaseHeldActive s x g.releaseQueueIfReady) x'
       else releaseHeldActive s x g.releaseQueueIfReady) = s2 at h2 ⊢
  split
  · exact h1.trans h2
  · refine (h1.trans h2).trans ?_
    intro p n y hk hy
    rw [get?_congr (dbFlush_pool _), get?_congr (putUpdateTaskState_pool _ _ _)]
    unfold State.get? at hy ⊢
    simp only
    rw [find?_filter_other _ (x.pt, x.name) p n]
    · exact hy
    · intro hc
      apply hk
      rw [hc]
      exact List.mem_cons_self

/-- after `remove` the key is not in the pool -/
theorem remove_get?_none (g : Graph) (s : State) (x : Proxy) : (remove g s x).get? x.pt x.name = none := by
  unfold remove
  simp only
  generalize hx' : ((releaseHeldActive s x g.releaseQueueIfReady).get? x.pt x.name).getD x = x'
  have hk' : x'.pt = x.pt ∧ x'.name = x.name := by
    cases hq : (releaseHeldActive s x g.releaseQueueIfReady).get? x.pt x.name with
    | none => rw [hq] at hx'; simp only [Option.getD_none] at hx'; rw [← hx']; exact ⟨rfl, rfl⟩
    | some y =>
      rw [hq] at hx'; simp only [Option.getD_some] at hx'; rw [← hx']
      exact get?_some_key _ _ _ _ hq
  rw [hk'.1, hk'.2]
  generalize (if (!x'.flows.isEmpty && x'.runahead) = true then spawnNextParentless g (releaseHeldActive s x g.releaseQueueIfReady) x'
       else releaseHeldActive s x g.releaseQueueIfReady) = s2
  split
  · rename_i h
    simpa using h
  · rw [get?_congr (dbFlush_pool _), get?_congr (putUpdateTaskState_pool _ _ _)]
    unfold State.get?
    simp only
    exact find?_filter_self _ (x.pt, x.name)

/-! ### The loops of `_remove_matched_tasks` -/

/-- keys a stand-down of the child `ck` may touch: the child and its parentless successor -/
def childKeys (g : Graph) (ck : Key) : List Key := ck :: succKey g ck

theorem standDown_keeps (g : Graph) (ids : List Key) (k : Key) (F : List Nat) (acc : State × Bool) (ck : Key) :
    Keeps (childKeys g ck) acc.1 (standDown g ids k F acc ck).1 := by
  unfold standDown childKeys
  obtain ⟨st, any⟩ := acc
  simp only
  split
  · exact Keeps.refl _ st
  · rename_i c hc
    have hk := get?_some_key st ck.1 ck.2 c hc
    have hmem : ∀ (y : Proxy), y.pt = c.pt → y.name = c.name → (y.pt, y.name) ∈ ck :: succKey g ck := by
      intro y h1 h2
      rw [h1, h2, hk.1, hk.2]
      exact List.mem_cons_self
    split
    · exact Keeps.refl _ st
    · split
      · exact Keeps.refl _ st
      · split
        · refine keeps_put_of _ _ _ ?_
          exact hmem _ rfl rfl
        · split
          · refine Keeps.trans (keeps_put_of _ _ _ ?_) (keeps_put_of _ _ _ ?_)
            · exact hmem _ rfl rfl
            · exact hmem _ (reset_pt ..) (reset_name ..)
          · refine Keeps.trans ?_ (Keeps.of_pool (removeTaskFromFlows_pool _ _ _ _))
            refine Keeps.trans ?_ (Keeps.mono (remove_keeps g _ _) ?_)
            · refine Keeps.trans (keeps_put_of _ _ _ ?_) (keeps_put_of _ _ _ ?_)
              · exact hmem _ rfl rfl
              · exact hmem _ (reset_pt ..) (reset_name ..)
            · intro q hq
              simp only [reset_pt, reset_name, hk.1, hk.2] at hq
              exact hq

theorem orderBy_mem (hint l : List Key) (k : Key) (h : k ∈ orderBy hint l) : k ∈ l := by
  unfold orderBy at h
  rcases List.mem_append.mp h with h | h
  · -- the fold only ever appends members of `l`
    suffices hs : ∀ (hs : List Key) (acc : List Key), (∀ q ∈ acc, q ∈ l) →
        ∀ q ∈ hs.foldl (fun acc k => if l.contains k && !acc.contains k then acc ++ [k] else acc) acc, q ∈ l by
      exact hs hint [] (fun _ hq => absurd hq (by simp)) k h
    intro hs
    induction hs with
    | nil => intro acc ha; exact ha
    | cons a hs ih =>
      intro acc ha
      simp only [List.foldl_cons]
      apply ih
      split
      · rename_i hc
        intro q hq
        rcases List.mem_append.mp hq with hq | hq
        · exact ha q hq
        · simp only [List.mem_singleton] at hq
          simp only [Bool.and_eq_true, List.contains_iff_mem] at hc
          rw [hq]; exact hc.1
      · exact ha
  · exact (List.mem_filter.mp h).1

theorem removeDownstream_keeps (g : Graph) (s : State) (ids : List Key) (k : Key) (F : List Nat) (ch : List Key) :
    Keeps ((allChildren g k).flatMap (childKeys g)) s (removeDownstream g s ids k F ch).1 := by
  unfold removeDownstream
  simp only
  have h := foldl_keeps_flat (fun (a : State × Bool) => a.1) (standDown g ids k F) (childKeys g)
    (standDown_keeps g ids k F) (orderBy ch (allChildren g k)) (s, false)
  refine (h.mono ?_).trans (Keeps.of_pool (eraseHistory_pool g _ k F))
  intro q hq
  rw [List.mem_flatMap] at hq ⊢
  obtain ⟨c, hc, hqc⟩ := hq
  exact ⟨c, orderBy_mem ch _ c hc, hqc⟩

theorem removePooled_keeps (g : Graph) (s : State) (x : Proxy) (fr : List Nat) :
    Keeps ((x.pt, x.name) :: succKey g (x.pt, x.name)) s (removePooled g s x fr) := by
  unfold removePooled
  split
  · simp only
    split
    · exact (remove_keeps g s x).trans (Keeps.of_pool (storeGhost_pool _ _))
    · exact remove_keeps g s x
  · refine keeps_put_of _ _ _ ?_
    exact List.mem_cons_self

/-- the keys the removal of the matched id `k` may touch: the id, its parentless successor, its graph children
and their parentless successors -/
def closure1 (g : Graph) (k : Key) : List Key :=
  (k :: succKey g k) ++ (allChildren g k).flatMap (childKeys g)

theorem removeOne_keeps (g : Graph) (ids : List Key) (F : List Nat) (chs : List (Key × List Key))
    (acc : State × List Key × Bool) (k : Key) :
    Keeps (closure1 g k) acc.1 (removeOne g ids F chs acc k).1 := by
  unfold removeOne closure1
  obtain ⟨st, toKill, any⟩ := acc
  simp only
  split
  · rename_i x hx
    have hk := get?_some_key st k.1 k.2 x hx
    split
    · split
      · exact (removeDownstream_keeps g st ids k F _).mono (fun q hq => List.mem_append_right _ hq)
      · exact Keeps.refl _ st
    · have h1 := removePooled_keeps g st x (x.matchFlows F)
      rw [hk.1, hk.2] at h1
      exact (h1.mono (fun q hq => List.mem_append_left _ hq)).trans
        ((removeDownstream_keeps g _ ids k F _).mono (fun q hq => List.mem_append_right _ hq))
  · exact (removeDownstream_keeps g st ids k F _).mono (fun q hq => List.mem_append_right _ hq)

/-- **the frame of the removal loop**: a pooled proxy outside the closure of the matched ids is untouched -/
theorem removeCore_keeps (g : Graph) (s : State) (ids : List Key) (F : List Nat) (chs : List (Key × List Key)) :
    Keeps (ids.flatMap (closure1 g)) s (removeCore g s ids F chs).1 := by
  unfold removeCore
  exact foldl_keeps_flat (fun (a : State × List Key × Bool) => a.1) (removeOne g ids F chs) (closure1 g)
    (removeOne_keeps g ids F chs) ids (s, [], false)

end CylcModel.Sched3Rm
