/-
Lemmas about the `Sched3Rm` model used by the C30 theorems, part 4: the run-DB tables.  `remove_task_from_flows`
(`UPDATE OR REPLACE ... SET flow_nums`) followed by a commit leaves no row of the task that carries one of the
removed flows; rows of other tasks are untouched; with such rows `_get_task_history` finds nothing, so `spawn_task`
hands out a new instance (waiting, no outputs).
-/
import CylcModel.Sched3RmFrame

namespace CylcModel.Sched3Rm

/-- no flow of `fl` is one the removal from `F` concerns (`F = []`: every flow is concerned) -/
def Erased (F fl : List Nat) : Prop := ∀ n ∈ fl, F ≠ [] ∧ n ∉ F

theorem erased_nil (F : List Nat) : Erased F [] := fun _ h => absurd h (by simp)

theorem erased_diffF (F old : List Nat) (hF : F ≠ []) : Erased F (diffF old F) := by
  intro n hn
  exact ⟨hF, ((mem_diffF old F n).mp hn).2⟩

theorem erased_interF_nil (F F' fl : List Nat) (h : Erased F fl) (hsub : F = [] ∨ ∀ n ∈ F', n ∈ F) : interF F' fl = [] := by
  unfold interF
  rw [List.filter_eq_nil_iff]
  intro n hn hc
  have hc' : n ∈ fl := by simpa using hc
  obtain ⟨h1, h2⟩ := h n hc'
  rcases hsub with h3 | h3
  · exact h1 h3
  · exact h2 (h3 n hn)

/-! ### `UPDATE OR REPLACE ... SET flow_nums = new` on `task_states` -/

/-- the row is one of task `name` at point `p` -/
def StRow.isOf (r : StRow) (name : String) (p : Int) : Prop := r.name = name ∧ r.pt = p

def matchOld (old : Option (List Nat)) (fl : List Nat) : Bool :=
  match old with | some o => fl == o | none => true

theorem stSetFlows_spec (rows : List StRow) (name : String) (p : Int) (old : Option (List Nat)) (new : List Nat) :
    (∀ r ∈ stSetFlows rows name p old new, r.isOf name p → r.flows = new ∨ (r ∈ rows ∧ matchOld old r.flows = false)) ∧
    (∀ r, ¬ r.isOf name p → (r ∈ stSetFlows rows name p old new ↔ r ∈ rows)) := by
  unfold stSetFlows
  simp only
  -- the hits still to be processed
  generalize hh : (rows.filter fun r => r.name == name && r.pt == p &&
    (match old with | some o => r.flows == o | none => true)) = hits
  have hhit : ∀ r ∈ rows, r.isOf name p → matchOld old r.flows = true → r ∈ hits := by
    intro r hr hk hm
    rw [← hh, List.mem_filter]
    refine ⟨hr, ?_⟩
    unfold StRow.isOf at hk
    unfold matchOld at hm
    simp only [hk.1, hk.2, beq_self_eq_true, Bool.true_and]
    exact hm
  have hhk : ∀ h ∈ hits, h.isOf name p := by
    intro h hm
    rw [← hh, List.mem_filter] at hm
    have := hm.2
    simp only [Bool.and_eq_true, beq_iff_eq] at this
    exact ⟨this.1.1, this.1.2⟩
  clear hh
  -- invariant of the fold
  suffices hinv : ∀ (hits : List StRow) (acc : List StRow), (∀ h ∈ hits, h.isOf name p) →
      (∀ r ∈ acc, r.isOf name p → r.flows = new ∨ (r ∈ rows ∧ (matchOld old r.flows = true → r ∈ hits))) →
      (∀ r, ¬ r.isOf name p → (r ∈ acc ↔ r ∈ rows)) →
      (∀ r ∈ hits.foldl (fun acc h =>
          if !(acc.any fun r => r == h) then acc else
          (acc.filter fun r => r == h || !(r.name == name && r.pt == p && r.flows == new)).map
            fun r => if r == h then { r with flows := new } else r) acc,
        r.isOf name p → r.flows = new ∨ (r ∈ rows ∧ matchOld old r.flows = false)) ∧
      (∀ r, ¬ r.isOf name p → (r ∈ hits.foldl (fun acc h =>
          if !(acc.any fun r => r == h) then acc else
          (acc.filter fun r => r == h || !(r.name == name && r.pt == p && r.flows == new)).map
            fun r => if r == h then { r with flows := new } else r) acc ↔ r ∈ rows)) by
    exact hinv hits rows hhk (fun r hr hk => Or.inr ⟨hr, fun hm => hhit r hr hk hm⟩) (fun r _ => Iff.rfl)
  intro hits
  induction hits with
  | nil =>
    intro acc _ h1 h2
    refine ⟨?_, h2⟩
    intro r hr hk
    rcases h1 r hr hk with h | ⟨h, h'⟩
    · exact Or.inl h
    · refine Or.inr ⟨h, ?_⟩
      cases hm : matchOld old r.flows with
      | false => rfl
      | true => exact absurd (h' hm) (by simp)
  | cons h rest ih =>
    intro acc hk h1 h2
    simp only [List.foldl_cons]
    have hkh : h.isOf name p := hk h List.mem_cons_self
    apply ih
    · exact fun q hq => hk q (List.mem_cons_of_mem _ hq)
    · by_cases hany : (acc.any fun r => r == h) = true
      · simp only [hany, Bool.not_true, Bool.false_eq_true, if_false]
        intro r'' hr'' hk''
        rw [List.mem_map] at hr''
        obtain ⟨r, hr, hrr⟩ := hr''
        have hracc : r ∈ acc := (List.mem_filter.mp hr).1
        by_cases heq : (r == h) = true
        · rw [if_pos heq] at hrr
          left; rw [← hrr]
        · rw [if_neg heq] at hrr
          rw [← hrr] at hk'' ⊢
          rcases h1 r hracc hk'' with h | ⟨h3, h4⟩
          · exact Or.inl h
          · refine Or.inr ⟨h3, fun hm => ?_⟩
            rcases List.mem_cons.mp (h4 hm) with h5 | h5
            · exact absurd (by rw [h5]; exact beq_self_eq_true h) heq
            · exact h5
      · have hany' : (acc.any fun r => r == h) = false := Bool.eq_false_iff.mpr hany
        simp only [hany', Bool.not_false, if_true]
        intro r hr hk'
        rcases h1 r hr hk' with h3 | ⟨h3, h4⟩
        · exact Or.inl h3
        · refine Or.inr ⟨h3, fun hm => ?_⟩
          rcases List.mem_cons.mp (h4 hm) with h5 | h5
          · exfalso
            have : (acc.any fun r => r == h) = true := List.any_eq_true.mpr ⟨r, hr, by rw [h5]; exact beq_self_eq_true h⟩
            rw [hany'] at this
            exact absurd this (by decide)
          · exact h5
    · intro r hnk
      by_cases hany : (acc.any fun r => r == h) = true
      · simp only [hany, Bool.not_true, Bool.false_eq_true, if_false]
        rw [← h2 r hnk, List.mem_map]
        constructor
        · rintro ⟨r0, hr0, hrr⟩
          have hracc : r0 ∈ acc := (List.mem_filter.mp hr0).1
          by_cases heq : (r0 == h) = true
          · rw [if_pos heq] at hrr
            exfalso
            apply hnk
            rw [← hrr]
            have : r0 = h := by simpa using heq
            rw [this]
            exact hkh
          · rw [if_neg heq] at hrr
            rw [← hrr]; exact hracc
        · intro hr
          refine ⟨r, ?_, ?_⟩
          · rw [List.mem_filter]
            refine ⟨hr, ?_⟩
            have : (r.name == name && r.pt == p && r.flows == new) = false := by
              apply Bool.eq_false_iff.mpr
              intro hc
              simp only [Bool.and_eq_true, beq_iff_eq] at hc
              exact hnk ⟨hc.1.1, hc.1.2⟩
            simp [this]
          · have : (r == h) = false := by
              apply Bool.eq_false_iff.mpr
              intro hc
              have : r = h := by simpa using hc
              exact hnk (by rw [this]; exact hkh)
            simp [this]
      · have hany' : (acc.any fun r => r == h) = false := Bool.eq_false_iff.mpr hany
        simp only [hany', Bool.not_false, if_true]
        exact h2 r hnk

/-- the row is one of task `name` at point `p` -/
def OutRow.isOf (r : OutRow) (name : String) (p : Int) : Prop := r.name = name ∧ r.pt = p


theorem outSetFlows_spec (rows : List OutRow) (name : String) (p : Int) (old : Option (List Nat)) (new : List Nat) :
    (∀ r ∈ outSetFlows rows name p old new, r.isOf name p → r.flows = new ∨ (r ∈ rows ∧ matchOld old r.flows = false)) ∧
    (∀ r, ¬ r.isOf name p → (r ∈ outSetFlows rows name p old new ↔ r ∈ rows)) := by
  unfold outSetFlows
  simp only
  -- the hits still to be processed
  generalize hh : (rows.filter fun r => r.name == name && r.pt == p &&
    (match old with | some o => r.flows == o | none => true)) = hits
  have hhit : ∀ r ∈ rows, r.isOf name p → matchOld old r.flows = true → r ∈ hits := by
    intro r hr hk hm
    rw [← hh, List.mem_filter]
    refine ⟨hr, ?_⟩
    unfold OutRow.isOf at hk
    unfold matchOld at hm
    simp only [hk.1, hk.2, beq_self_eq_true, Bool.true_and]
    exact hm
  have hhk : ∀ h ∈ hits, h.isOf name p := by
    intro h hm
    rw [← hh, List.mem_filter] at hm
    have := hm.2
    simp only [Bool.and_eq_true, beq_iff_eq] at this
    exact ⟨this.1.1, this.1.2⟩
  clear hh
  -- invariant of the fold
  suffices hinv : ∀ (hits : List OutRow) (acc : List OutRow), (∀ h ∈ hits, h.isOf name p) →
      (∀ r ∈ acc, r.isOf name p → r.flows = new ∨ (r ∈ rows ∧ (matchOld old r.flows = true → r ∈ hits))) →
      (∀ r, ¬ r.isOf name p → (r ∈ acc ↔ r ∈ rows)) →
      (∀ r ∈ hits.foldl (fun acc h =>
          if !(acc.any fun r => r == h) then acc else
          (acc.filter fun r => r == h || !(r.name == name && r.pt == p && r.flows == new)).map
            fun r => if r == h then { r with flows := new } else r) acc,
        r.isOf name p → r.flows = new ∨ (r ∈ rows ∧ matchOld old r.flows = false)) ∧
      (∀ r, ¬ r.isOf name p → (r ∈ hits.foldl (fun acc h =>
          if !(acc.any fun r => r == h) then acc else
          (acc.filter fun r => r == h || !(r.name == name && r.pt == p && r.flows == new)).map
            fun r => if r == h then { r with flows := new } else r) acc ↔ r ∈ rows)) by
    exact hinv hits rows hhk (fun r hr hk => Or.inr ⟨hr, fun hm => hhit r hr hk hm⟩) (fun r _ => Iff.rfl)
  intro hits
  induction hits with
  | nil =>
    intro acc _ h1 h2
    refine ⟨?_, h2⟩
    intro r hr hk
    rcases h1 r hr hk with h | ⟨h, h'⟩
    · exact Or.inl h
    · refine Or.inr ⟨h, ?_⟩
      cases hm : matchOld old r.flows with
      | false => rfl
      | true => exact absurd (h' hm) (by simp)
  | cons h rest ih =>
    intro acc hk h1 h2
    simp only [List.foldl_cons]
    have hkh : h.isOf name p := hk h List.mem_cons_self
    apply ih
    · exact fun q hq => hk q (List.mem_cons_of_mem _ hq)
    · by_cases hany : (acc.any fun r => r == h) = true
      · simp only [hany, Bool.not_true, Bool.false_eq_true, if_false]
        intro r'' hr'' hk''
        rw [List.mem_map] at hr''
        obtain ⟨r, hr, hrr⟩ := hr''
        have hracc : r ∈ acc := (List.mem_filter.mp hr).1
        by_cases heq : (r == h) = true
        · rw [if_pos heq] at hrr
          left; rw [← hrr]
        · rw [if_neg heq] at hrr
          rw [← hrr] at hk'' ⊢
          rcases h1 r hracc hk'' with h | ⟨h3, h4⟩
          · exact Or.inl h
          · refine Or.inr ⟨h3, fun hm => ?_⟩
            rcases List.mem_cons.mp (h4 hm) with h5 | h5
            · exact absurd (by rw [h5]; exact beq_self_eq_true h) heq
            · exact h5
      · have hany' : (acc.any fun r => r == h) = false := Bool.eq_false_iff.mpr hany
        simp only [hany', Bool.not_false, if_true]
        intro r hr hk'
        rcases h1 r hr hk' with h3 | ⟨h3, h4⟩
        · exact Or.inl h3
        · refine Or.inr ⟨h3, fun hm => ?_⟩
          rcases List.mem_cons.mp (h4 hm) with h5 | h5
          · exfalso
            have : (acc.any fun r => r == h) = true := List.any_eq_true.mpr ⟨r, hr, by rw [h5]; exact beq_self_eq_true h⟩
            rw [hany'] at this
            exact absurd this (by decide)
          · exact h5
    · intro r hnk
      by_cases hany : (acc.any fun r => r == h) = true
      · simp only [hany, Bool.not_true, Bool.false_eq_true, if_false]
        rw [← h2 r hnk, List.mem_map]
        constructor
        · rintro ⟨r0, hr0, hrr⟩
          have hracc : r0 ∈ acc := (List.mem_filter.mp hr0).1
          by_cases heq : (r0 == h) = true
          · rw [if_pos heq] at hrr
            exfalso
            apply hnk
            rw [← hrr]
            have : r0 = h := by simpa using heq
            rw [this]
            exact hkh
          · rw [if_neg heq] at hrr
            rw [← hrr]; exact hracc
        · intro hr
          refine ⟨r, ?_, ?_⟩
          · rw [List.mem_filter]
            refine ⟨hr, ?_⟩
            have : (r.name == name && r.pt == p && r.flows == new) = false := by
              apply Bool.eq_false_iff.mpr
              intro hc
              simp only [Bool.and_eq_true, beq_iff_eq] at hc
              exact hnk ⟨hc.1.1, hc.1.2⟩
            simp [this]
          · have : (r == h) = false := by
              apply Bool.eq_false_iff.mpr
              intro hc
              have : r = h := by simpa using hc
              exact hnk (by rw [this]; exact hkh)
            simp [this]
      · have hany' : (acc.any fun r => r == h) = false := Bool.eq_false_iff.mpr hany
        simp only [hany', Bool.not_false, if_true]
        exact h2 r hnk

/-! ### Sequences of `UPDATE`s queued by `remove_task_from_flows` -/

/-- the flow set `fl` contains a flow to remove -/
def hitB (F fl : List Nat) : Bool := !(interF fl F).isEmpty

theorem hitB_diffF (F old : List Nat) : hitB F (diffF old F) = false := by
  unfold hitB interF diffF
  simp only [Bool.not_eq_false', List.isEmpty_iff, List.filter_filter]
  rw [List.filter_eq_nil_iff]
  intro n _
  simp

theorem erased_of_not_hit (F fl : List Nat) (hF : F ≠ []) (h : hitB F fl = false) : Erased F fl := by
  intro n hn
  refine ⟨hF, fun hc => ?_⟩
  unfold hitB at h
  simp only [Bool.not_eq_false', List.isEmpty_iff] at h
  have : n ∈ interF fl F := (mem_interF fl F n).mpr ⟨hn, hc⟩
  rw [h] at this
  exact absurd this (by simp)

theorem mem_insertByStr {α : Type} (key : α → String) (a x : α) (l : List α) :
    x ∈ insertByStr key a l ↔ x = a ∨ x ∈ l := by
  induction l with
  | nil => simp [insertByStr]
  | cons y ys ih =>
    unfold insertByStr
    split
    · simp
    · simp only [List.mem_cons, ih]
      constructor
      · rintro (h | h | h)
        · exact Or.inr (Or.inl h)
        · exact Or.inl h
        · exact Or.inr (Or.inr h)
      · rintro (h | h | h)
        · exact Or.inr (Or.inl h)
        · exact Or.inl h
        · exact Or.inr (Or.inr h)

theorem mem_foldl_insertByStr {α : Type} (key : α → String) (x : α) (l init : List α) :
    x ∈ l.foldl (fun acc r => insertByStr key r acc) init ↔ x ∈ l ∨ x ∈ init := by
  induction l generalizing init with
  | nil => simp
  | cons a l ih =>
    simp only [List.foldl_cons, ih, mem_insertByStr, List.mem_cons]
    constructor
    · rintro (h | h | h)
      · exact Or.inl (Or.inr h)
      · exact Or.inl (Or.inl h)
      · exact Or.inr h
    · rintro ((h | h) | h)
      · exact Or.inr (Or.inl h)
      · exact Or.inl h
      · exact Or.inr (Or.inr h)

theorem mem_selectStates (s : State) (name : String) (p : Int) (r : StRow) :
    r ∈ selectStates s name p ↔ r ∈ s.stRows ∧ r.isOf name p := by
  unfold selectStates StRow.isOf
  rw [mem_foldl_insertByStr]
  simp [List.mem_filter]

theorem mem_selectOutRows (s : State) (name : String) (p : Int) (r : OutRow) :
    r ∈ selectOutRows s name p ↔ r ∈ s.outRows ∧ r.isOf name p := by
  unfold selectOutRows OutRow.isOf
  rw [mem_foldl_insertByStr]
  simp [List.mem_filter]

/-- after the statements for the flow sets `L` no row of the task carries a removed flow, provided `L` lists every
flow set of the task's rows that contains one -/
theorem stSome_fold (name : String) (p : Int) (F : List Nat) : ∀ (L : List (List Nat)) (rows : List StRow),
    (∀ r ∈ L.foldl (fun rows old => stSetFlows rows name p (some old) (diffF old F)) rows, r.isOf name p →
      hitB F r.flows = true → (∃ r0 ∈ rows, r0.isOf name p ∧ r0.flows = r.flows) ∧ r.flows ∉ L) ∧
    (∀ r, ¬ r.isOf name p →
      (r ∈ L.foldl (fun rows old => stSetFlows rows name p (some old) (diffF old F)) rows ↔ r ∈ rows))
  | [], rows => ⟨fun r hr hk _ => ⟨⟨r, hr, hk, rfl⟩, by simp⟩, fun _ _ => Iff.rfl⟩
  | old :: rest, rows => by
    simp only [List.foldl_cons]
    obtain ⟨ih1, ih2⟩ := stSome_fold name p F rest (stSetFlows rows name p (some old) (diffF old F))
    obtain ⟨sp1, sp2⟩ := stSetFlows_spec rows name p (some old) (diffF old F)
    refine ⟨?_, fun r hnk => (ih2 r hnk).trans (sp2 r hnk)⟩
    intro r hr hk hhit
    obtain ⟨⟨r1, hr1, hk1, hfl⟩, hnot⟩ := ih1 r hr hk hhit
    rcases sp1 r1 hr1 hk1 with h | ⟨h, hm⟩
    · exfalso
      rw [← hfl, h, hitB_diffF] at hhit
      exact absurd hhit (by decide)
    · refine ⟨⟨r1, h, hk1, hfl⟩, ?_⟩
      intro hc
      rcases List.mem_cons.mp hc with h5 | h5
      · unfold matchOld at hm
        simp only [beq_eq_false_iff_ne, ne_eq] at hm
        exact hm (by rw [hfl, h5])
      · exact hnot h5

theorem outSome_fold (name : String) (p : Int) (F : List Nat) : ∀ (L : List (List Nat)) (rows : List OutRow),
    (∀ r ∈ L.foldl (fun rows old => outSetFlows rows name p (some old) (diffF old F)) rows, r.isOf name p →
      hitB F r.flows = true → (∃ r0 ∈ rows, r0.isOf name p ∧ r0.flows = r.flows) ∧ r.flows ∉ L) ∧
    (∀ r, ¬ r.isOf name p →
      (r ∈ L.foldl (fun rows old => outSetFlows rows name p (some old) (diffF old F)) rows ↔ r ∈ rows))
  | [], rows => ⟨fun r hr hk _ => ⟨⟨r, hr, hk, rfl⟩, by simp⟩, fun _ _ => Iff.rfl⟩
  | old :: rest, rows => by
    simp only [List.foldl_cons]
    obtain ⟨ih1, ih2⟩ := outSome_fold name p F rest (outSetFlows rows name p (some old) (diffF old F))
    obtain ⟨sp1, sp2⟩ := outSetFlows_spec rows name p (some old) (diffF old F)
    refine ⟨?_, fun r hnk => (ih2 r hnk).trans (sp2 r hnk)⟩
    intro r hr hk hhit
    obtain ⟨⟨r1, hr1, hk1, hfl⟩, hnot⟩ := ih1 r hr hk hhit
    rcases sp1 r1 hr1 hk1 with h | ⟨h, hm⟩
    · exfalso
      rw [← hfl, h, hitB_diffF] at hhit
      exact absurd hhit (by decide)
    · refine ⟨⟨r1, h, hk1, hfl⟩, ?_⟩
      intro hc
      rcases List.mem_cons.mp hc with h5 | h5
      · unfold matchOld at hm
        simp only [beq_eq_false_iff_ne, ne_eq] at hm
        exact hm (by rw [hfl, h5])
      · exact hnot h5

/-! ### The commit -/

/-- nothing is queued for the two tables -/
def Quiet (s : State) : Prop := s.qStIns = [] ∧ s.qStUpd = [] ∧ s.qOutIns = [] ∧ s.qOutUpd = []

theorem kindsOf_fold_const (c : Nat) : ∀ (l : List Nat), (∀ x ∈ l, x = c) →
    l.foldl (fun acc k => if acc.contains k then acc else acc ++ [k]) [c] = [c]
  | [], _ => rfl
  | a :: l, h => by
    have ha : a = c := h a List.mem_cons_self
    simp only [List.foldl_cons, ha, List.contains_cons, beq_self_eq_true, Bool.true_or, if_true]
    exact kindsOf_fold_const c l (fun x hx => h x (List.mem_cons_of_mem _ hx))

theorem kindsOf_const (c : Nat) (l : List Nat) (hne : l ≠ []) (h : ∀ x ∈ l, x = c) : kindsOf l = [c] := by
  unfold kindsOf
  cases l with
  | nil => exact absurd rfl hne
  | cons a l =>
    have ha : a = c := h a List.mem_cons_self
    simp only [List.foldl_cons, ha, List.contains_nil, Bool.false_eq_true, if_false, List.nil_append]
    exact kindsOf_fold_const c l (fun x hx => h x (List.mem_cons_of_mem _ hx))

theorem flush_st_of (S : State) (c : Nat) (hins : S.qStIns = []) (hk : ∀ u ∈ S.qStUpd, u.kind = c) :
    (dbFlush S).stRows = S.qStUpd.foldl applyStUpd S.stRows := by
  unfold dbFlush
  simp only [hins, List.foldl_nil]
  cases hu : S.qStUpd with
  | nil => simp [kindsOf]
  | cons u us =>
    rw [← hu]
    rw [kindsOf_const c]
    · simp only [List.foldl_cons, List.foldl_nil]
      congr 1
      rw [List.filter_eq_self]
      intro a ha
      simp [hk a ha]
    · rw [hu]; simp
    · intro x hx
      rw [List.mem_map] at hx
      obtain ⟨a, ha, hax⟩ := hx
      rw [← hax]; exact hk a ha

theorem flush_out_of (S : State) (c : Nat) (hins : S.qOutIns = []) (hk : ∀ u ∈ S.qOutUpd, u.kind = c) :
    (dbFlush S).outRows = S.qOutUpd.foldl applyOutUpd S.outRows := by
  unfold dbFlush
  simp only [hins, List.foldl_nil]
  cases hu : S.qOutUpd with
  | nil => simp [kindsOf]
  | cons u us =>
    rw [← hu]
    rw [kindsOf_const c]
    · simp only [List.foldl_cons, List.foldl_nil]
      congr 1
      rw [List.filter_eq_self]
      intro a ha
      simp [hk a ha]
    · rw [hu]; simp
    · intro x hx
      rw [List.mem_map] at hx
      obtain ⟨a, ha, hax⟩ := hx
      rw [← hax]; exact hk a ha

theorem rtff_stRows (s : State) (n : String) (p : Int) (F : List Nat) :
    (removeTaskFromFlows s n p F).1.stRows = s.stRows := by
  unfold removeTaskFromFlows; simp only; split <;> rfl

theorem rtff_outRows (s : State) (n : String) (p : Int) (F : List Nat) :
    (removeTaskFromFlows s n p F).1.outRows = s.outRows := by
  unfold removeTaskFromFlows; simp only; split <;> rfl

theorem rtff_qStIns (s : State) (n : String) (p : Int) (F : List Nat) :
    (removeTaskFromFlows s n p F).1.qStIns = s.qStIns := by
  unfold removeTaskFromFlows; simp only; split <;> rfl

theorem rtff_qOutIns (s : State) (n : String) (p : Int) (F : List Nat) :
    (removeTaskFromFlows s n p F).1.qOutIns = s.qOutIns := by
  unfold removeTaskFromFlows; simp only; split <;> rfl

theorem rtff_qStUpd (s : State) (n : String) (p : Int) (F : List Nat) :
    (removeTaskFromFlows s n p F).1.qStUpd = s.qStUpd ++
      (if F.isEmpty = true then [StUpd.rmAll n p]
       else (((selectStates s n p).map (·.flows)).filter (hitB F)).map fun f => StUpd.rmSome n p f (diffF f F)) := by
  unfold removeTaskFromFlows; simp only; split <;> rfl

theorem rtff_qOutUpd (s : State) (n : String) (p : Int) (F : List Nat) :
    (removeTaskFromFlows s n p F).1.qOutUpd = s.qOutUpd ++
      (if F.isEmpty = true then [OutUpd.rmAll n p]
       else (((selectOutRows s n p).map (·.flows)).filter (hitB F)).map fun f => OutUpd.rmSome n p f (diffF f F)) := by
  unfold removeTaskFromFlows; simp only; split <;> rfl

/-- **`remove_task_from_flows` + commit, table `task_states`**: no row of the task carries a removed flow any
more; the rows of every other task are exactly what they were -/
theorem erase_states (s : State) (name : String) (p : Int) (F : List Nat) (hq : Quiet s) :
    (∀ r ∈ (dbFlush (removeTaskFromFlows s name p F).1).stRows, r.isOf name p → Erased F r.flows) ∧
    (∀ r, ¬ r.isOf name p → (r ∈ (dbFlush (removeTaskFromFlows s name p F).1).stRows ↔ r ∈ s.stRows)) := by
  obtain ⟨q1, q2, _, _⟩ := hq
  by_cases hF : F.isEmpty = true
  · rw [flush_st_of _ 4 (by rw [rtff_qStIns]; exact q1) (by
      intro u hu
      rw [rtff_qStUpd, q2, if_pos hF] at hu
      simp only [List.nil_append, List.mem_singleton] at hu
      rw [hu]; rfl)]
    rw [rtff_qStUpd, rtff_stRows, q2, if_pos hF]
    simp only [List.nil_append, List.foldl_cons, List.foldl_nil, applyStUpd]
    obtain ⟨sp1, sp2⟩ := stSetFlows_spec s.stRows name p none []
    refine ⟨?_, sp2⟩
    intro r hr hk
    rcases sp1 r hr hk with h | ⟨_, h⟩
    · rw [h]; exact erased_nil F
    · exact absurd h (by simp [matchOld])
  · have hFne : F ≠ [] := fun hc => hF (by rw [hc]; rfl)
    rw [flush_st_of _ 5 (by rw [rtff_qStIns]; exact q1) (by
      intro u hu
      rw [rtff_qStUpd, q2, if_neg hF] at hu
      simp only [List.nil_append, List.mem_map] at hu
      obtain ⟨f, _, hf⟩ := hu
      rw [← hf]; rfl)]
    rw [rtff_qStUpd, rtff_stRows, q2, if_neg hF]
    simp only [List.nil_append, List.foldl_map, applyStUpd]
    obtain ⟨f1, f2⟩ := stSome_fold name p F
      (List.filter (hitB F) (List.map (fun x => x.flows) (selectStates s name p))) s.stRows
    refine ⟨?_, f2⟩
    intro r hr hk
    apply erased_of_not_hit F r.flows hFne
    cases hh : hitB F r.flows with
    | false => rfl
    | true =>
      exfalso
      obtain ⟨⟨r0, hr0, hk0, hfl⟩, hnot⟩ := f1 r hr hk hh
      apply hnot
      rw [List.mem_filter]
      refine ⟨?_, ?_⟩
      · rw [List.mem_map]
        exact ⟨r0, (mem_selectStates s name p r0).mpr ⟨hr0, hk0⟩, hfl⟩
      · exact hh

/-- **... table `task_outputs`** -/
theorem erase_outputs (s : State) (name : String) (p : Int) (F : List Nat) (hq : Quiet s) :
    (∀ r ∈ (dbFlush (removeTaskFromFlows s name p F).1).outRows, r.isOf name p → Erased F r.flows) ∧
    (∀ r, ¬ r.isOf name p → (r ∈ (dbFlush (removeTaskFromFlows s name p F).1).outRows ↔ r ∈ s.outRows)) := by
  obtain ⟨_, _, q1, q2⟩ := hq
  by_cases hF : F.isEmpty = true
  · rw [flush_out_of _ 1 (by rw [rtff_qOutIns]; exact q1) (by
      intro u hu
      rw [rtff_qOutUpd, q2, if_pos hF] at hu
      simp only [List.nil_append, List.mem_singleton] at hu
      rw [hu]; rfl)]
    rw [rtff_qOutUpd, rtff_outRows, q2, if_pos hF]
    simp only [List.nil_append, List.foldl_cons, List.foldl_nil, applyOutUpd]
    obtain ⟨sp1, sp2⟩ := outSetFlows_spec s.outRows name p none []
    refine ⟨?_, sp2⟩
    intro r hr hk
    rcases sp1 r hr hk with h | ⟨_, h⟩
    · rw [h]; exact erased_nil F
    · exact absurd h (by simp [matchOld])
  · have hFne : F ≠ [] := fun hc => hF (by rw [hc]; rfl)
    rw [flush_out_of _ 2 (by rw [rtff_qOutIns]; exact q1) (by
      intro u hu
      rw [rtff_qOutUpd, q2, if_neg hF] at hu
      simp only [List.nil_append, List.mem_map] at hu
      obtain ⟨f, _, hf⟩ := hu
      rw [← hf]; rfl)]
    rw [rtff_qOutUpd, rtff_outRows, q2, if_neg hF]
    simp only [List.nil_append, List.foldl_map, applyOutUpd]
    obtain ⟨f1, f2⟩ := outSome_fold name p F
      (List.filter (hitB F) (List.map (fun x => x.flows) (selectOutRows s name p))) s.outRows
    refine ⟨?_, f2⟩
    intro r hr hk
    apply erased_of_not_hit F r.flows hFne
    cases hh : hitB F r.flows with
    | false => rfl
    | true =>
      exfalso
      obtain ⟨⟨r0, hr0, hk0, hfl⟩, hnot⟩ := f1 r hr hk hh
      apply hnot
      rw [List.mem_filter]
      refine ⟨?_, ?_⟩
      · rw [List.mem_map]
        exact ⟨r0, (mem_selectOutRows s name p r0).mpr ⟨hr0, hk0⟩, hfl⟩
      · exact hh

/-! ### A task whose history is erased is spawned like a new one -/

theorem taskHistory_fold_none (F' : List Nat) : ∀ (l : List StRow), (∀ r ∈ l, interF F' r.flows = []) →
    l.foldl (fun (acc : Option Status × Bool × Bool) r =>
      if acc.2.2 then acc
      else if !(interF F' r.flows).isEmpty then (some r.status, r.flowWait, r.status.isFinal)
      else acc) (none, false, false) = (none, false, false)
  | [], _ => rfl
  | a :: l, h => by
    simp only [List.foldl_cons, Bool.false_eq_true, if_false, h a List.mem_cons_self, List.isEmpty_nil, Bool.not_true]
    exact taskHistory_fold_none F' l (fun r hr => h r (List.mem_cons_of_mem _ hr))

/-- with the rows of the task erased from `F`, `_get_task_history` for flows within `F` finds no earlier status -/
theorem taskHistory_forgotten (s : State) (name : String) (p : Int) (F F' : List Nat)
    (h : ∀ r ∈ s.stRows, r.isOf name p → Erased F r.flows) (hsub : F = [] ∨ ∀ n ∈ F', n ∈ F) :
    (taskHistory s name p F').2 = (none, false) := by
  unfold taskHistory
  simp only
  rw [taskHistory_fold_none F' (selectStates s name p)]
  intro r hr
  obtain ⟨h1, h2⟩ := (mem_selectStates s name p r).mp hr
  exact erased_interF_nil F F' r.flows (h r h1 h2) hsub

theorem selectOutputs_flows (s : State) (name : String) (p : Int) :
    ∀ e ∈ selectOutputs s name p, ∃ r ∈ selectOutRows s name p, e.2 = r.flows := by
  unfold selectOutputs
  generalize selectOutRows s name p = rows
  suffices h : ∀ (l : List OutRow) (acc : List (List String × List Nat)),
      (∀ e ∈ acc, ∃ r ∈ rows, e.2 = r.flows) → (∀ r ∈ l, r ∈ rows) →
      ∀ e ∈ l.foldl (fun acc r =>
        if acc.any (fun e => e.1 == r.outs) then acc.map fun e => if e.1 == r.outs then (e.1, r.flows) else e
        else acc ++ [(r.outs, r.flows)]) acc, ∃ r ∈ rows, e.2 = r.flows by
    exact h rows [] (fun _ he => absurd he (by simp)) (fun _ hr => hr)
  intro l
  induction l with
  | nil => intro acc h _; exact h
  | cons a l ih =>
    intro acc h hl
    simp only [List.foldl_cons]
    apply ih
    · split
      · intro e he
        rw [List.mem_map] at he
        obtain ⟨e0, he0, hee⟩ := he
        split at hee
        · rw [← hee]; exact ⟨a, hl a List.mem_cons_self, rfl⟩
        · rw [← hee]; exact h e0 he0
      · intro e he
        rcases List.mem_append.mp he with he | he
        · exact h e he
        · simp only [List.mem_singleton] at he
          rw [he]; exact ⟨a, hl a List.mem_cons_self, rfl⟩
    · exact fun r hr => hl r (List.mem_cons_of_mem _ hr)

theorem mkProxy_fields (g : Graph) (name : String) (p : Int) (x : Proxy) (h : mkProxy g name p = some x) :
    x.pt = p ∧ x.name = name ∧ x.status = .waiting ∧ x.done = [] := by
  unfold mkProxy at h
  cases ht : g.task? name with
  | none => simp [ht] at h
  | some t =>
    simp only [ht, Option.bind_eq_bind, Option.bind_some] at h
    split at h
    · simp at h
    · cases hd : t.inst? p with
      | none => simp [hd] at h
      | some d =>
        simp only [hd, Option.bind_some, Option.pure_def, Option.some.injEq] at h
        rw [← h]
        exact ⟨rfl, rfl, rfl, rfl⟩

theorem reset_held_fields (x : Proxy) (b : Bool) :
    (x.reset (held := some b)).status = x.status ∧ (x.reset (held := some b)).done = x.done ∧
    (x.reset (held := some b)).pt = x.pt ∧ (x.reset (held := some b)).name = x.name ∧
    (x.reset (held := some b)).flows = x.flows :=
  ⟨reset_status_none x _ _ _, reset_done x _ _ _ _, reset_pt x _ _ _ _, reset_name x _ _ _ _, reset_flows x _ _ _ _⟩

theorem holdOnSpawn_fields (s : State) (x : Proxy) (name : String) (p : Int) :
    (holdOnSpawn s x name p).2.status = x.status ∧ (holdOnSpawn s x name p).2.done = x.done ∧
    (holdOnSpawn s x name p).2.pt = x.pt ∧ (holdOnSpawn s x name p).2.name = x.name ∧
    (holdOnSpawn s x name p).2.flows = x.flows := by
  unfold holdOnSpawn holdProxy
  split
  · exact reset_held_fields x true
  · split
    · split
      · exact reset_held_fields x true
      · exact ⟨rfl, rfl, rfl, rfl, rfl⟩
    · exact ⟨rfl, rfl, rfl, rfl, rfl⟩

theorem foldl_satisfyMe_fields (l : List Atom) (x : Proxy) :
    (l.foldl (fun z a => z.satisfyMe a) x).status = x.status ∧ (l.foldl (fun z a => z.satisfyMe a) x).done = x.done ∧
    (l.foldl (fun z a => z.satisfyMe a) x).pt = x.pt ∧ (l.foldl (fun z a => z.satisfyMe a) x).name = x.name ∧
    (l.foldl (fun z a => z.satisfyMe a) x).flows = x.flows := by
  induction l generalizing x with
  | nil => exact ⟨rfl, rfl, rfl, rfl, rfl⟩
  | cons a l ih =>
    simp only [List.foldl_cons]
    obtain ⟨h1, h2, h3, h4, h5⟩ := ih (x.satisfyMe a)
    exact ⟨h1, h2, h3, h4, h5⟩

theorem absSatisfy_fields (g : Graph) (s : State) (x : Proxy) (name : String) :
    (absSatisfy g s x name).status = x.status ∧ (absSatisfy g s x name).done = x.done ∧
    (absSatisfy g s x name).pt = x.pt ∧ (absSatisfy g s x name).name = x.name ∧
    (absSatisfy g s x name).flows = x.flows := by
  unfold absSatisfy
  split
  · split
    · exact foldl_satisfyMe_fields _ x
    · exact ⟨rfl, rfl, rfl, rfl, rfl⟩
  · exact ⟨rfl, rfl, rfl, rfl, rfl⟩

/-- the proxy `_load_db_task_proxy` builds from a fresh `TaskProxy` `x0` when no history is found -/
def loadedProxy (x0 : Proxy) (F' : List Nat) (fw : Bool) (sn : Nat) : Proxy :=
  { x0 with flows := F', status := .waiting, flowWait := fw, submitNum := sn }

/-- **"so it can run again later"**: with the `task_states` / `task_outputs` rows of the instance erased from the
flows `F`, `spawn_task` for flows within `F` hands out a *new* instance -- waiting, no completed outputs, in
exactly the requested flows -- whenever the instance exists in the graph and is not a pre-start instance of flow 1 -/
theorem spawn_after_erase (g : Graph) (s : State) (name : String) (p : Int) (F F' : List Nat) (fw : Bool)
    (hst : ∀ r ∈ s.stRows, r.isOf name p → Erased F r.flows)
    (hout : ∀ r ∈ s.outRows, r.isOf name p → Erased F r.flows)
    (hsub : F = [] ∨ ∀ n ∈ F', n ∈ F)
    (hwarm : (p < g.start && F'.contains 1 && !s.preStart.contains (name, p)) = false)
    (x0 : Proxy) (hmk : mkProxy g name p = some x0) :
    ∃ x, (spawnTask g s name p F' fw).2 = some x ∧ x.status = .waiting ∧ x.done = [] ∧
      x.pt = p ∧ x.name = name ∧ x.flows = F' := by
  have hh := taskHistory_forgotten s name p F F' hst hsub
  have hh1 : (taskHistory s name p F').2.1 = none := by rw [hh]
  have hh2 : (taskHistory s name p F').2.2 = false := by rw [hh]
  obtain ⟨m1, m2, m3, m4⟩ := mkProxy_fields g name p x0 hmk
  -- the proxy `_load_db_task_proxy` builds: no `task_outputs` row of the flows is found
  have hload : ∃ s1, loadDbTaskProxy g s name p F' Status.waiting fw (taskHistory s name p F').1 =
      (s1, some (loadedProxy x0 F' fw (taskHistory s name p F').1)) := by
    unfold loadDbTaskProxy loadedProxy
    rw [hmk]
    simp only
    have hseen : (selectOutputs s name p).filter (fun e => !(interF F' e.2).isEmpty) = [] := by
      rw [List.filter_eq_nil_iff]
      intro e he
      obtain ⟨r, hr, her⟩ := selectOutputs_flows s name p e he
      obtain ⟨h1, h2⟩ := (mem_selectOutRows s name p r).mp hr
      rw [her, erased_interF_nil F F' r.flows (hout r h1 h2) hsub]
      simp
    split
    · exact ⟨_, rfl⟩
    · rw [hseen]
      simp only [List.foldl_nil, List.isEmpty_nil, if_true]
      exact ⟨_, rfl⟩
  obtain ⟨s1, hload⟩ := hload
  generalize hxl : loadedProxy x0 F' fw (taskHistory s name p F').1 = xl at hload
  have l1 : xl.status = .waiting := by rw [← hxl]; rfl
  have l2 : xl.done = x0.done := by rw [← hxl]; rfl
  have l3 : xl.pt = x0.pt := by rw [← hxl]; rfl
  have l4 : xl.name = x0.name := by rw [← hxl]; rfl
  have l5 : xl.flows = F' := by rw [← hxl]; rfl
  unfold spawnTask Graph.fuel
  unfold spawnTaskF
  simp only [hh1, hh2, Option.isNone_none, Bool.true_and, hwarm, Bool.false_eq_true, if_false, Option.getD_none,
    hload, Option.isSome_none, Bool.false_and, finalOf, Bool.and_false]
  unfold spawnFinish
  simp only
  obtain ⟨a1, a2, a3, a4, a5⟩ := absSatisfy_fields g (holdOnSpawn s1 xl name p).1 (holdOnSpawn s1 xl name p).2 name
  obtain ⟨b1, b2, b3, b4, b5⟩ := holdOnSpawn_fields s1 xl name p
  refine ⟨_, rfl, ?_, ?_, ?_, ?_, ?_⟩
  · rw [a1, b1, l1]
  · rw [a2, b2, l2]; exact m4
  · rw [a3, b3, l3]; exact m1
  · rw [a4, b4, l4]; exact m2
  · rw [a5, b5, l5]

/-! ### History in flows the removal does not concern is kept -/

/-- a row of the task whose flow set is not the one being rewritten keeps a row with that flow set -/
theorem stSetFlows_keeps_flows (rows : List StRow) (name : String) (p : Int) (old new : List Nat) (r : StRow)
    (hr : r ∈ rows) (hk : r.isOf name p) (hne : r.flows ≠ old) :
    ∃ r' ∈ stSetFlows rows name p (some old) new, r'.isOf name p ∧ r'.flows = r.flows := by
  unfold stSetFlows
  simp only
  generalize hh : (rows.filter fun r => r.name == name && r.pt == p && r.flows == old) = hits
  have hhits : ∀ h ∈ hits, h.isOf name p ∧ h.flows = old := by
    intro h hm
    rw [← hh, List.mem_filter] at hm
    have := hm.2
    simp only [Bool.and_eq_true, beq_iff_eq] at this
    exact ⟨⟨this.1.1, this.1.2⟩, this.2⟩
  clear hh
  suffices hinv : ∀ (hits acc : List StRow), (∀ h ∈ hits, h.isOf name p ∧ h.flows = old) →
      (∃ r' ∈ acc, r'.isOf name p ∧ r'.flows = r.flows) →
      ∃ r' ∈ hits.foldl (fun acc h =>
          if !(acc.any fun r => r == h) then acc else
          (acc.filter fun r => r == h || !(r.name == name && r.pt == p && r.flows == new)).map
            fun r => if r == h then { r with flows := new } else r) acc, r'.isOf name p ∧ r'.flows = r.flows by
    exact hinv hits rows hhits ⟨r, hr, hk, rfl⟩
  intro hits
  induction hits with
  | nil => intro acc _ h; exact h
  | cons h rest ih =>
    intro acc hh hex
    simp only [List.foldl_cons]
    apply ih _ (fun q hq => hh q (List.mem_cons_of_mem _ hq))
    obtain ⟨hkh, hfh⟩ := hh h List.mem_cons_self
    by_cases hany : (acc.any fun r => r == h) = true
    · simp only [hany, Bool.not_true, Bool.false_eq_true, if_false]
      obtain ⟨r', hr', hk', hf'⟩ := hex
      have hne' : (r' == h) = false := by
        apply Bool.eq_false_iff.mpr
        intro hc
        have : r' = h := by simpa using hc
        exact hne (by rw [← hf', this, hfh])
      by_cases hnew : r'.flows = new
      · -- `r'` may be replaced: the rewritten hit carries its flow set
        obtain ⟨h0, hh0, heq0⟩ := List.any_eq_true.mp hany
        have h0eq : h0 = h := by simpa using heq0
        refine ⟨{ h with flows := new }, ?_, ⟨hkh.1, hkh.2⟩, by rw [← hf', hnew]⟩
        rw [List.mem_map]
        refine ⟨h, ?_, by simp⟩
        rw [List.mem_filter]
        exact ⟨by rw [← h0eq]; exact hh0, by simp⟩
      · refine ⟨r', ?_, hk', hf'⟩
        rw [List.mem_map]
        refine ⟨r', ?_, by simp [hne']⟩
        rw [List.mem_filter]
        refine ⟨hr', ?_⟩
        have : (r'.flows == new) = false := by
          apply Bool.eq_false_iff.mpr
          intro hc
          exact hnew (by simpa using hc)
        simp [this]
    · have hany' : (acc.any fun r => r == h) = false := Bool.eq_false_iff.mpr hany
      simp only [hany', Bool.not_false, if_true]
      exact hex

theorem stSome_fold_keeps (name : String) (p : Int) (F fl : List Nat) : ∀ (L : List (List Nat)) (rows : List StRow),
    (∀ old ∈ L, old ≠ fl) → (∃ r ∈ rows, r.isOf name p ∧ r.flows = fl) →
    ∃ r ∈ L.foldl (fun rows old => stSetFlows rows name p (some old) (diffF old F)) rows, r.isOf name p ∧ r.flows = fl
  | [], _, _, h => h
  | old :: rest, rows, hL, ⟨r, hr, hk, hf⟩ => by
    simp only [List.foldl_cons]
    apply stSome_fold_keeps name p F fl rest _ (fun o ho => hL o (List.mem_cons_of_mem _ ho))
    obtain ⟨r', hr', hk', hf'⟩ := stSetFlows_keeps_flows rows name p old (diffF old F) r hr hk
      (by rw [hf]; exact (hL old List.mem_cons_self).symm)
    exact ⟨r', hr', hk', by rw [hf', hf]⟩

/-- **`remove_task_from_flows` + commit keeps the history in the other flows**: a flow set of the task's
`task_states` rows that contains none of the removed flows is still the flow set of one of its rows -/
theorem erase_states_keeps (s : State) (name : String) (p : Int) (F : List Nat) (hq : Quiet s) (hF : F.isEmpty = false)
    (r : StRow) (hr : r ∈ s.stRows) (hk : r.isOf name p) (hclean : hitB F r.flows = false) :
    ∃ r' ∈ (dbFlush (removeTaskFromFlows s name p F).1).stRows, r'.isOf name p ∧ r'.flows = r.flows := by
  obtain ⟨q1, q2, _, _⟩ := hq
  have hF' : ¬ (F.isEmpty = true) := by rw [hF]; decide
  rw [flush_st_of _ 5 (by rw [rtff_qStIns]; exact q1) (by
    intro u hu
    rw [rtff_qStUpd, q2, if_neg hF'] at hu
    simp only [List.nil_append, List.mem_map] at hu
    obtain ⟨f, _, hf⟩ := hu
    rw [← hf]; rfl)]
  rw [rtff_qStUpd, rtff_stRows, q2, if_neg hF']
  simp only [List.nil_append, List.foldl_map, applyStUpd]
  apply stSome_fold_keeps name p F r.flows _ s.stRows
  · intro old ho hc
    have := (List.mem_filter.mp ho).2
    rw [hc, hclean] at this
    exact absurd this (by decide)
  · exact ⟨r, hr, hk, rfl⟩



/-- a row of the task whose flow set is not the one being rewritten keeps a row with that flow set -/
theorem outSetFlows_keeps_flows (rows : List OutRow) (name : String) (p : Int) (old new : List Nat) (r : OutRow)
    (hr : r ∈ rows) (hk : r.isOf name p) (hne : r.flows ≠ old) :
    ∃ r' ∈ outSetFlows rows name p (some old) new, r'.isOf name p ∧ r'.flows = r.flows := by
  unfold outSetFlows
  simp only
  generalize hh : (rows.filter fun r => r.name == name && r.pt == p && r.flows == old) = hits
  have hhits : ∀ h ∈ hits, h.isOf name p ∧ h.flows = old := by
    intro h hm
    rw [← hh, List.mem_filter] at hm
    have := hm.2
    simp only [Bool.and_eq_true, beq_iff_eq] at this
    exact ⟨⟨this.1.1, this.1.2⟩, this.2⟩
  clear hh
  suffices hinv : ∀ (hits acc : List OutRow), (∀ h ∈ hits, h.isOf name p ∧ h.flows = old) →
      (∃ r' ∈ acc, r'.isOf name p ∧ r'.flows = r.flows) →
      ∃ r' ∈ hits.foldl (fun acc h =>
          if !(acc.any fun r => r == h) then acc else
          (acc.filter fun r => r == h || !(r.name == name && r.pt == p && r.flows == new)).map
            fun r => if r == h then { r with flows := new } else r) acc, r'.isOf name p ∧ r'.flows = r.flows by
    exact hinv hits rows hhits ⟨r, hr, hk, rfl⟩
  intro hits
  induction hits with
  | nil => intro acc _ h; exact h
  | cons h rest ih =>
    intro acc hh hex
    simp only [List.foldl_cons]
    apply ih _ (fun q hq => hh q (List.mem_cons_of_mem _ hq))
    obtain ⟨hkh, hfh⟩ := hh h List.mem_cons_self
    by_cases hany : (acc.any fun r => r == h) = true
    · simp only [hany, Bool.not_true, Bool.false_eq_true, if_false]
      obtain ⟨r', hr', hk', hf'⟩ := hex
      have hne' : (r' == h) = false := by
        apply Bool.eq_false_iff.mpr
        intro hc
        have : r' = h := by simpa using hc
        exact hne (by rw [← hf', this, hfh])
      by_cases hnew : r'.flows = new
      · -- `r'` may be replaced: the rewritten hit carries its flow set
        obtain ⟨h0, hh0, heq0⟩ := List.any_eq_true.mp hany
        have h0eq : h0 = h := by simpa using heq0
        refine ⟨{ h with flows := new }, ?_, ⟨hkh.1, hkh.2⟩, by rw [← hf', hnew]⟩
        rw [List.mem_map]
        refine ⟨h, ?_, by simp⟩
        rw [List.mem_filter]
        exact ⟨by rw [← h0eq]; exact hh0, by simp⟩
      · refine ⟨r', ?_, hk', hf'⟩
        rw [List.mem_map]
        refine ⟨r', ?_, by simp [hne']⟩
        rw [List.mem_filter]
        refine ⟨hr', ?_⟩
        have : (r'.flows == new) = false := by
          apply Bool.eq_false_iff.mpr
          intro hc
          exact hnew (by simpa using hc)
        simp [this]
    · have hany' : (acc.any fun r => r == h) = false := Bool.eq_false_iff.mpr hany
      simp only [hany', Bool.not_false, if_true]
      exact hex

theorem outSome_fold_keeps (name : String) (p : Int) (F fl : List Nat) : ∀ (L : List (List Nat)) (rows : List OutRow),
    (∀ old ∈ L, old ≠ fl) → (∃ r ∈ rows, r.isOf name p ∧ r.flows = fl) →
    ∃ r ∈ L.foldl (fun rows old => outSetFlows rows name p (some old) (diffF old F)) rows, r.isOf name p ∧ r.flows = fl
  | [], _, _, h => h
  | old :: rest, rows, hL, ⟨r, hr, hk, hf⟩ => by
    simp only [List.foldl_cons]
    apply outSome_fold_keeps name p F fl rest _ (fun o ho => hL o (List.mem_cons_of_mem _ ho))
    obtain ⟨r', hr', hk', hf'⟩ := outSetFlows_keeps_flows rows name p old (diffF old F) r hr hk
      (by rw [hf]; exact (hL old List.mem_cons_self).symm)
    exact ⟨r', hr', hk', by rw [hf', hf]⟩

/-- **`remove_task_from_flows` + commit keeps the history in the other flows**: a flow set of the task's
`task_outputs` rows that contains none of the removed flows is still the flow set of one of its rows -/
theorem erase_outputs_keeps (s : State) (name : String) (p : Int) (F : List Nat) (hq : Quiet s) (hF : F.isEmpty = false)
    (r : OutRow) (hr : r ∈ s.outRows) (hk : r.isOf name p) (hclean : hitB F r.flows = false) :
    ∃ r' ∈ (dbFlush (removeTaskFromFlows s name p F).1).outRows, r'.isOf name p ∧ r'.flows = r.flows := by
  obtain ⟨_, _, q1, q2⟩ := hq
  have hF' : ¬ (F.isEmpty = true) := by rw [hF]; decide
  rw [flush_out_of _ 2 (by rw [rtff_qOutIns]; exact q1) (by
    intro u hu
    rw [rtff_qOutUpd, q2, if_neg hF'] at hu
    simp only [List.nil_append, List.mem_map] at hu
    obtain ⟨f, _, hf⟩ := hu
    rw [← hf]; rfl)]
  rw [rtff_qOutUpd, rtff_outRows, q2, if_neg hF']
  simp only [List.nil_append, List.foldl_map, applyOutUpd]
  apply outSome_fold_keeps name p F r.flows _ s.outRows
  · intro old ho hc
    have := (List.mem_filter.mp ho).2
    rw [hc, hclean] at this
    exact absurd this (by decide)
  · exact ⟨r, hr, hk, rfl⟩

end CylcModel.Sched3Rm
