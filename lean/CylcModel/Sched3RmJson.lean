/-
JSON decoding of instance graphs / op lists and encoding of observations for `Sched`
(shared by the drivers of all scheduler-level properties).

case input i : {"graph": G, "ops": [op...]}
  G   : {"icp","fcp","start","runahead":"P2","order":[names],"seqs":[[p..]..],
         "tasks": {name: {"inst": {"<p>": {"pre":[P..],"sui":[P..],"children":{msg:[[name,p,isAbs]..]},
                                            "next_parentless": p|null}},
                          "first_parentless": p|null, "completion": E, "outputs": [[trigger,message,req]..]}}}
  P   : {"atoms": [[p,name,msg,sat]..], "expr": null | B}      B : ["atom",i] | ["and",B,B] | ["or",B,B]
  E   : ["atom", var] | ["and",E,E] | ["or",E,E]
  op  : {"op":"loop"} | {"op":"subres","task":"p/name","ok":bool,"sn":n} | {"op":"msg","task":"p/name","sn":n,"msg":text}
observation (one per state): {"pool":[{"p","n","st","held","q","rh","fl","sn","out":[triggers],"pre":[[[p,name,msg,sat]..]..]}..],
                              "launch":[[p,name,sn]..], "polls":[[p,name]..], "stalled":bool, "stop":str|null, "rl":p|null}
-/
import CylcModel.Util.Drv
import CylcModel.Sched3Rm
open Lean CylcModel.Drv

namespace CylcModel.Sched3Rm

def req {α} (o : Option α) (what : String) : Except String α :=
  match o with | some v => .ok v | none => .error s!"missing/invalid {what}"

partial def parseBE (j : Json) : Except String BE := do
  match jArr? j with
  | some [Json.str "atom", i] => return .atom (← req (jNat? i) "atom index")
  | some [Json.str "and", l, r] => return .and (← parseBE l) (← parseBE r)
  | some [Json.str "or", l, r] => return .or (← parseBE l) (← parseBE r)
  | _ => .error "bad prerequisite expression"

partial def parseCE (j : Json) : Except String CE := do
  match jArr? j with
  | some [Json.str "atom", Json.str v] => return .var v
  | some [Json.str "and", l, r] => return .and (← parseCE l) (← parseCE r)
  | some [Json.str "or", l, r] => return .or (← parseCE l) (← parseCE r)
  | _ => .error "bad completion expression"

def parsePre (j : Json) : Except String Pre := do
  let atomsJ ← req (jArrField? j "atoms") "atoms"
  let atoms ← atomsJ.mapM fun a => do
    match jArr? a with
    | some [p, n, m, s] =>
      let pt ← req (jInt? p) "atom pt"
      let task ← req (jStr? n) "atom task"
      let out ← req (jStr? m) "atom out"
      let sat ← req (jBool? s) "atom sat"
      return ((⟨pt, task, out⟩ : Atom), if sat then Sat.nat else Sat.no)
    | _ => .error "bad atom"
  let expr ← match jOptField j "expr" with
    | none => pure none
    | some e => do pure (some (← parseBE e))
  return { atoms, expr }

def objPairs (j : Json) : List (String × Json) :=
  match j with
  | .obj kvs => kvs.foldl (fun acc k v => acc ++ [(k, v)]) []
  | _ => []

def parseInst (j : Json) : Except String InstDef := do
  let pre ← ((jArrField? j "pre").getD []).mapM parsePre
  let sui ← ((jArrField? j "sui").getD []).mapM parsePre
  -- (the children in the order `spawn_on_output` walks them, when the harness gives it; else the sorted lists)
  let chJ := match jField? j "children_seq" with
    | some v => v
    | none => (jField? j "children").getD Json.null
  let children ← (objPairs chJ).mapM fun (k, v) => do
    let cs ← ((jArr? v).getD []).mapM fun c => do
      match jArr? c with
      | some [n, p, a] =>
        let name ← req (jStr? n) "child name"
        let pt ← req (jInt? p) "child pt"
        let isAbs ← req (jBool? a) "child abs"
        return (⟨name, pt, isAbs⟩ : Child)
      | _ => .error "bad child"
    return (k, cs)
  let np := (jOptField j "next_parentless").bind jInt?
  let trigParents := ((jArrField? j "trig_parents").getD []).filterMap fun e =>
    match jArr? e with
    | some [p, n] => do pure ((← jInt? p), (← jStr? n))
    | _ => none
  let tdefAtoms := ((jArrField? j "tdef_atoms").getD []).filterMap fun e =>
    match jArr? e with
    | some [p, n, m] => do pure (⟨← jInt? p, ← jStr? n, ← jStr? m⟩ : Atom)
    | _ => none
  let parentlessIcp := (jBoolField? j "parentless_icp").getD false
  return { pre, sui, children, nextParentless := np, trigParents, tdefAtoms, parentlessIcp }

def sortInsts (l : List (Int × InstDef)) : List (Int × InstDef) :=
  l.foldl (fun acc x =>
    let rec ins : List (Int × InstDef) → List (Int × InstDef)
      | [] => [x]
      | y :: ys => if x.1 < y.1 then x :: y :: ys else y :: ins ys
    ins acc) []

def parseTask (name : String) (j : Json) : Except String TaskDefn := do
  let instJ := (jField? j "inst").getD Json.null
  let insts ← (objPairs instJ).mapM fun (k, v) => do
    let p ← req k.toInt? "instance point"
    return (p, ← parseInst v)
  let fp := (jOptField j "first_parentless").bind jInt?
  let completion ← match jOptField j "completion" with
    | some c => parseCE c
    | none => pure (CE.var "succeeded")
  let outputs ← ((jArrField? j "outputs").getD []).mapM fun o => do
    match jArr? o with
    | some (t :: m :: _) =>
      let trigger ← req (jStr? t) "trigger"
      let message ← req (jStr? m) "message"
      return (⟨trigger, message⟩ : OutDef)
    | _ => .error "bad output"
  let execRetries := (jNatField? j "exec_retries").getD 0
  let subRetries := (jNatField? j "sub_retries").getD 0
  let hasAbs := (jBoolField? j "has_abs").getD false
  return { name, insts := sortInsts insts, firstParentless := fp, completion, outputs, execRetries, subRetries, hasAbs }

def parseRunahead (s : String) : Except String Nat :=
  match (s.drop 1).toNat? with
  | some n => if s.startsWith "P" then .ok n else .error s!"runahead {s}"
  | none => .error s!"unsupported runahead limit {s}"

def parseGraph (j : Json) : Except String Graph := do
  let icp ← req (jIntField? j "icp") "icp"
  let fcp ← req (jIntField? j "fcp") "fcp"
  let start ← req (jIntField? j "start") "start"
  let runahead ← parseRunahead (← req (jStrField? j "runahead") "runahead")
  let order := ((jArrField? j "order").getD []).filterMap jStr?
  let tasksJ := (jField? j "tasks").getD Json.null
  let tasks ← order.mapM fun n => do
    let tj ← req (jField? tasksJ n) s!"task {n}"
    parseTask n tj
  let seqs := ((jArrField? j "seqs").getD []).map fun q => ((jArr? q).getD []).filterMap jInt?
  let stopPoint := (jOptField j "stop_point").bind jInt?
  let cfgStop := (jOptField j "cfg_stop").bind jInt?
  let anyOutput := (jBoolField? j "trig_any_output").getD true
  let rmCommits := (jBoolField? j "rm_commits").getD false
  let rmAlwaysDb := (jBoolField? j "rm_always_db").getD false
  let triggerUnpooled := (jBoolField? j "trig_unpooled").getD true
  let dbRowPerFlowSet := (jBoolField? j "db_row_per_flow_set").getD false
  let rowInsertMode := (jNatField? j "row_insert_mode").getD 0
  let qotSkipsPrepped := (jBoolField? j "qot_skips_prepped").getD false
  let releaseQueueIfReady := (jBoolField? j "release_queue_if_ready").getD false
  return { icp, fcp, start, runahead, tasks, seqs, stopPoint, cfgStop, anyOutput, rmCommits, rmAlwaysDb,
           triggerUnpooled, dbRowPerFlowSet, rowInsertMode, qotSkipsPrepped, releaseQueueIfReady }

def parseTaskId (s : String) : Except String (Int × String) :=
  match s.splitOn "/" with
  | [p, n] => do return (← req p.toInt? "task id point", n)
  | _ => .error s!"bad task id {s}"

/-- hint `ch`: `[[id, [child ids in the order walked]], ...]` -/
def parseChildHints (v : Option (List Json)) : Except String (List ((Int × String) × List (Int × String))) :=
  (v.getD []).mapM fun e => do
    match jArr? e with
    | some [k, cs] =>
      let key ← parseTaskId (← req (jStr? k) "task id")
      let l ← ((jArr? cs).getD []).mapM fun t => do parseTaskId (← req (jStr? t) "task id")
      return (key, l)
    | _ => .error "bad child-order hint"

def parseOp (j : Json) : Except String Op := do
  match jStrField? j "op" with
  | some "loop" => return .loop
  | some "subres" =>
    let (p, n) ← parseTaskId (← req (jStrField? j "task") "task")
    return .subres p n (← req (jBoolField? j "ok") "ok") (← req (jNatField? j "sn") "sn")
  | some "msg" =>
    let (p, n) ← parseTaskId (← req (jStrField? j "task") "task")
    return .msg p n (← req (jNatField? j "sn") "sn") (← req (jStrField? j "msg") "msg")
  | some "cmd" =>
    let name ← req (jStrField? j "name") "cmd name"
    let args := (jField? j "args").getD Json.null
    let ids : Except String (List (Int × String)) :=
      ((jArrField? args "tasks").getD []).mapM fun t => do parseTaskId (← req (jStr? t) "task id")
    match name with
    | "hold" => return .hold (← ids)
    | "release" => return .release (← ids)
    | "set_hold_point" => return .setHoldPoint (← req ((jStrField? args "point").bind String.toInt?) "point")
    | "release_hold_point" => return .releaseHoldPoint
    | "force_trigger_tasks" =>
      let fl := ((jArrField? args "flow").getD []).filterMap jStr?
      let flow : FlowSpec ←
        if fl.isEmpty then pure FlowSpec.dflt
        else if fl == ["new"] then pure FlowSpec.new
        else if fl == ["none"] then pure FlowSpec.none
        else do
          let ns ← fl.mapM fun t => req t.toNat? "flow number"
          pure (FlowSpec.nums ns)
      let wait := (jBoolField? args "flow_wait").getD false
      let idList (v : Option (List Json)) : Except String (List (Int × String)) :=
        (v.getD []).mapM fun t => do parseTaskId (← req (jStr? t) "task id")
      let grps ← ((jArrField? j "groups").getD []).mapM fun grp => idList (jArr? grp)
      let hs := (jArrField? j "hints").getD []
      let hint ← (grps.zipIdx).mapM fun (grp, k) => do
        let h := hs[k]?.getD Json.null
        pure ({ ids := grp, act := ← idList (jArrField? h "act"), rm := ← idList (jArrField? h "rm"),
                sp := ← idList (jArrField? h "sp"),
                fn := ((jArrField? h "fn").getD []).filterMap jNat?,
                ch := ← parseChildHints (jArrField? h "ch") } : GroupHint)
      return .trigger (← ids) flow wait hint
    | "remove_tasks" =>
      let fl := ((jArrField? args "flow").getD []).filterMap jStr?
      let flows ← if fl == ["all"] then pure [] else fl.mapM fun t => req t.toNat? "flow number"
      let order ← ((jArrField? j "rm").getD []).mapM fun t => do parseTaskId (← req (jStr? t) "task id")
      return .rm (← ids) flows order (← parseChildHints (jArrField? j "ch"))
    | "pause" => return .pause
    | "resume" => return .resume
    | "stop" =>
      match jStrField? args "cycle_point", jStrField? args "task", jStrField? args "mode" with
      | some p, _, _ => return .stopPoint (← req p.toInt? "stop point")
      | _, some t, _ => let (p, n) ← parseTaskId t; return .stopTask p n
      | _, _, some m => return .stop m
      | _, _, _ => .error "bad stop command"
    | other => .error s!"unknown command {other}"
  | some "restart" => return .restart
  | _ => .error "unknown op"

/-! ### observations -/

def insertBy {α} (lt : α → α → Bool) (x : α) : List α → List α
  | [] => [x]
  | y :: ys => if lt x y then x :: y :: ys else y :: insertBy lt x ys

def sortBy {α} (lt : α → α → Bool) (l : List α) : List α := l.foldl (fun acc x => insertBy lt x acc) []

def atomLt {α} (a b : Atom × α) : Bool :=
  a.1.pt < b.1.pt || (a.1.pt == b.1.pt && (a.1.task < b.1.task || (a.1.task == b.1.task && a.1.out < b.1.out)))

def atomJson (a : Atom × Sat) : Json :=
  Json.arr #[jOfInt a.1.pt, Json.str a.1.task, Json.str a.1.out, Json.bool a.2.ok]

def atomJsonX (a : Atom × Sat) : Json :=
  Json.arr #[jOfInt a.1.pt, Json.str a.1.task, Json.str a.1.out, jOfNat a.2.code]

def preJsonX (p : Pre) : Json := jOfList atomJsonX (sortBy atomLt p.atoms)

def keyLt (a b : Int × String) : Bool := a.1 < b.1 || (a.1 == b.1 && a.2 < b.2)

def keyJson (k : Int × String) : Json := Json.arr #[jOfInt k.1, Json.str k.2]

def sortedJsons (l : List Json) : Json :=
  Json.arr ((sortBy (· < ·) (l.map (·.compress))).map (fun s => (Json.parse s).toOption.getD Json.null)).toArray

def proxyJsonX (x : Proxy) : Json :=
  Json.mkObj [("p", jOfInt x.pt), ("n", Json.str x.name), ("man", Json.bool x.manual), ("fw", Json.bool x.flowWait),
    ("wjp", Json.bool x.wjp), ("pre", sortedJsons (x.pre.map preJsonX))]

def flowsLt : List Nat → List Nat → Bool
  | [], [] => false
  | [], _ :: _ => true
  | _ :: _, [] => false
  | a :: as, b :: bs => a < b || (a == b && flowsLt as bs)

def rowLt (a b : Int × String × List Nat) : Bool :=
  a.1 < b.1 || (a.1 == b.1 && (a.2.1 < b.2.1 || (a.2.1 == b.2.1 && flowsLt a.2.2 b.2.2)))

def trigJson (s : State) : Json :=
  Json.mkObj [
    ("pool", jOfList proxyJsonX (sortBy (fun (a b : Proxy) => a.pt < b.pt || (a.pt == b.pt && a.name < b.name)) s.pool)),
    ("now", jOfList keyJson (sortBy keyLt (s.toTrigger ++ s.phantoms.map fun x => (x.pt, x.name)))),
    ("pre_start", jOfList keyJson (sortBy keyLt (s.preStart.map fun k => (k.2, k.1)))),
    ("groups", jOfList (jOfList keyJson)
      (sortBy (fun (a b : List (Int × String)) => match a.head?, b.head? with
          | some x, some y => keyLt x y
          | none, some _ => true
          | _, _ => false) (s.groups.map (sortBy keyLt))))]

def dbJson (g : Graph) (s : State) : Json :=
  let trig (name m : String) : String := match g.task? name with
    | some t => match t.outputs.find? (·.message == m) with | some o => o.trigger | none => m
    | none => m
  Json.mkObj [
    ("states", jOfList (fun (r : StRow) => Json.arr #[jOfInt r.pt, Json.str r.name, jOfList jOfNat r.flows,
        jOfNat r.submitNum, Json.bool r.flowWait, Json.str r.status.str, Json.bool r.manual])
      (sortBy (fun (a b : StRow) => rowLt (a.pt, a.name, a.flows) (b.pt, b.name, b.flows)) s.stRows)),
    ("outputs", jOfList (fun (r : OutRow) => Json.arr #[jOfInt r.pt, Json.str r.name, jOfList jOfNat r.flows,
        jOfList Json.str (sortBy (· < ·) (r.outs.map (trig r.name)))])
      (sortBy (fun (a b : OutRow) => rowLt (a.pt, a.name, a.flows) (b.pt, b.name, b.flows)) s.outRows))]

def preJson (p : Pre) : Json := jOfList atomJson (sortBy atomLt p.atoms)

def proxyJson (g : Graph) (x : Proxy) : Json :=
  let outs : List String := match g.task? x.name with
    | some t => (t.outputs.filter fun o => x.done.contains o.message).map (·.trigger)
    | none => []
  let pres := (x.pre.map preJson).map (·.compress)
  Json.mkObj [
    ("p", jOfInt x.pt), ("n", Json.str x.name), ("st", Json.str x.status.str),
    ("held", Json.bool x.held), ("q", Json.bool x.queued), ("rh", Json.bool x.runahead),
    ("fl", jOfList jOfNat x.flows), ("sn", jOfNat x.submitNum),
    ("out", jOfList Json.str (sortBy (· < ·) outs)),
    ("pre", Json.arr ((sortBy (· < ·) pres).map (fun s => (Json.parse s).toOption.getD Json.null)).toArray)]

def proxyLt (a b : Proxy) : Bool := a.pt < b.pt || (a.pt == b.pt && a.name < b.name)

def launchLt (a b : Int × String × Nat) : Bool :=
  a.1 < b.1 || (a.1 == b.1 && (a.2.1 < b.2.1 || (a.2.1 == b.2.1 && a.2.2 < b.2.2)))

def hasDup : List Proxy → Bool
  | [] => false
  | x :: xs => xs.any (fun y => y.pt == x.pt && y.name == x.name) || hasDup xs

def obsJson (g : Graph) (s : State) (withDb : Bool := false) : Json :=
  Json.mkObj <| (if withDb && s.stop.isNone then [("xdb", dbJson g s)] else []) ++ [
    ("pool", jOfList (proxyJson g) (sortBy proxyLt s.pool)),
    ("launch", jOfList (fun (l : Int × String × Nat) => Json.arr #[jOfInt l.1, Json.str l.2.1, jOfNat l.2.2])
      (sortBy launchLt s.launched)),
    ("launch_x", jOfList (fun (l : Int × String × Nat × List Nat × Bool) => Json.arr #[jOfInt l.1, Json.str l.2.1,
        jOfNat l.2.2.1, jOfList jOfNat l.2.2.2.1, Json.bool l.2.2.2.2])
      (sortBy (fun a b => launchLt (a.1, a.2.1, a.2.2.1) (b.1, b.2.1, b.2.2.1)) s.launchX)),
    ("xt", trigJson s),
    ("xsui", sortedJsons ((s.pool.filter fun x => !x.sui.isEmpty).map fun x =>
      Json.arr #[jOfInt x.pt, Json.str x.name, sortedJsons (x.sui.map preJsonX)])),
    ("flows_known", jOfList jOfNat (sortNat s.flowsKnown)),
    ("flow_counter", jOfNat s.flowCounter),
    ("polls", jOfList (fun (l : Int × String) => Json.arr #[jOfInt l.1, Json.str l.2])
      (sortBy (fun a b => a.1 < b.1 || (a.1 == b.1 && a.2 < b.2)) s.polls)),
    ("stalled", Json.bool s.stalled),
    ("stop", match s.stop with | some r => Json.str r | none => Json.null),
    ("rl", jOptInt s.rhLimit),
    ("hold", Json.mkObj [
      ("tasks", jOfList (fun (k : String × Int) => Json.arr #[jOfInt k.2, Json.str k.1])
        (sortBy (fun a b => a.2 < b.2 || (a.2 == b.2 && a.1 < b.1)) s.tasksToHold)),
      ("point", jOptInt s.holdPoint)]),
    ("stop_point", jOptInt s.stopPoint),
    ("paused", Json.bool s.paused),
    ("stop_mode", match s.stopMode with | some m => Json.str m | none => Json.null),
    ("book", Json.mkObj [("cache_ok", Json.bool true), ("empty_bucket", Json.bool false),
                         ("key_ok", Json.bool true), ("dup", Json.bool (hasDup s.pool))]),
    ("db", match s.db with
      | none => Json.null
      | some rows => jOfList (fun (x : Proxy) => Json.arr #[jOfInt x.pt, Json.str x.name, jOfList jOfNat x.flows,
          Json.str x.status.str, Json.bool x.held]) (sortBy proxyLt rows))]

structure Case where
  graph : Graph
  ops : List Op
  obsDb : Bool := false

def parseCase (i : Json) : Except String Case := do
  let g ← parseGraph (← req (jField? i "graph") "graph")
  let ops ← ((jArrField? i "ops").getD []).mapM parseOp
  return { graph := g, ops, obsDb := (jBoolField? i "obs_db").getD false }

def modelObs (c : Case) : Json := jOfList (fun s => obsJson c.graph s c.obsDb) (run c.graph c.ops)

end CylcModel.Sched3Rm

namespace CylcModel.Sched3Rm
open Lean CylcModel.Drv

/-- a run in which the real scheduler raised an exception is never a behaviour of the model -/
def crashReply? (i : Json) : Option Reply :=
  match jStrField? i "crash" with
  | some msg =>
    -- the one recorded crash of the real scheduler (finding `datastore-crash`: AttributeError in
    -- DataStoreMgr._family_ascent_point_update, a part of cylc-flow that is not modelled): the run is reported under
    -- that key and carries no correspondence claim; any other exception is a plain failure
    if (msg.splitOn "object has no attribute 'graph_depth'").length > 1 then
      some { model := Json.mkObj [("crash", Json.str "datastore-crash")], holds := false,
             why := s!"datastore-crash: scheduler-exception: {msg}" }
    else some { model := Json.null, holds := false, why := s!"scheduler-exception: {msg}" }
  | none => none

/-- the observations as a list -/
def obsList (o : Json) : List Json := (jArr? o).getD []

def poolOf (ob : Json) : List Json := (jArrField? ob "pool").getD []

def keyOf (t : Json) : Int × String := ((jIntField? t "p").getD 0, (jStrField? t "n").getD "")

end CylcModel.Sched3Rm
