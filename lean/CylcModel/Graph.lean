/-
Graph — executable model of `GraphParser.parse_graph` (`cylc/flow/graph_parser.py`) for graph strings
without `<parameters>` / `<workflow::task>` markers and without families (families: `Fam.lean`, C15).

Two models, tied to the code by the same correspondence runs:

* the *text* model `parseText : Str → Except Err St` — a line-by-line port of `parse_graph`,
  `_proc_dep_pair`, `_compute_triggers`, `_set_triggers`, `_set_output_opt` on character lists, with
  hand matchers for the regular expressions (character classes and look-around sets come from
  `Generated/GraphTables.lean`, regenerated from the live source on every run).  It reproduces what the
  code does with *any* text, malformed ones included;
* the *structure* model `parseStruct : List SLine → Option St` on graph ASTs (a line = a lone
  conjunction of nodes or a chain `head => c₁ => c₂ ...` with an expression tree as head): chain → pairs,
  end-of-chain `:succeeded` inference, trigger and optionality declarations folded into the tables.

`Generated.GraphTables` also carries four behaviour flags probed on the live parser; each one switches
the model between the behaviour of the unchanged code and that of a recorded repair
(`findings/C14.json`, `findings/C14-fix-*.diff`).

Core Lean only (linked into the driver executable).
-/
import CylcModel.Generated.GraphTables

namespace CylcModel.Graph
open CylcModel.Generated.GraphTables

abbrev Str := List Char

/-! ## Character-list helpers (Python `str` methods) -/

def isWs (c : Char) : Bool := wsChars.contains c

/-- `s.split(sep)` for a one-character separator -/
def splitOnChar (sep : Char) : Str → List Str
  | [] => [[]]
  | c :: r =>
    if c = sep then [] :: splitOnChar sep r
    else
      match splitOnChar sep r with
      | [] => [[c]]
      | h :: t => (c :: h) :: t

/-- `s.split('=>')` -/
def splitArrow : Str → List Str
  | [] => [[]]
  | [c] => [[c]]
  | c :: d :: r =>
    if c = '=' ∧ d = '>' then [] :: splitArrow r
    else
      match splitArrow (d :: r) with
      | [] => [[c]]
      | h :: t => (c :: h) :: t

/-- `pat in s` -/
def hasSub (pat : Str) : Str → Bool
  | [] => pat.isEmpty
  | c :: r => pat.isPrefixOf (c :: r) || hasSub pat r

/-- `s.replace(pat, repl)` (left to right, non-overlapping; `pat` non-empty) -/
def replaceAll (pat repl : Str) (s : Str) : Str :=
  let rec go (skip : Nat) : Str → Str
    | [] => []
    | c :: r =>
      if skip > 0 then go (skip - 1) r
      else if pat.isPrefixOf (c :: r) then repl ++ go (pat.length - 1) r
      else c :: go 0 r
  go 0 s

/-- `s.strip(chars)` -/
def stripChars (p : Char → Bool) (s : Str) : Str :=
  ((s.dropWhile p).reverse.dropWhile p).reverse

def isParen (c : Char) : Bool := c == '(' || c == ')'

/-- `"".join(s.split())` -/
def stripWs (s : Str) : Str := s.filter fun c => !isWs c

/-- `s.split()` -/
def splitWs (s : Str) : List Str :=
  let rec go (cur : Str) : Str → List Str
    | [] => if cur.isEmpty then [] else [cur.reverse]
    | c :: r =>
      if isWs c then (if cur.isEmpty then go [] r else cur.reverse :: go [] r)
      else go (c :: cur) r
  go [] s

def countChar (c : Char) (s : Str) : Nat := (s.filter (· == c)).length

def strLt : Str → Str → Bool
  | [], [] => false
  | [], _ :: _ => true
  | _ :: _, [] => false
  | a :: r, b :: t => a < b || (a == b && strLt r t)

def strLe (a b : Str) : Bool := !strLt b a

/-! ## Stage 1: comments, blank lines, bad spaces, white space (first loop of `parse_graph`) -/

/-- `REC_COMMENT.sub('', line)` -/
def dropComment (l : Str) : Str := l.takeWhile (· != '#')

def isBlank (l : Str) : Bool := l.all isWs

def isDigit (c : Char) : Bool := '0' ≤ c && c ≤ '9'
def isSign (c : Char) : Bool := c == '-' || c == '+'

/-- `\s*[0-9]` matches at the start -/
def wsDigit : Str → Bool
  | [] => false
  | c :: r => if isWs c then wsDigit r else isDigit c

/-- `\s*[\-+]\s*[0-9]` matches at the start -/
def wsSignWsDigit : Str → Bool
  | [] => false
  | c :: r => if isWs c then wsSignWsDigit r else isSign c && wsDigit r

/-- `\s+NAME_SUFFIX` matches at the start (called on a white-space character) -/
def wsThenSuffix (s : Str) : Bool :=
  match s.dropWhile isWs with
  | c :: _ => bsSuffix.contains c
  | [] => false

/-- `REC_GRAPH_BAD_SPACES_LINE.search(line)`: a task name, white space, a name character — unless
the white space follows `-`/`+` and precedes a digit, or precedes `-`/`+` digit.
`inName`: the characters just before form a name (a word character followed by name characters). -/
def badSpacesGo (prev : Option Char) (inName : Bool) : Str → Bool
  | [] => false
  | c :: r =>
    if isWs c then
      (inName
        && !((match prev with | some p => isSign p | none => false) && wsDigit (c :: r))
        && !wsSignWsDigit (c :: r)
        && wsThenSuffix (c :: r))
      || badSpacesGo (some c) false r
    else if bsNameFirst.contains c then badSpacesGo (some c) true r
    else if bsNameRest.contains c then badSpacesGo (some c) inName r
    else badSpacesGo (some c) false r

def badSpaces (l : Str) : Bool := badSpacesGo none false l

/-- one physical line: `none` = skipped (blank / comment only), `some (ok, text)` -/
def cleanLine (l : Str) : Option (Bool × Str) :=
  let m := dropComment l
  if isBlank m then none
  else if badSpaces m then some (false, m)
  else some (true, stripWs m)

/-- first loop: `none` = bad lines were found (GraphParseError) -/
def nonBlankLines (text : Str) : Option (List Str) :=
  let ls := (splitOnChar '\n' text).filterMap cleanLine
  if ls.all (·.1) then some (ls.map (·.2)) else none

/-! ## Stage 2: joining continuation lines (second loop of `parse_graph`) -/

def startsAny (pats : List Str) (s : Str) : Bool := pats.any fun p => p.isPrefixOf s
def endsAny (pats : List Str) (s : Str) : Bool := pats.any fun p => p.isSuffixOf s

/-- the loop body for `this_line` with `next_line` (`[]` after the last line); `part` = `part_lines` -/
def joinGo (first : Bool) (part : Str) : List Str → Option (List Str)
  | [] => some []
  | this :: rest =>
    let next : Str := match rest with | n :: _ => n | [] => []
    if first && startsAny continuationStrs this then none
    else if rest.isEmpty && endsAny continuationStrs this then none
    else if endsAny continuationStrs this && startsAny continuationStrs next then none
    else if (continuationStrs.any fun q => q.isSuffixOf this || q.isPrefixOf next)
        && !(badStrs.any fun q => q.isSuffixOf this || q.isPrefixOf next) then
      joinGo false (part ++ this) rest
    else
      (joinGo false [] rest).map fun r => (part ++ this) :: r

/-- `full_lines`; `none` = GraphParseError -/
def joinLines (ls : List Str) : Option (List Str) := joinGo true [] ls

/-- the text layer: graph string ↦ `full_lines` -/
def fullLines (text : Str) : Option (List Str) := (nonBlankLines text).bind joinLines

/-! ## Hand matchers for the node regexes -/

/-- longest prefix of characters satisfying `p`, and the rest -/
def spanP (p : Char → Bool) : Str → Str × Str
  | [] => ([], [])
  | c :: r => if p c then ((c :: (spanP p r).1), (spanP p r).2) else ([], c :: r)

def takeName (k : Cls) : Str → Option (Str × Str)
  | [] => none
  | c :: r =>
    if k.nameFirst.contains c then
      let p := spanP (fun d => k.nameRest.contains d) r
      some (c :: p.1, p.2)
    else none

/-- `(OFFSET)?` -/
def takeOffset (k : Cls) (s : Str) : Str × Str :=
  match s with
  | '[' :: r =>
    let p := spanP (fun d => k.offset.contains d) r
    (match p.1, p.2 with
     | _ :: _, ']' :: b => ('[' :: p.1 ++ [']'], b)
     | _, _ => ([], s))
  | _ => ([], s)

/-- `(QUAL)?` -/
def takeQual (k : Cls) (s : Str) : Str × Str :=
  match s with
  | ':' :: r =>
    let p := spanP (fun d => k.qual.contains d) r
    if p.1.isEmpty then ([], s) else (':' :: p.1, p.2)
  | _ => ([], s)

/-- `(\??)` -/
def takeOpt (s : Str) : Str × Str :=
  match s with
  | '?' :: r => (['?'], r)
  | _ => ([], s)

/-- groups of a node match: name (with its `!`/`@` prefix), offset, qualifier (with `:`), `?` -/
structure Item where
  name : Str
  offset : Str
  qual : Str
  opt : Str
  deriving Repr, DecidableEq, Inhabited

def Item.text (i : Item) : Str := i.name ++ i.offset ++ i.qual ++ i.opt

/-- `NAME(OFFSET)?(QUAL)?(\??)` at the start, name prefixed by `pre` -/
def tailAfterName (k : Cls) (pre : Str) (s : Str) : Option (Item × Str) :=
  match takeName k s with
  | none => none
  | some (n, r1) =>
    let o := takeOffset k r1
    let q := takeQual k o.2
    let p := takeOpt q.2
    some ({ name := pre ++ n, offset := o.1, qual := q.1, opt := p.1 }, p.2)

/-- `REC_NODES` at the start: `([!@]?NAME)(OFFSET)?(QUAL)?(\??)` -/
def matchNode (s : Str) : Option (Item × Str) :=
  match s with
  | c :: r =>
    if c == '!' || c == '@' then
      (match tailAfterName nodesCls [c] r with
       | some x => some x
       | none => none)
    else tailAfterName nodesCls [] s
  | [] => none

/-- `REC_NODES.findall(s)` -/
def findNodes : Nat → Str → List Item
  | 0, _ => []
  | _, [] => []
  | fuel + 1, c :: r =>
    match matchNode (c :: r) with
    | some (it, rest) => it :: findNodes fuel rest
    | none => findNodes fuel r

def findallNodes (s : Str) : List Item := findNodes (s.length + 1) s

/-- `REC_NODES.sub('x', s)` -/
def skeletonGo : Nat → Str → Str
  | 0, _ => []
  | _, [] => []
  | fuel + 1, c :: r =>
    match matchNode (c :: r) with
    | some (_, rest) => 'x' :: skeletonGo fuel rest
    | none => c :: skeletonGo fuel r

def skeleton (s : Str) : Str := skeletonGo (s.length + 1) s

/-- one pass of `re.subn(r'\(x\)|x[&|]x', 'x', s)` -/
def reduceOnce : Str → Str
  | '(' :: 'x' :: ')' :: r => 'x' :: reduceOnce r
  | 'x' :: o :: 'x' :: r => if o == '&' || o == '|' then 'x' :: reduceOnce r else 'x' :: reduceOnce (o :: 'x' :: r)
  | c :: r => c :: reduceOnce r
  | [] => []

def reduceLoop : Nat → Str → Str
  | 0, s => s
  | fuel + 1, s => let t := reduceOnce s; if t == s then s else reduceLoop fuel t

/-- the expression check of findings/C14-fix-2.diff: nodes joined by `&`/`|`, balanced parentheses -/
def exprOk (s : Str) : Bool := reduceLoop (s.length + 1) (skeleton s) == ['x']

/-- `REC_RHS_NODE.match(s)`: `(!)?((?:!)?NAME)(OFFSET)?(QUAL)?(\??)` ↦ (suicide, item) -/
def matchRhs (s : Str) : Option (Bool × Item) :=
  let sr : Bool × Str := match s with | '!' :: r => (true, r) | _ => (false, s)
  let body : Option (Item × Str) :=
    match sr.2 with
    | '!' :: r => tailAfterName rhsCls ['!'] r
    | _ => tailAfterName rhsCls [] sr.2
  body.map fun x => (sr.1, x.1)

/-- `REC_XTRIG.findall(s)` -/
def findXtrigs : Nat → Str → List Str
  | 0, _ => []
  | _, [] => []
  | fuel + 1, c :: r =>
    if c == '@' then
      let p := spanP (fun d => xtrigChars.contains d) r
      if p.1.isEmpty then findXtrigs fuel r else ('@' :: p.1) :: findXtrigs fuel p.2
    else findXtrigs fuel r

/-- `l.sort(key=len, reverse=True)` (stable) -/
def sortByLenDesc (l : List Str) : List Str :=
  let ins (a : Str) : List Str → List Str := fun acc =>
    let rec go : List Str → List Str
      | [] => [a]
      | b :: t => if b.length < a.length then a :: b :: t else b :: go t
    go acc
  l.foldl (fun acc a => ins a acc) []

/-- `REC_NODE_FULL.sub('', node, 1) == ''` for a white-space free, non-empty token -/
def nodeFullOk (tok : Str) : Bool :=
  let s : Str := match tok with | '!' :: r => r | _ => tok
  match tailAfterName fullCls [] s with
  | some (_, rest) => rest.isEmpty
  | none => false

/-- the node-syntax check of one full line (`true` = a bad node) -/
def lineHasBadNode (line : Str) : Bool :=
  let s0 := replaceAll arrow [' '] line
  let s1 := s0.map fun c =>
    if c == '|' || c == '&' || c == '!' || c == '(' || c == ')' then ' ' else c
  let xs := sortByLenDesc (findXtrigs (s1.length + 1) s1)
  let s2 := xs.foldl (fun acc x => replaceAll x [] acc) s1
  (splitWs s2).any fun tok => !nodeFullOk tok

/-- third loop of `parse_graph` (`true` = GraphParseError) -/
def linesRejected (full : List Str) : Bool :=
  (full.any fun l => hasSub ['&', '&'] l || hasSub ['|', '|'] l)
  || (if nodeCheckAllLines then full.any lineHasBadNode
      else match full.getLast? with | some l => lineHasBadNode l | none => false)

/-! ## Pairs -/

abbrev TPair := Option Str × Str

/-- `str(pair[0])` -/
def pairKey (p : TPair) : Str := match p.1 with | some l => l | none => ['N', 'o', 'n', 'e']

def headPairs (piece : Str) : List TPair :=
  ((findallNodes piece).filter fun it => !(['@'].isPrefixOf it.name)).map fun it => (none, it.text)

def linkPairs : List Str → List TPair
  | a :: b :: r => (some a, b) :: linkPairs (b :: r)
  | _ => []

def dropLast {α : Type} : List α → List α
  | [] => []
  | [_] => []
  | a :: b :: r => a :: dropLast (b :: r)

/-- pairs of one line -/
def textLinePairs (line : Str) : List TPair :=
  let chain := splitArrow line
  (chain.take 1).flatMap headPairs ++ linkPairs chain

/-- `mid_chain_nodes` of one line (findings/C14-fix-3.diff): the nodes of `chain[1:-1]` -/
def textLineMid (line : Str) : List Str :=
  (dropLast ((splitArrow line).drop 1)).flatMap (splitOnChar '&')

def textLineEoc (line : Str) : List Str :=
  match (splitArrow line).getLast? with
  | some e => splitOnChar '&' e
  | none => []

def dedup {α : Type} [BEq α] (l : List α) : List α :=
  l.foldl (fun acc a => if acc.contains a then acc else acc ++ [a]) []

def insertSorted {α : Type} (le : α → α → Bool) (a : α) : List α → List α
  | [] => [a]
  | b :: r => if le a b then a :: b :: r else b :: insertSorted le a r

def sortBy {α : Type} (le : α → α → Bool) (l : List α) : List α := l.foldr (insertSorted le) []

/-- `sorted(pairs, key=lambda p: str(p[0]))`, equal keys in ascending right-hand text
(the harness fixes that order; in the real code it is Python set order) -/
def pairLe (a b : TPair) : Bool :=
  strLt (pairKey a) (pairKey b) || (pairKey a == pairKey b && strLe a.2 b.2)

/-! ## Parser state -/

inductive Err where
  | gpe      -- GraphParseError
  | other    -- any other exception (ValueError "Unexpected graph expression")
  deriving Repr, DecidableEq, Inhabited

/-- `triggers[name][expr] = (trigs, suicide)` -/
abbrev Trigs := List ((Str × Str) × (List Str × Bool))
/-- `task_output_opt[(name, output)] = (optional, optional, True)` (no families) -/
abbrev Opts := List ((Str × Str) × Bool)

structure St where
  trigs : Trigs := []
  opts : Opts := []
  deriving Repr, Inhabited

def aset {κ β : Type} [BEq κ] (k : κ) (v : β) : List (κ × β) → List (κ × β)
  | [] => [(k, v)]
  | (k', v') :: r => if k' == k then (k, v) :: r else (k', v') :: aset k v r

/-- `_set_triggers` (expire_triggers off) -/
def setTrigger (tr : Trigs) (name : Str) (suicide : Bool) (trigs : List Str) (expr : Str) : Option Trigs :=
  match tr.lookup (name, expr) with
  | some (_, osuicide) =>
    if !expr.isEmpty && osuicide != suicide then none
    else some (aset (name, expr) (trigs, suicide) tr)
  | none => some (aset (name, expr) (trigs, suicide) tr)

def opposite (output : Str) : Option Str :=
  if output = outSucceeded then some outFailed
  else if output = outFailed then some outSucceeded
  else if output = outSubmitted then some outSubmitFailed
  else if output = outSubmitFailed then some outSubmitted
  else none

/-- `_set_output_opt`, first half: set the entry or check it against the previous one -/
def optUpd (opts : Opts) (name output : Str) (optional : Bool) : Option Opts :=
  match opts.lookup (name, output) with
  | none => some (aset (name, output) optional opts)
  | some po => if optional != po then none else some opts

/-- `_set_output_opt`, second half: opposite outputs must both be optional if both are used -/
def oppOk (o1 : Opts) (name output : Str) (optional : Bool) : Bool :=
  match opposite output with
  | none => true
  | some opp =>
    match o1.lookup (name, opp) with
    | some oo => optional && oo
    | none => true

/-- `_set_output_opt` for a real output, after the suicide / must-be-optional / finished branches -/
def setOpt1 (opts : Opts) (name output : Str) (optional : Bool) : Option Opts :=
  match optUpd opts name output optional with
  | none => none
  | some o1 => if oppOk o1 name output optional then some o1 else none

/-- `_set_output_opt` (Cylc-7 back-compat off, not a family member) -/
def setOutputOpt (opts : Opts) (name output : Str) (optional suicide : Bool) : Option Opts :=
  if suicide then some opts
  else if (output = outExpired || output = outSubmitFailed) && !optional then none
  else if output = outFinished then
    if optional then none
    else (setOpt1 opts name outSucceeded true).bind fun o => setOpt1 o name outFailed true
  else setOpt1 opts name output optional

/-- `TaskTrigger.standardise_name` -/
def stdQual (q : Str) : Str := (altQualifiers.lookup q).getD q

/-! ## `_proc_dep_pair` / `_compute_triggers` on text -/

/-- `re.sub(START + re.escape(lit) + END, repl, s)` with one-character look-behind / look-ahead sets -/
def subLit (startBlock endBlock : List Char) (lit repl : Str) (s : Str) : Str :=
  let rec go (prev : Option Char) (skip : Nat) : Str → Str
    | [] => []
    | c :: r =>
      if skip > 0 then go (some c) (skip - 1) r
      else
        let prevOk := match prev with | some p => !startBlock.contains p | none => true
        let nextOk := match ((c :: r).drop lit.length).head? with | some n => !endBlock.contains n | none => true
        if prevOk && lit.isPrefixOf (c :: r) && nextOk then repl ++ go (some c) (lit.length - 1) r
        else c :: go (some c) 0 r
  go none 0 s

/-- the per-node loop of `_proc_dep_pair` over one left expression: rewritten expression and
`(name, offset, trigger)` triples; `none` = GraphParseError (family trigger on a plain task) -/
def procLeftNodes (expr : Str) : List Item → Str × List (Str × Str × Str)
  | [] => (expr, [])
  | it :: rest =>
    if ['@'].isPrefixOf it.name then
      let r := procLeftNodes expr rest
      (r.1, (it.name, it.offset, []) :: r.2)
    else if !it.qual.isEmpty then
      let trig := stripChars (· == ':') it.qual
      let ntrig := stdQual trig
      let expr' :=
        if ntrig != trig then
          subLit nodeStartBlock qualEndBlock (it.name ++ it.offset ++ [':'] ++ trig)
            (it.name ++ it.offset ++ [':'] ++ ntrig) expr
        else expr
      let r := procLeftNodes expr' rest
      (r.1, (it.name, it.offset, ntrig) :: r.2)
    else
      let expr' := subLit nodeStartBlock nameEndBlock (it.name ++ it.offset)
        (it.name ++ it.offset ++ [':'] ++ outSucceeded) expr
      let r := procLeftNodes expr' rest
      (r.1, (it.name, it.offset, outSucceeded) :: r.2)

/-- the `finish` replacement and the trigger list of `_compute_triggers` -/
def finishAndTrigs (expr : Str) : List (Str × Str × Str) → Str × List Str
  | [] => (expr, [])
  | (name, offset, trig) :: rest =>
    if ['@'].isPrefixOf name then
      let r := finishAndTrigs expr rest
      (r.1, name :: r.2)
    else if trig = outFinished then
      let this := name ++ offset ++ [':'] ++ trig
      let that := ['('] ++ name ++ offset ++ [':'] ++ outSucceeded ++ ['|'] ++ name ++ offset ++ [':'] ++ outFailed ++ [')']
      let r := finishAndTrigs (subLit nodeStartBlock qualEndBlock this that expr) rest
      (r.1, (name ++ offset ++ [':'] ++ outSucceeded) :: (name ++ offset ++ [':'] ++ outFailed) :: r.2)
    else
      let r := finishAndTrigs expr rest
      (r.1, (name ++ offset ++ [':'] ++ trig) :: r.2)

/-- one right-hand node in `_compute_triggers` -/
def procRightText (eoc mid : List Str) (expr : Str) (trigs : List Str) (st : St) (right0 : Str) : Except Err St :=
  let right := stripChars isParen right0
  match matchRhs right with
  | none => .error (if rhsBadIsGPE then .gpe else .other)
  | some (suicide, it) =>
    let optional := it.opt == ['?']
    let output : Str :=
      if !it.qual.isEmpty then stdQual (stripChars (· == ':') it.qual)
      else if optional || (!eoc.contains right || mid.contains right || expr.isEmpty) then outSucceeded
      else []
    let tr : Option Trigs :=
      if it.offset.isEmpty then setTrigger st.trigs it.name suicide trigs expr else some st.trigs
    match tr with
    | none => .error .gpe
    | some tr =>
      if output.isEmpty then .ok { st with trigs := tr }
      else
        match setOutputOpt st.opts it.name output optional suicide with
        | none => .error .gpe
        | some op => .ok { trigs := tr, opts := op }

/-- bookkeeping for the "offsets only on the right" check -/
structure Book where
  lefts : List Str := []
  rights : List Str := []
  checkTerminals : List (Str × Str) := []

/-- one left expression (`none`: the pair has no left side) against all right nodes -/
def procLeftText (eoc mid : List Str) (rights : List Str) (acc : St × Book) (left : Option Str) :
    Except Err (St × Book) :=
  let (st, bk) := acc
  let info : List Item := match left with | some l => findallNodes l | none => []
  let bk := { bk with lefts := bk.lefts ++ info.map Item.text }
  let e0 : Str := left.getD []
  let p := procLeftNodes e0 info
  if p.2.any (fun (x : Str × Str × Str) => !(['@'].isPrefixOf x.1) && famTriggers.contains x.2.2) then .error .gpe
  else
    let expr := p.1.filter (· != '?')
    let ft := finishAndTrigs expr p.2
    (rights.foldlM (procRightText eoc mid ft.1 ft.2) st).map fun s => (s, bk)

/-- `_proc_dep_pair` -/
def procPairText (eoc mid : List Str) (acc : St × Book) (pair : TPair) : Except Err (St × Book) :=
  let (st, bk) := acc
  let (left, right) := pair
  let l : Str := left.getD []
  if right.contains '|' then .error .gpe
  else if l.contains '!' then .error .gpe
  else if countChar '(' l != countChar ')' l then .error .gpe
  else if countChar '(' right != countChar ')' right then .error .gpe
  else if exprChecked && ((!l.isEmpty && !exprOk l) || !exprOk right) then .error .gpe
  else
    let bk : Book :=
      if right.contains '[' && !l.isEmpty then
        { bk with checkTerminals := aset (stripChars isParen right) l bk.checkTerminals }
      else bk
    let rights := splitOnChar '&' right
    if rights.contains [] then .error .gpe
    else
      let lefts : List (Option Str) :=
        if l.isEmpty || l.contains '|' || l.contains '(' then [left]
        else (splitOnChar '&' l).map some
      if lefts.contains (some []) then .error .gpe
      else
        let bk := { bk with rights := bk.rights ++ rights.map (stripChars isParen) }
        lefts.foldlM (procLeftText eoc mid rights) (st, bk)

structure Result where
  st : St
  deriving Repr, Inhabited

/-- everything after `full_lines` -/
def parseFull (full : List Str) : Except Err St :=
  if linesRejected full then .error .gpe
  else
    let lineSet := dedup full
    let pairs := sortBy pairLe (dedup (lineSet.flatMap textLinePairs))
    let eoc := lineSet.flatMap textLineEoc
    let mid := if midInfer then lineSet.flatMap textLineMid else []
    match pairs.foldlM (procPairText eoc mid) (({} : St), ({} : Book)) with
    | .error e => .error e
    | .ok (st, bk) =>
      let terminals := bk.rights.filter fun r => !bk.lefts.contains r
      if terminals.any fun r => (bk.checkTerminals.lookup r).isSome then .error .gpe else .ok st

/-- `GraphParser().parse_graph(text)` -/
def parseText (text : Str) : Except Err St :=
  match fullLines text with
  | none => .error .gpe
  | some full => parseFull full

/-! ## Text rendering of token lines (the presentation layer) -/

/-- tokens of a graph line: node texts and the operators -/
inductive Tok where
  | node : Str → Tok
  | arrow | amp | bar | lp | rp
  deriving Repr, DecidableEq, Inhabited

def Tok.text : Tok → Str
  | .node s => s
  | .arrow => ['=', '>']
  | .amp => ['&']
  | .bar => ['|']
  | .lp => ['(']
  | .rp => [')']

/-- the continuation operators `=>`, `&`, `|` -/
def Tok.isOp : Tok → Bool
  | .arrow => true
  | .amp => true
  | .bar => true
  | _ => false

def Tok.isNode : Tok → Bool
  | .node _ => true
  | _ => false

/-- optional trailing comment of a physical line -/
def commentText : Option Str → Str
  | some c => '#' :: c
  | none => []

/-- a blank or comment-only physical line -/
structure Blank where
  ws : Str
  comment : Option Str
  deriving Repr, Inhabited

def Blank.text (b : Blank) : Str := b.ws ++ commentText b.comment

/-- one physical line carrying tokens: white space before every token, trailing white space,
optional comment, and the blank / comment-only lines that follow it -/
structure Seg where
  items : List (Str × Tok)
  tailWs : Str
  comment : Option Str
  blanks : List Blank
  deriving Repr, Inhabited

def Seg.toks (s : Seg) : List Tok := s.items.map (·.2)
def itemsText (items : List (Str × Tok)) : Str := items.flatMap fun it => it.1 ++ it.2.text
def Seg.text (s : Seg) : Str := itemsText s.items ++ s.tailWs ++ commentText s.comment
def Seg.phys (s : Seg) : List Str := s.text :: s.blanks.map Blank.text
/-- the tokens without any white space -/
def toksText (ts : List Tok) : Str := ts.flatMap Tok.text
def Seg.canon (s : Seg) : Str := toksText s.toks

/-- a logical line laid out over one or more physical lines -/
abbrev LLine := List Seg

def LLine.toks (l : LLine) : List Tok := l.flatMap Seg.toks
def LLine.canon (l : LLine) : Str := toksText (LLine.toks l)
def LLine.phys (l : LLine) : List Str := l.flatMap Seg.phys

def joinNl : List Str → Str
  | [] => []
  | [a] => a
  | a :: b :: r => a ++ '\n' :: joinNl (b :: r)

/-- the graph string: leading blank lines, then the laid-out lines -/
def renderText (pre : List Blank) (ls : List LLine) : Str :=
  joinNl (pre.map Blank.text ++ ls.flatMap LLine.phys)

/-! ## Graph ASTs -/

structure Node where
  name : Str
  offset : Str := []     -- `[]` or `[...]` with the brackets
  qual : Str := []       -- without the colon; `[]` = none
  opt : Bool := false
  suicide : Bool := false
  deriving Repr, DecidableEq, Inhabited

def Node.isXtrig (n : Node) : Bool := ['@'].isPrefixOf n.name

def Node.text (n : Node) : Str :=
  (if n.suicide then ['!'] else []) ++ n.name ++ n.offset ++
    (if n.qual.isEmpty then [] else ':' :: n.qual) ++ (if n.opt then ['?'] else [])

inductive Tree (α : Type) where
  | leaf : α → Tree α
  | and : Tree α → Tree α → Tree α
  | or : Tree α → Tree α → Tree α
  | paren : Tree α → Tree α
  deriving Repr, DecidableEq, Inhabited

namespace Tree
variable {α β : Type}

def den (σ : α → Bool) : Tree α → Bool
  | leaf a => σ a
  | and l r => l.den σ && r.den σ
  | or l r => l.den σ || r.den σ
  | paren t => t.den σ

def bind (f : α → Tree β) : Tree α → Tree β
  | leaf a => f a
  | and l r => and (l.bind f) (r.bind f)
  | or l r => or (l.bind f) (r.bind f)
  | paren t => paren (t.bind f)

def leaves : Tree α → List α
  | leaf a => [a]
  | and l r => l.leaves ++ r.leaves
  | or l r => l.leaves ++ r.leaves
  | paren t => t.leaves

def hasOr : Tree α → Bool
  | leaf _ => false
  | and l r => l.hasOr || r.hasOr
  | or _ _ => true
  | paren t => t.hasOr

def hasParen : Tree α → Bool
  | leaf _ => false
  | and l r => l.hasParen || r.hasParen
  | or l r => l.hasParen || r.hasParen
  | paren _ => true

def render (f : α → Str) : Tree α → Str
  | leaf a => f a
  | and l r => l.render f ++ '&' :: r.render f
  | or l r => l.render f ++ '|' :: r.render f
  | paren t => '(' :: t.render f ++ [')']

def toks (f : α → Str) : Tree α → List Tok
  | leaf a => [.node (f a)]
  | and l r => l.toks f ++ .amp :: r.toks f
  | or l r => l.toks f ++ .bar :: r.toks f
  | paren t => .lp :: t.toks f ++ [.rp]

def isOr : Tree α → Bool
  | or _ _ => true
  | _ => false

/-- the text read with the usual precedence (`&` binds tighter than `|`) has the structure of the tree -/
def WF : Tree α → Bool
  | leaf _ => true
  | and l r => l.WF && r.WF && !l.isOr && !r.isOr
  | or l r => l.WF && r.WF
  | paren t => t.WF

end Tree

/-- `a & b & c` (right-nested) -/
def bigAnd {α : Type} (d : α) : List α → Tree α
  | [] => .leaf d
  | [x] => .leaf x
  | x :: y :: r => .and (.leaf x) (bigAnd d (y :: r))

/-- a graph line: a lone conjunction of nodes, or a chain `head => c₁ => c₂ ...` whose later
elements are conjunctions of nodes -/
inductive SLine where
  | lone : List Node → SLine
  | chain : Tree Node → List (List Node) → SLine
  deriving Repr, Inhabited

/-- the elements of a line as trees -/
def SLine.elems : SLine → List (Tree Node)
  | .lone ns => [bigAnd default ns]
  | .chain h rest => h :: rest.map (bigAnd default)

/-! ### node syntax -/

def validName (k : Cls) (s : Str) : Bool :=
  match s with
  | [] => false
  | c :: r => k.nameFirst.contains c && r.all fun d => k.nameRest.contains d

def validOffset (k : Cls) (s : Str) : Bool :=
  s.isEmpty ||
    (match s with
     | '[' :: r =>
       let q := spanP (fun d => k.offset.contains d) r
       !q.1.isEmpty && q.2 == [']']
     | _ => false)

def Node.valid (n : Node) : Bool :=
  if n.isXtrig then
    (match n.name with
     | _ :: r => validName nodesCls r
     | [] => false) && n.offset.isEmpty && n.qual.isEmpty && !n.opt && !n.suicide
  else
    validName nodesCls n.name && validOffset nodesCls n.offset && n.qual.all fun d => nodesCls.qual.contains d

/-! ### declarations -/

/-- what a pair contributes to the parser tables -/
inductive Decl where
  | trig (name expr : Str) (trigs : List Str) (suicide : Bool)
  | opt (name output : Str) (optional : Bool)
  deriving Repr, DecidableEq, Inhabited

def applyDecl (st : St) : Decl → Option St
  | .trig n e ts s => (setTrigger st.trigs n s ts e).map fun t => { st with trigs := t }
  | .opt n o b => (setOutputOpt st.opts n o b false).map fun t => { st with opts := t }

/-- the standard output a left node triggers off -/
def Node.trigOut (n : Node) : Str := if n.qual.isEmpty then outSucceeded else stdQual n.qual

def atomText (name off out : Str) : Str := name ++ off ++ ':' :: out

/-- the recorded form of one left node (`finished` = succeeded or failed) -/
def leafExpr (n : Node) : Tree Str :=
  if n.isXtrig then .leaf n.name
  else if n.trigOut = outFinished then
    .paren (.or (.leaf (atomText n.name n.offset outSucceeded)) (.leaf (atomText n.name n.offset outFailed)))
  else .leaf (atomText n.name n.offset n.trigOut)

/-- the recorded expression of a left-hand side -/
def exprOf (t : Tree Node) : Tree Str := t.bind leafExpr

/-- conditional / parenthesised left sides are one expression, plain conjunctions one per node -/
def leftUnits (t : Tree Node) : List (Tree Node) :=
  if t.hasOr || t.hasParen then [t] else t.leaves.map .leaf

/-- `_proc_dep_pair`'s checks on a left node: no suicide mark, no family trigger -/
def leftNodeOk (n : Node) : Bool :=
  !n.suicide && (n.isXtrig || !famTriggers.contains n.trigOut)

structure SPair where
  left : Option (Tree Node)
  rights : List Node
  deriving Repr, Inhabited

/-- the output whose optionality a right node declares (`[]` = none) -/
def rightOutput (eoc mid : List Str) (exprEmpty : Bool) (r : Node) : Str :=
  if !r.qual.isEmpty then stdQual r.qual
  else if r.opt || (!eoc.contains r.text || mid.contains r.text || exprEmpty) then outSucceeded
  else []

/-- the optionality declaration of a right node whose inferred / written output is `o` -/
def rightOptDecl (r : Node) (o : Str) : List Decl :=
  if o.isEmpty || r.suicide then [] else [Decl.opt r.name o r.opt]

def rightTrigDecl (expr : Str) (trigs : List Str) (r : Node) : List Decl :=
  if r.offset.isEmpty then [Decl.trig r.name expr trigs r.suicide] else []

def rightDecls (eoc mid : List Str) (expr : Str) (trigs : List Str) (r : Node) : List Decl :=
  rightTrigDecl expr trigs r ++ rightOptDecl r (rightOutput eoc mid expr.isEmpty r)

/-- declarations of one pair; `none` = rejected on its own -/
def pairDecls (eoc mid : List Str) (p : SPair) : Option (List Decl) :=
  if p.rights.isEmpty || p.rights.any (·.isXtrig) then none
  else
    match p.left with
    | none => some (p.rights.flatMap (rightDecls eoc mid [] []))
    | some l =>
      if !(l.leaves.all leftNodeOk) then none
      else some ((leftUnits l).flatMap fun u =>
        let e := exprOf u
        p.rights.flatMap (rightDecls eoc mid (e.render id) e.leaves))

def autoPairs (ns : List Node) : List SPair :=
  (ns.filter fun n => !n.isXtrig).map fun n => ⟨none, [n]⟩

def chainLinks : Tree Node → List (List Node) → List SPair
  | _, [] => []
  | l, r :: rest => ⟨some l, r⟩ :: chainLinks (bigAnd default r) rest

def SLine.pairs : SLine → List SPair
  | .lone ns => autoPairs ns
  | .chain h rest => autoPairs h.leaves ++ chainLinks h rest

/-- `mid_chain_nodes` contributed by one line: the nodes of its inner elements -/
def SLine.mid : SLine → List Str
  | .lone _ => []
  | .chain _ rest => (dropLast rest).flatten.map Node.text

/-- `end_of_chain_nodes` contributed by one line -/
def SLine.eoc : SLine → List Str
  | .lone ns => ns.map Node.text
  | .chain _ rest => match rest.getLast? with | some ns => ns.map Node.text | none => []

def SLine.nodes : SLine → List Node
  | .lone ns => ns
  | .chain h rest => h.leaves ++ rest.flatten

/-- texts of the nodes on left-hand sides (`_lefts`) -/
def SPair.leftTexts (p : SPair) : List Str :=
  match p.left with | some l => l.leaves.map Node.text | none => []

/-- a single right node with an offset under a real left side must also occur on some left side -/
def terminalsOk (pairs : List SPair) : Bool :=
  let lefts := pairs.flatMap SPair.leftTexts
  pairs.all fun p =>
    match p.left, p.rights with
    | some _, [r] => r.offset.isEmpty || lefts.contains r.text
    | _, _ => true

def SLine.shapeOk : SLine → Bool
  | .lone ns => !ns.isEmpty
  | .chain _ rest => !rest.isEmpty && rest.all fun ns => !ns.isEmpty

/-- the structure model: `none` = rejected -/
def parseStructWith (midOn : Bool) (lines : List SLine) : Option St :=
  if !(lines.all fun l => l.shapeOk && l.nodes.all Node.valid) then none
  else
    let pairs := lines.flatMap SLine.pairs
    let eoc := lines.flatMap SLine.eoc
    let mid := if midOn then lines.flatMap SLine.mid else []
    match pairs.mapM (pairDecls eoc mid) with
    | none => none
    | some ds =>
      match ds.flatten.foldlM applyDecl ({} : St) with
      | none => none
      | some st => if terminalsOk pairs then some st else none

def parseStruct (lines : List SLine) : Option St := parseStructWith midInfer lines

/-- the token line of a graph line (its canonical text is `toksText` of this) -/
def SLine.toks (l : SLine) : List Tok :=
  match l.elems with
  | [] => []
  | e :: es => e.toks Node.text ++ es.flatMap fun x => Tok.arrow :: x.toks Node.text

/-! ### layouts covered by the text-layer theorem (checked by the driver on every generated form) -/

def wsOkB (w : Str) : Bool := w.all fun c => isWs c && c != '\n'

def commentOkB : Option Str → Bool
  | none => true
  | some s => !s.contains '\n'

def nodeTextOkB (s : Str) : Bool :=
  !s.isEmpty && s.all fun c => !isWs c && c != '#' && c != '&' && c != '|' && c != '=' && c != '>'

def Tok.okB : Tok → Bool
  | .node s => nodeTextOkB s
  | _ => true

def noAdjNodes : List Tok → Bool
  | a :: b :: r => !(a.isNode && b.isNode) && noAdjNodes (b :: r)
  | _ => true

def noAdjOps : List Tok → Bool
  | a :: b :: r => !(a.isOp && b.isOp) && noAdjOps (b :: r)
  | _ => true

def blankOkB (b : Blank) : Bool := wsOkB b.ws && commentOkB b.comment

def segOkB (s : Seg) : Bool :=
  !s.items.isEmpty && s.items.all (fun it => wsOkB it.1 && it.2.okB) && wsOkB s.tailWs &&
  commentOkB s.comment && s.blanks.all blankOkB && noAdjNodes s.toks

def isOpOpt : Option Tok → Bool
  | some t => t.isOp
  | none => false

/-- every line break is next to one of `=> & |` -/
def breaksB : List Seg → Bool
  | s :: s' :: r => (isOpOpt s.toks.getLast? || isOpOpt s'.toks.head?) && breaksB (s' :: r)
  | _ => true

def lineOkB (l : LLine) : Bool :=
  l.all segOkB && !l.isEmpty && noAdjOps (LLine.toks l) &&
  !isOpOpt (LLine.toks l).head? && !isOpOpt (LLine.toks l).getLast? && breaksB l

end CylcModel.Graph
