/-
Lemmas about `cylc set` in the `Sched3Set` model (property C29): prerequisites.
-/
import CylcModel.Sched3XFlow

namespace CylcModel.Sched3X

/-! ### `force_satisfy` -/

/-- what `force_satisfy` does to one prerequisite: the atoms stay, the requested ones (or all) get satisfied -/
def Pre.force (pr : Pre) (atoms : List Atom) (all : Bool) : Pre :=
  { pr with atoms := pr.atoms.map fun (b, s) => if all || atoms.contains b then (b, true) else (b, s) }

theorem forceSatisfy_pre (x : Proxy) (atoms : List Atom) (all : Bool) :
    (x.forceSatisfy atoms all).pre = x.pre.map fun pr => pr.force atoms all := rfl

/-- the prerequisites keep their atoms (and expression): nothing is invented -/
theorem force_keys (pr : Pre) (atoms : List Atom) (all : Bool) :
    (pr.force atoms all).atoms.map (·.1) = pr.atoms.map (·.1) ∧ (pr.force atoms all).expr = pr.expr := by
  unfold Pre.force
  refine ⟨?_, rfl⟩
  simp only [List.map_map]
  apply List.map_congr_left
  intro e _
  simp only [Function.comp]
  split <;> rfl

/-- an atom is satisfied afterwards iff it was before or it was requested -/
theorem force_flags (pr : Pre) (atoms : List Atom) (all : Bool) (b : Atom) (v : Bool) :
    (b, v) ∈ (pr.force atoms all).atoms ↔
      ∃ v0, (b, v0) ∈ pr.atoms ∧ v = (v0 || all || atoms.contains b) := by
  unfold Pre.force
  simp only [List.mem_map]
  constructor
  · rintro ⟨⟨b0, v0⟩, hm, he⟩
    cases hc : (all || atoms.contains b0) with
    | true =>
      simp only [hc, if_true, Prod.mk.injEq] at he
      obtain ⟨h1, h2⟩ := he
      subst h1
      refine ⟨v0, hm, ?_⟩
      rw [← h2, Bool.or_assoc, hc]; simp
    | false =>
      simp only [hc, Bool.false_eq_true, if_false, Prod.mk.injEq] at he
      obtain ⟨h1, h2⟩ := he
      subst h1
      refine ⟨v0, hm, ?_⟩
      rw [← h2, Bool.or_assoc, hc]; simp
  · rintro ⟨v0, hm, hv⟩
    refine ⟨(b, v0), hm, ?_⟩
    cases hc : (all || atoms.contains b) with
    | true =>
      simp only [hc, if_true, Prod.mk.injEq, true_and]
      rw [hv, Bool.or_assoc, hc]; simp
    | false =>
      simp only [hc, Bool.false_eq_true, if_false, Prod.mk.injEq, true_and]
      rw [hv, Bool.or_assoc, hc]; simp

/-! ### all prerequisites set: the task is ready -/

/-- the atom indices of an and/or expression are within the prerequisite's atoms -/
def BE.bounded (n : Nat) : BE → Prop
  | .atom i => i < n
  | .and l r => l.bounded n ∧ r.bounded n
  | .or l r => l.bounded n ∧ r.bounded n

/-- well-formed prerequisite: its expression only refers to its own atoms -/
def Pre.wf (pr : Pre) : Prop := ∀ e, pr.expr = some e → e.bounded pr.atoms.length

theorem eval_all_true (atoms : List (Atom × Bool)) (hall : ∀ e ∈ atoms, e.2 = true) :
    ∀ (e : BE), e.bounded atoms.length →
      e.eval (fun i => match atoms[i]? with | some a => a.2 | none => false) = true := by
  intro e
  induction e with
  | atom i =>
    intro hb
    simp only [BE.bounded] at hb
    simp only [BE.eval]
    have : atoms[i]? = some atoms[i] := List.getElem?_eq_getElem hb
    rw [this]
    exact hall _ (List.getElem_mem hb)
  | and l r ihl ihr =>
    intro hb
    simp only [BE.bounded] at hb
    simp only [BE.eval, ihl hb.1, ihr hb.2, Bool.and_self]
  | or l r ihl _ =>
    intro hb
    simp only [BE.bounded] at hb
    simp only [BE.eval, ihl hb.1, Bool.true_or]

/-- `--pre=all`: every (well-formed) prerequisite of the proxy is satisfied afterwards -/
theorem forceSatisfy_all_satisfied (x : Proxy) (atoms : List Atom) (hwf : ∀ pr ∈ x.pre, pr.wf) :
    (x.forceSatisfy atoms true).prereqsSatisfied = true := by
  unfold Proxy.prereqsSatisfied
  rw [forceSatisfy_pre]
  simp only [List.all_eq_true, List.mem_map]
  rintro pr' ⟨pr, hpr, rfl⟩
  have hall : ∀ e ∈ (pr.force atoms true).atoms, e.2 = true := by
    intro e he
    unfold Pre.force at he
    simp only [Bool.true_or, if_true, List.mem_map] at he
    obtain ⟨e0, _, rfl⟩ := he
    rfl
  unfold Pre.isSatisfied
  have hexpr : (pr.force atoms true).expr = pr.expr := rfl
  rw [hexpr]
  cases he : pr.expr with
  | none => simp only [List.all_eq_true]; exact hall
  | some e =>
    simp only
    apply eval_all_true _ hall
    have hlen : (pr.force atoms true).atoms.length = pr.atoms.length := by unfold Pre.force; simp
    rw [hlen]
    exact hwf pr hpr e he

/-! ### `cylc set --pre`: what happens to the pool -/

@[simp] theorem pool_useFlow (s : State) (n : Nat) : (useFlow s n).pool = s.pool := by
  unfold useFlow; split <;> rfl

@[simp] theorem pool_newFlow (s : State) : (newFlow s).1.pool = s.pool := by
  unfold newFlow; simp

theorem pool_foldl_useFlow (ns : List Nat) (s : State) : (ns.foldl useFlow s).pool = s.pool := by
  induction ns generalizing s with
  | nil => rfl
  | cons n ns ih => simp only [List.foldl_cons]; rw [ih]; simp

theorem pool_cliFlows (s : State) (f : FlowSpec) : (cliFlows s f).1.pool = s.pool := by
  unfold cliFlows
  cases f with
  | default => rfl
  | new => simp
  | none => rfl
  | nums ns =>
    simp only
    split <;> exact pool_foldl_useFlow ns s

/-- the fields of the state that `cylc set` can touch besides the flow manager -/
def core (s : State) : List Proxy × List Proxy × List Row × List Row × List Upd × List (String × Int) :=
  (s.pool, s.ghosts, s.rows, s.qIns, s.qUpd, s.tasksToHold)

theorem core_useFlow (s : State) (n : Nat) : core (useFlow s n) = core s := by
  unfold useFlow; split <;> rfl

theorem core_foldl_useFlow (ns : List Nat) (s : State) : core (ns.foldl useFlow s) = core s := by
  induction ns generalizing s with
  | nil => rfl
  | cons n ns ih => simp only [List.foldl_cons]; rw [ih, core_useFlow]

theorem core_cliFlows (s : State) (f : FlowSpec) : core (cliFlows s f).1 = core s := by
  unfold cliFlows
  cases f with
  | default => rfl
  | new => simp only [newFlow]; rw [core_useFlow]; rfl
  | none => rfl
  | nums ns =>
    simp only
    split <;> exact core_foldl_useFlow ns s

theorem forceXtrigs_fields (x : Proxy) (l : List String) :
    (x.forceXtrigs l).pt = x.pt ∧ (x.forceXtrigs l).name = x.name ∧ (x.forceXtrigs l).pre = x.pre ∧
    (x.forceXtrigs l).flows = x.flows ∧ (x.forceXtrigs l).status = x.status ∧ (x.forceXtrigs l).sui = x.sui := by
  unfold Proxy.forceXtrigs Proxy.xSatAll
  split <;> exact ⟨rfl, rfl, rfl, rfl, rfl, rfl⟩

theorem get?_cliFlows (s : State) (f : FlowSpec) (p : Int) (n : String) : (cliFlows s f).1.get? p n = s.get? p n :=
  get?_of_pool_eq (pool_cliFlows s f) p n

/-- **a command that names no prerequisite of the task changes nothing** (pool, transient objects, database
rows and queue, hold record): only the flow manager may have registered the `--flow` numbers.  "Names no
prerequisite": none of the requested task prerequisites is one of the instance, and none of the requested xtriggers is
`all` or an xtrigger the pooled proxy carries. -/
theorem setCmd_no_valid_prereq (g : Graph) (s : State) (id : Int × String) (outs : List String) (pre : PreSpec)
    (flow : FlowSpec) (wait : Bool) (hpre : pre.given = true) (hall : pre.isAll = false)
    (hvalid : validPrereqs g id.1 id.2 (pre.atoms g) = [])
    (hx1 : ∀ x, s.get? id.1 id.2 = some x → validXtrigs x pre.xlabels = [])
    (hx2 : validXtrigsInactive pre.xlabels = []) :
    core (setCmd g s id outs pre flow wait) = core s := by
  unfold setCmd
  simp only [hpre, hall, Bool.true_and, Bool.false_or, hvalid]
  split
  · rfl
  · have hg := get?_cliFlows s flow id.1 id.2
    split
    · rename_i x hx
      rw [hg] at hx
      split
      · exact core_cliFlows s flow
      · unfold setPrePooled
        simp only [hx1 x hx, List.isEmpty_nil, Bool.not_true, Bool.or_self, Bool.not_false, if_true]
        exact core_cliFlows s flow
    · split
      · exact core_cliFlows s flow
      · unfold setPreInactive
        simp only [hx2, List.isEmpty_nil, Bool.not_true, Bool.or_self, Bool.not_false, if_true]
        exact core_cliFlows s flow

/-- `merge_flows` leaves the prerequisites of the proxy alone (and it stays pooled) -/
theorem mergeFlows_pre (g : Graph) (s : State) (x : Proxy) (f : Flows) (hx : s.get? x.pt x.name = some x) :
    ∃ y, (mergeFlows g s x f).get? x.pt x.name = some y ∧ y.pre = x.pre := by
  cases h : (f.isEmpty || f == x.flows) with
  | true => rw [mergeFlows_noop g s x f h]; exact ⟨x, hx, rfl⟩
  | false =>
    unfold mergeFlows
    simp only [h, Bool.false_eq_true, if_false]
    have hsome : (s.get? x.pt x.name).isSome = true := by rw [hx]; rfl
    have h1 : (dbInsert (s.put (x.merged f)) (x.merged f)).get? x.pt x.name = some (x.merged f) := by
      rw [get?_of_pool_eq (pool_dbInsert _ _)]
      exact get?_put_self s (x.merged f) hsome
    generalize dbInsert (s.put (x.merged f)) (x.merged f) = s1 at h1
    have hsome1 : (s1.get? x.pt x.name).isSome = true := by rw [h1]; rfl
    split
    · refine ⟨queueTask ((x.merged f).reset (status := some .waiting)), ?_, ?_⟩
      · have := get?_put_self s1 (queueTask ((x.merged f).reset (status := some .waiting))) (by simpa using hsome1)
        simpa using this
      · unfold queueTask; simp [Proxy.merged]
    · split
      · refine ⟨(x.merged f).noWait, ?_, rfl⟩
        apply (spawnOnAllOutputs_ok g (s1.put (x.merged f).noWait) (x.merged f).noWait).1
        have := get?_put_self s1 (x.merged f).noWait (by simpa using hsome1)
        simpa using this
      · exact ⟨x.merged f, h1, rfl⟩

/-- **`cylc set --pre` on a pooled task satisfies only prerequisites the task has**: afterwards the task is in
the pool with the prerequisites it had, the requested ones that it has (`valid`; all of them with `--pre=all`)
satisfied and nothing else changed in them -/
theorem setPrePooled_pre (g : Graph) (s : State) (x : Proxy) (flows : Flows) (valid : List Atom) (setAll : Bool)
    (vx : List String) (hx : s.get? x.pt x.name = some x) (hsome : (setAll || !valid.isEmpty || !vx.isEmpty) = true) :
    ∃ y, (setPrePooled g s x flows valid setAll vx).get? x.pt x.name = some y ∧
      y.pre = x.pre.map fun pr => pr.force valid setAll := by
  unfold setPrePooled
  simp only [hsome, Bool.not_true, Bool.false_eq_true, if_false]
  obtain ⟨y1, hy1, hpre1⟩ := mergeFlows_pre g s x flows hx
  rw [hy1]
  simp only
  have hk := get?_key hy1
  have hf := forceXtrigs_fields (y1.forceSatisfy valid setAll) vx
  refine ⟨(y1.forceSatisfy valid setAll).forceXtrigs vx, ?_, ?_⟩
  · have := get?_put_self (mergeFlows g s x flows) ((y1.forceSatisfy valid setAll).forceXtrigs vx)
      (by
        rw [hf.1, hf.2.1]
        show ((mergeFlows g s x flows).get? y1.pt y1.name).isSome = true
        rw [hk.1, hk.2, hy1]; rfl)
    have e1 : ((y1.forceSatisfy valid setAll).forceXtrigs vx).pt = x.pt := hf.1.trans hk.1
    have e2 : ((y1.forceSatisfy valid setAll).forceXtrigs vx).name = x.name := hf.2.1.trans hk.2
    rw [e1, e2] at this
    exact this
  · rw [hf.2.2.1, forceSatisfy_pre, hpre1]

/-! ### xtrigger prerequisites -/

/-- `cylc set --pre=xtrigger/...` touches only xtriggers the task carries: no xtrigger appears or disappears -/
theorem forceXtrigs_labels (x : Proxy) (l : List String) :
    (x.forceXtrigs l).xLabels.map (·.1) = x.xLabels.map (·.1) := by
  unfold Proxy.forceXtrigs
  by_cases hl : (l == ["all"]) = true
  · simp only [hl, if_true]
    unfold Proxy.xSatAll Proxy.xLabels
    cases x.xSub <;> cases x.xExec <;> rfl
  · simp only [hl]
    unfold Proxy.xLabels
    cases x.xSub <;> cases x.xExec <;> rfl

/-- the execution-retry xtrigger is satisfied afterwards iff it was before, or it was named, or `all` was given -/
theorem forceXtrigs_exec (x : Proxy) (l : List String) (v : Bool) (h : x.xExec = some v) :
    (x.forceXtrigs l).xExec = some (v || l == ["all"] || l.contains (retryLabel false x.pt x.name)) := by
  unfold Proxy.forceXtrigs Proxy.xSatAll
  split
  · rename_i hl
    simp [h, hl]
  · rename_i hl
    have : (l == ["all"]) = false := by simpa using hl
    simp [h, this]

theorem forceXtrigs_sub (x : Proxy) (l : List String) (v : Bool) (h : x.xSub = some v) :
    (x.forceXtrigs l).xSub = some (v || l == ["all"] || l.contains (retryLabel true x.pt x.name)) := by
  unfold Proxy.forceXtrigs Proxy.xSatAll
  split
  · rename_i hl
    simp [h, hl]
  · rename_i hl
    have : (l == ["all"]) = false := by simpa using hl
    simp [h, this]

/-- with `xtrigger/all` (or every carried label named) no retry xtrigger is left unsatisfied -/
theorem forceXtrigs_all (x : Proxy) : (x.forceXtrigs ["all"]).retryWait = false := by
  unfold Proxy.forceXtrigs Proxy.xSatAll Proxy.retryWait
  simp only [beq_self_eq_true, if_true]
  cases x.xExec <;> cases x.xSub <;> rfl

theorem reset_xtrigs (x : Proxy) (st : Option Status) (q r h : Option Bool) :
    (x.reset st q r h).xExec = x.xExec ∧ (x.reset st q r h).xSub = x.xSub ∧ (x.reset st q r h).pre = x.pre ∧
    (x.reset st q r h).sui = x.sui := by
  unfold Proxy.reset
  simp only
  split <;> exact ⟨rfl, rfl, rfl, rfl⟩

/-- `merge_flows` leaves the prerequisites and the xtriggers of the proxy alone (and it stays pooled) -/
theorem mergeFlows_xtrigs (g : Graph) (s : State) (x : Proxy) (f : Flows) (hx : s.get? x.pt x.name = some x) :
    ∃ y, (mergeFlows g s x f).get? x.pt x.name = some y ∧ y.pre = x.pre ∧ y.xExec = x.xExec ∧ y.xSub = x.xSub ∧
      y.sui = x.sui := by
  cases h : (f.isEmpty || f == x.flows) with
  | true => rw [mergeFlows_noop g s x f h]; exact ⟨x, hx, rfl, rfl, rfl, rfl⟩
  | false =>
    unfold mergeFlows
    simp only [h, Bool.false_eq_true, if_false]
    have hsome : (s.get? x.pt x.name).isSome = true := by rw [hx]; rfl
    have h1 : (dbInsert (s.put (x.merged f)) (x.merged f)).get? x.pt x.name = some (x.merged f) := by
      rw [get?_of_pool_eq (pool_dbInsert _ _)]
      exact get?_put_self s (x.merged f) hsome
    generalize dbInsert (s.put (x.merged f)) (x.merged f) = s1 at h1
    have hsome1 : (s1.get? x.pt x.name).isSome = true := by rw [h1]; rfl
    split
    · refine ⟨queueTask ((x.merged f).reset (status := some .waiting)), ?_, ?_, ?_, ?_, ?_⟩
      · have := get?_put_self s1 (queueTask ((x.merged f).reset (status := some .waiting))) (by simpa using hsome1)
        simpa using this
      · unfold queueTask; rw [(reset_xtrigs _ _ _ _ _).2.2.1, (reset_xtrigs _ _ _ _ _).2.2.1]; rfl
      · unfold queueTask; rw [(reset_xtrigs _ _ _ _ _).1, (reset_xtrigs _ _ _ _ _).1]; rfl
      · unfold queueTask; rw [(reset_xtrigs _ _ _ _ _).2.1, (reset_xtrigs _ _ _ _ _).2.1]; rfl
      · unfold queueTask; rw [(reset_xtrigs _ _ _ _ _).2.2.2, (reset_xtrigs _ _ _ _ _).2.2.2]; rfl
    · split
      · refine ⟨(x.merged f).noWait, ?_, rfl, rfl, rfl, rfl⟩
        apply (spawnOnAllOutputs_ok g (s1.put (x.merged f).noWait) (x.merged f).noWait).1
        have := get?_put_self s1 (x.merged f).noWait (by simpa using hsome1)
        simpa using this
      · exact ⟨x.merged f, h1, rfl, rfl, rfl, rfl⟩

/-- **`cylc set --pre` leaves the suicide prerequisites alone** (any prerequisites, `all` included, any xtriggers):
afterwards the task is in the pool with the suicide prerequisites it had -/
theorem setPrePooled_sui (g : Graph) (s : State) (x : Proxy) (flows : Flows) (valid : List Atom) (setAll : Bool)
    (vx : List String) (hx : s.get? x.pt x.name = some x) :
    ∃ y, (setPrePooled g s x flows valid setAll vx).get? x.pt x.name = some y ∧ y.sui = x.sui := by
  unfold setPrePooled
  split
  · exact ⟨x, hx, rfl⟩
  · obtain ⟨y1, hy1, _, _, _, hsui⟩ := mergeFlows_xtrigs g s x flows hx
    simp only
    rw [hy1]
    simp only
    have hk := get?_key hy1
    have hf := forceXtrigs_fields (y1.forceSatisfy valid setAll) vx
    refine ⟨(y1.forceSatisfy valid setAll).forceXtrigs vx, ?_, ?_⟩
    · have := get?_put_self (mergeFlows g s x flows) ((y1.forceSatisfy valid setAll).forceXtrigs vx)
        (by
          rw [hf.1, hf.2.1]
          show ((mergeFlows g s x flows).get? y1.pt y1.name).isSome = true
          rw [hk.1, hk.2, hy1]; rfl)
      have e1 : ((y1.forceSatisfy valid setAll).forceXtrigs vx).pt = x.pt := hf.1.trans hk.1
      have e2 : ((y1.forceSatisfy valid setAll).forceXtrigs vx).name = x.name := hf.2.1.trans hk.2
      rw [e1, e2] at this
      exact this
    · rw [hf.2.2.2.2.2]; exact hsui

/-- **`cylc set --pre=xtrigger/...` on a pooled task**: afterwards the task is in the pool carrying exactly the
xtriggers it carried; one of them is satisfied iff it was satisfied before, or it was named (`vx`: the requested
labels that the task carries), or `xtrigger/all` was given -/
theorem setPrePooled_xtrigs (g : Graph) (s : State) (x : Proxy) (flows : Flows) (valid : List Atom) (setAll : Bool)
    (vx : List String) (hx : s.get? x.pt x.name = some x) (hsome : (setAll || !valid.isEmpty || !vx.isEmpty) = true) :
    ∃ y, (setPrePooled g s x flows valid setAll vx).get? x.pt x.name = some y ∧
      y.xExec = x.xExec.map (fun v => v || vx == ["all"] || vx.contains (retryLabel false x.pt x.name)) ∧
      y.xSub = x.xSub.map (fun v => v || vx == ["all"] || vx.contains (retryLabel true x.pt x.name)) := by
  unfold setPrePooled
  simp only [hsome, Bool.not_true, Bool.false_eq_true, if_false]
  obtain ⟨y1, hy1, _, hxe, hxs, _⟩ := mergeFlows_xtrigs g s x flows hx
  rw [hy1]
  simp only
  have hk := get?_key hy1
  have hf := forceXtrigs_fields (y1.forceSatisfy valid setAll) vx
  refine ⟨(y1.forceSatisfy valid setAll).forceXtrigs vx, ?_, ?_, ?_⟩
  · have := get?_put_self (mergeFlows g s x flows) ((y1.forceSatisfy valid setAll).forceXtrigs vx)
      (by
        rw [hf.1, hf.2.1]
        show ((mergeFlows g s x flows).get? y1.pt y1.name).isSome = true
        rw [hk.1, hk.2, hy1]; rfl)
    have e1 : ((y1.forceSatisfy valid setAll).forceXtrigs vx).pt = x.pt := hf.1.trans hk.1
    have e2 : ((y1.forceSatisfy valid setAll).forceXtrigs vx).name = x.name := hf.2.1.trans hk.2
    rw [e1, e2] at this
    exact this
  · cases hv : x.xExec with
    | none =>
      have : (y1.forceSatisfy valid setAll).xExec = none := by show y1.xExec = none; rw [hxe, hv]
      unfold Proxy.forceXtrigs Proxy.xSatAll
      split <;> simp [this]
    | some v =>
      have h0 : (y1.forceSatisfy valid setAll).xExec = some v := by show y1.xExec = some v; rw [hxe, hv]
      rw [forceXtrigs_exec _ vx v h0]
      show some (v || vx == ["all"] || vx.contains (retryLabel false y1.pt y1.name)) = _
      rw [hk.1, hk.2]; rfl
  · cases hv : x.xSub with
    | none =>
      have : (y1.forceSatisfy valid setAll).xSub = none := by show y1.xSub = none; rw [hxs, hv]
      unfold Proxy.forceXtrigs Proxy.xSatAll
      split <;> simp [this]
    | some v =>
      have h0 : (y1.forceSatisfy valid setAll).xSub = some v := by show y1.xSub = some v; rw [hxs, hv]
      rw [forceXtrigs_sub _ vx v h0]
      show some (v || vx == ["all"] || vx.contains (retryLabel true y1.pt y1.name)) = _
      rw [hk.1, hk.2]; rfl

/-- the requested xtriggers that count are `all` and the labels of xtriggers the proxy carries -/
theorem validXtrigs_carried (x : Proxy) (xs : List String) (l : String) (h : l ∈ validXtrigs x xs) :
    l ∈ xs ∧ (l = "all" ∨ l ∈ x.xLabels.map (·.1)) := by
  unfold validXtrigs at h
  have hm := List.mem_filter.mp h
  refine ⟨hm.1, ?_⟩
  have h2 := hm.2
  simp only [Bool.or_eq_true, beq_iff_eq, List.any_eq_true] at h2
  rcases h2 with h2 | ⟨e, he, hl⟩
  · exact Or.inl h2
  · exact Or.inr (List.mem_map.mpr ⟨e, he, hl⟩)

end CylcModel.Sched3X
