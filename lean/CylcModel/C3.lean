/-
Model of `cylc/flow/c3mro.py` (`C3.merge`, `C3.mro`) and of the part of
`WorkflowConfig.compute_family_tree` / `compute_inheritance` (`cylc/flow/config.py`)
that turns `inherit = ...` lists into linearised ancestors (C35).

Core Lean only.  `merge` terminates by well-founded recursion on the total remaining
length of the sequences (no fuel).

Representation.  A hierarchy is a list of declarations `(name, parents)` in an order in
which every parent is declared before its children (the order in which the equivalent
Python classes have to be created).  `C3.mro` recomputes the linearisation of every
ancestor recursively; as `mro` is a pure function of the tree this is the same as looking
the parents' results up in the table of the declarations processed so far (`mroAll`).
A parent that is not declared at all is Python's `KeyError` (`Res.undef`).

Not modelled: cyclic hierarchies (`RecursionError`; not a DAG), falsy names (the code
tests `if not cand`, so an empty-string name would be treated as "no candidate").
-/
namespace CylcModel.C3

set_option linter.unusedSectionVars false
set_option linter.unusedVariables false

variable {α : Type} [DecidableEq α]

/-- `cand in s[1:]` -/
def inTail (c : α) (s : List α) : Bool := decide (c ∈ s.tail)

/-- `not [s for s in nonemptyseqs if cand in s[1:]]` -/
def good (seqs : List (List α)) (c : α) : Bool := seqs.all fun s => !(inTail c s)

/-- The `for seq in nonemptyseqs:` loop: the first head, in sequence order, that occurs in
no tail of `all`; `none` when every head is rejected (`cand = None` after the loop). -/
def findCand (all : List (List α)) : List (List α) → Option α
  | [] => none
  | [] :: rest => findCand all rest
  | (c :: _) :: rest => if good all c then some c else findCand all rest

/-- `for seq in nonemptyseqs: if seq[0] == cand: del seq[0]` -/
def dropHead (c : α) : List α → List α
  | [] => []
  | h :: t => if h = c then t else h :: t

def removeCand (c : α) (seqs : List (List α)) : List (List α) := seqs.map (dropHead c)

/-- total remaining length: the termination measure of `merge` -/
def total (seqs : List (List α)) : Nat := (seqs.map List.length).sum

/-- `nonemptyseqs = [seq for seq in seqs if seq]` -/
def nonEmpty (seqs : List (List α)) : List (List α) := seqs.filter fun s => !s.isEmpty

theorem total_nonEmpty (seqs : List (List α)) : total (nonEmpty seqs) = total seqs := by
  induction seqs with
  | nil => rfl
  | cons s rest ih =>
    cases s with
    | nil => simpa [nonEmpty, total, List.filter] using ih
    | cons h t =>
      simp only [nonEmpty, total, List.filter, List.isEmpty_cons, Bool.not_false, List.map_cons,
        List.sum_cons] at ih ⊢
      omega

theorem length_dropHead_le (c : α) (s : List α) : (dropHead c s).length ≤ s.length := by
  cases s with
  | nil => simp [dropHead]
  | cons h t => by_cases hc : h = c <;> simp [dropHead, hc]

theorem total_removeCand_le (c : α) (seqs : List (List α)) :
    total (removeCand c seqs) ≤ total seqs := by
  induction seqs with
  | nil => simp [removeCand, total]
  | cons s rest ih =>
    have := length_dropHead_le c s
    simp only [removeCand, total, List.map_cons, List.sum_cons, List.map_map] at ih ⊢
    omega

/-- a candidate found in `l` is the head of a member of `l` -/
theorem findCand_head {all l : List (List α)} {c : α} (h : findCand all l = some c) :
    ∃ t, (c :: t) ∈ l := by
  induction l with
  | nil => simp [findCand] at h
  | cons s rest ih =>
    cases s with
    | nil =>
      simp only [findCand] at h
      obtain ⟨t, ht⟩ := ih h
      exact ⟨t, List.mem_cons_of_mem _ ht⟩
    | cons a t =>
      simp only [findCand] at h
      by_cases hg : good all a = true
      · simp only [hg, if_true, Option.some.injEq] at h
        exact ⟨t, by simp [h]⟩
      · simp only [hg] at h
        obtain ⟨t', ht'⟩ := ih h
        exact ⟨t', List.mem_cons_of_mem _ ht'⟩

theorem total_removeCand_lt {c : α} {t : List α} {seqs : List (List α)} (h : (c :: t) ∈ seqs) :
    total (removeCand c seqs) < total seqs := by
  induction seqs with
  | nil => cases h
  | cons s rest ih =>
    simp only [removeCand, total, List.map_cons, List.sum_cons, List.map_map] at ih ⊢
    rcases List.mem_cons.mp h with h | h
    · subst h
      have := total_removeCand_le c rest
      simp only [removeCand, total, List.map_map] at this
      simp [dropHead]
      omega
    · have := ih h
      have := length_dropHead_le c s
      omega

/-- `C3.merge`: `some res`, or `none` where the code raises
"bad runtime namespace inheritance hierarchy". -/
def merge (seqs : List (List α)) : Option (List α) :=
  let ne := nonEmpty seqs
  if ne = [] then some []
  else
    match h : findCand ne ne with
    | none => none
    | some c => (merge (removeCand c ne)).map (c :: ·)
termination_by total seqs
decreasing_by
  obtain ⟨t, ht⟩ := findCand_head h
  have := total_removeCand_lt ht
  rw [total_nonEmpty] at this
  exact this

/-- outcome of `C3.mro` for one name -/
inductive Res (α : Type) where
  | ok (l : List α)
  | bad            -- Exception("ERROR: ... bad runtime namespace inheritance hierarchy")
  | undef          -- KeyError: a parent that is not in the tree
  deriving Repr, DecidableEq

/-- the linearisations of the declarations processed so far -/
abbrev Table (α : Type) := List (α × Res α)

def Table.get (t : Table α) (x : α) : Res α :=
  match t.lookup x with
  | some r => r
  | none => .undef

/-- `[self.mro(x) for x in self.tree[C]]`: the first failure (in parent order) propagates -/
def parentLins (t : Table α) : List α → Except (Res α) (List (List α))
  | [] => .ok []
  | p :: ps =>
    match t.get p with
    | .ok l => (parentLins t ps).map (l :: ·)
    | .bad => .error .bad
    | .undef => .error .undef

/-- `C3.mro(C)` given the results for everything declared before `C` -/
def mroOf (t : Table α) (c : α) (ps : List α) : Res α :=
  match parentLins t ps with
  | .error e => e
  | .ok ls =>
    match merge ([c] :: ls ++ [ps]) with
    | some l => .ok l
    | none => .bad

/-- all linearisations, declarations in topological order -/
def mroAll (decls : List (α × List α)) : Table α :=
  decls.foldl (fun t d => t ++ [(d.1, mroOf t d.1 d.2)]) []

/-- every parent is either declared earlier or not declared at all (what the driver requires) -/
def topoOrdered : List (α × List α) → Bool
  | [] => true
  | d :: rest => rest.all (fun e => !(d.2.contains e.1)) && !(d.2.contains d.1) && topoOrdered rest

/-! ### `compute_family_tree`: from `inherit` lists to the parents table -/

/-- the parents `compute_family_tree` records for a namespace, or `none` where it raises
(`undefined parent`, `null parentage`).  `names` = all namespaces of `[runtime]`. -/
def famParents (names : List String) (name : String) (inherit : List String) : Option (List String) :=
  if name = "root" then some []
  else
    let pts := if inherit.isEmpty then ["root"] else inherit
    if pts.any (fun p => p != "None" && !names.contains p) then none
    else
      match pts with
      | "None" :: rest => if rest.isEmpty then none else some rest
      | _ => some pts

/-- `compute_family_tree` for a whole `[runtime]` section given in topological order
(root first): the linearised ancestors of every namespace, or `none` if the configuration
is rejected (`WorkflowConfigError`). -/
def famTree (cfg : List (String × List String)) : Option (List (String × List String)) := do
  let names := cfg.map (·.1)
  let decls ← cfg.mapM fun d => (famParents names d.1 d.2).map fun ps => (d.1, ps)
  (mroAll decls).mapM fun e => match e.2 with | .ok l => some (e.1, l) | _ => none

/-- `compute_inheritance`: the value of an item for a namespace is taken from the first
namespace of its linearisation that defines it (later `replicate` calls override earlier
ones and the hierarchy is walked from the far end). -/
def winner (defines : List String) (lin : List String) : Option String :=
  lin.find? fun n => defines.contains n

end CylcModel.C3
