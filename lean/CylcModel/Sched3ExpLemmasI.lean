/-
`Inv` (C32, expired_never_submits): in every state of every run (without a job message `expired`, or with repaired
code) an expired proxy is not queued, not manually triggered, not waiting on job preparation and not in
`toTrigger` - so `releaseAndSubmit` never hands it to job submission.  One lemma per primitive (the pattern of the
`holdInv_*` family of `SchedLemmasC06`).
-/
import CylcModel.Sched3ExpLemmasK
import CylcModel.Sched3ExpLemmasG

namespace CylcModel.Sched3Exp

/-- per proxy: waiting on job preparation only when manually triggered; an expired proxy is not queued, not manual,
and the `is_manual_submit` column of its row is (or is about to be written as) false -/
def POK (x : Proxy) : Prop :=
  (x.wjp = true → x.manual = true) ∧
  (x.status = .expired → x.queued = false ∧ x.manual = false ∧ (x.upd = true ∨ x.dbManual = false))

def Inv (s : State) : Prop :=
  (∀ x ∈ s.pool, POK x) ∧
  (∀ k ∈ s.toTrigger, ∀ x ∈ s.pool, (x.pt, x.name) = k → x.manual = true) ∧
  (∀ k ∈ s.toTrigger, ∃ x ∈ s.pool, (x.pt, x.name) = k)

/-! ### proxies -/

theorem pok_core {x y : Proxy} (h1 : y.status = x.status) (h2 : y.queued = x.queued) (h3 : y.manual = x.manual)
    (h4 : y.wjp = x.wjp) (h5 : y.upd = x.upd) (h6 : y.dbManual = x.dbManual) (h : POK x) : POK y := by
  unfold POK at *
  rw [h1, h2, h3, h4, h5, h6]; exact h

theorem pok_not_expired {x : Proxy} (hw : x.wjp = true → x.manual = true) (hs : x.status ≠ .expired) : POK x :=
  ⟨hw, fun h => absurd h hs⟩

theorem reset_status_some (x : Proxy) (st : Status) (b c d : Option Bool) :
    (x.reset (some st) b c d).status = st := by
  unfold Proxy.reset
  simp only [Option.getD_some]
  split
  · rename_i h
    simp only [Bool.and_eq_true, beq_iff_eq] at h
    exact h.1.1.1.symm
  · rfl

/-- `reset` without a status: the status stays, `upd` can only rise -/
theorem reset_upd_mono (x : Proxy) (a : Option Status) (b c d : Option Bool) (h : x.upd = true) :
    (x.reset a b c d).upd = true := by
  unfold Proxy.reset; simp only; split
  · exact h
  · rfl

theorem reset_queued_some (x : Proxy) (a : Option Status) (v : Bool) (c d : Option Bool) :
    (x.reset a (some v) c d).queued = v := by
  unfold Proxy.reset
  simp only [Option.getD_some]
  split
  · rename_i h
    simp only [Bool.and_eq_true, beq_iff_eq] at h
    exact h.1.1.2.symm
  · rfl

theorem pok_reset_keep {x : Proxy} (c d : Option Bool) (h : POK x) : POK (x.reset none none c d) := by
  refine ⟨by simpa using h.1, ?_⟩
  intro hs
  simp only [reset_status_none] at hs
  obtain ⟨h1, h2, h3⟩ := h.2 hs
  refine ⟨by simpa using h1, by simpa using h2, ?_⟩
  rcases h3 with h3 | h3
  · exact Or.inl (reset_upd_mono _ _ _ _ _ h3)
  · exact Or.inr (by simpa using h3)

/-- queueing a proxy that is waiting -/
theorem pok_reset_queue {x : Proxy} (v : Bool) (c d : Option Bool) (h : POK x) (hw : x.status = .waiting) :
    POK (x.reset none (some v) c d) := by
  apply pok_not_expired
  · simpa using h.1
  · simp [hw]

theorem pok_reset_unqueue {x : Proxy} (c d : Option Bool) (h : POK x) : POK (x.reset none (some false) c d) := by
  refine ⟨by simpa using h.1, ?_⟩
  intro hs
  simp only [reset_status_none] at hs
  obtain ⟨_, h2, h3⟩ := h.2 hs
  refine ⟨reset_queued_some _ _ _ _ _, by simpa using h2, ?_⟩
  rcases h3 with h3 | h3
  · exact Or.inl (reset_upd_mono _ _ _ _ _ h3)
  · exact Or.inr (by simpa using h3)

theorem pok_reset_status {x : Proxy} (st : Status) (b c d : Option Bool) (h : POK x) (hst : st ≠ .expired) :
    POK (x.reset (some st) b c d) := by
  apply pok_not_expired
  · simpa using h.1
  · rw [reset_status_some]; exact hst

theorem pok_expireReset {x : Proxy} (h : POK x) (hm : x.manual = false) : POK x.expireReset := by
  unfold Proxy.expireReset
  refine ⟨by simpa using h.1, ?_⟩
  intro _
  refine ⟨reset_queued_some _ _ _ _ _, by simpa using hm, ?_⟩
  unfold Proxy.reset
  simp only [Option.getD_some, Option.getD_none]
  split
  · rename_i hsame
    simp only [Bool.and_eq_true, beq_iff_eq] at hsame
    exact (h.2 hsame.1.1.1.symm).2.2
  · exact Or.inl rfl

theorem pok_satisfyMe {x : Proxy} (a : Atom) (h : POK x) : POK (x.satisfyMe a) := h

theorem pok_setComplete (g : Graph) {x : Proxy} (m : String) (h : POK x) : POK (setComplete g x m).1 := by
  unfold setComplete
  split
  · exact h
  · split
    · exact h
    · exact h

theorem setComplete_manual (g : Graph) (x : Proxy) (m : String) : (setComplete g x m).1.manual = x.manual :=
  (setComplete_more g x m).2.1

/-! ### states -/

theorem inv_of_eq {s s' : State} (hp : s'.pool = s.pool) (ht : s'.toTrigger = s.toTrigger) (h : Inv s) : Inv s' := by
  unfold Inv at *
  rw [hp, ht]; exact h

/-- replacing the pooled proxy `z` by `y` (same key, manual flag kept when it was up) -/
theorem inv_put {s : State} {y z : Proxy} (h : Inv s) (hz : z ∈ s.pool) (hk : y.pt = z.pt ∧ y.name = z.name)
    (hp : POK y) (hm : z.manual = true → y.manual = true) : Inv (s.put y) := by
  obtain ⟨h1, h2, h3⟩ := h
  refine ⟨?_, ?_, ?_⟩
  · intro w hw
    rcases mem_put hw with ⟨rfl, _⟩ | ⟨hw', _⟩
    · exact hp
    · exact h1 w hw'
  · intro k hk' w hw hwk
    rcases mem_put hw with ⟨rfl, _⟩ | ⟨hw', _⟩
    · apply hm
      apply h2 k hk' z hz
      rw [← hwk, hk.1, hk.2]
    · exact h2 k hk' w hw' hwk
  · intro k hk'
    obtain ⟨w, hw, hwk⟩ := h3 k hk'
    by_cases hkey : w.pt = y.pt ∧ w.name = y.name
    · exact ⟨y, mem_put_self hw hkey, by rw [← hwk, hkey.1, hkey.2]⟩
    · exact ⟨w, mem_put_of_ne hw hkey, hwk⟩

/-- `put` when nothing is marked for manual submission -/
theorem inv_put_notrig {s : State} {y : Proxy} (h : Inv s) (ht : s.toTrigger = []) (hp : POK y) : Inv (s.put y) := by
  obtain ⟨h1, _, _⟩ := h
  refine ⟨?_, ?_, ?_⟩
  · intro w hw
    rcases mem_put hw with ⟨rfl, _⟩ | ⟨hw', _⟩
    · exact hp
    · exact h1 w hw'
  · intro k hk; change k ∈ s.toTrigger at hk; rw [ht] at hk; simp at hk
  · intro k hk; change k ∈ s.toTrigger at hk; rw [ht] at hk; simp at hk

theorem inv_add {s : State} {x : Proxy} (h : Inv s) (hp : POK x) : Inv (s.add x) := by
  unfold State.add
  split
  · exact h
  · rename_i hn
    have hnone : s.get? x.pt x.name = none := by
      cases hg : s.get? x.pt x.name with
      | none => rfl
      | some v => simp [hg] at hn
    obtain ⟨h1, h2, h3⟩ := h
    refine ⟨?_, ?_, ?_⟩
    · intro w hw
      rcases (mem_insertBucket x w _).mp hw with rfl | hw'
      · exact hp
      · exact h1 w hw'
    · intro k hk w hw hwk
      rcases (mem_insertBucket x w _).mp hw with rfl | hw'
      · -- the key of a new proxy is not marked: marked keys are pooled
        obtain ⟨v, hv, hvk⟩ := h3 k hk
        exfalso
        apply get?_none_forall hnone v hv
        rw [← hwk] at hvk
        simp only [Prod.mk.injEq] at hvk
        exact hvk
      · exact h2 k hk w hw' hwk
    · intro k hk
      obtain ⟨v, hv, hvk⟩ := h3 k hk
      exact ⟨v, (mem_insertBucket x v _).mpr (Or.inr hv), hvk⟩

theorem toTrigger_spawnTask (g : Graph) (s : State) (n : String) (p : Int) :
    (spawnTask g s n p).1.toTrigger = s.toTrigger := by
  rw [spawnTask_state]

theorem inv_spawnTask {g : Graph} {s : State} (n : String) (p : Int) (h : Inv s) : Inv (spawnTask g s n p).1 :=
  inv_of_eq (pool_spawnTask g s n p) (toTrigger_spawnTask g s n p) h

theorem pok_spawnTask {g : Graph} {s : State} {n : String} {p : Int} {y : Proxy}
    (h : (spawnTask g s n p).2 = some y) : POK y := by
  obtain ⟨_, _, h3, h4, h5, h6⟩ := spawnTask_proxy h
  exact ⟨fun hw => by rw [h5] at hw; simp at hw, fun _ => ⟨h3, h4, Or.inr h6⟩⟩

theorem inv_spawnAndAdd {g : Graph} {s : State} (n : String) (p : Int) (h : Inv s) : Inv (spawnAndAdd g s n p) := by
  unfold spawnAndAdd
  split
  · exact h
  · split
    · rename_i s' x hsp
      have h1 : Inv s' := by have := inv_spawnTask (g := g) n p h; rw [hsp] at this; exact this
      have h2 : (spawnTask g s n p).2 = some x := by rw [hsp]
      exact inv_add h1 (pok_spawnTask h2)
    · rename_i s' hsp
      have := inv_spawnTask (g := g) n p h; rw [hsp] at this; exact this

theorem inv_spawnNextParentless {g : Graph} {s : State} (x : Proxy) (h : Inv s) :
    Inv (spawnNextParentless g s x) := by
  unfold spawnNextParentless
  split
  · exact h
  · split
    · exact inv_spawnAndAdd _ _ h
    · exact h

theorem inv_computeRunahead {g : Graph} {s : State} (f : Bool) (h : Inv s) : Inv (computeRunahead g s f) := by
  apply inv_of_eq _ _ h
  · unfold computeRunahead; simp only; split
    · rfl
    · split <;> rfl
  · unfold computeRunahead; simp only; split
    · rfl
    · split <;> rfl

theorem inv_releaseRunahead {g : Graph} {s : State} (h : Inv s) : Inv (releaseRunahead g s).1 := by
  unfold releaseRunahead
  split
  · exact h
  · split
    · exact h
    · simp only
      refine foldl_inv Inv _ ?_ _ _ h
      intro st x hst
      apply inv_spawnNextParentless
      split
      · rename_i y hy
        have hm := get?_some_mem hy
        exact inv_put hst hm.1 (by simp) (pok_reset_keep _ _ (hst.1 y hm.1)) (by simp)
      · exact hst

theorem inv_releaseRunaheadN {g : Graph} : ∀ (n : Nat) (s : State), Inv s → Inv (releaseRunaheadN g n s) := by
  intro n; induction n with
  | zero => intro s h; exact h
  | succ n ih =>
    intro s h
    unfold releaseRunaheadN
    simp only
    split
    · exact ih _ (inv_releaseRunahead h)
    · exact inv_releaseRunahead h

theorem isReadyToRun_waiting {x : Proxy} (h : x.isReadyToRun = true) : x.status = .waiting := by
  unfold Proxy.isReadyToRun at h
  simp only [Bool.and_eq_true, beq_iff_eq] at h
  exact h.1.1.2

theorem inv_queueIfReady {s : State} {x : Proxy} (h : Inv s) (hx : x ∈ s.pool) : Inv (queueIfReady s x) := by
  unfold queueIfReady; split
  · rename_i hc
    simp only [Bool.and_eq_true] at hc
    exact inv_put h hx (by simp) (pok_reset_queue _ _ _ (h.1 x hx) (isReadyToRun_waiting hc.2)) (by simp)
  · exact h

theorem inv_holdActive {s : State} {x : Proxy} (h : Inv s) (hx : x ∈ s.pool) : Inv (holdActive s x) := by
  unfold holdActive
  simp only
  have := inv_put h hx (y := x.reset (held := some true)) (by simp) (pok_reset_keep _ _ (h.1 x hx)) (by simp)
  split
  · exact this
  · exact inv_of_eq rfl rfl this

theorem inv_releaseHeldActive {s : State} {x : Proxy} (h : Inv s) (hx : x ∈ s.pool) :
    Inv (releaseHeldActive s x) := by
  unfold releaseHeldActive
  simp only
  apply inv_of_eq rfl rfl (s := if x.held = true then _ else s)
  split
  · apply inv_put h hx
    · split <;> simp
    · split
      · rename_i hc
        simp only [Bool.and_eq_true] at hc
        have hw := isReadyToRun_waiting hc.2
        simp only [reset_status_none] at hw
        exact pok_reset_queue _ _ _ (pok_reset_keep _ _ (h.1 x hx)) (by simpa using hw)
      · exact pok_reset_keep _ _ (h.1 x hx)
    · split <;> simp
  · exact h

theorem inv_remove {g : Graph} {s : State} {x : Proxy} (h : Inv s) (hx : x ∈ s.pool) : Inv (remove g s x) := by
  unfold remove
  extract_lets s1 x' s2
  have h1 : Inv s1 := inv_releaseHeldActive h hx
  have hx' : x'.pt = x.pt ∧ x'.name = x.name := getD_key s1 x
  have h2 : Inv s2 := by
    simp only [s2]; split
    · exact inv_spawnNextParentless _ h1
    · exact h1
  obtain ⟨a1, a2, a3⟩ := h2
  refine ⟨?_, ?_, ?_⟩
  · intro w hw
    exact a1 w (List.mem_filter.mp hw).1
  · intro k hk w hw hwk
    exact a2 k (List.mem_filter.mp hk).1 w (List.mem_filter.mp hw).1 hwk
  · intro k hk
    have hk' := List.mem_filter.mp hk
    obtain ⟨w, hw, hwk⟩ := a3 k hk'.1
    refine ⟨w, List.mem_filter.mpr ⟨hw, ?_⟩, hwk⟩
    have hne : k ≠ (x'.pt, x'.name) := by simpa using hk'.2
    simp only [Bool.not_eq_true', Bool.and_eq_false_imp, beq_iff_eq]
    intro hp
    cases hn : (w.name == x'.name) with
    | false => rfl
    | true =>
      exfalso; apply hne
      rw [← hwk, hp, beq_iff_eq.mp hn]

theorem inv_removeIfComplete {g : Graph} {s : State} {x : Proxy} (h : Inv s) (hx : x ∈ s.pool) :
    Inv (removeIfComplete g s x) := by
  unfold removeIfComplete
  split
  · exact h
  · simp only
    have key : ∀ s1 : State, Inv s1 → x ∈ s1.pool →
        Inv (match g.task? x.name with
          | none => s1
          | some t => if isComplete t x.done = true then remove g s1 x else s1) := by
      intro s1 h1 hx1
      split
      · exact h1
      · split
        · exact inv_remove h1 hx1
        · exact h1
    apply key
    · split
      · exact inv_of_eq rfl rfl h
      · exact h
    · split
      · exact hx
      · exact hx

theorem inv_spawnChildFin {p : Int} {n out : String} {sui : List (Int × String)} {c : Child}
    {st1 : State} {ch : Option Proxy} {inPool : Bool} (h : Inv st1) (hch : ∀ y, ch = some y → POK y) :
    Inv (spawnChildFin p n out sui c st1 ch inPool).1 := by
  unfold spawnChildFin
  split
  · exact h
  · rename_i y
    refine foldl_inv (fun a : State × List (Int × String) => Inv a.1) _ ?_ _ _ ?_
    · intro a k ha
      simp only
      split
      · exact ha
      · rename_i z hz
        have hm := get?_some_mem hz
        exact inv_put ha hm.1 (by simp) (pok_satisfyMe _ (ha.1 z hm.1)) (fun hh => hh)
    · simp only
      split
      · exact h
      · exact inv_add h (pok_satisfyMe _ (hch y rfl))

theorem inv_spawnChild {g : Graph} {p : Int} {n out : String} {acc : State × List (Int × String)} {c : Child}
    (h : Inv acc.1) : Inv (spawnChild g p n out acc c).1 := by
  obtain ⟨st, sui⟩ := acc
  rw [spawnChild_eq]
  simp only
  have h0 : Inv (if (c.isAbs && !st.absDone.contains ⟨p, n, out⟩) = true then
      { st with absDone := st.absDone ++ [⟨p, n, out⟩] } else st) := by
    split
    · exact inv_of_eq rfl rfl h
    · exact h
  generalize (if (c.isAbs && !st.absDone.contains ⟨p, n, out⟩) = true then
      { st with absDone := st.absDone ++ [⟨p, n, out⟩] } else st) = st0 at h0 ⊢
  split
  · rename_i y hy
    exact inv_spawnChildFin h0 (fun y' he => by cases he; exact h0.1 y (get?_some_mem hy).1)
  · exact inv_spawnChildFin (inv_spawnTask _ _ h0) (fun y he => pok_spawnTask he)

theorem inv_spawnOnOutput {g : Graph} {s : State} (p : Int) (n out : String) (h : Inv s) :
    Inv (spawnOnOutput g s p n out) := by
  unfold spawnOnOutput
  split
  · exact h
  · simp only
    have h1 : ∀ (cs : List Child) (acc : State × List (Int × String)), Inv acc.1 →
        Inv (cs.foldl (spawnChild g p n out) acc).1 := by
      intro cs; induction cs with
      | nil => intro acc ha; exact ha
      | cons c cs ih => intro acc ha; simp only [List.foldl_cons]; exact ih _ (inv_spawnChild ha)
    have h2 : ∀ (ks : List (Int × String)) (st : State), Inv st →
        Inv (ks.foldl (fun (st : State) k => match st.get? k.1 k.2 with
          | some z => remove g st z
          | none => st) st) := by
      intro ks; induction ks with
      | nil => intro st hst; exact hst
      | cons k ks ih =>
        intro st hst
        simp only [List.foldl_cons]
        apply ih
        split
        · rename_i z hz
          exact inv_remove hst (get?_some_mem hz).1
        · exact hst
    generalize hR : (List.foldl (spawnChild g p n out) (s, []) _) = R
    have hRn : Inv R.1 := by rw [← hR]; exact h1 _ _ h
    have h3 := h2 R.2 R.1 hRn
    split
    · rename_i x' hx'
      exact inv_removeIfComplete h3 (get?_some_mem hx').1
    · exact h3

theorem lookup_mem {s : State} {p : Int} {n : String} {x : Proxy} (h : lookup s p n = some (x, false)) :
    x ∈ s.pool := by
  unfold lookup at h
  split at h
  · rename_i y hg
    simp only [Option.some.injEq, Prod.mk.injEq] at h
    rw [← h.1]; exact (get?_some_mem hg).1
  · cases hf : s.ghosts.find? (fun x => x.pt == p && x.name == n) with
    | none => simp [hf] at h
    | some y => simp [hf] at h

/-- storing a modified copy of the object found under the key -/
theorem inv_store {s : State} {p : Int} {n : String} {x y : Proxy} {tr : Bool} (h : Inv s)
    (hl : lookup s p n = some (x, tr)) (hk : y.pt = x.pt ∧ y.name = x.name) (hp : POK y)
    (hm : x.manual = true → y.manual = true) : Inv (store s y tr) := by
  unfold store
  split
  · exact inv_of_eq rfl rfl h
  · rename_i htr
    have : tr = false := by simpa using htr
    subst this
    exact inv_put h (lookup_mem hl) hk hp hm

theorem inv_histOutputs {s : State} (p : Int) (n : String) (h : Inv s) : Inv (histOutputs s p n) := by
  unfold histOutputs
  split
  · split
    · exact h
    · exact inv_of_eq rfl rfl h
  · exact h

theorem inv_spawnChildren {g : Graph} {s : State} (p : Int) (n out : String) (tr : Bool) (h : Inv s) :
    Inv (spawnChildren g s p n out tr) := by
  unfold spawnChildren; split
  · exact inv_histOutputs _ _ h
  · exact inv_spawnOnOutput _ _ _ h

theorem pok_lookup {s : State} {p : Int} {n : String} {x : Proxy} (h : Inv s) (hl : lookup s p n = some (x, false)) :
    POK x := h.1 x (lookup_mem hl)

/-- objects that left the pool are not constrained: for them any copy will do -/
theorem inv_store_tr {s : State} {y : Proxy} (h : Inv s) : Inv (store s y true) := by
  unfold store; simp only [if_true]; exact inv_of_eq rfl rfl h

theorem inv_pmFinal {g : Graph} {s : State} {p : Int} {n : String} {x : Proxy} {tr : Bool} (st : Status)
    (out : String) (h : Inv s) (hl : lookup s p n = some (x, tr)) (hst : st ≠ .expired) :
    Inv (pmFinal g s p n x tr st out) := by
  unfold pmFinal
  simp only
  apply inv_spawnChildren
  cases tr with
  | true => exact inv_store_tr h
  | false =>
    have hx := pok_lookup h hl
    apply inv_store h hl
    · split
      · have := setComplete_fields g (x.reset (status := some st)) out
        exact ⟨this.1.trans (by simp), this.2.1.trans (by simp)⟩
      · simp
    · split
      · exact pok_setComplete g out (pok_reset_status st _ _ _ hx hst)
      · exact pok_reset_status st _ _ _ hx hst
    · split
      · rw [setComplete_manual]; simp
      · simp

theorem inv_processExpired {g : Graph} {s : State} {p : Int} {n : String} {x : Proxy} {tr : Bool}
    (h : Inv s) (hl : lookup s p n = some (x, tr)) (hm : tr = false → x.manual = false) :
    Inv (processExpired g s x tr) := by
  unfold processExpired
  extract_lets y changed s0 s1
  have h0 : Inv s0 := by
    simp only [s0]
    cases tr with
    | true => exact inv_store_tr h
    | false =>
      exact inv_store h hl (expireReset_key x) (pok_expireReset (pok_lookup h hl) (hm rfl))
        (fun hh => by rw [hm rfl] at hh; simp at hh)
  have h1 : Inv s1 := inv_spawnChildren _ _ _ _ h0
  split
  · exact inv_of_eq rfl rfl h1
  · exact h1

/-- every branch of `pmDispatch`; the `expired` one needs a proxy that is not manually triggered -/
theorem inv_pmDispatch {g : Graph} {s : State} {p : Int} {n : String} (flag : Flag) (msg : String)
    (c : Option Bool) {x : Proxy} {tr : Bool} (h : Inv s) (hl : lookup s p n = some (x, tr))
    (hm : msg = "expired" → tr = false → x.manual = false) :
    Inv (pmDispatch g s p n flag msg c x tr).1 := by
  have hst : ∀ (y : Proxy), y.pt = x.pt ∧ y.name = x.name → (tr = false → POK y) → (x.manual = true → y.manual = true) →
      Inv (store s y tr) := by
    intro y hk hp hmm
    cases tr with
    | true => exact inv_store_tr h
    | false => exact inv_store h hl hk (hp rfl) hmm
  have hx : tr = false → POK x := fun ht => by subst ht; exact pok_lookup h hl
  unfold pmDispatch
  split
  · split
    · exact h
    · apply inv_spawnChildren
      exact hst _ (by simp) (fun ht => pok_core rfl rfl rfl rfl rfl rfl (pok_reset_status .running _ _ _ (hx ht) (by decide)))
        (by simp)
  · split
    · apply inv_spawnChildren
      exact hst _ (by simp) (fun ht => pok_reset_status .succeeded _ _ _ (hx ht) (by decide)) (by simp)
    · split
      · rename_i hme
        exact inv_processExpired h hl (hm (by simpa using hme))
      · split
        · split
          · exact h
          · split
            · exact hst _ (by simp)
                (fun ht => pok_core rfl rfl rfl rfl rfl rfl (pok_reset_status .waiting _ _ _ (hx ht) (by decide))) (by simp)
            · exact inv_pmFinal .failed "failed" h hl (by decide)
        · split
          · split
            · exact h
            · split
              · exact hst _ (by simp)
                  (fun ht => pok_core rfl rfl rfl rfl rfl rfl (pok_reset_status .waiting _ _ _ (hx ht) (by decide))) (by simp)
              · exact inv_pmFinal .submitFailed "submit-failed" h hl (by decide)
          · split
            · split
              · exact h
              · apply inv_spawnChildren
                split
                · exact hst _ (by simp)
                    (fun ht => pok_reset_unqueue _ _ (pok_reset_status .submitted _ _ _ (hx ht) (by decide))) (by simp)
                · exact h
            · split
              · exact inv_spawnChildren _ _ _ _ h
              · exact h

theorem pmComplete_fields (g : Graph) (x : Proxy) (msg : String) :
    (pmComplete g x msg).1.pt = x.pt ∧ (pmComplete g x msg).1.name = x.name ∧
      (pmComplete g x msg).1.manual = x.manual := by
  unfold pmComplete
  split
  · exact ⟨rfl, rfl, rfl⟩
  · have := setComplete_fields g x msg
    exact ⟨this.1, this.2.1, setComplete_manual g x msg⟩

theorem pok_pmComplete (g : Graph) {x : Proxy} (msg : String) (h : POK x) : POK (pmComplete g x msg).1 := by
  unfold pmComplete
  split
  · exact h
  · exact pok_setComplete g msg h

theorem inv_store_complete {g : Graph} {s : State} {p : Int} {n : String} {x : Proxy} {tr : Bool} (msg : String)
    (h : Inv s) (hl : lookup s p n = some (x, tr)) : Inv (store s (pmComplete g x msg).1 tr) := by
  cases tr with
  | true => exact inv_store_tr h
  | false =>
    have hf := pmComplete_fields g x msg
    exact inv_store h hl ⟨hf.1, hf.2.1⟩ (pok_pmComplete g msg (pok_lookup h hl)) (fun hh => by rw [hf.2.2]; exact hh)

/-- messages other than `expired` -/
theorem inv_processMessage_ne (g : Graph) : ∀ (fuel : Nat) (s : State) (p : Int) (n : String) (flag : Flag)
    (sn : Nat) (msg : String), msg ≠ "expired" → Inv s → Inv (processMessage g fuel s p n flag sn msg).1 := by
  intro fuel
  induction fuel with
  | zero => intro s p n flag sn msg _ h; exact h
  | succ fuel ih =>
    intro s p n flag sn msg hm h
    unfold processMessage
    split
    · exact h
    · rename_i x tr hl
      split
      · exact h
      · simp only
        have himp : ∀ (l : List String) (st : State), (∀ m ∈ l, m ≠ "expired") → Inv st →
            Inv (l.foldl (fun st m => (processMessage g fuel st p n .internal sn m).1) st) := by
          intro l; induction l with
          | nil => intro st _ hst; exact hst
          | cons a l ihl =>
            intro st hl' hst
            simp only [List.foldl_cons]
            exact ihl _ (fun m hm' => hl' m (List.mem_cons_of_mem _ hm'))
              (ih _ _ _ _ _ _ (hl' a List.mem_cons_self) hst)
        have hne : ∀ m ∈ impliedOf (pmComplete g x msg).1 msg, m ≠ "expired" := by
          intro m hmem
          unfold impliedOf at hmem
          have := (List.mem_filter.mp hmem).1
          split at this
          · simp at this; rcases this with h' | h' <;> simp [h']
          · split at this
            · simp at this; simp [this]
            · simp at this
        have hS := himp _ _ hne (inv_store_complete (g := g) msg h hl)
        generalize (List.foldl (fun st m => (processMessage g fuel st p n Flag.internal sn m).1) _ _) = S at hS
        split
        · exact hS
        · rename_i x2 tr2 hl2
          exact inv_pmDispatch flag msg _ hS hl2 (fun he => absurd he hm)

/-- the scheduler's own `expired` message, for an object that is not manually triggered -/
theorem inv_processMessage_expired (g : Graph) (fuel : Nat) (s : State) (p : Int) (n : String) (flag : Flag)
    (sn : Nat) (x : Proxy) (tr : Bool) (hl : lookup s p n = some (x, tr)) (hm : tr = false → x.manual = false)
    (h : Inv s) : Inv (processMessage g (fuel + 1) s p n flag sn "expired").1 := by
  unfold processMessage
  simp only [hl]
  split
  · exact h
  · have himp : impliedOf (pmComplete g x "expired").1 "expired" = [] := by
      unfold impliedOf; simp
    simp only [himp, List.foldl_nil]
    have hk := lookup_key hl
    have hf := pmComplete_fields g x "expired"
    rw [lookup_store hl ⟨hf.1.trans hk.1, hf.2.1.trans hk.2⟩]
    simp only
    apply inv_pmDispatch flag "expired" _ (inv_store_complete (g := g) "expired" h hl)
      (lookup_store hl ⟨hf.1.trans hk.1, hf.2.1.trans hk.2⟩)
    intro _ ht
    rw [hf.2.2]; exact hm ht

/-- repaired code: a received `expired` message is dropped -/
theorem processMessage_live_skip (g : Graph) (hf : ExpFlags.jobMsgExpires = false) (fuel : Nat) (s : State)
    (p : Int) (n : String) (sn : Nat) : (processMessage g fuel s p n .received sn "expired").1 = s := by
  cases fuel with
  | zero => rfl
  | succ fuel =>
    unfold processMessage
    split
    · rfl
    · have : ∀ (x : Proxy) (tr : Bool), pmSkip x tr .received sn "expired" = true := by
        intro x tr; unfold pmSkip; simp [hf]
      simp only [this, if_true]

theorem inv_processQueue {g : Graph} {s : State} (h : Inv s) (hq : MsgOK s) : Inv (processQueue g s) := by
  unfold processQueue
  have h0 : Inv { s with queue := [] } := inv_of_eq rfl rfl h
  refine foldl_inv_mem Inv _ _ _ ?_ h0
  intro st grp hgrp hst
  simp only
  split
  · exact hst
  · have : ∀ (l : List Msg) (acc : State × Bool), (∀ m ∈ l, m ∈ s.queue) → Inv acc.1 →
        Inv (l.foldl (fun (acc : State × Bool) m =>
          let (st', pl) := processMessage g 4 acc.1 grp.1.1 grp.1.2 .received m.submitNum m.text
          (st', acc.2 || pl)) acc).1 := by
      intro l; induction l with
      | nil => intro acc _ ha; exact ha
      | cons m l ihl =>
        intro acc hl ha
        simp only [List.foldl_cons]
        apply ihl _ (fun m' hm' => hl m' (List.mem_cons_of_mem _ hm'))
        by_cases hm : m.text = "expired"
        · rcases hq with hq | hf
          · exact absurd hm (hq m (hl m List.mem_cons_self))
          · rw [hm, processMessage_live_skip g hf]; exact ha
        · exact inv_processMessage_ne g 4 _ _ _ _ _ _ hm ha
    have h2 := this grp.2 (st, false) (fun m hm => mem_groupMsgs hgrp m hm) hst
    split
    · exact inv_of_eq rfl rfl h2
    · exact h2

theorem inv_checkStalled {g : Graph} {s : State} (h : Inv s) : Inv (checkStalled g s) := by
  unfold checkStalled; split
  · exact h
  · split
    · exact h
    · split
      · exact inv_of_eq rfl rfl h
      · exact h

theorem inv_checkAutoShutdown {g : Graph} {s : State} (h : Inv s) : Inv (checkAutoShutdown g s).1 := by
  unfold checkAutoShutdown
  split
  · exact h
  · simp only
    split
    · exact inv_checkStalled h
    · split
      · exact inv_checkStalled h
      · exact inv_of_eq rfl rfl (inv_checkStalled h)

theorem inv_stopTaskDone {s : State} (h : Inv s) : Inv (stopTaskDone s).1 := by
  unfold stopTaskDone; split
  · exact inv_of_eq rfl rfl h
  · exact h

theorem inv_sweepQueue {s : State} (h : Inv s) : Inv (sweepQueue s) := by
  unfold sweepQueue
  refine foldl_inv Inv _ ?_ _ _ h
  intro st x hst
  split
  · rename_i y hy
    split
    · have hm := get?_some_mem hy
      have h1 : Inv (st.put { y with retryWait := false }) :=
        inv_put hst hm.1 ⟨rfl, rfl⟩ (pok_core rfl rfl rfl rfl rfl rfl (hst.1 y hm.1)) (fun hh => hh)
      exact inv_queueIfReady h1 (mem_put_self hm.1 ⟨rfl, rfl⟩)
    · exact hst
  · exact hst

theorem inv_clockExpireOne {g : Graph} {s : State} (k : Int × String) (h : Inv s) : Inv (clockExpireOne g s k) := by
  unfold clockExpireOne
  split
  · exact h
  · rename_i x tr hl
    split
    · rename_i hx
      exact inv_processMessage_expired g 3 s k.1 k.2 .internal x.submitNum x tr hl
        (fun _ => (expireNow_spec hx).2.1) h
    · exact h

theorem inv_clockExpireTasks {g : Graph} {s : State} (h : Inv s) : Inv (clockExpireTasks g s) := by
  unfold clockExpireTasks
  exact foldl_inv Inv (clockExpireOne g) (fun st k hst => inv_clockExpireOne k hst) _ _ h

theorem pok_submitted (x : Proxy) (h : POK x) :
    POK { (if x.status == .preparing then x
           else { (x.reset (status := some .preparing)) with submitNum := x.submitNum + 1 }) with
          live := true, timers := true, wjp := false, manual := false } := by
  apply pok_not_expired
  · intro hh; simp at hh
  · split
    · rename_i hp
      simp only [beq_iff_eq] at hp
      show x.status ≠ .expired
      rw [hp]; decide
    · show (x.reset (status := some .preparing)).status ≠ .expired
      rw [reset_status_some]; decide

theorem inv_submitOne {s : State} {x : Proxy} (h : Inv s) (ht : s.toTrigger = []) (hx : POK x) :
    Inv (submitOne s x) ∧ (submitOne s x).toTrigger = [] := by
  unfold submitOne
  refine ⟨inv_of_eq rfl rfl (inv_put_notrig h ht (pok_submitted x hx)), ht⟩

theorem inv_releaseAndSubmit {s : State} (h : Inv s) : Inv (releaseAndSubmit s) := by
  unfold releaseAndSubmit
  extract_lets trig s1 pre
  have h1 : Inv s1 := by
    refine ⟨h.1, ?_, ?_⟩
    · intro k hk; simp [s1] at hk
    · intro k hk; simp [s1] at hk
  have ht1 : s1.toTrigger = [] := rfl
  split
  · exact h1
  · apply inv_of_eq rfl rfl
    have hpre : ∀ x ∈ pre, POK x := by
      intro x hx
      exact h.1 x (List.mem_filter.mp hx).1
    have key : ∀ (l : List Proxy) (st : State), (∀ x ∈ l, POK x) → Inv st → st.toTrigger = [] →
        Inv (l.foldl (releaseSubmitOne (!s1.paused)) st) := by
      intro l; induction l with
      | nil => intro st _ hst _; exact hst
      | cons a l ih =>
        intro st hl hst htt
        simp only [List.foldl_cons]
        have ha : POK (if ((!s1.paused) && a.queued && !a.held) = true then a.reset (queued := some false) else a) := by
          split
          · exact pok_reset_unqueue _ _ (hl a List.mem_cons_self)
          · exact hl a List.mem_cons_self
        have := inv_submitOne hst htt ha
        exact ih _ (fun x hx => hl x (List.mem_cons_of_mem _ hx)) this.1 this.2
    exact key pre s1 hpre h1 ht1

theorem inv_map {s : State} (f : Proxy → Proxy) (hk : ∀ x, (f x).pt = x.pt ∧ (f x).name = x.name)
    (hm : ∀ x, x.manual = true → (f x).manual = true) (hp : ∀ x, POK x → POK (f x)) (h : Inv s) :
    Inv { s with pool := s.pool.map f } := by
  obtain ⟨h1, h2, h3⟩ := h
  refine ⟨?_, ?_, ?_⟩
  · intro w hw
    obtain ⟨x, hx, rfl⟩ := List.mem_map.mp hw
    exact hp x (h1 x hx)
  · intro k hk' w hw hwk
    obtain ⟨x, hx, rfl⟩ := List.mem_map.mp hw
    apply hm
    apply h2 k hk' x hx
    rw [← hwk, (hk x).1, (hk x).2]
  · intro k hk'
    obtain ⟨x, hx, hxk⟩ := h3 k hk'
    exact ⟨f x, List.mem_map.mpr ⟨x, hx, rfl⟩, by rw [(hk x).1, (hk x).2]; exact hxk⟩

theorem inv_finishLoop {g : Graph} {s : State} (h : Inv s) : Inv (finishLoop g s) := by
  unfold finishLoop
  extract_lets hasUpd s1 s2 s3
  have h1 : Inv s1 := by
    simp only [s1]; split
    · exact inv_of_eq rfl rfl h
    · exact h
  have h2 : Inv s2 := by
    simp only [s2]; split
    · have := inv_map (s := s1)
        (fun x => { x with upd := false, dbManual := if x.upd then x.manual else x.dbManual })
        (fun x => ⟨rfl, rfl⟩) (fun x hh => hh)
        (by
          intro x hx
          refine ⟨hx.1, ?_⟩
          intro hs
          obtain ⟨a, b, c⟩ := hx.2 hs
          refine ⟨a, b, Or.inr ?_⟩
          show (if x.upd = true then x.manual else x.dbManual) = false
          split
          · exact b
          · rename_i hu
            rcases c with c | c
            · exact absurd c hu
            · exact c) h1
      exact inv_of_eq rfl rfl this
    · exact h1
  have h3 : Inv s3 := inv_of_eq rfl rfl h2
  split
  · exact inv_checkStalled h3
  · exact h3

theorem inv_loopShutdown {g : Graph} {s : State} (h : Inv s) : Inv (loopShutdown g s) := by
  unfold loopShutdown
  split
  · simp only
    split
    · exact inv_of_eq rfl rfl (inv_stopTaskDone h)
    · split
      · exact inv_of_eq rfl rfl (inv_checkAutoShutdown (inv_stopTaskDone h))
      · exact inv_checkAutoShutdown (inv_stopTaskDone h)
  · exact h

theorem inv_loopHead {g : Graph} {s : State} (h : Inv s) : Inv (loopHead g s) := by
  unfold loopHead
  exact inv_loopShutdown (inv_releaseRunahead (inv_computeRunahead _ h))

theorem inv_loopExpire {g : Graph} {s : State} (h : Inv s) : Inv (loopExpire g s) := by
  unfold loopExpire
  exact inv_clockExpireTasks (inv_sweepQueue h)

/-- the state a main loop hands to `releaseAndSubmit` (when it gets that far and the workflow is not stopping) -/
def releasePoint (g : Graph) (s : State) : Option State :=
  if s.stop.isSome then none else
  if canStop (loopHead g s) then none else
  if (loopExpire g (loopHead g s)).stopMode.isNone then some (loopExpire g (loopHead g s)) else none

theorem inv_releasePoint {g : Graph} {s r : State} (h : Inv s) (hr : releasePoint g s = some r) : Inv r := by
  unfold releasePoint at hr
  split at hr
  · simp at hr
  · split at hr
    · simp at hr
    · split at hr
      · simp only [Option.some.injEq] at hr
        subst hr
        exact inv_loopExpire (inv_loopHead h)
      · simp at hr

theorem inv_mainLoop {g : Graph} {s : State} (h : Inv s) (hq : MsgOK s) : Inv (mainLoop g s) := by
  unfold mainLoop
  split
  · exact h
  · extract_lets s3 s5 s6
    have h3 : Inv s3 := inv_loopHead h
    have h3q : s3.queue = s.queue := (loopHead_keep g s).2
    split
    · exact inv_of_eq rfl rfl h3
    · have h5 : Inv s5 := inv_loopExpire h3
      have h5q : s5.queue = s.queue := (loopExpire_queue g s3).trans h3q
      have h6 : Inv s6 := by
        simp only [s6]; split
        · exact inv_releaseAndSubmit h5
        · exact h5
      have h6q : s6.queue = s.queue := by
        simp only [s6]; split
        · exact (queue_releaseAndSubmit s5).trans h5q
        · exact h5q
      exact inv_finishLoop (inv_processQueue h6 (msgOK_of_queue h6q hq))

theorem inv_setStopPoint {s : State} (p : Int) (h : Inv s) : Inv (setStopPoint s p) := by
  unfold setStopPoint
  split
  · exact h
  · simp only
    split
    · split
      · have := inv_map (s := { s with stopPoint := some p, dbStopCp := some p })
          (fun x => if x.pt > p && x.status == .waiting then x.reset (runahead := some true) else x)
          (fun x => by split <;> simp) (fun x hh => by split <;> simpa using hh)
          (fun x hx => by split
                          · exact pok_reset_keep _ _ hx
                          · exact hx) (inv_of_eq rfl rfl h)
        exact inv_of_eq rfl rfl this
      · exact inv_of_eq rfl rfl h
    · exact inv_of_eq rfl rfl h

theorem inv_setHoldPoint {s : State} (p : Int) (h : Inv s) : Inv (setHoldPoint s p) := by
  unfold setHoldPoint
  simp only
  refine foldl_inv Inv _ ?_ _ _ (inv_of_eq rfl rfl h)
  intro st x hst
  split
  · split
    · rename_i y hy
      exact inv_holdActive hst (get?_some_mem hy).1
    · exact hst
  · exact hst

theorem inv_holdTasks {s : State} (ids : List (Int × String)) (h : Inv s) : Inv (holdTasks s ids) := by
  unfold holdTasks
  refine foldl_inv Inv _ ?_ _ _ h
  intro st k hst
  split
  · rename_i y hy
    exact inv_holdActive hst (get?_some_mem hy).1
  · split
    · exact hst
    · exact inv_of_eq rfl rfl hst

theorem inv_releaseTasks {s : State} (ids : List (Int × String)) (h : Inv s) : Inv (releaseTasks s ids) := by
  unfold releaseTasks
  refine foldl_inv Inv _ ?_ _ _ h
  intro st k hst
  split
  · exact hst
  · split
    · rename_i y hy
      exact inv_releaseHeldActive hst (get?_some_mem hy).1
    · exact inv_of_eq rfl rfl hst

theorem inv_releaseHoldPoint {s : State} (h : Inv s) : Inv (releaseHoldPoint s) := by
  unfold releaseHoldPoint
  simp only
  apply inv_of_eq rfl rfl
  refine foldl_inv Inv _ ?_ _ _ (inv_of_eq rfl rfl h)
  intro st x hst
  split
  · rename_i y hy
    exact inv_releaseHeldActive hst (get?_some_mem hy).1
  · exact hst

/-- the proxy as `restart` reloads it -/
def restoreProxy (x : Proxy) : Proxy :=
  let (status, sn) := if x.status == .preparing then (Status.waiting, x.submitNum - 1) else (x.status, x.submitNum)
  let keepOut := status == .running || status == .failed || status == .succeeded
  let final := status == .failed || status == .succeeded || status == .expired
  let man := if x.upd then x.manual else x.dbManual
  { x with status := status, submitNum := sn, done := if keepOut then x.done else [],
           queued := false, runahead := !final && !man, retryWait := false, live := false,
           manual := man, dbManual := man, wjp := false,
           upd := (x.status == .preparing) || final || man }

theorem pok_restoreProxy {x : Proxy} (h : POK x) : POK (restoreProxy x) := by
  unfold restoreProxy
  refine ⟨fun hh => by simp at hh, ?_⟩
  intro hs
  have hexp : x.status = .expired := by
    simp only at hs
    split at hs
    · simp at hs
    · exact hs
  obtain ⟨_, b, c⟩ := h.2 hexp
  have hman : (if x.upd = true then x.manual else x.dbManual) = false := by
    split
    · exact b
    · rename_i hu
      rcases c with c | c
      · exact absurd c hu
      · exact c
  exact ⟨rfl, hman, Or.inr hman⟩

theorem inv_restart {g : Graph} {s : State} (h : Inv s) : Inv (restart g s) := by
  unfold restart
  extract_lets restore cfgStop pool wait s'
  have hs' : Inv s' := by
    refine ⟨?_, ?_, ?_⟩
    · intro w hw
      have hw' : w ∈ s.pool.map restore := hw
      obtain ⟨x, hx, rfl⟩ := List.mem_map.mp hw'
      exact pok_restoreProxy (h.1 x hx)
    · intro k hk; simp [s'] at hk
    · intro k hk; simp [s'] at hk
  split
  · exact inv_setHoldPoint _ hs'
  · exact hs'

theorem pok_triggeredProxy (x : Proxy) (hw : x.wjp = true → x.manual = true) : POK (triggeredProxy x) := by
  unfold triggeredProxy
  apply pok_not_expired
  · intro _
    show (if _ then _ else _ : Proxy).manual = true
    split <;> simp
  · show (if _ then _ else _ : Proxy).status ≠ .expired
    split
    · rw [reset_status_none, reset_status_some]; decide
    · rw [reset_status_some]; decide

theorem triggeredProxy_fields (x : Proxy) :
    (triggeredProxy x).pt = x.pt ∧ (triggeredProxy x).name = x.name ∧ (triggeredProxy x).manual = true := by
  unfold triggeredProxy
  refine ⟨?_, ?_, ?_⟩
  · show (if _ then _ else _ : Proxy).pt = x.pt
    split <;> simp
  · show (if _ then _ else _ : Proxy).name = x.name
    split <;> simp
  · show (if _ then _ else _ : Proxy).manual = true
    split <;> simp

theorem inv_queueOrTrigger {s : State} {x z : Proxy} (h : Inv s) (hz : z ∈ s.pool)
    (hk : x.pt = z.pt ∧ x.name = z.name) (hpx : POK x) : Inv (queueOrTrigger s x) := by
  have hw : x.wjp = true → x.manual = true := hpx.1
  unfold queueOrTrigger
  have hf := triggeredProxy_fields x
  have h1 : Inv (s.put (triggeredProxy x)) :=
    inv_put h hz ⟨hf.1.trans hk.1, hf.2.1.trans hk.2⟩ (pok_triggeredProxy x hw) (fun _ => hf.2.2)
  split
  · -- waiting on job preparation already: only the flag is raised
    rename_i hwjp
    refine inv_put h hz hk ⟨fun _ => rfl, ?_⟩ (fun _ => rfl)
    intro hs
    have hxe : x.status = .expired := hs
    have hm := (hpx.2 hxe).2.1
    rw [hw hwjp] at hm
    exact absurd hm (by decide)
  simp only
  split
  · exact h1
  · obtain ⟨a1, a2, a3⟩ := h1
    refine ⟨a1, ?_, ?_⟩
    · intro k hk' w hw' hwk
      simp only [List.mem_append, List.mem_singleton] at hk'
      rcases hk' with hk' | hk'
      · exact a2 k hk' w hw' hwk
      · rcases mem_put hw' with ⟨rfl, _⟩ | ⟨_, hne⟩
        · exact hf.2.2
        · exfalso; apply hne
          rw [hk'] at hwk
          simp only [Prod.mk.injEq] at hwk
          rw [hf.1, hf.2.1]; exact hwk
    · intro k hk'
      simp only [List.mem_append, List.mem_singleton] at hk'
      rcases hk' with hk' | hk'
      · exact a3 k hk'
      · refine ⟨triggeredProxy x, mem_put_self hz ⟨(hf.1.trans hk.1).symm ▸ rfl, (hf.2.1.trans hk.2).symm ▸ rfl⟩, ?_⟩
        rw [hk', hf.1, hf.2.1]

theorem inv_trigger {g : Graph} {s : State} (p : Int) (n : String) (h : Inv s) : Inv (trigger g s p n) := by
  unfold trigger
  split
  · exact h
  · rename_i x hx
    simp only
    apply inv_releaseRunahead
    split
    · exact h
    · have hm := get?_some_mem hx
      exact inv_queueOrTrigger h hm.1 ⟨rfl, rfl⟩ (pok_core rfl rfl rfl rfl rfl rfl (h.1 x hm.1))

theorem inv_loadFromPoint (g : Graph) : Inv (loadFromPoint g) := by
  unfold loadFromPoint
  simp only
  refine foldl_inv Inv _ ?_ _ _ ?_
  · intro st x hst
    split
    · rename_i y hy
      exact inv_queueIfReady hst (get?_some_mem hy).1
    · exact hst
  · apply inv_releaseRunaheadN
    apply inv_computeRunahead
    refine foldl_inv Inv _ ?_ _ _ ?_
    · intro st t hst
      split
      · exact inv_spawnAndAdd _ _ hst
      · exact hst
    · exact ⟨by intro x hx; simp at hx, by intro k hk; simp at hk, by intro k hk; simp at hk⟩

theorem inv_init (g : Graph) : Inv (init g) := by
  unfold init
  exact inv_of_eq rfl rfl (inv_loadFromPoint g)

theorem inv_step {g : Graph} {s : State} (op : Op) (h : Inv s) (hq : MsgOK s) : Inv (step g s op) := by
  unfold step
  have hc : Inv (clearOp s) := inv_of_eq rfl rfl h
  have hcq : MsgOK (clearOp s) := msgOK_of_queue rfl hq
  cases op with
  | loop => exact inv_mainLoop hc hcq
  | subres p n ok sn => exact inv_processMessage_ne g 4 _ _ _ _ _ _ (by split <;> decide) hc
  | msg p n sn text => exact inv_of_eq rfl rfl hc
  | hold ids => exact inv_holdTasks _ hc
  | release ids => exact inv_releaseTasks _ hc
  | setHoldPoint p => exact inv_setHoldPoint _ hc
  | releaseHoldPoint => exact inv_releaseHoldPoint hc
  | stop mode => exact inv_of_eq rfl rfl hc
  | stopPoint p => exact inv_setStopPoint _ hc
  | stopTask p n => exact inv_of_eq rfl rfl hc
  | pause => exact inv_of_eq rfl rfl hc
  | resume => exact inv_of_eq rfl rfl hc
  | restart => exact inv_restart hc
  | tick dt => exact inv_of_eq rfl rfl hc
  | trig p n => exact inv_trigger _ _ hc

/-- states reached by op lists keep `Inv` (with `QueueOK` / repaired code) -/
theorem inv_foldl (g : Graph) : ∀ (ops : List Op) (s : State),
    Inv s → (QueueOK s ∧ NoExpiredMsg ops ∨ ExpFlags.jobMsgExpires = false) → Inv (ops.foldl (step g) s) := by
  intro ops
  induction ops with
  | nil => intro s h _; exact h
  | cons op ops ih =>
    intro s h hq
    simp only [List.foldl_cons]
    rcases hq with ⟨hq, hn⟩ | hf
    · apply ih _ (inv_step op h (Or.inl hq))
      left
      exact ⟨queueOK_step g s op hq (fun p n sn t ht => hn p n sn t (by rw [ht]; exact List.mem_cons_self)),
        fun p n sn t hm => hn p n sn t (List.mem_cons_of_mem _ hm)⟩
    · exact ih _ (inv_step op h (Or.inr hf)) (Or.inr hf)

theorem inv_run (g : Graph) (ops : List Op) (h : NoExpiredMsg ops ∨ ExpFlags.jobMsgExpires = false) :
    ∀ s ∈ run g ops, Inv s := by
  intro s hs
  rcases mem_run_cases g ops s hs with h0 | ⟨pre, op, post, he, hs0⟩
  · subst h0; exact inv_init g
  · subst hs0
    have hpre : Inv (pre.foldl (step g) (init g)) := by
      apply inv_foldl g pre _ (inv_init g)
      rcases h with h | h
      · exact Or.inl ⟨queueOK_init g, noExpiredMsg_prefix (he ▸ h)⟩
      · exact Or.inr h
    apply inv_step op hpre
    rcases h with h | h
    · left; exact queueOK_foldl g pre _ (queueOK_init g) (noExpiredMsg_prefix (he ▸ h))
    · right; exact h

/-! ### who is handed to job submission -/

theorem submitOne_launched (s : State) (x : Proxy) :
    ∃ sn, (submitOne s x).launched = s.launched ++ [(x.pt, x.name, sn)] := by
  unfold submitOne
  by_cases hp : (x.status == .preparing) = true
  · exact ⟨x.submitNum, by simp [hp]⟩
  · exact ⟨x.submitNum + 1, by simp [hp]⟩

theorem releaseSubmitOne_launched (rel : Bool) (s : State) (x : Proxy) :
    ∃ sn, (releaseSubmitOne rel s x).launched = s.launched ++ [(x.pt, x.name, sn)] := by
  unfold releaseSubmitOne
  split
  · obtain ⟨sn, h⟩ := submitOne_launched s (x.reset (queued := some false))
    exact ⟨sn, by rw [h]; simp⟩
  · exact submitOne_launched s x

/-- every launch recorded by `releaseAndSubmit` is for a proxy of its list -/
theorem releaseAndSubmit_launched (s : State) : ∀ l ∈ (releaseAndSubmit s).launched,
    l ∈ s.launched ∨ ∃ x ∈ toSubmit s (!s.paused) s.toTrigger, x.pt = l.1 ∧ x.name = l.2.1 := by
  unfold releaseAndSubmit
  extract_lets trig s1 pre
  split
  · intro l hl; exact Or.inl hl
  · intro l hl
    have key : ∀ (ls : List Proxy) (st : State),
        ∀ l ∈ (ls.foldl (releaseSubmitOne (!s1.paused)) st).launched,
          l ∈ st.launched ∨ ∃ x ∈ ls, x.pt = l.1 ∧ x.name = l.2.1 := by
      intro ls; induction ls with
      | nil => intro st l hl; exact Or.inl hl
      | cons a ls ih =>
        intro st l hl
        simp only [List.foldl_cons] at hl
        rcases ih _ l hl with h' | ⟨x, hx, hxk⟩
        · obtain ⟨sn, hsn⟩ := releaseSubmitOne_launched (!s1.paused) st a
          rw [hsn] at h'
          simp only [List.mem_append, List.mem_singleton] at h'
          rcases h' with h' | h'
          · exact Or.inl h'
          · right
            exact ⟨a, List.mem_cons_self, by rw [h'], by rw [h']⟩
        · exact Or.inr ⟨x, List.mem_cons_of_mem _ hx, hxk⟩
    exact key pre s1 l hl

/-- **an expired proxy is not on the list** -/
theorem toSubmit_not_expired {s : State} (h : Inv s) :
    ∀ x ∈ toSubmit s (!s.paused) s.toTrigger, x.status ≠ .expired := by
  intro x hx hexp
  unfold toSubmit at hx
  obtain ⟨hmem, hc⟩ := List.mem_filter.mp hx
  obtain ⟨hq, hman, _⟩ := (h.1 x hmem).2 hexp
  simp only [Bool.or_eq_true, Bool.and_eq_true] at hc
  rcases hc with (hc | hc) | hc
  · rw [hq] at hc; simp at hc
  · have := (h.1 x hmem).1 hc
    rw [hman] at this; simp at this
  · have : (x.pt, x.name) ∈ s.toTrigger := by simpa using hc
    have := h.2.1 _ this x hmem rfl
    rw [hman] at this; simp at this

end CylcModel.Sched3Exp
