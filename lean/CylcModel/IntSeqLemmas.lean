/-
Helper lemmas for C16 (integer recurrences): alignment arithmetic with a variable modulus.
-/
import CylcModel.IntSeq
import Mathlib.Tactic.Linarith
import Mathlib.Tactic.Ring

namespace CylcModel.IntSeq

/-- `x ≡ a (mod k)` written as the code writes it. -/
def Cong (k a x : Int) : Prop := (x - a) % k = 0

theorem cong_iff_exists {k a x : Int} : Cong k a x ↔ ∃ m : Int, x = a + k * m := by
  unfold Cong
  constructor
  · intro h
    obtain ⟨m, hm⟩ := Int.dvd_of_emod_eq_zero h
    exact ⟨m, by linarith⟩
  · rintro ⟨m, rfl⟩
    have : a + k * m - a = k * m := by ring
    rw [this]; exact Int.mul_emod_right k m

theorem emod_decomp (k : Int) (hk : 0 < k) (d : Int) :
    ∃ q r : Int, d = k * q + r ∧ 0 ≤ r ∧ r < k ∧ d % k = r ∧ d / k = q :=
  ⟨d / k, d % k, by have := Int.mul_ediv_add_emod d k; linarith, Int.emod_nonneg d (by omega), Int.emod_lt_of_pos d hk, rfl, rfl⟩

/-- the greatest point ≡ a that is ≤ c is `c - (c - a) % k` -/
theorem le_floor_align {k a c x : Int} (hk : 0 < k) (hx : Cong k a x) :
    x ≤ c ↔ x ≤ c - (c - a) % k := by
  obtain ⟨m, rfl⟩ := cong_iff_exists.mp hx
  obtain ⟨q, r, hd, hr0, hrk, hmod, -⟩ := emod_decomp k hk (c - a)
  rw [hmod]
  constructor
  · intro h
    have hmq : m ≤ q := by
      by_contra hc
      have : q + 1 ≤ m := by omega
      have : k * (q + 1) ≤ k * m := Int.mul_le_mul_of_nonneg_left this (by omega)
      nlinarith
    have : k * m ≤ k * q := Int.mul_le_mul_of_nonneg_left hmq (by omega)
    linarith
  · intro h; linarith

/-- the least point ≡ a that is ≥ c is `c + (a - c) % k` -/
theorem ceil_align_le {k a c x : Int} (hk : 0 < k) (hx : Cong k a x) :
    c ≤ x ↔ c + (a - c) % k ≤ x := by
  obtain ⟨m, rfl⟩ := cong_iff_exists.mp hx
  obtain ⟨q, r, hd, hr0, hrk, hmod, -⟩ := emod_decomp k hk (a - c)
  rw [hmod]
  constructor
  · intro h
    -- c = a - k q - r ; a + k m ≥ c ↔ k (m + q) + r ≥ 0 ↔ m + q ≥ 0
    have hmq : 0 ≤ m + q := by
      by_contra hc
      have : m + q ≤ -1 := by omega
      have : k * (m + q) ≤ k * (-1) := Int.mul_le_mul_of_nonneg_left this (by omega)
      nlinarith
    have : 0 ≤ k * (m + q) := Int.mul_nonneg (by omega) hmq
    nlinarith
  · intro h; linarith

theorem cong_floor_align {k a c : Int} : Cong k a (c - (c - a) % k) := by
  unfold Cong
  have : c - (c - a) % k - a = (c - a) - (c - a) % k := by ring
  rw [this]
  have := Int.mul_ediv_add_emod (c - a) k
  have h2 : (c - a) - (c - a) % k = k * ((c - a) / k) := by linarith
  rw [h2]; exact Int.mul_emod_right _ _

theorem cong_ceil_align {k a c : Int} : Cong k a (c + (a - c) % k) := by
  unfold Cong
  have := Int.mul_ediv_add_emod (a - c) k
  have h2 : c + (a - c) % k - a = k * (-((a - c) / k)) := by linarith
  rw [h2]; exact Int.mul_emod_right _ _

theorem cong_trans {k a b x : Int} (hab : Cong k a b) : Cong k b x ↔ Cong k a x := by
  obtain ⟨m, rfl⟩ := cong_iff_exists.mp hab
  constructor
  · intro h; obtain ⟨n, rfl⟩ := cong_iff_exists.mp h
    exact cong_iff_exists.mpr ⟨m + n, by ring⟩
  · intro h; obtain ⟨n, hn⟩ := cong_iff_exists.mp h
    exact cong_iff_exists.mpr ⟨n - m, by linarith [hn, mul_sub k n m]⟩

theorem cong_refl {k a : Int} : Cong k a a := by unfold Cong; simp

theorem cong_add_mul {k a : Int} (j : Int) : Cong k a (a + k * j) := cong_iff_exists.mpr ⟨j, rfl⟩
theorem cong_sub_mul {k a : Int} (j : Int) : Cong k a (a - k * j) := cong_iff_exists.mpr ⟨-j, by ring⟩

end CylcModel.IntSeq

namespace CylcModel.IntSeq

theorem onSeq_stepped {c : Core} {k : Int} (h : c.step = some k) (x : Int) :
    c.onSeq x = true ↔ Cong k c.start x := by
  unfold Core.onSeq Cong; rw [h]; simp

theorem inBounds_iff (c : Core) (x : Int) :
    c.inBounds x = true ↔ c.start ≤ x ∧ ∀ e, c.stop = some e → x ≤ e := by
  unfold Core.inBounds
  cases h : c.stop <;> simp

theorem isValid_iff (c : Core) (x : Int) :
    c.isValid x = true ↔ c.onSeq x = true ∧ c.start ≤ x ∧ ∀ e, c.stop = some e → x ≤ e := by
  unfold Core.isValid; rw [Bool.and_eq_true, inBounds_iff]

/-- validity in a clipped stepped core -/
theorem clip_valid_stepped {k s1 icp : Int} {e1 fcp : Option Int} (hk : 0 < k) (x : Int) :
    (clip s1 e1 (some k) icp fcp).isValid x = true ↔
      Cong k s1 x ∧ s1 ≤ x ∧ icp ≤ x ∧
        (∀ e, e1 = some e → x ≤ e ∧ ∀ cs, fcp = some cs → x ≤ cs) := by
  rw [isValid_iff, onSeq_stepped (k := k) (by simp [clip])]
  -- the clipped start
  have hs2 : (clip s1 e1 (some k) icp fcp).start = if s1 < icp then icp + (s1 - icp) % k else s1 := by
    simp [clip]
  have hcs2 : Cong k s1 (clip s1 e1 (some k) icp fcp).start := by
    rw [hs2]; split
    · exact cong_ceil_align
    · exact cong_refl
  rw [cong_trans hcs2]
  constructor
  · rintro ⟨hc, hlo, hhi⟩
    have hlo' : s1 ≤ x ∧ icp ≤ x := by
      rw [hs2] at hlo
      split at hlo
      · rename_i hlt
        have := (ceil_align_le (c := icp) hk hc).mpr hlo
        constructor <;> omega
      · constructor <;> omega
    refine ⟨hc, hlo'.1, hlo'.2, ?_⟩
    intro e he
    subst he
    cases hf : fcp with
    | none =>
      have : (clip s1 (some e) (some k) icp none).stop = some e := by simp [clip]
      rw [hf] at hhi
      exact ⟨hhi e this, by intro cs h; cases h⟩
    | some cs =>
      rw [hf] at hhi hcs2
      by_cases hgt : e > cs
      · have hst : (clip s1 (some e) (some k) icp (some cs)).stop =
            some (cs - (cs - (clip s1 (some e) (some k) icp (some cs)).start) % k) := by
          simp [clip, hgt]
        have h1 := hhi _ hst
        have hcx : Cong k (clip s1 (some e) (some k) icp (some cs)).start x := (cong_trans hcs2).mpr hc
        have := (le_floor_align (c := cs) hk hcx).mpr h1
        refine ⟨by omega, ?_⟩
        intro cs' h; cases h; exact this
      · have hst : (clip s1 (some e) (some k) icp (some cs)).stop = some e := by
          simp [clip, hgt]
        have h1 := hhi _ hst
        refine ⟨h1, ?_⟩
        intro cs' h; cases h; omega
  · rintro ⟨hc, h1, h2, h3⟩
    refine ⟨hc, ?_, ?_⟩
    · rw [hs2]; split
      · exact (ceil_align_le (c := icp) hk hc).mp h2
      · exact h1
    · intro e' he'
      cases he1 : e1 with
      | none => rw [he1] at he'; simp [clip] at he'
      | some e =>
        obtain ⟨hxe, hxc⟩ := h3 e he1
        rw [he1] at he' hcs2
        cases hf : fcp with
        | none => rw [hf] at he'; simp [clip] at he'; omega
        | some cs =>
          rw [hf] at he' hcs2
          have hxcs := hxc cs hf
          by_cases hgt : e > cs
          · have hst : (clip s1 (some e) (some k) icp (some cs)).stop =
                some (cs - (cs - (clip s1 (some e) (some k) icp (some cs)).start) % k) := by
              simp [clip, hgt]
            rw [hst] at he'; cases he'
            have hcx : Cong k (clip s1 (some e) (some k) icp (some cs)).start x := (cong_trans hcs2).mpr hc
            exact (le_floor_align (c := cs) hk hcx).mp hxcs
          · have hst : (clip s1 (some e) (some k) icp (some cs)).stop = some e := by
              simp [clip, hgt]
            rw [hst] at he'; cases he'; exact hxe

/-- validity in a one-off core: only the point itself (context is not consulted) -/
theorem clip_valid_oneoff {s1 icp : Int} {fcp : Option Int} (x : Int) :
    (clip s1 (some s1) none icp fcp).isValid x = true ↔ x = s1 := by
  simp [clip, Core.isValid, Core.onSeq, Core.inBounds]
  intro h; subst h; simp

end CylcModel.IntSeq

namespace CylcModel.IntSeq

theorem cong_symm {k a x : Int} : Cong k a x ↔ Cong k x a := by
  constructor <;> intro h <;> obtain ⟨m, hm⟩ := cong_iff_exists.mp h <;>
    exact cong_iff_exists.mpr ⟨-m, by rw [hm]; ring⟩

theorem ediv_of_mul {k m : Int} (hk : 0 < k) : k * m / k = m := by
  rw [Int.mul_ediv_cancel_left m (by omega)]

theorem mul_le_iff {k m n : Int} (hk : 0 < k) : k * m ≤ k * n ↔ m ≤ n := by
  constructor
  · intro h; by_contra hc
    have : n + 1 ≤ m := by omega
    have := Int.mul_le_mul_of_nonneg_left this (show 0 ≤ k by omega)
    nlinarith
  · intro h; exact Int.mul_le_mul_of_nonneg_left h (by omega)

theorem prog_mem_fwd {a k : Int} {cnt : Option Nat} (hk : 0 < k) (x : Int) :
    (Prog.mem ⟨a, some k, cnt, false⟩ x = true) ↔
      Cong k a x ∧ a ≤ x ∧ (∀ n : Nat, cnt = some n → x ≤ a + k * ((n : Int) - 1)) := by
  unfold Prog.mem
  simp only [Bool.false_eq_true, if_false, Bool.and_eq_true, decide_eq_true_eq, beq_iff_eq]
  constructor
  · rintro ⟨⟨h0, hm⟩, hc⟩
    have hcong : Cong k a x := hm
    refine ⟨hcong, by omega, ?_⟩
    intro n hn; subst hn
    obtain ⟨m, rfl⟩ := cong_iff_exists.mp hcong
    simp only [decide_eq_true_eq] at hc
    have : a + k * m - a = k * m := by ring
    rw [this, ediv_of_mul hk] at hc
    have : m ≤ (n : Int) - 1 := by omega
    have := (mul_le_iff hk).mpr this
    linarith
  · rintro ⟨hc, h0, hn⟩
    refine ⟨⟨by omega, hc⟩, ?_⟩
    cases cnt with
    | none => rfl
    | some n =>
      simp only [decide_eq_true_eq]
      obtain ⟨m, rfl⟩ := cong_iff_exists.mp hc
      have h := hn n rfl
      have : a + k * m - a = k * m := by ring
      rw [this, ediv_of_mul hk]
      have : k * m ≤ k * ((n : Int) - 1) := by linarith
      have := (mul_le_iff hk).mp this
      omega

theorem prog_mem_bwd {b k : Int} {cnt : Option Nat} (hk : 0 < k) (x : Int) :
    (Prog.mem ⟨b, some k, cnt, true⟩ x = true) ↔
      Cong k b x ∧ x ≤ b ∧ (∀ n : Nat, cnt = some n → b - k * ((n : Int) - 1) ≤ x) := by
  unfold Prog.mem
  simp only [if_true, Bool.and_eq_true, decide_eq_true_eq, beq_iff_eq]
  constructor
  · rintro ⟨⟨h0, hm⟩, hc⟩
    have hcong : Cong k b x := cong_symm.mp hm
    refine ⟨hcong, by omega, ?_⟩
    intro n hn; subst hn
    obtain ⟨m, hm'⟩ := cong_iff_exists.mp (cong_symm.mp hcong)
    simp only [decide_eq_true_eq] at hc
    have : b - x = k * m := by linarith
    rw [this, ediv_of_mul hk] at hc
    have : m ≤ (n : Int) - 1 := by omega
    have := (mul_le_iff hk).mpr this
    linarith
  · rintro ⟨hc, h0, hn⟩
    refine ⟨⟨by omega, cong_symm.mp hc⟩, ?_⟩
    cases cnt with
    | none => rfl
    | some n =>
      simp only [decide_eq_true_eq]
      obtain ⟨m, hm'⟩ := cong_iff_exists.mp (cong_symm.mp hc)
      have h := hn n rfl
      have : b - x = k * m := by linarith
      rw [this, ediv_of_mul hk]
      have : k * m ≤ k * ((n : Int) - 1) := by linarith
      have := (mul_le_iff hk).mp this
      omega

theorem prog_mem_oneoff {a : Int} {cnt : Option Nat} {bw : Bool} (x : Int) :
    (Prog.mem ⟨a, none, cnt, bw⟩ x = true) ↔ x = a := by
  simp [Prog.mem]

theorem inContext_iff (icp : Int) (fcp : Option Int) (x : Int) :
    inContext icp fcp x = true ↔ icp ≤ x ∧ ∀ cs, fcp = some cs → x ≤ cs := by
  unfold inContext; cases fcp <;> simp

end CylcModel.IntSeq

namespace CylcModel.IntSeq

/-! ### `buildCore` form by form: validity = the code-level reading of the specification -/

macro "unfold_build" h:ident : tactic =>
  `(tactic| simp [Form.toParsed, buildCore, bind, Except.bind, pure, Except.pure, ptOf, branch,
      throw, throwThe, MonadExceptOf.throw] at $h:ident)

/-- the format-1 (`Rn/a/b`, n ≥ 2) branch in closed form -/
def fmt1 (n : Nat) (A B : Int) : Except Err (Int × Option Int × Option Int) :=
  if (B - A) % ((n : Int) - 1) ≠ 0 ∨ B - A < 0 then Except.error Err.error
  else if B = A then Except.ok (A, some B, none)
  else Except.ok (A, some B, some ((B - A) / ((n : Int) - 1)))

theorem branch_fmt1 (n : Nat) (hn : 2 ≤ n) (A B icp : Int) (fcp : Option Int) (sa sb : Option PtExpr) :
    branch ⟨1, some n, sa, sb, none⟩ icp fcp A (some B) = fmt1 n A B := by
  have hn1 : ¬ n = 1 := by omega
  have hd : (0 : Int) < (n : Int) - 1 := by omega
  simp only [fmt1, branch, show ((1 : Nat) == 3) = false from rfl, show ((1 : Nat) == 1) = true from rfl,
    Bool.false_eq_true, if_false, if_true, beq_iff_eq, hn1]
  by_cases hm : (B - A) % ((n : Int) - 1) = 0
  · obtain ⟨m, hm'⟩ := Int.dvd_of_emod_eq_zero hm
    have hdiv : (B - A) / ((n : Int) - 1) = m := by
      rw [hm']; exact Int.mul_ediv_cancel_left m (by omega)
    simp only [hm, ne_eq, not_true_eq_false, if_false, false_or, hdiv]
    by_cases hneg : B - A < 0
    · have : m < 0 := by
        by_contra hc
        have : 0 ≤ ((n : Int) - 1) * m := Int.mul_nonneg (by omega) (by omega)
        omega
      simp [hneg, this, throw, throwThe, MonadExceptOf.throw]
    · have hm0 : ¬ m < 0 := by
        intro hc
        have : ((n : Int) - 1) * m < 0 := Int.mul_neg_of_pos_of_neg hd hc
        omega
      by_cases hz : B = A
      · have : m = 0 := by
          have h0 : ((n : Int) - 1) * m = 0 := by omega
          rcases Int.mul_eq_zero.mp h0 with h | h
          · omega
          · exact h
        simp [hneg, hm0, hz, this, pure, Except.pure]
      · have : ¬ m = 0 := by
          intro h0; rw [h0] at hm'; omega
        simp [hneg, hm0, hz, this, pure, Except.pure]
  · simp [hm, throw, throwThe, MonadExceptOf.throw]

theorem v_fmt1 (n : Nat) (hn : 2 ≤ n) (A B icp : Int) (fcp : Option Int)
    (v : Int × Option Int × Option Int) (x : Int) (h : fmt1 n A B = .ok v) :
    ((clip v.1 v.2.1 v.2.2 icp fcp).isValid x = true) ↔
      ¬ ((B - A) % ((n : Int) - 1) ≠ 0 ∨ B - A < 0) ∧
      (if B = A then x = A
       else (Prog.mem ⟨A, some ((B - A) / ((n : Int) - 1)), some n, false⟩ x = true ∧ inContext icp fcp x = true)) := by
  have hd : (0 : Int) < (n : Int) - 1 := by omega
  unfold fmt1 at h
  by_cases hbad : (B - A) % ((n : Int) - 1) ≠ 0 ∨ B - A < 0
  · rw [if_pos hbad] at h; cases h
  · rw [if_neg hbad] at h
    simp only [hbad, not_false_eq_true, true_and]
    push_neg at hbad
    obtain ⟨hm, hpos⟩ := hbad
    obtain ⟨m, hm'⟩ := Int.dvd_of_emod_eq_zero hm
    have hdiv : (B - A) / ((n : Int) - 1) = m := by
      rw [hm']; exact Int.mul_ediv_cancel_left m (by omega)
    by_cases hz : B = A
    · rw [if_pos hz] at h
      rw [if_pos hz]
      injection h with h; subst h
      subst hz
      exact clip_valid_oneoff (s1 := B) (icp := icp) (fcp := fcp) x
    · rw [if_neg hz] at h
      rw [if_neg hz]
      injection h with h; subst h
      rw [hdiv]
      have hmpos : 0 < m := by
        by_contra hc
        have : ((n : Int) - 1) * m ≤ 0 := Int.mul_nonpos_of_nonneg_of_nonpos (by omega) (by omega)
        omega
      rw [clip_valid_stepped hmpos, prog_mem_fwd hmpos, inContext_iff]
      have hB : A + m * ((n : Int) - 1) = B := by linarith [mul_comm m ((n:Int) - 1)]
      constructor
      · rintro ⟨hc, h1, h2, h3⟩
        obtain ⟨h4, h5⟩ := h3 B rfl
        refine ⟨⟨hc, h1, ?_⟩, h2, h5⟩
        intro n' hn'; injection hn' with hn'; subst hn'; rw [hB]; exact h4
      · rintro ⟨⟨hc, h1, h3⟩, h2, h5⟩
        refine ⟨hc, h1, h2, ?_⟩
        intro e he; injection he with he; subst he
        exact ⟨by have := h3 n rfl; rw [hB] at this; exact this, h5⟩

end CylcModel.IntSeq

namespace CylcModel.IntSeq
set_option linter.unusedSimpArgs false
set_option linter.unusedTactic false
set_option linter.unreachableTactic false
set_option linter.unnecessarySeqFocus false

theorem codeMem_rse (n : Nat) (hn : 2 ≤ n) (a b : PtExpr) (icp : Int) (fcp : Option Int) (A B x : Int)
    (ha : relTo a (some icp) = some A) (hb : relTo b fcp = some B) :
    ((Form.repStartEnd n a b).codeMem icp fcp x = true) ↔
      ¬ ((B - A) % ((n : Int) - 1) ≠ 0 ∨ B - A < 0) ∧
      (if B = A then x = A
       else (Prog.mem ⟨A, some ((B - A) / ((n : Int) - 1)), some n, false⟩ x = true ∧ inContext icp fcp x = true)) := by
  have hn1 : ¬ n = 1 := by omega
  simp only [Form.codeMem, Form.prog]
  rw [ha, hb]
  simp only [beq_iff_eq, hn1, if_false]
  by_cases hbad : (B - A) % ((n : Int) - 1) ≠ 0 ∨ B - A < 0
  · rw [if_pos hbad]
    exact ⟨fun h => by simp at h, fun h => absurd hbad h.1⟩
  · rw [if_neg hbad]
    by_cases hz : B = A
    · rw [if_pos hz, if_pos hz]
      simp only [hbad, not_false_eq_true, true_and, Option.isNone_none, Bool.true_or, Bool.and_true]
      exact prog_mem_oneoff x
    · rw [if_neg hz, if_neg hz]
      simp only [hbad, not_false_eq_true, true_and, Option.isNone_some, Bool.false_or, Bool.and_eq_true]

theorem v_repStartEnd (n : Nat) (a b : PtExpr) (icp : Int) (fcp : Option Int) (c : Core) (x : Int)
    (h : buildCore (Form.repStartEnd n a b).toParsed icp fcp = .ok c) :
    c.isValid x = (Form.repStartEnd n a b).codeMem icp fcp x := by
  rcases Nat.eq_zero_or_pos n with rfl | hn
  · unfold_build h
  have hn0 : n ≠ 0 := by omega
  by_cases hn1 : n = 1
  · subst hn1
    cases a <;> cases b <;> cases fcp <;>
      simp [Form.toParsed, buildCore, bind, Except.bind, pure, Except.pure, ptOf, branch] at h <;>
      subst h <;>
      rw [Bool.eq_iff_iff, clip_valid_oneoff] <;>
      simp [Form.codeMem, Form.prog, relTo, prog_mem_oneoff]
  · have hn2 : 2 ≤ n := by omega
    rw [Bool.eq_iff_iff]
    cases a <;> cases b <;> cases fcp <;>
      simp only [Form.toParsed, buildCore, bind, Except.bind, pure, Except.pure, ptOf, hn0,
        Option.some.injEq, if_false, Bool.or_true, Bool.true_or, Option.getD_some, reduceCtorEq,
        show ((1:Nat) == 1) = true from rfl, show ((1:Nat) == 3) = false from rfl,
        show ((1:Nat) == 4) = false from rfl, Bool.or_false, Bool.false_or, if_true] at h
    all_goals first
      | (cases h)
      | (rw [branch_fmt1 n hn2] at h
         split at h
         · cases h
         · rename_i v hv
           injection h with h; subst h
           rw [v_fmt1 n hn2 _ _ icp _ v x hv, codeMem_rse n hn2 _ _ icp _ _ _ x rfl rfl])


theorem v_startIntv (a : PtExpr) (k : Nat) (icp : Int) (fcp : Option Int) (c : Core) (x : Int)
    (h : buildCore (Form.startIntv a k).toParsed icp fcp = .ok c) :
    c.isValid x = (Form.startIntv a k).codeMem icp fcp x := by
  rcases Nat.eq_zero_or_pos k with rfl | hk
  · unfold_build h
  have hk0 : k ≠ 0 := by omega
  have hkz : (0:Int) < (k:Int) := by omega
  cases a <;> cases fcp <;>
    simp [Form.toParsed, buildCore, bind, Except.bind, pure, Except.pure, ptOf, branch, hk0] at h <;>
    subst h <;>
    rw [Bool.eq_iff_iff, clip_valid_stepped hkz] <;>
    simp [Form.codeMem, Form.prog, relTo, Bool.and_eq_true, prog_mem_fwd hkz, inContext_iff]
  · tauto
  · rename_i v cs
    have := fun hc => le_floor_align (k := k) (a := v) (c := cs) (x := x) hkz hc
    tauto
  · tauto
  · rename_i d cs
    have := fun hc => le_floor_align (k := k) (a := icp + d) (c := cs) (x := x) hkz hc
    tauto

theorem v_intv (k : Nat) (icp : Int) (fcp : Option Int) (c : Core) (x : Int)
    (h : buildCore (Form.intv k).toParsed icp fcp = .ok c) :
    c.isValid x = (Form.intv k).codeMem icp fcp x := by
  rcases Nat.eq_zero_or_pos k with rfl | hk
  · unfold_build h
  have hk0 : k ≠ 0 := by omega
  have hkz : (0:Int) < (k:Int) := by omega
  cases fcp <;>
    simp [Form.toParsed, buildCore, bind, Except.bind, pure, Except.pure, ptOf, branch, hk0] at h <;>
    subst h <;>
    rw [Bool.eq_iff_iff, clip_valid_stepped hkz] <;>
    simp [Form.codeMem, Form.prog, relTo, Bool.and_eq_true, prog_mem_fwd hkz, inContext_iff]
  · rename_i cs
    have := fun hc => le_floor_align (k := k) (a := icp) (c := cs) (x := x) hkz hc
    tauto

theorem v_intvEnd (b : PtExpr) (k : Nat) (icp : Int) (fcp : Option Int) (c : Core) (x : Int)
    (h : buildCore (Form.intvEnd k b).toParsed icp fcp = .ok c) :
    c.isValid x = (Form.intvEnd k b).codeMem icp fcp x := by
  rcases Nat.eq_zero_or_pos k with rfl | hk
  · unfold_build h
  have hk0 : k ≠ 0 := by omega
  have hkz : (0:Int) < (k:Int) := by omega
  cases b <;> cases fcp <;>
    simp [Form.toParsed, buildCore, bind, Except.bind, pure, Except.pure, ptOf, branch, hk0] at h <;>
    subst h <;>
    rw [Bool.eq_iff_iff, clip_valid_stepped hkz] <;>
    simp [Form.codeMem, Form.prog, relTo, Bool.and_eq_true, prog_mem_bwd hkz, inContext_iff]
  all_goals (
    constructor
    · intro h
      have hc := (cong_trans cong_ceil_align).mp h.1
      tauto
    · intro h
      have hc := (cong_trans (cong_ceil_align (c := icp))).mpr h.1.1
      have hicp : icp ≤ x := by tauto
      have := (ceil_align_le hkz h.1.1).mp hicp
      tauto)

theorem v_r1Start (a : PtExpr) (icp : Int) (fcp : Option Int) (c : Core) (x : Int)
    (h : buildCore (Form.r1Start a).toParsed icp fcp = .ok c) :
    c.isValid x = (Form.r1Start a).codeMem icp fcp x := by
  cases a <;> cases fcp <;>
    simp [Form.toParsed, buildCore, bind, Except.bind, pure, Except.pure, ptOf, branch] at h <;>
    subst h <;>
    rw [Bool.eq_iff_iff, clip_valid_oneoff] <;>
    simp [Form.codeMem, Form.prog, relTo, prog_mem_oneoff]

theorem v_r1 (icp : Int) (fcp : Option Int) (c : Core) (x : Int)
    (h : buildCore (Form.r1).toParsed icp fcp = .ok c) :
    c.isValid x = (Form.r1).codeMem icp fcp x := by
  cases fcp <;>
    simp [Form.toParsed, buildCore, bind, Except.bind, pure, Except.pure, ptOf, branch] at h <;>
    subst h <;>
    rw [Bool.eq_iff_iff, clip_valid_oneoff] <;>
    simp [Form.codeMem, Form.prog, relTo, prog_mem_oneoff]

theorem v_r1End (b : PtExpr) (icp : Int) (fcp : Option Int) (c : Core) (x : Int)
    (h : buildCore (Form.r1End b).toParsed icp fcp = .ok c) :
    c.isValid x = (Form.r1End b).codeMem icp fcp x := by
  cases b <;> cases fcp <;>
    simp [Form.toParsed, buildCore, bind, Except.bind, pure, Except.pure, ptOf, branch,
      throw, throwThe, MonadExceptOf.throw] at h <;>
    subst h <;>
    rw [Bool.eq_iff_iff, clip_valid_oneoff] <;>
    simp [Form.codeMem, Form.prog, relTo, prog_mem_oneoff]

theorem v_repStartIntv (n : Nat) (a : PtExpr) (k : Nat) (icp : Int) (fcp : Option Int) (c : Core) (x : Int)
    (h : buildCore (Form.repStartIntv n a k).toParsed icp fcp = .ok c) :
    c.isValid x = (Form.repStartIntv n a k).codeMem icp fcp x := by
  rcases Nat.eq_zero_or_pos k with rfl | hk
  · unfold_build h
  rcases Nat.eq_zero_or_pos n with rfl | hn
  · unfold_build h
  have hk0 : k ≠ 0 := by omega
  have hn0 : n ≠ 0 := by omega
  have hkz : (0:Int) < (k:Int) := by omega
  by_cases hn1 : n ≤ 1
  · cases a <;> cases fcp <;>
      simp [Form.toParsed, buildCore, bind, Except.bind, pure, Except.pure, ptOf, branch, hk0, hn0, hn1] at h <;>
      subst h <;>
      rw [Bool.eq_iff_iff, clip_valid_oneoff] <;>
      simp [Form.codeMem, Form.prog, relTo, hn1, prog_mem_oneoff]
  · cases a <;> cases fcp <;>
      simp [Form.toParsed, buildCore, bind, Except.bind, pure, Except.pure, ptOf, branch, hk0, hn0, hn1] at h <;>
      subst h <;>
      rw [Bool.eq_iff_iff, clip_valid_stepped hkz] <;>
      simp [Form.codeMem, Form.prog, relTo, hn1, Bool.and_eq_true, prog_mem_fwd hkz, inContext_iff] <;>
      tauto

theorem v_repIntvFromIcp (n : Nat) (k : Nat) (icp : Int) (fcp : Option Int) (c : Core) (x : Int)
    (h : buildCore (Form.repIntvFromIcp n k).toParsed icp fcp = .ok c) :
    c.isValid x = (Form.repIntvFromIcp n k).codeMem icp fcp x := by
  rcases Nat.eq_zero_or_pos k with rfl | hk
  · unfold_build h
  rcases Nat.eq_zero_or_pos n with rfl | hn
  · unfold_build h
  have hk0 : k ≠ 0 := by omega
  have hn0 : n ≠ 0 := by omega
  have hkz : (0:Int) < (k:Int) := by omega
  by_cases hn1 : n ≤ 1
  · cases fcp <;>
      simp [Form.toParsed, buildCore, bind, Except.bind, pure, Except.pure, ptOf, branch, hk0, hn0, hn1] at h <;>
      subst h <;>
      rw [Bool.eq_iff_iff, clip_valid_oneoff] <;>
      simp [Form.codeMem, Form.prog, relTo, hn1, prog_mem_oneoff]
  · cases fcp <;>
      simp [Form.toParsed, buildCore, bind, Except.bind, pure, Except.pure, ptOf, branch, hk0, hn0, hn1] at h <;>
      subst h <;>
      rw [Bool.eq_iff_iff, clip_valid_stepped hkz] <;>
      simp [Form.codeMem, Form.prog, relTo, hn1, Bool.and_eq_true, prog_mem_fwd hkz, inContext_iff] <;>
      tauto

theorem v_repIntvEnd (n : Nat) (k : Nat) (b : PtExpr) (icp : Int) (fcp : Option Int) (c : Core) (x : Int)
    (h : buildCore (Form.repIntvEnd n k b).toParsed icp fcp = .ok c) :
    c.isValid x = (Form.repIntvEnd n k b).codeMem icp fcp x := by
  rcases Nat.eq_zero_or_pos k with rfl | hk
  · unfold_build h
  rcases Nat.eq_zero_or_pos n with rfl | hn
  · unfold_build h
  have hk0 : k ≠ 0 := by omega
  have hn0 : n ≠ 0 := by omega
  have hkz : (0:Int) < (k:Int) := by omega
  by_cases hn1 : n ≤ 1
  · cases b <;> cases fcp <;>
      simp [Form.toParsed, buildCore, bind, Except.bind, pure, Except.pure, ptOf, branch, hk0, hn0, hn1,
        throw, throwThe, MonadExceptOf.throw] at h <;>
      subst h <;>
      rw [Bool.eq_iff_iff, clip_valid_oneoff] <;>
      simp [Form.codeMem, Form.prog, relTo, hn1, prog_mem_oneoff]
  · cases b <;> cases fcp <;>
      simp [Form.toParsed, buildCore, bind, Except.bind, pure, Except.pure, ptOf, branch, hk0, hn0, hn1,
        throw, throwThe, MonadExceptOf.throw] at h <;>
      subst h <;>
      rw [Bool.eq_iff_iff, clip_valid_stepped hkz] <;>
      simp [Form.codeMem, Form.prog, relTo, hn1, Bool.and_eq_true, prog_mem_bwd hkz, inContext_iff]
    all_goals (
      constructor
      · intro h
        have hc := (cong_trans (cong_sub_mul _)).mp h.1
        tauto
      · intro h
        have hc := (cong_trans (cong_sub_mul ((n:Int) - 1))).mpr h.1.1
        tauto)

theorem v_repIntv (n : Nat) (k : Nat) (icp : Int) (fcp : Option Int) (c : Core) (x : Int)
    (h : buildCore (Form.repIntv n k).toParsed icp fcp = .ok c) :
    c.isValid x = (Form.repIntv n k).codeMem icp fcp x := by
  rcases Nat.eq_zero_or_pos k with rfl | hk
  · unfold_build h
  rcases Nat.eq_zero_or_pos n with rfl | hn
  · unfold_build h
  have hk0 : k ≠ 0 := by omega
  have hn0 : n ≠ 0 := by omega
  have hkz : (0:Int) < (k:Int) := by omega
  by_cases hn1 : n ≤ 1
  · cases fcp <;>
      simp [Form.toParsed, buildCore, bind, Except.bind, pure, Except.pure, ptOf, branch, hk0, hn0, hn1,
        throw, throwThe, MonadExceptOf.throw] at h <;>
      subst h <;>
      rw [Bool.eq_iff_iff, clip_valid_oneoff] <;>
      simp [Form.codeMem, Form.prog, relTo, hn1, prog_mem_oneoff]
  · cases fcp <;>
      simp [Form.toParsed, buildCore, bind, Except.bind, pure, Except.pure, ptOf, branch, hk0, hn0, hn1,
        throw, throwThe, MonadExceptOf.throw] at h <;>
      subst h <;>
      rw [Bool.eq_iff_iff, clip_valid_stepped hkz] <;>
      simp [Form.codeMem, Form.prog, relTo, hn1, Bool.and_eq_true, prog_mem_bwd hkz, inContext_iff]
    constructor
    · intro h
      have hc := (cong_trans (cong_sub_mul _)).mp h.1
      tauto
    · intro h
      have hc := (cong_trans (cong_sub_mul ((n:Int) - 1))).mpr h.1.1
      tauto

/-- **Membership, form by form**: whenever the constructor succeeds, validity in the built
core is the code-level reading of the specification. -/
theorem core_valid_eq_codeMem (f : Form) (icp : Int) (fcp : Option Int) (c : Core) (x : Int)
    (h : buildCore f.toParsed icp fcp = .ok c) : c.isValid x = f.codeMem icp fcp x := by
  cases f with
  | repStartEnd n a b => exact v_repStartEnd n a b icp fcp c x h
  | startIntv a k => exact v_startIntv a k icp fcp c x h
  | intv k => exact v_intv k icp fcp c x h
  | intvEnd k b => exact v_intvEnd b k icp fcp c x h
  | r1Start a => exact v_r1Start a icp fcp c x h
  | repStartIntv n a k => exact v_repStartIntv n a k icp fcp c x h
  | repIntvFromIcp n k => exact v_repIntvFromIcp n k icp fcp c x h
  | repIntvEnd n k b => exact v_repIntvEnd n k b icp fcp c x h
  | repIntv n k => exact v_repIntv n k icp fcp c x h
  | r1 => exact v_r1 icp fcp c x h
  | r1End b => exact v_r1End b icp fcp c x h


end CylcModel.IntSeq

namespace CylcModel.IntSeq
set_option linter.unusedSimpArgs false

/-- spec-side exclusion test in the context (start, stop) of the outer sequence -/
def exclCode (ex : List ExclItem) (start : Int) (stop : Option Int) (x : Int) : Bool :=
  ex.any fun
    | .pt v => v == x
    | .seq g => g.codeMem start stop x

theorem buildExcl_spec (start : Int) (stop : Option Int) (x : Int) :
    ∀ (ex : List ExclItem) (ps : List Int) (ss : List Core),
      buildExcl start stop ex = .ok (ps, ss) →
      (ps.contains x || ss.any (·.isValid x)) = exclCode ex start stop x := by
  intro ex
  induction ex with
  | nil => intro ps ss h; simp [buildExcl] at h; obtain ⟨rfl, rfl⟩ := h; simp [exclCode]
  | cons e rest ih =>
    intro ps ss h
    cases e with
    | pt v =>
      simp only [buildExcl, bind, Except.bind] at h
      split at h
      · cases h
      · rename_i r hr
        obtain ⟨ps', ss'⟩ := r
        have ih' := ih ps' ss' hr
        simp only [pure, Except.pure] at h
        injection h with h
        injection h with h1 h2
        subst h2
        simp only [exclCode, List.any_cons] at ih' ⊢
        rw [← ih']
        by_cases hv : v ∈ ps'
        · simp only [hv, if_true] at h1; subst h1
          by_cases hx : v = x
          · subst hx; simp [hv]
          · simp [hx]
        · simp only [hv, if_false] at h1; subst h1
          by_cases hx : v = x
          · subst hx; simp
          · have hx' : ¬ x = v := fun h => hx h.symm
            simp [hx, hx', List.contains_cons]
    | seq g =>
      simp only [buildExcl, bind, Except.bind] at h
      split at h
      · cases h
      · rename_i c hc
        split at h
        · cases h
        · rename_i r hr
          obtain ⟨ps', ss'⟩ := r
          have ih' := ih ps' ss' hr
          simp only [pure, Except.pure] at h
          injection h with h
          injection h with h1 h2
          subst h1; subst h2
          simp only [exclCode, List.any_cons] at ih' ⊢
          rw [← ih', core_valid_eq_codeMem g start stop c x hc]
          cases (g.codeMem start stop x) <;> cases (ps'.contains x) <;> simp

/-- **Membership with exclusions** -/
theorem seq_valid_spec (f : Form) (ex : List ExclItem) (icp : Int) (fcp : Option Int) (s : Seq) (x : Int)
    (h : build f ex icp fcp = .ok s) :
    s.isValid x = (f.codeMem icp fcp x && !(exclCode ex s.core.start s.core.stop x)) := by
  simp only [build, bind, Except.bind] at h
  split at h
  · cases h
  · rename_i c hc
    by_cases hemp : ex.isEmpty = true
    · simp only [hemp, if_true, pure, Except.pure] at h
      injection h with h; subst h
      have : ex = [] := List.isEmpty_iff.mp hemp
      subst this
      simp [Seq.isValid, Seq.onSeq, Seq.excluded, exclCode, ← core_valid_eq_codeMem f icp fcp c x hc, Core.isValid]
    · have hemp' : ex.isEmpty = false := by simpa using hemp
      rw [hemp'] at h
      simp only [Bool.false_eq_true, if_false] at h
      split at h
      · cases h
      · rename_i r hr
        obtain ⟨ps, ss⟩ := r
        simp only [pure, Except.pure] at h
        injection h with h; subst h
        have := buildExcl_spec c.start c.stop x ex ps ss hr
        simp only [Seq.isValid, Seq.onSeq, Seq.excluded, Bool.true_and]
        rw [this, ← core_valid_eq_codeMem f icp fcp c x hc, Core.isValid]
        cases (exclCode ex c.start c.stop x) <;> cases (c.onSeq x) <;> cases (c.inBounds x) <;> rfl


end CylcModel.IntSeq

namespace CylcModel.IntSeq
set_option linter.unusedSimpArgs false
set_option linter.unusedTactic false
set_option linter.unreachableTactic false
set_option linter.unnecessarySeqFocus false

/-- stop point (when present) is on the sequence of the start point -/
def Core.Aligned (c : Core) : Prop :=
  ∀ k e, c.step = some k → c.stop = some e → Cong k c.start e

theorem clip_aligned_oneoff {s1 icp : Int} {e1 fcp : Option Int} : (clip s1 e1 none icp fcp).Aligned := by
  intro k e hk; simp [clip] at hk

theorem clip_aligned {k s1 icp : Int} {e1 fcp : Option Int}
    (h : ∀ e, e1 = some e → Cong k s1 e) : (clip s1 e1 (some k) icp fcp).Aligned := by
  intro k' e hk he
  simp only [clip] at hk he ⊢
  injection hk with hk; subst hk
  have hs : Cong k s1 (if s1 < icp then icp + (s1 - icp) % k else s1) := by
    split
    · exact cong_ceil_align
    · exact cong_refl
  cases e1 with
  | none => simp at he
  | some e1 =>
    cases fcp with
    | none => simp at he; subst he; exact (cong_trans hs).mpr (h _ rfl)
    | some cs =>
      simp only at he
      split at he
      · injection he with he; subst he; exact cong_floor_align
      · injection he with he; subst he; exact (cong_trans hs).mpr (h _ rfl)

theorem fmt1_aligned (n : Nat) (hn : 2 ≤ n) (A B : Int) (s1 e1 k : Int)
    (h : fmt1 n A B = .ok (s1, some e1, some k)) : Cong k s1 e1 := by
  unfold fmt1 at h
  split at h
  · cases h
  · rename_i hbad
    split at h
    · cases h
    · injection h with h
      simp only [Prod.mk.injEq, Option.some.injEq] at h
      obtain ⟨rfl, rfl, rfl⟩ := h
      push Not at hbad
      obtain ⟨m, hm⟩ := Int.dvd_of_emod_eq_zero hbad.1
      have hdiv : (B - A) / ((n : Int) - 1) = m := by
        rw [hm]; exact Int.mul_ediv_cancel_left m (by omega)
      rw [hdiv]
      exact cong_iff_exists.mpr ⟨(n:Int) - 1, by linarith [mul_comm m ((n:Int)-1)]⟩

theorem build_aligned (f : Form) (icp : Int) (fcp : Option Int) (c : Core)
    (h : buildCore f.toParsed icp fcp = .ok c) : c.Aligned := by
  cases f with
  | repStartEnd n a b =>
    rcases Nat.eq_zero_or_pos n with rfl | hn
    · unfold_build h
    have hn0 : n ≠ 0 := by omega
    by_cases hn1 : n = 1
    · subst hn1
      cases a <;> cases b <;> cases fcp <;>
        simp [Form.toParsed, buildCore, bind, Except.bind, pure, Except.pure, ptOf, branch] at h <;>
        subst h <;> exact clip_aligned_oneoff
    · have hn2 : 2 ≤ n := by omega
      cases a <;> cases b <;> cases fcp <;>
        simp only [Form.toParsed, buildCore, bind, Except.bind, pure, Except.pure, ptOf, hn0,
          Option.some.injEq, if_false, Bool.or_true, Bool.true_or, Option.getD_some, reduceCtorEq,
          show ((1:Nat) == 1) = true from rfl, show ((1:Nat) == 3) = false from rfl,
          show ((1:Nat) == 4) = false from rfl, Bool.or_false, Bool.false_or, if_true] at h
      all_goals first
        | (cases h)
        | (rw [branch_fmt1 n hn2] at h
           split at h
           · cases h
           · rename_i v hv
             injection h with h; subst h
             obtain ⟨s1, e1, k1⟩ := v
             cases k1 with
             | none => exact clip_aligned_oneoff
             | some k =>
               apply clip_aligned
               intro e he; subst he
               exact fmt1_aligned n hn2 _ _ _ _ _ hv)
  | startIntv a k =>
    rcases Nat.eq_zero_or_pos k with rfl | hk
    · unfold_build h
    have hk0 : k ≠ 0 := by omega
    cases a <;> cases fcp <;>
      simp [Form.toParsed, buildCore, bind, Except.bind, pure, Except.pure, ptOf, branch, throw, throwThe, MonadExceptOf.throw, hk0] at h <;>
      subst h <;> (first
      | exact clip_aligned_oneoff
      | (apply clip_aligned; intro e he
         cases he <;> first
            | exact cong_floor_align
            | exact cong_add_mul _
            | exact cong_symm.mp cong_ceil_align
            | exact cong_symm.mp (cong_sub_mul _)
            | exact cong_refl))
  | intv k =>
    rcases Nat.eq_zero_or_pos k with rfl | hk
    · unfold_build h
    have hk0 : k ≠ 0 := by omega
    cases fcp <;>
      simp [Form.toParsed, buildCore, bind, Except.bind, pure, Except.pure, ptOf, branch, throw, throwThe, MonadExceptOf.throw, hk0] at h <;>
      subst h <;> (first
      | exact clip_aligned_oneoff
      | (apply clip_aligned; intro e he
         cases he <;> first
            | exact cong_floor_align
            | exact cong_add_mul _
            | exact cong_symm.mp cong_ceil_align
            | exact cong_symm.mp (cong_sub_mul _)
            | exact cong_refl))
  | intvEnd k b =>
    rcases Nat.eq_zero_or_pos k with rfl | hk
    · unfold_build h
    have hk0 : k ≠ 0 := by omega
    cases b <;> cases fcp <;>
      simp [Form.toParsed, buildCore, bind, Except.bind, pure, Except.pure, ptOf, branch, throw, throwThe, MonadExceptOf.throw, hk0] at h <;>
      subst h <;> (first
      | exact clip_aligned_oneoff
      | (apply clip_aligned; intro e he
         cases he <;> first
            | exact cong_floor_align
            | exact cong_add_mul _
            | exact cong_symm.mp cong_ceil_align
            | exact cong_symm.mp (cong_sub_mul _)
            | exact cong_refl))
  | r1Start a =>
    cases a <;> cases fcp <;>
      simp [Form.toParsed, buildCore, bind, Except.bind, pure, Except.pure, ptOf, branch, throw, throwThe, MonadExceptOf.throw] at h <;>
      subst h <;> (first
      | exact clip_aligned_oneoff
      | (apply clip_aligned; intro e he
         cases he <;> first
            | exact cong_floor_align
            | exact cong_add_mul _
            | exact cong_symm.mp cong_ceil_align
            | exact cong_symm.mp (cong_sub_mul _)
            | exact cong_refl))
  | repStartIntv n a k =>
    rcases Nat.eq_zero_or_pos k with rfl | hk
    · unfold_build h
    have hk0 : k ≠ 0 := by omega
    rcases Nat.eq_zero_or_pos n with rfl | hn
    · unfold_build h
    have hn0 : n ≠ 0 := by omega
    by_cases hn1 : n ≤ 1
    · cases a <;> cases fcp <;>
        simp [Form.toParsed, buildCore, bind, Except.bind, pure, Except.pure, ptOf, branch, throw, throwThe, MonadExceptOf.throw, hk0, hn0, hn1] at h <;>
        subst h <;> (first
      | exact clip_aligned_oneoff
      | (apply clip_aligned; intro e he
         cases he <;> first
            | exact cong_floor_align
            | exact cong_add_mul _
            | exact cong_symm.mp cong_ceil_align
            | exact cong_symm.mp (cong_sub_mul _)
            | exact cong_refl))
    · cases a <;> cases fcp <;>
        simp [Form.toParsed, buildCore, bind, Except.bind, pure, Except.pure, ptOf, branch, throw, throwThe, MonadExceptOf.throw, hk0, hn0, hn1] at h <;>
        subst h <;> (first
      | exact clip_aligned_oneoff
      | (apply clip_aligned; intro e he
         cases he <;> first
            | exact cong_floor_align
            | exact cong_add_mul _
            | exact cong_symm.mp cong_ceil_align
            | exact cong_symm.mp (cong_sub_mul _)
            | exact cong_refl))
  | repIntvFromIcp n k =>
    rcases Nat.eq_zero_or_pos k with rfl | hk
    · unfold_build h
    have hk0 : k ≠ 0 := by omega
    rcases Nat.eq_zero_or_pos n with rfl | hn
    · unfold_build h
    have hn0 : n ≠ 0 := by omega
    by_cases hn1 : n ≤ 1
    · cases fcp <;>
        simp [Form.toParsed, buildCore, bind, Except.bind, pure, Except.pure, ptOf, branch, throw, throwThe, MonadExceptOf.throw, hk0, hn0, hn1] at h <;>
        subst h <;> (first
      | exact clip_aligned_oneoff
      | (apply clip_aligned; intro e he
         cases he <;> first
            | exact cong_floor_align
            | exact cong_add_mul _
            | exact cong_symm.mp cong_ceil_align
            | exact cong_symm.mp (cong_sub_mul _)
            | exact cong_refl))
    · cases fcp <;>
        simp [Form.toParsed, buildCore, bind, Except.bind, pure, Except.pure, ptOf, branch, throw, throwThe, MonadExceptOf.throw, hk0, hn0, hn1] at h <;>
        subst h <;> (first
      | exact clip_aligned_oneoff
      | (apply clip_aligned; intro e he
         cases he <;> first
            | exact cong_floor_align
            | exact cong_add_mul _
            | exact cong_symm.mp cong_ceil_align
            | exact cong_symm.mp (cong_sub_mul _)
            | exact cong_refl))
  | repIntvEnd n k b =>
    rcases Nat.eq_zero_or_pos k with rfl | hk
    · unfold_build h
    have hk0 : k ≠ 0 := by omega
    rcases Nat.eq_zero_or_pos n with rfl | hn
    · unfold_build h
    have hn0 : n ≠ 0 := by omega
    by_cases hn1 : n ≤ 1
    · cases b <;> cases fcp <;>
        simp [Form.toParsed, buildCore, bind, Except.bind, pure, Except.pure, ptOf, branch, throw, throwThe, MonadExceptOf.throw, hk0, hn0, hn1] at h <;>
        subst h <;> (first
      | exact clip_aligned_oneoff
      | (apply clip_aligned; intro e he
         cases he <;> first
            | exact cong_floor_align
            | exact cong_add_mul _
            | exact cong_symm.mp cong_ceil_align
            | exact cong_symm.mp (cong_sub_mul _)
            | exact cong_refl))
    · cases b <;> cases fcp <;>
        simp [Form.toParsed, buildCore, bind, Except.bind, pure, Except.pure, ptOf, branch, throw, throwThe, MonadExceptOf.throw, hk0, hn0, hn1] at h <;>
        subst h <;> (first
      | exact clip_aligned_oneoff
      | (apply clip_aligned; intro e he
         cases he <;> first
            | exact cong_floor_align
            | exact cong_add_mul _
            | exact cong_symm.mp cong_ceil_align
            | exact cong_symm.mp (cong_sub_mul _)
            | exact cong_refl))
  | repIntv n k =>
    rcases Nat.eq_zero_or_pos k with rfl | hk
    · unfold_build h
    have hk0 : k ≠ 0 := by omega
    rcases Nat.eq_zero_or_pos n with rfl | hn
    · unfold_build h
    have hn0 : n ≠ 0 := by omega
    by_cases hn1 : n ≤ 1
    · cases fcp <;>
        simp [Form.toParsed, buildCore, bind, Except.bind, pure, Except.pure, ptOf, branch, throw, throwThe, MonadExceptOf.throw, hk0, hn0, hn1] at h <;>
        subst h <;> (first
      | exact clip_aligned_oneoff
      | (apply clip_aligned; intro e he
         cases he <;> first
            | exact cong_floor_align
            | exact cong_add_mul _
            | exact cong_symm.mp cong_ceil_align
            | exact cong_symm.mp (cong_sub_mul _)
            | exact cong_refl))
    · cases fcp <;>
        simp [Form.toParsed, buildCore, bind, Except.bind, pure, Except.pure, ptOf, branch, throw, throwThe, MonadExceptOf.throw, hk0, hn0, hn1] at h <;>
        subst h <;> (first
      | exact clip_aligned_oneoff
      | (apply clip_aligned; intro e he
         cases he <;> first
            | exact cong_floor_align
            | exact cong_add_mul _
            | exact cong_symm.mp cong_ceil_align
            | exact cong_symm.mp (cong_sub_mul _)
            | exact cong_refl))
  | r1  =>
    cases fcp <;>
      simp [Form.toParsed, buildCore, bind, Except.bind, pure, Except.pure, ptOf, branch, throw, throwThe, MonadExceptOf.throw] at h <;>
      subst h <;> (first
      | exact clip_aligned_oneoff
      | (apply clip_aligned; intro e he
         cases he <;> first
            | exact cong_floor_align
            | exact cong_add_mul _
            | exact cong_symm.mp cong_ceil_align
            | exact cong_symm.mp (cong_sub_mul _)
            | exact cong_refl))
  | r1End b =>
    cases b <;> cases fcp <;>
      simp [Form.toParsed, buildCore, bind, Except.bind, pure, Except.pure, ptOf, branch, throw, throwThe, MonadExceptOf.throw] at h <;>
      subst h <;> (first
      | exact clip_aligned_oneoff
      | (apply clip_aligned; intro e he
         cases he <;> first
            | exact cong_floor_align
            | exact cong_add_mul _
            | exact cong_symm.mp cong_ceil_align
            | exact cong_symm.mp (cong_sub_mul _)
            | exact cong_refl))


end CylcModel.IntSeq

namespace CylcModel.IntSeq
set_option linter.unusedSimpArgs false
set_option linter.unusedTactic false
set_option linter.unreachableTactic false
set_option linter.unnecessarySeqFocus false
set_option linter.unusedVariables false

/-- two congruent points strictly less than one step apart are equal -/
theorem cong_close {k a y z : Int} (hk : 0 < k) (hy : Cong k a y) (hz : Cong k a z)
    (h1 : y ≤ z) (h2 : z < y + k) : y = z := by
  obtain ⟨m, rfl⟩ := cong_iff_exists.mp hy
  obtain ⟨m', rfl⟩ := cong_iff_exists.mp hz
  have h3 : k * m ≤ k * m' := by linarith
  have h4 : k * m' < k * (m + 1) := by linarith
  have := (mul_le_iff hk).mp h3
  have : m' < m + 1 := by
    by_contra hc
    have : m + 1 ≤ m' := by omega
    have := (mul_le_iff hk).mpr this
    linarith
  have : m = m' := by omega
  rw [this]

theorem seq_valid_noexcl (s : Seq) (h : s.hasExcl = false) (x : Int) : s.isValid x = s.core.isValid x := by
  simp [Seq.isValid, Seq.onSeq, Seq.excluded, h, Core.isValid]

theorem core_valid_stepped {c : Core} {k : Int} (hs : c.step = some k) (x : Int) :
    c.isValid x = true ↔ Cong k c.start x ∧ c.start ≤ x ∧ ∀ e, c.stop = some e → x ≤ e := by
  rw [isValid_iff, onSeq_stepped hs]

/-- `get_next_point` on an exclusion-free stepped sequence, for `p ≥ start - step`:
the least valid point greater than `p`, or `None` when there is none. -/
theorem next_spec_core (s : Seq) (k : Int) (hx : s.hasExcl = false) (hs : s.core.step = some k) (hk : 0 < k)
    (fuel : Nat) (p : Int) (hp : s.core.start - k ≤ p) :
    ∃ r, s.nextPoint (fuel + 1) p = some r ∧
      (match r with
       | some q => s.isValid q = true ∧ p < q ∧ ∀ y, p < y → y < q → s.isValid y = false
       | none => ∀ y, p < y → s.isValid y = false) := by
  have hexc : ∀ r, s.excluded r = false := by intro r; simp [Seq.excluded, hx]
  have hi0 := Int.emod_nonneg (p - s.core.start) (show k ≠ 0 by omega)
  have hik := Int.emod_lt_of_pos (p - s.core.start) hk
  set i := (p - s.core.start) % k with hi
  have hnx : Cong k s.core.start (p + k - i) := by
    have h1 : Cong k s.core.start (p - i) := by
      have := cong_floor_align (k := k) (a := s.core.start) (c := p)
      simpa [hi] using this
    obtain ⟨m, hm⟩ := cong_iff_exists.mp h1
    exact cong_iff_exists.mpr ⟨m + 1, by linarith⟩
  -- minimality of nx among congruent points > p
  have hmin : ∀ y, p < y → Cong k s.core.start y → p + k - i ≤ y := by
    intro y hy hcy
    by_contra hc
    have hlt : y < p + k - i := by omega
    -- y and nx congruent, y < nx < y + k
    have := cong_close hk hcy hnx (by omega) (by omega)
    omega
  simp only [Seq.nextPoint, hs]
  cases hb : s.core.boundsOpt (p + k - i) with
  | none =>
    refine ⟨none, by simp [hb, ← hi], ?_⟩
    intro y hy
    rw [seq_valid_noexcl s hx]
    by_contra hv
    have hv : s.core.isValid y = true := by simpa using hv
    obtain ⟨hcy, hlo, hhi⟩ := (core_valid_stepped hs y).mp hv
    have hge := hmin y hy hcy
    -- nx out of bounds
    unfold Core.boundsOpt at hb
    split at hb
    · cases hb
    · rename_i hnb
      have : ¬ (s.core.start ≤ p + k - i ∧ ∀ e, s.core.stop = some e → p + k - i ≤ e) := by
        rw [← inBounds_iff]; simpa using hnb
      apply this
      refine ⟨?_, ?_⟩
      · -- nx ≥ start since nx > start - k and congruent
        by_contra hc
        have := cong_close hk hnx cong_refl (by omega) (by omega)
        omega
      · intro e he; have := hhi e he; omega
  | some r =>
    have hr : r = p + k - i := by
      unfold Core.boundsOpt at hb; split at hb <;> simp at hb; omega
    have hin : s.core.inBounds r = true := by
      unfold Core.boundsOpt at hb; split at hb <;> simp at hb
      rename_i h; rw [← hb]; exact h
    refine ⟨some r, by simp [hb, ← hi, hexc], ?_⟩
    subst hr
    refine ⟨?_, by omega, ?_⟩
    · rw [seq_valid_noexcl s hx, Core.isValid, hin, (onSeq_stepped hs _).mpr hnx]; rfl
    · intro y hy hy2
      rw [seq_valid_noexcl s hx]
      by_contra hv
      have hv : s.core.isValid y = true := by simpa using hv
      obtain ⟨hcy, -, -⟩ := (core_valid_stepped hs y).mp hv
      have := hmin y hy hcy
      omega


/-- `get_prev_point` on an exclusion-free stepped sequence, for `p ≤ stop + step`:
the greatest valid point less than `p`, or `None`. -/
theorem prev_spec_core (s : Seq) (k : Int) (hx : s.hasExcl = false) (hs : s.core.step = some k) (hk : 0 < k)
    (hal : s.core.Aligned) (fuel : Nat) (p : Int) (hp : ∀ e, s.core.stop = some e → p ≤ e + k) :
    ∃ r, s.prevPoint (fuel + 1) p = some r ∧
      (match r with
       | some q => s.isValid q = true ∧ q < p ∧ ∀ y, q < y → y < p → s.isValid y = false
       | none => ∀ y, y < p → s.isValid y = false) := by
  have hexc : ∀ r, s.excluded r = false := by intro r; simp [Seq.excluded, hx]
  have hi0 := Int.emod_nonneg (p - s.core.start) (show k ≠ 0 by omega)
  have hik := Int.emod_lt_of_pos (p - s.core.start) hk
  set i := (p - s.core.start) % k with hi
  have h1 : Cong k s.core.start (p - i) := by
    have := cong_floor_align (k := k) (a := s.core.start) (c := p)
    simpa [hi] using this
  set pv := (if i ≠ 0 then p - i else p - k) with hpv
  have hcpv : Cong k s.core.start pv := by
    rw [hpv]; split
    · exact h1
    · rename_i h0
      have h0 : i = 0 := by omega
      obtain ⟨m, hm⟩ := cong_iff_exists.mp h1
      exact cong_iff_exists.mpr ⟨m - 1, by rw [h0] at hm; linarith⟩
  have hpvlt : pv < p ∧ p - k ≤ pv := by
    rw [hpv]; split <;> omega
  have hmax : ∀ y, y < p → Cong k s.core.start y → y ≤ pv := by
    intro y hy hcy
    by_contra hc
    have := cong_close hk hcpv hcy (by omega) (by omega)
    omega
  simp only [Seq.prevPoint, hs]
  cases hb : s.core.boundsOpt pv with
  | none =>
    refine ⟨none, by simp [← hi, ← hpv, hb], ?_⟩
    intro y hy
    rw [seq_valid_noexcl s hx]
    by_contra hv
    have hv : s.core.isValid y = true := by simpa using hv
    obtain ⟨hcy, hlo, hhi⟩ := (core_valid_stepped hs y).mp hv
    have hle := hmax y hy hcy
    unfold Core.boundsOpt at hb
    split at hb
    · cases hb
    · rename_i hnb
      have : ¬ (s.core.start ≤ pv ∧ ∀ e, s.core.stop = some e → pv ≤ e) := by
        rw [← inBounds_iff]; simpa using hnb
      apply this
      refine ⟨by omega, ?_⟩
      intro e he
      -- pv > e would force pv ≥ e + k > p - ... contradiction with the domain
      by_contra hc
      have hce : Cong k s.core.start e := hal k e hs he
      have hpe := hp e he
      have := cong_close hk hce hcpv (by omega) (by omega)
      omega
  | some r =>
    have hr : r = pv := by
      unfold Core.boundsOpt at hb; split at hb <;> simp at hb; omega
    have hin : s.core.inBounds r = true := by
      unfold Core.boundsOpt at hb; split at hb <;> simp at hb
      rename_i h; rw [← hb]; exact h
    refine ⟨some r, by simp [← hi, ← hpv, hb, hexc], ?_⟩
    subst hr
    refine ⟨?_, by omega, ?_⟩
    · rw [seq_valid_noexcl s hx, Core.isValid, hin, (onSeq_stepped hs _).mpr hcpv]; rfl
    · intro y hy hy2
      rw [seq_valid_noexcl s hx]
      by_contra hv
      have hv : s.core.isValid y = true := by simpa using hv
      obtain ⟨hcy, -, -⟩ := (core_valid_stepped hs y).mp hv
      have := hmax y hy2 hcy
      omega

/-- `get_first_point` on an exclusion-free stepped sequence, any `p`:
the least valid point `≥ p`, or `None`. -/
theorem first_spec_core (s : Seq) (k : Int) (hx : s.hasExcl = false) (hs : s.core.step = some k) (hk : 0 < k)
    (fuel : Nat) (p : Int) :
    ∃ r, s.firstPoint (fuel + 1) p = some r ∧
      (match r with
       | some q => s.isValid q = true ∧ p ≤ q ∧ ∀ y, p ≤ y → y < q → s.isValid y = false
       | none => ∀ y, p ≤ y → s.isValid y = false) := by
  have hexc : ∀ r, s.excluded r = false := by intro r; simp [Seq.excluded, hx]
  have hvalid_ge : ∀ y, s.isValid y = true → s.core.start ≤ y := by
    intro y hv; rw [seq_valid_noexcl s hx] at hv
    exact ((core_valid_stepped hs y).mp hv).2.1
  unfold Seq.firstPoint
  by_cases h1 : p ≤ s.core.start
  · simp only [h1, if_true]
    cases hb : s.core.boundsOpt s.core.start with
    | none =>
      refine ⟨none, rfl, ?_⟩
      intro y hy
      by_contra hv
      have hv : s.isValid y = true := by simpa using hv
      have hv' := hv; rw [seq_valid_noexcl s hx] at hv'
      obtain ⟨-, hlo, hhi⟩ := (core_valid_stepped hs y).mp hv'
      unfold Core.boundsOpt at hb
      split at hb
      · cases hb
      · rename_i hnb
        have : ¬ (s.core.start ≤ s.core.start ∧ ∀ e, s.core.stop = some e → s.core.start ≤ e) := by
          rw [← inBounds_iff]; simpa using hnb
        apply this
        exact ⟨le_refl _, fun e he => by have := hhi e he; omega⟩
    | some r =>
      have hr : r = s.core.start := by
        unfold Core.boundsOpt at hb; split at hb <;> simp at hb; omega
      have hin : s.core.inBounds r = true := by
        unfold Core.boundsOpt at hb; split at hb <;> simp at hb
        rename_i h; rw [← hb]; exact h
      refine ⟨some r, by simp [hexc], ?_⟩
      subst hr
      refine ⟨?_, h1, ?_⟩
      · rw [seq_valid_noexcl s hx, Core.isValid, hin, (onSeq_stepped hs _).mpr cong_refl]; rfl
      · intro y _ hy2
        by_contra hv
        have hv : s.isValid y = true := by simpa using hv
        have := hvalid_ge y hv
        omega
  · simp only [h1, if_false]
    by_cases h2 : s.onSeq p = true
    · simp only [h2, if_true]
      have hcp : Cong k s.core.start p := by
        have : s.core.onSeq p = true := by
          simp [Seq.onSeq, hexc] at h2; exact h2
        exact (onSeq_stepped hs p).mp this
      cases hb : s.core.boundsOpt p with
      | none =>
        refine ⟨none, rfl, ?_⟩
        intro y hy
        by_contra hv
        have hv : s.isValid y = true := by simpa using hv
        rw [seq_valid_noexcl s hx] at hv
        obtain ⟨-, hlo, hhi⟩ := (core_valid_stepped hs y).mp hv
        unfold Core.boundsOpt at hb
        split at hb
        · cases hb
        · rename_i hnb
          have : ¬ (s.core.start ≤ p ∧ ∀ e, s.core.stop = some e → p ≤ e) := by
            rw [← inBounds_iff]; simpa using hnb
          apply this
          exact ⟨by omega, fun e he => by have := hhi e he; omega⟩
      | some r =>
        have hr : r = p := by
          unfold Core.boundsOpt at hb; split at hb <;> simp at hb; omega
        have hin : s.core.inBounds r = true := by
          unfold Core.boundsOpt at hb; split at hb <;> simp at hb
          rename_i h; rw [← hb]; exact h
        refine ⟨some r, by simp [hexc], ?_⟩
        subst hr
        refine ⟨?_, le_refl _, ?_⟩
        · rw [seq_valid_noexcl s hx, Core.isValid, hin, (onSeq_stepped hs _).mpr hcp]; rfl
        · intro y h3 h4; omega
    · simp only [h2, if_false]
      obtain ⟨r, hr, hspec⟩ := next_spec_core s k hx hs hk fuel p (by omega)
      have hnp : s.isValid p = false := by
        simp [Seq.isValid, h2]
      rw [hr]
      cases r with
      | none =>
        refine ⟨none, rfl, ?_⟩
        intro y hy
        rcases Int.lt_or_eq_of_le hy with h | h
        · exact hspec y h
        · rw [← h]; exact hnp
      | some q =>
        refine ⟨some q, by simp [hexc], ?_⟩
        obtain ⟨hv, hlt, hmin⟩ := hspec
        refine ⟨hv, by omega, ?_⟩
        intro y h3 h4
        rcases Int.lt_or_eq_of_le h3 with h | h
        · exact hmin y h h4
        · rw [← h]; exact hnp

/-- start and stop points of an exclusion-free stepped non-empty sequence are its least and greatest members -/
theorem start_stop_spec_core (s : Seq) (k : Int) (hx : s.hasExcl = false) (hs : s.core.step = some k) (hk : 0 < k)
    (hal : s.core.Aligned) (fuel : Nat) (hne : ∃ y, s.isValid y = true) :
    s.startPoint fuel = some (some s.core.start) ∧ s.isValid s.core.start = true ∧
      (∀ y, s.isValid y = true → s.core.start ≤ y) ∧
      s.stopPoint fuel = some s.core.stop ∧
      (∀ e, s.core.stop = some e → s.isValid e = true ∧ ∀ y, s.isValid y = true → y ≤ e) := by
  have hexc : ∀ r, s.excluded r = false := by intro r; simp [Seq.excluded, hx]
  obtain ⟨y0, hy0⟩ := hne
  have hy0' := hy0; rw [seq_valid_noexcl s hx] at hy0'
  obtain ⟨hc0, hlo0, hhi0⟩ := (core_valid_stepped hs y0).mp hy0'
  refine ⟨by simp [Seq.startPoint, hexc], ?_, ?_, ?_, ?_⟩
  · rw [seq_valid_noexcl s hx]
    exact (core_valid_stepped hs _).mpr ⟨cong_refl, le_refl _, fun e he => by have := hhi0 e he; omega⟩
  · intro y hv; rw [seq_valid_noexcl s hx] at hv
    exact ((core_valid_stepped hs y).mp hv).2.1
  · cases h : s.core.stop <;> simp [Seq.stopPoint, h, hexc]
  · intro e he
    refine ⟨?_, ?_⟩
    · rw [seq_valid_noexcl s hx]
      exact (core_valid_stepped hs _).mpr ⟨hal k e hs he, by have := hhi0 e he; omega, fun e' he' => by rw [he] at he'; cases he'; exact le_refl _⟩
    · intro y hv; rw [seq_valid_noexcl s hx] at hv
      exact ((core_valid_stepped hs y).mp hv).2.2 e he


theorem fmt1_step_pos (n : Nat) (hn : 2 ≤ n) (A B : Int) (s1 : Int) (e1 : Option Int) (k : Int)
    (h : fmt1 n A B = .ok (s1, e1, some k)) : 0 < k := by
  unfold fmt1 at h
  split at h
  · cases h
  · rename_i hbad
    split at h
    · cases h
    · rename_i hz
      injection h with h
      simp only [Prod.mk.injEq, Option.some.injEq] at h
      obtain ⟨rfl, rfl, rfl⟩ := h
      push Not at hbad
      obtain ⟨m, hm⟩ := Int.dvd_of_emod_eq_zero hbad.1
      have hdiv : (B - A) / ((n : Int) - 1) = m := by
        rw [hm]; exact Int.mul_ediv_cancel_left m (by omega)
      rw [hdiv]
      by_contra hc
      have : ((n : Int) - 1) * m ≤ 0 := Int.mul_nonpos_of_nonneg_of_nonpos (by omega) (by omega)
      omega

/-- the interval of a built sequence is positive -/
theorem build_step_pos (f : Form) (icp : Int) (fcp : Option Int) (c : Core)
    (h : buildCore f.toParsed icp fcp = .ok c) : ∀ k, c.step = some k → 0 < k := by
  cases f with
  | repStartEnd n a b =>
    rcases Nat.eq_zero_or_pos n with rfl | hn
    · unfold_build h
    have hn0 : n ≠ 0 := by omega
    by_cases hn1 : n = 1
    · subst hn1
      cases a <;> cases b <;> cases fcp <;>
        simp [Form.toParsed, buildCore, bind, Except.bind, pure, Except.pure, ptOf, branch] at h <;>
        subst h <;> (intro k' hk'; simp [clip] at hk')
    · have hn2 : 2 ≤ n := by omega
      cases a <;> cases b <;> cases fcp <;>
        simp only [Form.toParsed, buildCore, bind, Except.bind, pure, Except.pure, ptOf, hn0,
          Option.some.injEq, if_false, Bool.or_true, Bool.true_or, Option.getD_some, reduceCtorEq,
          show ((1:Nat) == 1) = true from rfl, show ((1:Nat) == 3) = false from rfl,
          show ((1:Nat) == 4) = false from rfl, Bool.or_false, Bool.false_or, if_true] at h
      all_goals first
        | (cases h)
        | (rw [branch_fmt1 n hn2] at h
           split at h
           · cases h
           · rename_i v hv
             injection h with h; subst h
             obtain ⟨s1, e1, k1⟩ := v
             intro k' hk'
             cases k1 with
             | none => simp [clip] at hk'
             | some k =>
               simp [clip] at hk'; subst hk'
               exact fmt1_step_pos n hn2 _ _ _ _ _ hv)
  | startIntv a k =>
    rcases Nat.eq_zero_or_pos k with rfl | hk
    · unfold_build h
    have hk0 : k ≠ 0 := by omega
    cases a <;> cases fcp <;>
      simp [Form.toParsed, buildCore, bind, Except.bind, pure, Except.pure, ptOf, branch, throw, throwThe, MonadExceptOf.throw, hk0] at h <;>
      subst h <;> (intro k' hk'; simp [clip] at hk' <;> omega)
  | intv k =>
    rcases Nat.eq_zero_or_pos k with rfl | hk
    · unfold_build h
    have hk0 : k ≠ 0 := by omega
    cases fcp <;>
      simp [Form.toParsed, buildCore, bind, Except.bind, pure, Except.pure, ptOf, branch, throw, throwThe, MonadExceptOf.throw, hk0] at h <;>
      subst h <;> (intro k' hk'; simp [clip] at hk' <;> omega)
  | intvEnd k b =>
    rcases Nat.eq_zero_or_pos k with rfl | hk
    · unfold_build h
    have hk0 : k ≠ 0 := by omega
    cases b <;> cases fcp <;>
      simp [Form.toParsed, buildCore, bind, Except.bind, pure, Except.pure, ptOf, branch, throw, throwThe, MonadExceptOf.throw, hk0] at h <;>
      subst h <;> (intro k' hk'; simp [clip] at hk' <;> omega)
  | r1Start a =>
    cases a <;> cases fcp <;>
      simp [Form.toParsed, buildCore, bind, Except.bind, pure, Except.pure, ptOf, branch, throw, throwThe, MonadExceptOf.throw] at h <;>
      subst h <;> (intro k' hk'; simp [clip] at hk' <;> omega)
  | repStartIntv n a k =>
    rcases Nat.eq_zero_or_pos k with rfl | hk
    · unfold_build h
    have hk0 : k ≠ 0 := by omega
    rcases Nat.eq_zero_or_pos n with rfl | hn
    · unfold_build h
    have hn0 : n ≠ 0 := by omega
    by_cases hn1 : n ≤ 1
    · cases a <;> cases fcp <;>
        simp [Form.toParsed, buildCore, bind, Except.bind, pure, Except.pure, ptOf, branch, throw, throwThe, MonadExceptOf.throw, hk0, hn0, hn1] at h <;>
        subst h <;> (intro k' hk'; simp [clip] at hk' <;> omega)
    · cases a <;> cases fcp <;>
        simp [Form.toParsed, buildCore, bind, Except.bind, pure, Except.pure, ptOf, branch, throw, throwThe, MonadExceptOf.throw, hk0, hn0, hn1] at h <;>
        subst h <;> (intro k' hk'; simp [clip] at hk' <;> omega)
  | repIntvFromIcp n k =>
    rcases Nat.eq_zero_or_pos k with rfl | hk
    · unfold_build h
    have hk0 : k ≠ 0 := by omega
    rcases Nat.eq_zero_or_pos n with rfl | hn
    · unfold_build h
    have hn0 : n ≠ 0 := by omega
    by_cases hn1 : n ≤ 1
    · cases fcp <;>
        simp [Form.toParsed, buildCore, bind, Except.bind, pure, Except.pure, ptOf, branch, throw, throwThe, MonadExceptOf.throw, hk0, hn0, hn1] at h <;>
        subst h <;> (intro k' hk'; simp [clip] at hk' <;> omega)
    · cases fcp <;>
        simp [Form.toParsed, buildCore, bind, Except.bind, pure, Except.pure, ptOf, branch, throw, throwThe, MonadExceptOf.throw, hk0, hn0, hn1] at h <;>
        subst h <;> (intro k' hk'; simp [clip] at hk' <;> omega)
  | repIntvEnd n k b =>
    rcases Nat.eq_zero_or_pos k with rfl | hk
    · unfold_build h
    have hk0 : k ≠ 0 := by omega
    rcases Nat.eq_zero_or_pos n with rfl | hn
    · unfold_build h
    have hn0 : n ≠ 0 := by omega
    by_cases hn1 : n ≤ 1
    · cases b <;> cases fcp <;>
        simp [Form.toParsed, buildCore, bind, Except.bind, pure, Except.pure, ptOf, branch, throw, throwThe, MonadExceptOf.throw, hk0, hn0, hn1] at h <;>
        subst h <;> (intro k' hk'; simp [clip] at hk' <;> omega)
    · cases b <;> cases fcp <;>
        simp [Form.toParsed, buildCore, bind, Except.bind, pure, Except.pure, ptOf, branch, throw, throwThe, MonadExceptOf.throw, hk0, hn0, hn1] at h <;>
        subst h <;> (intro k' hk'; simp [clip] at hk' <;> omega)
  | repIntv n k =>
    rcases Nat.eq_zero_or_pos k with rfl | hk
    · unfold_build h
    have hk0 : k ≠ 0 := by omega
    rcases Nat.eq_zero_or_pos n with rfl | hn
    · unfold_build h
    have hn0 : n ≠ 0 := by omega
    by_cases hn1 : n ≤ 1
    · cases fcp <;>
        simp [Form.toParsed, buildCore, bind, Except.bind, pure, Except.pure, ptOf, branch, throw, throwThe, MonadExceptOf.throw, hk0, hn0, hn1] at h <;>
        subst h <;> (intro k' hk'; simp [clip] at hk' <;> omega)
    · cases fcp <;>
        simp [Form.toParsed, buildCore, bind, Except.bind, pure, Except.pure, ptOf, branch, throw, throwThe, MonadExceptOf.throw, hk0, hn0, hn1] at h <;>
        subst h <;> (intro k' hk'; simp [clip] at hk' <;> omega)
  | r1  =>
    cases fcp <;>
      simp [Form.toParsed, buildCore, bind, Except.bind, pure, Except.pure, ptOf, branch, throw, throwThe, MonadExceptOf.throw] at h <;>
      subst h <;> (intro k' hk'; simp [clip] at hk' <;> omega)
  | r1End b =>
    cases b <;> cases fcp <;>
      simp [Form.toParsed, buildCore, bind, Except.bind, pure, Except.pure, ptOf, branch, throw, throwThe, MonadExceptOf.throw] at h <;>
      subst h <;> (intro k' hk'; simp [clip] at hk' <;> omega)

end CylcModel.IntSeq
