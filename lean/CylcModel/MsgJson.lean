/-
JSON decoding of cases whose op list may contain poll results (`Msg.XOp`), shared by the drivers
of C09 and C10.  Everything else (graph, observations) is `SchedJson`.

  op : <Sched op> | {"op":"pollres","task":"p/name","state":text,"sn":n}   (result of a jobs-poll command for job sn:
       state = submitted | started | succeeded | failed | submission failed | a message text of the job status file)

Message texts: the job-submission failure event is the text "submission failed" in cylc-flow
(`TaskEventsManager.EVENT_SUBMIT_FAILED`), which the `Sched` model spells "submit-failed" (the name of
the output it completes); the literal text "submit-failed" is an ordinary unhandled message in cylc-flow.
A failure with a run signal ("failed/ERR", "failed/SIGTERM", "aborted/<reason>") is the message "failed" of the
model (`Msg.canon`, the model of `split_run_signal`).
-/
import CylcModel.SchedJson
import CylcModel.Msg
open Lean CylcModel.Drv CylcModel.Sched

namespace CylcModel.Msg

def mapText (t : String) : String :=
  if t == "submission failed" then "submit-failed"
  else if t == "submit-failed" then "submit-failed (text)"
  else canon t

def parseXOp (j : Json) : Except String XOp := do
  match jStrField? j "op" with
  | some "pollres" =>
    let (p, n) ← parseTaskId (← req (jStrField? j "task") "task")
    return .poll p n (← req (jNatField? j "sn") "sn") (mapText (pollMessage (← req (jStrField? j "state") "state")))
  | some "msg" =>
    let (p, n) ← parseTaskId (← req (jStrField? j "task") "task")
    return .base (.msg p n (← req (jNatField? j "sn") "sn") (mapText (← req (jStrField? j "msg") "msg")))
  | _ => return .base (← parseOp j)

structure XCase where
  graph : Graph
  ops : List XOp

def parseXCase (i : Json) : Except String XCase := do
  let g ← parseGraph (← req (jField? i "graph") "graph")
  let ops ← ((jArrField? i "ops").getD []).mapM parseXOp
  return { graph := g, ops }

def modelObsX (c : XCase) : Json := jOfList (obsJson c.graph) (runX c.graph c.ops)

/-! ### helpers for the judges (reading the implementation's observations) -/

def strList (j : Json) (k : String) : List String := ((jArrField? j k).getD []).filterMap jStr?

/-- lifecycle statuses by name -/
def statusOf? : String → Option Status
  | "waiting" => some .waiting | "expired" => some .expired | "preparing" => some .preparing
  | "submit-failed" => some .submitFailed | "submitted" => some .submitted | "running" => some .running
  | "failed" => some .failed | "succeeded" => some .succeeded
  | _ => none

end CylcModel.Msg

namespace CylcModel.Msg
open Lean CylcModel.Drv CylcModel.Sched

/-! ### the implementation's message / transition log (observation keys `msgs`, `trans`) -/

/-- status, submit number, completed output triggers, [submission try, execution try] -/
structure Snap where
  st : String
  sn : Nat
  out : List String
  tries : List Nat
  deriving Repr, BEq

/-- one `process_message` call of the real scheduler -/
structure Rec where
  p : Int
  n : String
  fl : String          -- internal | received | polled
  sn : Nat             -- submit number carried by the message
  m : String
  d : Nat              -- nesting depth (implied outputs are nested calls)
  tr : Bool            -- transient object
  forced : Bool
  inPool : Bool
  b : Snap
  a : Snap
  r : Bool             -- return value: poll requested
  deriving Repr

/-- one status change of the real scheduler -/
structure Tr where
  p : Int
  n : String
  old : String
  new : String
  sn : Nat
  top : Int            -- index (in `msgs` of the same op) of the enclosing top-level message, -1 = none
  tr : Bool
  inPool : Bool        -- the object is the pool's proxy for its identity (false: under construction / removed)
  deriving Repr

def parseSnap (j : Json) : Option Snap :=
  match jArr? j with
  | some [st, sn, out, tries] => do
    let st ← jStr? st
    let sn ← jNat? sn
    let out := ((jArr? out).getD []).filterMap jStr?
    let tries := ((jArr? tries).getD []).filterMap jNat?
    pure { st, sn, out, tries }
  | _ => none

def parseRec (j : Json) : Option Rec := do
  let p ← jIntField? j "p"
  let n ← jStrField? j "n"
  let fl ← jStrField? j "fl"
  let sn ← jNatField? j "sn"
  let m ← jStrField? j "m"
  let d ← jNatField? j "d"
  let tr ← jBoolField? j "tr"
  let forced ← jBoolField? j "forced"
  let inPool ← jBoolField? j "in"
  let b ← (jField? j "b").bind parseSnap
  let a ← (jField? j "a").bind parseSnap
  let r ← jBoolField? j "r"
  pure { p, n, fl, sn, m, d, tr, forced, inPool, b, a, r }

def parseTr (j : Json) : Option Tr :=
  match jArr? j with
  | some [p, n, old, new, sn, top, tr, ip] => do
    pure { p := ← jInt? p, n := ← jStr? n, old := ← jStr? old, new := ← jStr? new, sn := ← jNat? sn,
           top := ← jInt? top, tr := ← jBool? tr, inPool := ← jBool? ip }
  | _ => none

/-- all-or-nothing decoding of a list -/
def parseAll {α} (f : Json → Option α) (l : List Json) : Option (List α) := l.mapM f

/-- `msgs` of one observation (`none`: key missing or malformed) -/
def recsOf (ob : Json) : Option (List Rec) := (jArrField? ob "msgs").bind (parseAll parseRec)

def transOf (ob : Json) : Option (List Tr) := (jArrField? ob "trans").bind (parseAll parseTr)

/-- pooled proxy of an observation as (point, name, status, submit number, completed triggers) -/
structure PObs where
  p : Int
  n : String
  st : String
  sn : Nat
  out : List String
  deriving Repr

def pobsOf (t : Json) : Option PObs := do
  pure { p := ← jIntField? t "p", n := ← jStrField? t "n", st := ← jStrField? t "st", sn := ← jNatField? t "sn",
         out := strList t "out" }

def poolObs (ob : Json) : Option (List PObs) := (jArrField? ob "pool").bind (parseAll pobsOf)

/-- per-task static data the judges need, read from the case's instance graph -/
structure TInfo where
  name : String
  execRetries : Nat
  subRetries : Nat
  outputs : List (String × String)      -- (trigger, message)
  deriving Repr

def tinfos (graph : Json) : List TInfo :=
  (objPairs ((jField? graph "tasks").getD Json.null)).map fun (name, tj) =>
    { name, execRetries := (jNatField? tj "exec_retries").getD 0, subRetries := (jNatField? tj "sub_retries").getD 0,
      outputs := ((jArrField? tj "outputs").getD []).filterMap fun o =>
        match jArr? o with
        | some (t :: m :: _) => do pure (← jStr? t, ← jStr? m)
        | _ => none }

def tinfo? (ts : List TInfo) (n : String) : Option TInfo := ts.find? (·.name == n)

def subset (a b : List String) : Bool := a.all b.contains

/-- the lifecycle of the property text, read as an order: a status may only move forward along
waiting → preparing → submitted → running → succeeded | failed, with submit-failed reachable from
preparing/submitted only and expired from waiting only (skipping stages forward is allowed once a job
exists: "started before submitted" is one of the event orders the property quantifies over).  A waiting
task has no job: it leaves waiting only by job preparation or expiry — in particular a task waiting for
its automatic retry is not moved by messages or poll results of the job that failed. -/
def fwdS (a b : String) : Bool :=
  a == b ||
  (match a with
   | "waiting" => ["preparing", "expired"].contains b
   | "preparing" => ["submitted", "running", "succeeded", "failed", "submit-failed"].contains b
   | "submitted" => ["running", "succeeded", "failed", "submit-failed"].contains b
   | "running" => ["succeeded", "failed"].contains b
   | _ => false)

/-- position of a status in the lifecycle (for "would move the status backwards") -/
def phaseS : String → Nat
  | "waiting" => 0 | "preparing" => 1 | "submitted" => 2 | "submit-failed" => 2 | "running" => 3
  | "succeeded" => 4 | "failed" => 4 | _ => 0

/-- judge side: a job reports a failure as `failed`, `failed/<SIGNAL>` (error / signal trap) or
`aborted/<reason>`; all of them announce the status failed (written from the job-script protocol, not
by calling the model's `canon`) -/
def isFailMsg (m : String) : Bool :=
  m == "failed" || m.startsWith "failed/" || m.startsWith "aborted/"

/-- judge side: what a jobs-poll result must be reported as (the translation of `_poll_task_job_callback`):
still in the job runner and never ran → submitted; running → started; exited 0 → succeeded; error trap →
failed; killed by a signal → failed/<SIGNAL>; started, gone from the job runner, no exit record (died
without its trap) → failed; never ran and gone → submission failed; other entries are message lines -/
def pollExpected (state : String) : String := if state == "killed" then "failed" else state

/-- the message with a failure signal dropped -/
def baseMsg (m : String) : String := if isFailMsg m then "failed" else m

/-- the status a job message announces -/
def msgStatus? (m : String) : Option String :=
  match baseMsg m with
  | "submitted" => some "submitted" | "started" => some "running" | "succeeded" => some "succeeded"
  | "failed" => some "failed" | "submission failed" => some "submit-failed" | _ => none

/-- first failure that is not attributed to a recorded finding, else the first failure
(failures are `why` strings; a finding is recognised by its `<key>:` prefix) -/
def pickFailure (keys : List String) (fs : List String) : Option String :=
  match fs.find? (fun w => !keys.any fun k => w.startsWith (k ++ ":")) with
  | some w => some w
  | none => fs.head?

end CylcModel.Msg
