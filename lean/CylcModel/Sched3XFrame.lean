/-
Frame lemmas for `cylc set` in the `Sched3Set` model: what the command cannot touch — job launches, polls, the
message queue, stop / pause / stall state, runahead and hold / stop points, the task_pool table.
-/
import CylcModel.Sched3XSet

namespace CylcModel.Sched3X

/-- the part of the state that `cylc set` cannot touch -/
structure Frame where
  launched : List (Int × String × Nat)
  polls : List (Int × String)
  queue : List Msg
  stop : Option String
  stopMode : Option String
  paused : Bool
  stalled : Bool
  schedUpd : Bool
  rhLimit : Option Int
  holdPoint : Option Int
  stopPoint : Option Int
  stopTask : Option (Int × String)
  restartWait : Bool

def frame (s : State) : Frame :=
  { launched := s.launched, polls := s.polls, queue := s.queue, stop := s.stop, stopMode := s.stopMode,
    paused := s.paused, stalled := s.stalled, schedUpd := s.schedUpd, rhLimit := s.rhLimit,
    holdPoint := s.holdPoint, stopPoint := s.stopPoint, stopTask := s.stopTask, restartWait := s.restartWait }

@[simp] theorem frame_put (s : State) (x : Proxy) : frame (s.put x) = frame s := rfl
@[simp] theorem frame_add (s : State) (x : Proxy) : frame (s.add x) = frame s := by unfold State.add; split <;> rfl
@[simp] theorem frame_dbInsert (s : State) (x : Proxy) : frame (dbInsert s x) = frame s := rfl
@[simp] theorem frame_dbQueue (s : State) (k : UpdKind) (x : Proxy) (o : List (String × Bool)) :
    frame (dbQueue s k x o) = frame s := rfl
@[simp] theorem frame_dbUpdateState (s : State) (x : Proxy) (t : Bool) : frame (dbUpdateState s x t) = frame s := rfl
@[simp] theorem frame_dbUpdateOutputs (g : Graph) (s : State) (x : Proxy) : frame (dbUpdateOutputs g s x) = frame s := rfl
@[simp] theorem frame_dbUpdateFlowWait (s : State) (x : Proxy) : frame (dbUpdateFlowWait s x) = frame s := rfl
@[simp] theorem frame_flushDb (s : State) : frame (flushDb s) = frame s := rfl
@[simp] theorem frame_store (s : State) (x : Proxy) (t : Bool) : frame (store s x t) = frame s := by
  unfold store; split <;> rfl
@[simp] theorem frame_useFlow (s : State) (n : Nat) : frame (useFlow s n) = frame s := by unfold useFlow; split <;> rfl

theorem frame_foldl_useFlow (ns : List Nat) (s : State) : frame (ns.foldl useFlow s) = frame s := by
  induction ns generalizing s with
  | nil => rfl
  | cons n ns ih => simp only [List.foldl_cons]; rw [ih]; simp

theorem frame_cliFlows (s : State) (f : FlowSpec) : frame (cliFlows s f).1 = frame s := by
  unfold cliFlows
  cases f with
  | default => rfl
  | new => simp only [newFlow]; rw [frame_useFlow]; rfl
  | none => rfl
  | nums ns => simp only; split <;> exact frame_foldl_useFlow ns s

theorem frame_loadHistoricalOutputs (g : Graph) (s : State) (x : Proxy) :
    frame (loadHistoricalOutputs g s x).1 = frame s := by
  unfold loadHistoricalOutputs
  simp only
  split
  · rfl
  · split <;> rfl

theorem frame_holdNew (s : State) (x : Proxy) : frame (holdNew s x).1 = frame s := by
  unfold holdNew
  split
  · rfl
  · split
    · split <;> rfl
    · rfl

theorem frame_finishSpawn (t : TaskDefn) (s : State) (x : Proxy) (b : Bool) : frame (finishSpawn t s x b).1 = frame s := by
  unfold finishSpawn
  dsimp only
  have h := frame_holdNew s x
  generalize holdNew s x = H at h
  split
  · rw [frame_dbInsert]; exact h
  · exact h

theorem frame_spawnOnAllOutputsWith (spawn : State → String → Int → Flows → State × Option Proxy)
    (hspawn : ∀ st n q f, frame (spawn st n q f).1 = frame st) (g : Graph) (s : State) (x : Proxy) :
    frame (spawnOnAllOutputsWith spawn g s x) = frame s := by
  unfold spawnOnAllOutputsWith
  split
  · rfl
  · split
    · rfl
    · apply foldl_inv (fun st => frame st = frame s)
      · intro st o hst
        apply foldl_inv (fun st => frame st = frame s)
        · intro st c hst
          split
          · exact hst
          · have := hspawn st c.name c.pt x.flows
            split
            · rename_i heq; rw [heq] at this; simp only at this; rw [frame_add, this]; exact hst
            · rename_i heq; rw [heq] at this; simp only at this; rw [this]; exact hst
        · exact hst
      · rfl

theorem frame_spawnTask (g : Graph) : ∀ (fuel : Nat) (s : State) (name : String) (p : Int) (F : Flows) (fw : Bool),
    frame (spawnTask g fuel s name p F fw).1 = frame s := by
  intro fuel
  induction fuel with
  | zero => intro s name p F fw; unfold spawnTask; rfl
  | succ fuel ih =>
    intro s name p F fw
    unfold spawnTask
    dsimp only
    split
    · rfl
    · split
      · rename_i x0 t _ _
        have hL := frame_loadHistoricalOutputs g s
          { x0 with flows := F, status := (taskHistory s name p F).2.1.getD Status.waiting,
                    submitNum := (taskHistory s name p F).1, flowWait := fw }
        generalize loadHistoricalOutputs g s
          { x0 with flows := F, status := (taskHistory s name p F).2.1.getD Status.waiting,
                    submitNum := (taskHistory s name p F).1, flowWait := fw } = L at hL
        split
        · exact hL
        · have hW : frame (if (histFinal (taskHistory s name p F).2.1 && (taskHistory s name p F).2.2) = true then
              afterFlowWait (spawnOnAllOutputsWith (fun st n q f => spawnTask g fuel st n q f false) g L.1 L.2) L.2
            else L).1 = frame s := by
            split
            · unfold afterFlowWait
              simp only [frame_dbUpdateFlowWait]
              rw [frame_spawnOnAllOutputsWith _ (fun st n q f => ih st n q f false)]
              exact hL
            · exact hL
          generalize (if (histFinal (taskHistory s name p F).2.1 && (taskHistory s name p F).2.2) = true then
              afterFlowWait (spawnOnAllOutputsWith (fun st n q f => spawnTask g fuel st n q f false) g L.1 L.2) L.2
            else L) = W at hW
          split
          · exact hW
          · simp only; rw [frame_finishSpawn]; exact hW
      · rfl

theorem frame_spawnOnAllOutputs (g : Graph) (s : State) (x : Proxy) : frame (spawnOnAllOutputs g s x) = frame s := by
  unfold spawnOnAllOutputs
  exact frame_spawnOnAllOutputsWith _ (fun st n q f => frame_spawnTask g spawnFuel st n q f false) g s x

theorem frame_mergeFlows (g : Graph) (s : State) (x : Proxy) (f : Flows) : frame (mergeFlows g s x f) = frame s := by
  unfold mergeFlows
  split
  · rfl
  · dsimp only
    split
    · rfl
    · split
      · rw [frame_spawnOnAllOutputs]; rfl
      · rfl

theorem frame_spawnAndAdd (g : Graph) (s : State) (name : String) (p : Int) (F : Flows) :
    frame (spawnAndAdd g s name p F) = frame s := by
  unfold spawnAndAdd
  split
  · exact frame_mergeFlows g s _ F
  · have := frame_spawnTask g spawnFuel s name p F false
    split
    · rename_i heq; rw [heq] at this; simp only at this; rw [frame_add, this]
    · rename_i heq; rw [heq] at this; simp only at this; exact this

theorem frame_spawnNextParentless (g : Graph) (s : State) (x : Proxy) : frame (spawnNextParentless g s x) = frame s := by
  unfold spawnNextParentless
  split
  · rfl
  · split
    · exact frame_spawnAndAdd g s _ _ _
    · rfl

theorem frame_releaseHeldActive (s : State) (x : Proxy) : frame (releaseHeldActive s x) = frame s := by
  unfold releaseHeldActive
  dsimp only
  split <;> rfl

theorem frame_remove (g : Graph) (s : State) (x : Proxy) : frame (remove g s x) = frame s := by
  unfold remove
  dsimp only
  have h1 := frame_releaseHeldActive s x
  generalize releaseHeldActive s x = s1 at h1
  have h2 : frame (if (!((s1.get? x.pt x.name).getD x).flows.isEmpty && ((s1.get? x.pt x.name).getD x).runahead) = true
      then spawnNextParentless g s1 ((s1.get? x.pt x.name).getD x) else s1) = frame s := by
    split
    · rw [frame_spawnNextParentless]; exact h1
    · exact h1
  generalize (if (!((s1.get? x.pt x.name).getD x).flows.isEmpty && ((s1.get? x.pt x.name).getD x).runahead) = true
      then spawnNextParentless g s1 ((s1.get? x.pt x.name).getD x) else s1) = s2 at h2
  split
  · simp only [frame_flushDb, frame_dbUpdateState]
    exact h2
  · exact h2

theorem frame_removeIfComplete (g : Graph) (s : State) (x : Proxy) : frame (removeIfComplete g s x) = frame s := by
  unfold removeIfComplete
  split
  · rfl
  · dsimp only
    have h1 : frame (if (s.stopTask == some (x.pt, x.name)) = true then { s with stopTaskFinished := true } else s) = frame s := by
      split <;> rfl
    generalize (if (s.stopTask == some (x.pt, x.name)) = true then { s with stopTaskFinished := true } else s) = s1 at h1
    split
    · exact h1
    · split
      · rw [frame_remove]; exact h1
      · exact h1

theorem frame_recordAbs (st : State) (atom : Atom) (b : Bool) : frame (recordAbs st atom b) = frame st := by
  unfold recordAbs
  dsimp only
  split
  · split <;> rfl
  · split <;> rfl

theorem frame_findOrSpawnChild (g : Graph) (st : State) (p : Int) (n : String) (pf : Flows) (c : Child) :
    frame (findOrSpawnChild g st p n pf c).1 = frame st := by
  unfold findOrSpawnChild
  split
  · dsimp only
    split
    · rfl
    · exact frame_mergeFlows g st _ pf
  · split
    · rfl
    · exact frame_spawnTask g spawnFuel st c.name c.pt pf false

theorem frame_satisfyTargets (atom : Atom) (targets : List (Int × String)) (acc : State × List (Int × String)) :
    frame (satisfyTargets atom targets acc).1 = frame acc.1 := by
  unfold satisfyTargets
  apply foldl_inv (fun (a : State × List (Int × String)) => frame a.1 = frame acc.1)
  · intro a k ha
    split
    · exact ha
    · simp only [frame_put]; exact ha
  · rfl

theorem frame_spawnChild (g : Graph) (p : Int) (n out : String) (acc : State × List (Int × String)) (c : Child) :
    frame (spawnChild g p n out acc c).1 = frame acc.1 := by
  unfold spawnChild
  dsimp only
  have h0 := frame_recordAbs acc.1 ⟨p, n, out⟩ c.isAbs
  generalize recordAbs acc.1 ⟨p, n, out⟩ c.isAbs = st0 at h0
  have hR := frame_findOrSpawnChild g st0 p n (parentFlows acc.1 p n) c
  generalize findOrSpawnChild g st0 p n (parentFlows acc.1 p n) c = R at hR
  split
  · simp only; rw [hR, h0]
  · rw [frame_satisfyTargets]
    simp only
    split
    · rw [hR, h0]
    · rw [frame_add, hR, h0]

theorem frame_removeSuicides (g : Graph) (s : State) (ks : List (Int × String)) :
    frame (removeSuicides g s ks) = frame s := by
  unfold removeSuicides
  apply foldl_inv (fun st => frame st = frame s)
  · intro st k hst
    split
    · rw [frame_remove]; exact hst
    · exact hst
  · rfl

theorem frame_spawnChild_fold (g : Graph) (p : Int) (n out : String) :
    ∀ (cs : List Child) (acc : State × List (Int × String)),
      frame (cs.foldl (spawnChild g p n out) acc).1 = frame acc.1 := by
  intro cs
  induction cs with
  | nil => intro acc; rfl
  | cons c cs ih => intro acc; simp only [List.foldl_cons]; rw [ih, frame_spawnChild]

@[simp] theorem frame_clearXtrigs (s : State) (p : Int) (n : String) : frame (clearXtrigs s p n) = frame s := by
  unfold clearXtrigs
  split
  · split
    · exact frame_store _ _ _
    · rfl
  · rfl

theorem frame_spawnOnOutput (g : Graph) (s : State) (p : Int) (n out : String) :
    frame (spawnOnOutput g s p n out) = frame s := by
  unfold spawnOnOutput
  split
  · rfl
  · rename_i x _ _
    split
    · exact frame_removeIfComplete g s _
    · dsimp only
      have hR := frame_spawnChild_fold g p n out (childrenIfFlows g x out) (clearXtrigs s p n, [])
      rw [show ((clearXtrigs s p n, []) : State × List (Int × String)).1 = clearXtrigs s p n from rfl,
        frame_clearXtrigs] at hR
      generalize (List.foldl (spawnChild g p n out) (clearXtrigs s p n, []) (childrenIfFlows g x out)) = R at hR
      have h3 := frame_removeSuicides g R.1 R.2
      generalize removeSuicides g R.1 R.2 = s3 at h3
      have h4 : frame (if R.2.isEmpty = true then s3 else flushDb s3) = frame s := by
        split
        · rw [h3, hR]
        · rw [frame_flushDb, h3, hR]
      generalize (if R.2.isEmpty = true then s3 else flushDb s3) = s4 at h4
      split
      · rw [frame_removeIfComplete]; exact h4
      · exact h4

theorem frame_spawnChildren (g : Graph) (s : State) (p : Int) (n out : String) (tr forced : Bool) :
    frame (spawnChildren g s p n out tr forced) = frame s := by
  unfold spawnChildren
  dsimp only
  have h1 : ∀ s1, (s1 = (match lookup s p n with | some (x, _) => dbUpdateOutputs g s x | none => s)) →
      frame s1 = frame s := by
    intro s1 h; rw [h]; split <;> rfl
  split
  · exact h1 _ rfl
  · rw [frame_spawnOnOutput]; exact h1 _ rfl

theorem frame_ite_fst (c : Bool) (a b : State × Bool) (s : State) (ha : frame a.1 = frame s) (hb : frame b.1 = frame s) :
    frame (if c = true then a else b).1 = frame s := by
  cases c <;> simp [ha, hb]

theorem frame_handleMessage (g : Graph) (s : State) (p : Int) (n : String) (flag : Flag) (msg : String)
    (forced : Bool) (completed : Option Bool) :
    frame (handleMessage g s p n flag msg forced completed).1 = frame s := by
  unfold handleMessage
  split
  · rfl
  · repeat' split
    all_goals first
      | rfl
      | (simp only [frame_spawnChildren, frame_store]; done)
      | (apply frame_ite_fst <;> simp only [frame_spawnChildren, frame_store])

/-- a forced (or any) message leaves the frame alone -/
theorem frame_processMessage (g : Graph) : ∀ (fuel : Nat) (s : State) (p : Int) (n : String) (flag : Flag) (sn : Nat)
    (msg : String) (forced : Bool), frame (processMessage g fuel s p n flag sn msg forced).1 = frame s := by
  intro fuel
  induction fuel with
  | zero => intro s p n flag sn msg forced; rfl
  | succ fuel ih =>
    intro s p n flag sn msg forced
    unfold processMessage
    split
    · rfl
    · rename_i x tr _
      split
      · rfl
      · split
        · rfl
        · dsimp only
          have himp : ∀ (l : List String) (st : State),
              frame (l.foldl (fun st m => (processMessage g fuel st p n .internal sn m forced).1) st) = frame st := by
            intro l; induction l with
            | nil => intro st; rfl
            | cons a l ihl => intro st; simp only [List.foldl_cons]; rw [ihl, ih]
          rw [frame_handleMessage, himp, frame_store]

theorem frame_forceOutput (g : Graph) (p : Int) (n : String) (acc : State × Bool) (m : String) :
    frame (forceOutput g p n acc m).1 = frame acc.1 := by
  unfold forceOutput
  split
  · rfl
  · split
    · rfl
    · exact frame_processMessage g 4 acc.1 p n _ _ m true

theorem frame_setOutputsItask (g : Graph) (s : State) (p : Int) (n : String) (outs : List String) :
    frame (setOutputsItask g s p n outs) = frame s := by
  unfold setOutputsItask
  split
  · rfl
  · dsimp only
    rename_i t _
    have hR : ∀ (l : List String) (acc : State × Bool), frame (l.foldl (forceOutput g p n) acc).1 = frame acc.1 := by
      intro l; induction l with
      | nil => intro acc; rfl
      | cons m l ih => intro acc; simp only [List.foldl_cons]; rw [ih, frame_forceOutput]
    generalize hRR : List.foldl (forceOutput g p n) (s, true) _ = R
    have hRf : frame R.1 = frame s := by rw [← hRR, hR]
    split
    · exact hRf
    · split
      · rw [frame_store]; exact hRf
      · simp only [frame_flushDb, frame_dbUpdateOutputs, frame_dbUpdateState, frame_store]; exact hRf

/-- **`cylc set` launches no job** and touches nothing of: polls, the message queue, the stop / pause / stall
state, the runahead limit, the hold and stop points, the stop task -/
theorem frame_setCmd (g : Graph) (s : State) (id : Int × String) (outs : List String) (pre : PreSpec)
    (flow : FlowSpec) (wait : Bool) : frame (setCmd g s id outs pre flow wait) = frame s := by
  unfold setCmd
  split
  · rfl
  · dsimp only
    have hC := frame_cliFlows s flow
    generalize cliFlows s flow = C at hC
    split
    · split
      · exact hC
      · split
        · unfold setPrePooled
          split
          · exact hC
          · dsimp only
            split
            · rw [frame_put, frame_mergeFlows]; exact hC
            · rw [frame_mergeFlows]; exact hC
        · unfold setOutPooled
          rw [frame_setOutputsItask, frame_mergeFlows]; exact hC
    · split
      · exact hC
      · split
        · unfold setPreInactive
          split
          · exact hC
          · dsimp only
            have := frame_spawnTask g spawnFuel C.1 id.2 id.1 C.2 wait
            split
            · rw [frame_add, frame_dbInsert, this]; exact hC
            · rw [this]; exact hC
        · unfold setOutInactive
          split
          · exact hC
          · dsimp only
            rw [frame_setOutputsItask]
            have := frame_loadHistoricalOutputs g C.1
            show frame _ = frame s
            rw [← hC]
            rename_i x0 _
            exact this { x0 with flows := C.2, flowWait := wait }

end CylcModel.Sched3X
