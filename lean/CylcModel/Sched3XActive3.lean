/-
The active-status invariant through forced messages and `cylc set`.
-/
import CylcModel.Sched3XActive2

namespace CylcModel.Sched3X

theorem aok_setComplete {A : Act} (g : Graph) (x : Proxy) (m : String) (f : Bool) (hx : AOK A x) :
    AOK A (setComplete g x m f).1 := by
  unfold setComplete
  split
  · exact hx
  · split
    · exact hx
    · exact hx

theorem sok_ite_fst {A : Act} (c : Bool) (a b : State × Bool) (ha : SOK A a.1) (hb : SOK A b.1) :
    SOK A (if c = true then a else b).1 := by
  cases c <;> simp [ha, hb]

/-- a forced message (`cylc set`) creates no active status -/
theorem sok_handleMessage_forced {A : Act} (g : Graph) (s : State) (p : Int) (n : String) (flag : Flag) (msg : String)
    (completed : Option Bool) (h : SOK A s) : SOK A (handleMessage g s p n flag msg true completed).1 := by
  unfold handleMessage
  split
  · exact h
  · rename_i x tr hl
    have hx : AOK A x := aok_of_lookup h hl
    have hst : ∀ y : Proxy, AOK A y → SOK A (store s y tr) := fun y hy => sok_store h hy
    have hsc : ∀ (y : Proxy) (out : String), AOK A y → SOK A (spawnChildren g (store s y tr) p n out tr true) :=
      fun y out hy => sok_spawnChildren g _ p n out tr true (hst y hy)
    have r1 : ∀ (st : Status) (b c d : Option Bool), st.isActive = false → AOK A (x.reset (some st) b c d) :=
      fun st b c d hs => aok_reset_to x st b c d hs
    simp only [Bool.not_true, Bool.false_and, Bool.false_eq_true, if_false, if_true]
    repeat' split
    all_goals (try dsimp only)
    all_goals first
      | exact h
      | (apply sok_spawnChildren; exact h)
      | (apply hsc; exact hx)
      | (apply hsc; exact aok_of_eq (x := x) rfl rfl rfl hx)
      | (apply hsc; apply r1; rfl)
      | (apply hsc; apply aok_setComplete; apply r1; rfl)
      | (apply hsc; split
         · apply aok_setComplete; apply r1; rfl
         · apply r1; rfl)

theorem sok_processMessage_forced {A : Act} (g : Graph) : ∀ (fuel : Nat) (s : State) (p : Int) (n : String) (flag : Flag)
    (sn : Nat) (msg : String), SOK A s → SOK A (processMessage g fuel s p n flag sn msg true).1 := by
  intro fuel
  induction fuel with
  | zero => intro s p n flag sn msg h; exact h
  | succ fuel ih =>
    intro s p n flag sn msg h
    unfold processMessage
    split
    · exact h
    · rename_i x tr hl
      have hx : AOK A x := aok_of_lookup h hl
      split
      · exact h
      · split
        · exact h
        · dsimp only
          apply sok_handleMessage_forced
          apply foldl_inv (SOK A)
          · intro st m hst; exact ih st p n _ sn m hst
          · apply sok_store h
            split
            · exact hx
            · exact aok_setComplete g x msg true hx

theorem sok_forceOutput {A : Act} (g : Graph) (p : Int) (n : String) (acc : State × Bool) (m : String)
    (h : SOK A acc.1) : SOK A (forceOutput g p n acc m).1 := by
  unfold forceOutput
  split
  · exact h
  · split
    · exact h
    · exact sok_processMessage_forced g 4 acc.1 p n _ _ m h

theorem sok_setOutputsItask {A : Act} (g : Graph) (s : State) (p : Int) (n : String) (outs : List String)
    (h : SOK A s) : SOK A (setOutputsItask g s p n outs) := by
  unfold setOutputsItask
  split
  · exact h
  · dsimp only
    have hR : ∀ (l : List String) (acc : State × Bool), SOK A acc.1 → SOK A (l.foldl (forceOutput g p n) acc).1 := by
      intro l; induction l with
      | nil => intro acc ha; exact ha
      | cons m l ih => intro acc ha; simp only [List.foldl_cons]; exact ih _ (sok_forceOutput g p n acc m ha)
    generalize hRR : List.foldl (forceOutput g p n) (s, true) _ = R
    have hRp : SOK A R.1 := by rw [← hRR]; exact hR _ _ h
    split
    · exact hRp
    · rename_i x tr hl
      have hx : AOK A x := aok_of_lookup hRp hl
      have hy : AOK A (if (x.status != Status.waiting) = true then
          x.reset (queued := some false) (runahead := some false) else x) := by
        split
        · exact aok_reset_none _ _ _ hx
        · exact hx
      split
      · exact sok_store hRp hy
      · exact sok_flushDb (sok_dbQueue _ _ _ (sok_dbQueue _ _ _ (sok_store hRp hy) hy) hy)

theorem sok_setPrePooled {A : Act} (g : Graph) (s : State) (x : Proxy) (F : Flows) (v : List Atom) (a : Bool)
    (vx : List String) (h : SOK A s) (hx : AOK A x) : SOK A (setPrePooled g s x F v a vx) := by
  unfold setPrePooled
  split
  · exact h
  · dsimp only
    have h1 := sok_mergeFlows g s x F h hx
    split
    · rename_i y hy
      have hf := forceXtrigs_fields (y.forceSatisfy v a) vx
      exact sok_put h1 (aok_of_eq (x := y) hf.1 hf.2.1 hf.2.2.2.2.1 (aok_of_get? h1 hy))
    · exact h1

theorem sok_setPreInactive {A : Act} (g : Graph) (s : State) (p : Int) (n : String) (F : Flows) (w : Bool)
    (v : List Atom) (a : Bool) (vx : List String) (h : SOK A s) : SOK A (setPreInactive g s p n F w v a vx) := by
  unfold setPreInactive
  split
  · exact h
  · dsimp only
    have hs := sok_spawnTask (A := A) g spawnFuel w s n p F h
    split
    · rename_i y hy
      have hf := forceXtrigs_fields (y.forceSatisfy v a) vx
      exact sok_add (sok_dbInsert _ hs.1 (hs.2 y hy)) (aok_of_eq (x := y) hf.1 hf.2.1 hf.2.2.2.2.1 (hs.2 y hy))
    · exact hs.1

theorem sok_setOutPooled {A : Act} (g : Graph) (s : State) (x : Proxy) (F : Flows) (outs : List String)
    (h : SOK A s) (hx : AOK A x) : SOK A (setOutPooled g s x F outs) := by
  unfold setOutPooled
  exact sok_setOutputsItask g _ _ _ outs (sok_mergeFlows g s x F h hx)

theorem sok_setOutInactive {A : Act} (g : Graph) (s : State) (p : Int) (n : String) (F : Flows) (w : Bool)
    (outs : List String) (h : SOK A s) : SOK A (setOutInactive g s p n F w outs) := by
  unfold setOutInactive
  split
  · exact h
  · rename_i x0 hmk
    dsimp only
    apply sok_setOutputsItask
    have hx : AOK A { x0 with flows := F, flowWait := w } := by
      apply aok_nonactive
      show x0.status.isActive = false
      rw [mkProxy_status hmk]; rfl
    have hL := sok_loadHistoricalOutputs g s { x0 with flows := F, flowWait := w } h hx
    generalize loadHistoricalOutputs g s { x0 with flows := F, flowWait := w } = L at hL
    refine ⟨hL.1.pool, ?_, hL.1.rows, hL.1.qIns, hL.1.qUpd⟩
    intro y hy
    rcases List.mem_append.mp hy with hm | hm
    · exact hL.1.ghosts y (List.mem_filter.mp hm).1
    · simp at hm
      rw [hm]; exact hL.2

theorem sok_cliFlows {A : Act} (s : State) (fl : FlowSpec) (h : SOK A s) : SOK A (cliFlows s fl).1 := by
  have hc := core_cliFlows s fl
  unfold core at hc
  simp only [Prod.mk.injEq] at hc
  exact sok_same h hc.1 hc.2.1 hc.2.2.1 hc.2.2.2.1 hc.2.2.2.2.1

/-- **`cylc set` creates no submitted / running status**: whatever set `A` of (point, name, status) triples covers
the active statuses of the state (pool, transient objects, committed and queued database rows) before the command
covers them afterwards -/
theorem sok_setCmd {A : Act} (g : Graph) (s : State) (id : Int × String) (outs : List String) (pre : PreSpec)
    (flow : FlowSpec) (wait : Bool) (h : SOK A s) : SOK A (setCmd g s id outs pre flow wait) := by
  unfold setCmd
  split
  · exact h
  · dsimp only
    have hC := sok_cliFlows s flow h
    generalize cliFlows s flow = C at hC
    split
    · rename_i x hx
      have hxa : AOK A x := aok_of_get? hC hx
      split
      · exact hC
      · split
        · exact sok_setPrePooled g C.1 x C.2 _ _ _ hC hxa
        · exact sok_setOutPooled g C.1 x C.2 outs hC hxa
    · split
      · exact hC
      · split
        · exact sok_setPreInactive g C.1 id.1 id.2 C.2 wait _ _ _ hC
        · exact sok_setOutInactive g C.1 id.1 id.2 C.2 wait outs hC

/-- the active statuses of a state -/
def activeOf (s : State) : Act :=
  ((s.pool ++ s.ghosts).filter (·.status.isActive)).map (fun y => (y.pt, y.name, y.status)) ++
  ((s.rows ++ s.qIns).filter (·.status.isActive)).map (fun r => (r.pt, r.name, r.status)) ++
  (s.qUpd.filter (·.status.isActive)).map (fun u => (u.pt, u.name, u.status))

theorem sok_activeOf (s : State) : SOK (activeOf s) s := by
  unfold activeOf
  refine ⟨?_, ?_, ?_, ?_, ?_⟩
  · intro y hy ha
    apply List.mem_append_left; apply List.mem_append_left
    exact List.mem_map.mpr ⟨y, List.mem_filter.mpr ⟨List.mem_append_left _ hy, ha⟩, rfl⟩
  · intro y hy ha
    apply List.mem_append_left; apply List.mem_append_left
    exact List.mem_map.mpr ⟨y, List.mem_filter.mpr ⟨List.mem_append_right _ hy, ha⟩, rfl⟩
  · intro r hr ha
    apply List.mem_append_left; apply List.mem_append_right
    exact List.mem_map.mpr ⟨r, List.mem_filter.mpr ⟨List.mem_append_left _ hr, ha⟩, rfl⟩
  · intro r hr ha
    apply List.mem_append_left; apply List.mem_append_right
    exact List.mem_map.mpr ⟨r, List.mem_filter.mpr ⟨List.mem_append_right _ hr, ha⟩, rfl⟩
  · intro u hu ha
    apply List.mem_append_right
    exact List.mem_map.mpr ⟨u, List.mem_filter.mpr ⟨hu, ha⟩, rfl⟩

/-- every proxy that is submitted or running in the pool after `cylc set` was so before: as a pooled proxy or
transient object of that instance, or as a row (committed or queued) of the database history of that instance -/
theorem setCmd_no_new_active (g : Graph) (s : State) (id : Int × String) (outs : List String) (pre : PreSpec)
    (flow : FlowSpec) (wait : Bool) (y : Proxy) (hy : y ∈ (setCmd g s id outs pre flow wait).pool)
    (ha : y.status.isActive = true) :
    (∃ x ∈ s.pool ++ s.ghosts, x.pt = y.pt ∧ x.name = y.name ∧ x.status = y.status) ∨
    (∃ r ∈ s.rows ++ s.qIns, r.pt = y.pt ∧ r.name = y.name ∧ r.status = y.status) ∨
    (∃ u ∈ s.qUpd, u.pt = y.pt ∧ u.name = y.name ∧ u.status = y.status) := by
  have h := (sok_setCmd g s id outs pre flow wait (sok_activeOf s)).pool y hy ha
  unfold activeOf at h
  rcases List.mem_append.mp h with h1 | h1
  · rcases List.mem_append.mp h1 with h2 | h2
    · obtain ⟨x, hx, he⟩ := List.mem_map.mp h2
      simp only [Prod.mk.injEq] at he
      exact Or.inl ⟨x, (List.mem_filter.mp hx).1, he.1, he.2.1, he.2.2⟩
    · obtain ⟨r, hr, he⟩ := List.mem_map.mp h2
      simp only [Prod.mk.injEq] at he
      exact Or.inr (Or.inl ⟨r, (List.mem_filter.mp hr).1, he.1, he.2.1, he.2.2⟩)
  · obtain ⟨u, hu, he⟩ := List.mem_map.mp h1
    simp only [Prod.mk.injEq] at he
    exact Or.inr (Or.inr ⟨u, (List.mem_filter.mp hu).1, he.1, he.2.1, he.2.2⟩)

end CylcModel.Sched3X
