/-
Lemmas about the `Sched3Rm` model used by the C30 theorems, part 3: `kill_tasks` on the transient objects of the
proxies a removal took out of the pool works on those objects only -- the pool is not touched.
-/
import CylcModel.Sched3RmFrame

namespace CylcModel.Sched3Rm

theorem lookup_ghost_tr (s : State) (p : Int) (n : String) (x : Proxy) (tr : Bool)
    (h : lookup s p n true = some (x, tr)) : tr = true := by
  unfold lookup at h
  simp only [if_true] at h
  cases hf : s.ghosts.find? (fun x => x.pt == p && x.name == n) with
  | none => rw [hf] at h; simp at h
  | some y => rw [hf] at h; simp at h; exact h.2

theorem store_true_pool (s : State) (x : Proxy) : (store s x true).pool = s.pool := by
  unfold store; simp

theorem spawnChildren_true_pool (g : Graph) (s : State) (p : Int) (n out : String) :
    (spawnChildren g s p n out true).pool = s.pool := by
  unfold spawnChildren
  simp only [if_true]
  split <;> rfl

theorem foldl_pool {α : Type} (f : State → α → State) (h : ∀ st a, (f st a).pool = st.pool) :
    ∀ (l : List α) (s : State), (l.foldl f s).pool = s.pool
  | [], _ => rfl
  | a :: l, s => by simp only [List.foldl_cons]; rw [foldl_pool f h l, h]

theorem processMessageG_ghost_pool (g : Graph) : ∀ (fuel : Nat) (s : State) (p : Int) (n : String) (flag : Flag)
    (sn : Nat) (msg : String), (processMessageG g true fuel s p n flag sn msg).1.pool = s.pool
  | 0, _, _, _, _, _, _ => by unfold processMessageG; rfl
  | fuel + 1, s, p, n, flag, sn, msg => by
    have ih := processMessageG_ghost_pool g fuel
    unfold processMessageG
    cases hl : lookup s p n true with
    | none => rfl
    | some xt =>
      obtain ⟨x, tr⟩ := xt
      have htr := lookup_ghost_tr s p n x tr hl
      subst htr
      simp only [Bool.not_true, Bool.false_and, Bool.false_eq_true, if_false]
      generalize (if (msg == "submit-failed" || msg == "failed") = true then (x, some false)
        else setComplete g x msg) = xc
      generalize (List.filter (fun m => !xc.fst.isDone m)
        (if (msg == "succeeded" || msg == "failed") = true then ["submitted", "started"]
         else if (msg == "started") = true then ["submitted"] else [])) = impl
      have hS1 : (List.foldl (fun st m => (processMessageG g true fuel st p n Flag.internal sn m).fst)
          (store s xc.fst true) impl).pool = s.pool := by
        rw [foldl_pool _ (fun st m => ih st p n Flag.internal sn m), store_true_pool]
      generalize (List.foldl (fun st m => (processMessageG g true fuel st p n Flag.internal sn m).fst)
          (store s xc.fst true) impl) = S1 at hS1 ⊢
      cases hl2 : lookup S1 p n true with
      | none => exact hS1
      | some yt =>
        obtain ⟨y, tr2⟩ := yt
        have htr2 := lookup_ghost_tr S1 p n y tr2 hl2
        subst htr2
        simp only
        repeat' split
        all_goals (simp only [spawnChildren_true_pool, store_true_pool, putUpdateTaskState_pool]; try exact hS1)

/-- **`kill_tasks` does not touch the pool**: it works on the transient objects of the removed proxies -/
theorem killTasks_pool (g : Graph) (s : State) (keys : List Key) : (killTasks g s keys).pool = s.pool := by
  unfold killTasks
  apply foldl_pool
  intro st k
  split
  · rfl
  · split
    · rfl
    · simp only
      split
      · rw [processMessageG_ghost_pool]
        split <;> rfl
      · rw [processMessageG_ghost_pool]
        split <;> rfl

end CylcModel.Sched3Rm
