/-
C04F — the cached maximum future offset (`TaskPool.max_future_offset`, model field `maxFut`) is bracketed by the
pool in every reachable state: at least the largest future offset of the pooled INSTANCES, at most the largest
`tdef.max_future_prereq_offset` among the pooled tasks (which is the future offset of some instance of that task).
An instance of the generic `Frame` pass (`Sched3FutFrame`) with `Q := True`.
-/
import CylcModel.Sched3FutFrame
import CylcModel.Sched3FutSpec

namespace CylcModel.Sched3Fut

/-! ### `tdef.max_future_prereq_offset` after a touch -/

theorem find?_append_single (l : List (String × Int)) (n m : String) (k : Int)
    (hn : l.find? (fun x => x.1 == n) = none) :
    (l ++ [(n, k)]).find? (fun x => x.1 == m) = if m = n then some (n, k) else l.find? (fun x => x.1 == m) := by
  simp only [List.find?_append]
  by_cases hmn : m = n
  · subst hmn
    simp [hn]
  · simp only [hmn, if_false]
    cases hf : l.find? (fun x => x.1 == m) with
    | some v => simp
    | none =>
      simp only [Option.none_or, List.find?_cons]
      have : ((n == m) = false) := by
        simp only [beq_eq_false_iff_ne, ne_eq]
        exact fun h => hmn h.symm
      simp [this]

theorem find?_map_set_other (n m : String) (k : Int) (hmn : m ≠ n) : ∀ l : List (String × Int),
    (l.map fun e => if (e.1 == n) = true then (n, k) else e).find? (fun x => x.1 == m) =
      l.find? (fun x => x.1 == m) := by
  intro l
  induction l with
  | nil => rfl
  | cons e l ih =>
    simp only [List.map_cons, List.find?_cons]
    by_cases he : (e.1 == n) = true
    · have hen : e.1 = n := by simpa using he
      have h1 : ((n == m) = false) := by
        simp only [beq_eq_false_iff_ne, ne_eq]; exact fun h => hmn h.symm
      have h2 : ((e.1 == m) = false) := by rw [hen]; exact h1
      simp only [he, if_true, h1, h2]
      exact ih
    · simp only [he, Bool.false_eq_true, if_false]
      rw [ih]

/-- the offset of task `m` after the construction of a proxy `p/n` -/
theorem offOf_touch (g : Graph) (s : State) (n : String) (p : Int) (m : String) :
    (touch g s n p).offOf m =
      if m = n then
        (match instOff g n p, s.offOf n with
         | some k, none => some k
         | some k, some k0 => if k > k0 then some k else some k0
         | none, o => o)
      else s.offOf m := by
  unfold touch
  cases hi : instOff g n p with
  | none =>
    simp only
    by_cases hmn : m = n
    · subst hmn; simp
    · simp [hmn]
  | some k =>
    simp only
    cases h0 : s.offOf n with
    | none =>
      simp only
      unfold State.offOf at h0 ⊢
      simp only
      have hn : s.tdefOff.find? (fun x => x.1 == n) = none := by
        cases hf : s.tdefOff.find? (fun x => x.1 == n) with
        | none => rfl
        | some v => simp [hf] at h0
      rw [find?_append_single _ _ _ _ hn]
      by_cases hmn : m = n
      · simp [hmn]
      · simp [hmn]
    | some k0 =>
      simp only
      by_cases hgt : k > k0
      · simp only [hgt, if_true]
        by_cases hmn : m = n
        · subst hmn
          simp only [if_true]
          unfold State.offOf at h0 ⊢
          simp only
          rw [find?_map_set]
          cases hf : List.find? (fun x => x.1 == m) s.tdefOff with
          | none => simp [hf] at h0
          | some v => simp
        · simp only [hmn, if_false]
          unfold State.offOf
          simp only
          rw [find?_map_set_other _ _ _ hmn]
      · simp only [hgt, if_false]
        by_cases hmn : m = n
        · subst hmn; simp [h0]
        · simp [hmn]

theorem offOf_touch_mono (g : Graph) (s : State) (n : String) (p : Int) (m : String) (o : Int)
    (h : s.offOf m = some o) : ∃ o', (touch g s n p).offOf m = some o' ∧ o ≤ o' := by
  rw [offOf_touch]
  by_cases hmn : m = n
  · subst hmn
    simp only [if_true, h]
    cases instOff g m p with
    | none => exact ⟨o, rfl, Int.le_refl _⟩
    | some k =>
      simp only
      by_cases hgt : k > o
      · simp only [hgt, if_true]; exact ⟨k, rfl, by omega⟩
      · simp only [hgt, if_false]; exact ⟨o, rfl, Int.le_refl _⟩
  · simp only [hmn, if_false]; exact ⟨o, h, Int.le_refl _⟩

theorem offOf_touch_cases (g : Graph) (s : State) (n : String) (p : Int) (m : String) (o : Int)
    (h : (touch g s n p).offOf m = some o) : s.offOf m = some o ∨ (m = n ∧ instOff g n p = some o) := by
  rw [offOf_touch] at h
  by_cases hmn : m = n
  · subst hmn
    simp only [if_true] at h
    cases hi : instOff g m p with
    | none => rw [hi] at h; exact Or.inl h
    | some k =>
      rw [hi] at h
      cases h0 : s.offOf m with
      | none =>
        rw [h0] at h
        simp only [Option.some.injEq] at h
        subst h
        exact Or.inr ⟨rfl, rfl⟩
      | some k0 =>
        rw [h0] at h
        simp only at h
        by_cases hgt : k > k0
        · simp only [hgt, if_true, Option.some.injEq] at h
          subst h
          exact Or.inr ⟨rfl, rfl⟩
        · simp only [hgt, if_false] at h
          exact Or.inl h
  · simp only [hmn, if_false] at h
    exact Or.inl h

/-! ### the maximum over the pool -/

def optStep (s : State) (acc : Option Int) (x : Proxy) : Option Int :=
  match s.offOf x.name with
  | none => acc
  | some k => match acc with
    | none => some k
    | some a => if k > a then some k else acc

theorem poolMaxOff_eq (s : State) : poolMaxOff s = s.pool.foldl (optStep s) none := rfl

theorem foldl_optStep_ge (s : State) : ∀ (l : List Proxy) (acc : Option Int),
    (∀ a, acc = some a → ∃ m, l.foldl (optStep s) acc = some m ∧ a ≤ m) ∧
    (∀ x ∈ l, ∀ o, s.offOf x.name = some o → ∃ m, l.foldl (optStep s) acc = some m ∧ o ≤ m) := by
  intro l
  induction l with
  | nil =>
    intro acc
    exact ⟨fun a ha => ⟨a, ha, Int.le_refl _⟩, fun x hx => by simp at hx⟩
  | cons y l ih =>
    intro acc
    simp only [List.foldl_cons]
    have ih' := ih (optStep s acc y)
    constructor
    · intro a ha
      have : ∃ b, optStep s acc y = some b ∧ a ≤ b := by
        unfold optStep
        cases s.offOf y.name with
        | none => exact ⟨a, ha, Int.le_refl _⟩
        | some k =>
          simp only [ha]
          by_cases hgt : k > a
          · simp only [hgt, if_true]; exact ⟨k, rfl, by omega⟩
          · simp only [hgt, if_false]; exact ⟨a, rfl, Int.le_refl _⟩
      obtain ⟨b, hb, hab⟩ := this
      obtain ⟨m, hm, hbm⟩ := ih'.1 b hb
      exact ⟨m, hm, by omega⟩
    · intro x hx o ho
      rcases List.mem_cons.mp hx with rfl | hx
      · have : ∃ b, optStep s acc x = some b ∧ o ≤ b := by
          unfold optStep
          rw [ho]
          cases acc with
          | none => exact ⟨o, rfl, Int.le_refl _⟩
          | some a =>
            simp only
            by_cases hgt : o > a
            · simp only [hgt, if_true]; exact ⟨o, rfl, Int.le_refl _⟩
            · simp only [hgt, if_false]; exact ⟨a, rfl, by omega⟩
        obtain ⟨b, hb, hob⟩ := this
        obtain ⟨m, hm, hbm⟩ := ih'.1 b hb
        exact ⟨m, hm, by omega⟩
      · exact ih'.2 x hx o ho

theorem foldl_optStep_attained (s : State) : ∀ (l : List Proxy) (acc : Option Int) (m : Int),
    l.foldl (optStep s) acc = some m → acc = some m ∨ ∃ x ∈ l, s.offOf x.name = some m := by
  intro l
  induction l with
  | nil => intro acc m h; exact Or.inl h
  | cons y l ih =>
    intro acc m h
    simp only [List.foldl_cons] at h
    rcases ih _ m h with h1 | ⟨x, hx, hxo⟩
    · unfold optStep at h1
      cases ho : s.offOf y.name with
      | none => rw [ho] at h1; exact Or.inl h1
      | some k =>
        rw [ho] at h1
        cases acc with
        | none =>
          simp only [Option.some.injEq] at h1
          subst h1
          exact Or.inr ⟨y, List.mem_cons_self, ho⟩
        | some a =>
          simp only at h1
          by_cases hgt : k > a
          · simp only [hgt, if_true, Option.some.injEq] at h1
            subst h1
            exact Or.inr ⟨y, List.mem_cons_self, ho⟩
          · simp only [hgt, if_false] at h1
            exact Or.inl h1
    · exact Or.inr ⟨x, List.mem_cons_of_mem _ hx, hxo⟩

theorem poolMaxOff_ge (s : State) (x : Proxy) (hx : x ∈ s.pool) (o : Int) (ho : s.offOf x.name = some o) :
    ∃ m, poolMaxOff s = some m ∧ o ≤ m :=
  (foldl_optStep_ge s s.pool none).2 x hx o ho

theorem poolMaxOff_attained (s : State) (m : Int) (h : poolMaxOff s = some m) :
    ∃ x ∈ s.pool, s.offOf x.name = some m := by
  rcases foldl_optStep_attained s s.pool none m h with h1 | h1
  · simp at h1
  · exact h1

/-! ### The invariant -/

/-- the task definition of key `k` has been touched at the point of `k` -/
def TouchedK (g : Graph) (s : State) (k : Int × String) : Prop :=
  ∀ o, instOff g k.2 k.1 = some o → ∃ o', s.offOf k.2 = some o' ∧ o ≤ o'

/-- **the cached maximum future offset is bracketed by the pool** -/
structure OffInv (g : Graph) (s : State) : Prop where
  /-- every pooled instance was constructed: its task definition carries at least its own future offset -/
  touched : ∀ k ∈ keys s, TouchedK g s k
  /-- the cached maximum is at least the future offset of every pooled instance -/
  lower : ∀ k ∈ keys s, ∀ o, instOff g k.2 k.1 = some o → ∃ m, s.maxFut = some m ∧ o ≤ m
  /-- the cached maximum does not exceed the offset of the task definition of some pooled proxy -/
  upper : ∀ m, s.maxFut = some m → ∃ k ∈ keys s, ∃ o, s.offOf k.2 = some o ∧ m ≤ o
  /-- the offset of a task definition is the future offset of one of its instances -/
  attained : ∀ n o, s.offOf n = some o → ∃ p, instOff g n p = some o

theorem mem_keys {s : State} {k : Int × String} : k ∈ keys s ↔ ∃ x ∈ s.pool, (x.pt, x.name) = k := by
  unfold keys; simp only [List.mem_map]

theorem tdefOff_computeRunahead (g : Graph) (s : State) (f : Bool) :
    (computeRunahead g s f).tdefOff = s.tdefOff ∧ (computeRunahead g s f).maxFut = s.maxFut := by
  unfold computeRunahead
  simp only
  split
  · exact ⟨rfl, rfl⟩
  · split <;> exact ⟨rfl, rfl⟩

theorem offOf_congr {s s' : State} (h : s'.tdefOff = s.tdefOff) (n : String) : s'.offOf n = s.offOf n := by
  unfold State.offOf; rw [h]

/-- `set_max_future_offset` re-establishes the bracket from the two facts about the task definitions -/
theorem offinv_setMaxFut (g : Graph) (s : State) (h0 : ∀ k ∈ keys s, TouchedK g s k)
    (h3 : ∀ n o, s.offOf n = some o → ∃ p, instOff g n p = some o) : OffInv g (setMaxFut g s) := by
  have hk : keys (setMaxFut g s) = keys s := by unfold keys; rw [pool_setMaxFut]
  have ht : (setMaxFut g s).tdefOff = s.tdefOff := by
    unfold setMaxFut; simp only; split
    · exact (tdefOff_computeRunahead g _ _).1
    · rfl
  have hm : (setMaxFut g s).maxFut = poolMaxOff s := by
    unfold setMaxFut; simp only; split
    · exact (tdefOff_computeRunahead g _ _).2
    · rfl
  have ho : ∀ n, (setMaxFut g s).offOf n = s.offOf n := offOf_congr ht
  refine ⟨?_, ?_, ?_, ?_⟩
  · intro k hkm o hio
    rw [hk] at hkm
    obtain ⟨o', h1, h2⟩ := h0 k hkm o hio
    exact ⟨o', by rw [ho]; exact h1, h2⟩
  · intro k hkm o hio
    rw [hk] at hkm
    obtain ⟨o', h1, h2⟩ := h0 k hkm o hio
    obtain ⟨x, hx, hxk⟩ := mem_keys.mp hkm
    have hxn : x.name = k.2 := by rw [← hxk]
    obtain ⟨m, hm1, hm2⟩ := poolMaxOff_ge s x hx o' (by rw [hxn]; exact h1)
    exact ⟨m, by rw [hm]; exact hm1, by omega⟩
  · intro m hmm
    rw [hm] at hmm
    obtain ⟨x, hx, hxo⟩ := poolMaxOff_attained s m hmm
    refine ⟨(x.pt, x.name), ?_, m, by rw [ho]; exact hxo, Int.le_refl _⟩
    rw [hk]; exact mem_keys.mpr ⟨x, hx, rfl⟩
  · intro n o hno
    rw [ho] at hno
    exact h3 n o hno

theorem offinv_of_eq (g : Graph) (s s' : State) (hk : keys s' = keys s) (ht : s'.tdefOff = s.tdefOff)
    (hm : s'.maxFut = s.maxFut) (h : OffInv g s) : OffInv g s' := by
  have ho : ∀ n, s'.offOf n = s.offOf n := offOf_congr ht
  refine ⟨?_, ?_, ?_, ?_⟩
  · intro k hkm o hio
    rw [hk] at hkm
    obtain ⟨o', h1, h2⟩ := h.touched k hkm o hio
    exact ⟨o', by rw [ho]; exact h1, h2⟩
  · intro k hkm o hio
    rw [hk] at hkm
    rw [hm]; exact h.lower k hkm o hio
  · intro m hmm
    rw [hm] at hmm
    obtain ⟨k, hkm, o, h1, h2⟩ := h.upper m hmm
    exact ⟨k, by rw [hk]; exact hkm, o, by rw [ho]; exact h1, h2⟩
  · intro n o hno
    rw [ho] at hno
    exact h.attained n o hno

theorem offinv_congr (g : Graph) (s s' : State) (hc : core s' = core s) (h : OffInv g s) : OffInv g s' :=
  offinv_of_eq g s s' (congrArg Core.keys hc) (congrArg Core.tdefOff hc) (congrArg Core.maxFut hc) h

theorem keys_touch (g : Graph) (s : State) (n : String) (p : Int) : keys (touch g s n p) = keys s := by
  unfold keys; rw [pool_touch]

theorem maxFut_touch (g : Graph) (s : State) (n : String) (p : Int) : (touch g s n p).maxFut = s.maxFut := by
  unfold touch; split
  · rfl
  · split
    · rfl
    · split <;> rfl

theorem touchedK_touch (g : Graph) (s : State) (n : String) (p : Int) (k : Int × String) (h : TouchedK g s k) :
    TouchedK g (touch g s n p) k := by
  intro o hio
  obtain ⟨o', h1, h2⟩ := h o hio
  obtain ⟨o'', h3, h4⟩ := offOf_touch_mono g s n p k.2 o' h1
  exact ⟨o'', h3, by omega⟩

theorem attained_touch (g : Graph) (s : State) (n : String) (p : Int)
    (h : ∀ m o, s.offOf m = some o → ∃ q, instOff g m q = some o) :
    ∀ m o, (touch g s n p).offOf m = some o → ∃ q, instOff g m q = some o := by
  intro m o hmo
  rcases offOf_touch_cases g s n p m o hmo with h1 | ⟨rfl, h1⟩
  · exact h m o h1
  · exact ⟨p, h1⟩

theorem offinv_touch (g : Graph) (s : State) (n : String) (p : Int) (h : OffInv g s) : OffInv g (touch g s n p) := by
  refine ⟨?_, ?_, ?_, attained_touch g s n p h.attained⟩
  · intro k hkm
    rw [keys_touch] at hkm
    exact touchedK_touch g s n p k (h.touched k hkm)
  · intro k hkm o hio
    rw [keys_touch] at hkm
    rw [maxFut_touch]
    exact h.lower k hkm o hio
  · intro m hmm
    rw [maxFut_touch] at hmm
    obtain ⟨k, hkm, o, h1, h2⟩ := h.upper m hmm
    obtain ⟨o', h3, h4⟩ := offOf_touch_mono g s n p k.2 o h1
    exact ⟨k, by rw [keys_touch]; exact hkm, o', h3, by omega⟩

/-- the three facts that survive until the next `set_max_future_offset`: for the keys in `ks` -/
structure OffPre (g : Graph) (s : State) : Prop where
  touched : ∀ k ∈ keys s, TouchedK g s k
  upper : ∀ m, s.maxFut = some m → ∃ k ∈ keys s, ∃ o, s.offOf k.2 = some o ∧ m ≤ o
  attained : ∀ n o, s.offOf n = some o → ∃ p, instOff g n p = some o

theorem offpre_ghostTouch (g : Graph) (s : State) (x : Proxy) (h : OffPre g s) : OffPre g (ghostTouch g s x) := by
  unfold ghostTouch
  refine foldl_inv (OffPre g) _ ?_ _ _ h
  intro st k hst
  refine ⟨?_, ?_, attained_touch g st k.1 k.2 hst.attained⟩
  · intro kk hkm
    rw [keys_touch] at hkm
    exact touchedK_touch g st k.1 k.2 kk (hst.touched kk hkm)
  · intro m hmm
    rw [maxFut_touch] at hmm
    obtain ⟨kk, hkm, o, h1, h2⟩ := hst.upper m hmm
    obtain ⟨o', h3, h4⟩ := offOf_touch_mono g st k.1 k.2 kk.2 o h1
    exact ⟨kk, by rw [keys_touch]; exact hkm, o', h3, by omega⟩

theorem maxFut_ghostTouch (g : Graph) (s : State) (x : Proxy) : (ghostTouch g s x).maxFut = s.maxFut := by
  unfold ghostTouch
  exact foldl_inv (fun st : State => st.maxFut = s.maxFut) _ (by intro st k h; rw [maxFut_touch]; exact h) _ _ rfl

theorem keys_ghostTouch (g : Graph) (s : State) (x : Proxy) : keys (ghostTouch g s x) = keys s := by
  unfold keys; rw [pool_ghostTouch]

theorem offOf_ghostTouch_mono (g : Graph) (s : State) (x : Proxy) (m : String) (o : Int) (h : s.offOf m = some o) :
    ∃ o', (ghostTouch g s x).offOf m = some o' ∧ o ≤ o' := by
  unfold ghostTouch
  refine foldl_inv (fun st : State => ∃ o', st.offOf m = some o' ∧ o ≤ o') _ ?_ _ _ ⟨o, h, Int.le_refl _⟩
  intro st k ⟨o', h1, h2⟩
  obtain ⟨o'', h3, h4⟩ := offOf_touch_mono g st k.1 k.2 m o' h1
  exact ⟨o'', h3, by omega⟩

theorem offpre_enterPool (g : Graph) (s : State) (x : Proxy) (h : OffInv g s) (ht : Touched g s x) :
    OffPre g (enterPool g s x) := by
  unfold enterPool
  apply offpre_ghostTouch
  refine ⟨?_, ?_, h.attained⟩
  · intro k hkm
    obtain ⟨y, hy, hyk⟩ := mem_keys.mp hkm
    rcases (mem_insertBucket x y s.pool).mp hy with rfl | hy
    · rw [← hyk]; exact ht
    · exact h.touched k (mem_keys.mpr ⟨y, hy, hyk⟩)
  · intro m hmm
    obtain ⟨k, hkm, o, h1, h2⟩ := h.upper m hmm
    obtain ⟨y, hy, hyk⟩ := mem_keys.mp hkm
    exact ⟨k, mem_keys.mpr ⟨y, (mem_insertBucket x y s.pool).mpr (Or.inr hy), hyk⟩, o, h1, h2⟩

theorem offinv_add (g : Graph) (s : State) (x : Proxy) (h : OffInv g s) (ht : Touched g s x) :
    OffInv g (State.add g s x) := by
  unfold State.add
  split
  · exact h
  · have hpre2 := offpre_enterPool g s x h ht
    have hkS : keys (enterPool g s x) = keys { s with pool := insertBucket x s.pool } := by
      unfold enterPool; exact keys_ghostTouch _ _ _
    have hmS : (enterPool g s x).maxFut = s.maxFut := by
      unfold enterPool; exact maxFut_ghostTouch _ _ _
    split
    · exact offinv_setMaxFut g _ hpre2.touched hpre2.attained
    · rename_i hnone
      refine ⟨hpre2.touched, ?_, hpre2.upper, hpre2.attained⟩
      intro k hkm o hio
      have hkm' := hkm
      rw [hkS] at hkm
      obtain ⟨y, hy, hyk⟩ := mem_keys.mp hkm
      rcases (mem_insertBucket x y s.pool).mp hy with rfl | hy
      · -- the new proxy has no future offset of its own: its task definition has none at all
        exfalso
        obtain ⟨o', h1, _⟩ := hpre2.touched k hkm' o hio
        rw [← hyk] at h1
        simp only at h1
        rw [h1] at hnone
        simp at hnone
      · rw [hmS]
        exact h.lower k (mem_keys.mpr ⟨y, hy, hyk⟩) o hio

theorem offinv_dropKey (g : Graph) (s : State) (x : Proxy) (h : OffInv g s) : OffInv g (dropKey g s x) := by
  unfold dropKey
  have hsub : ∀ k, k ∈ keys (dropPool s x) → k ∈ keys s := by
    intro k hk
    obtain ⟨y, hy, hyk⟩ := mem_keys.mp hk
    exact mem_keys.mpr ⟨y, (List.mem_filter.mp hy).1, hyk⟩
  have hoff : ∀ n, (dropPool s x).offOf n = s.offOf n := by intro n; rfl
  have hmax : (dropPool s x).maxFut = s.maxFut := rfl
  have h0 : ∀ k ∈ keys (dropPool s x), TouchedK g (dropPool s x) k := by
    intro k hk o hio
    obtain ⟨o', h1, h2⟩ := h.touched k (hsub k hk) o hio
    exact ⟨o', by rw [hoff]; exact h1, h2⟩
  have h3 : ∀ n o, (dropPool s x).offOf n = some o → ∃ p, instOff g n p = some o := by
    intro n o hno; rw [hoff] at hno; exact h.attained n o hno
  split
  · exact offinv_setMaxFut g _ h0 h3
  · rename_i hnone
    refine ⟨h0, ?_, ?_, h3⟩
    · intro k hk o hio
      rw [hmax]; exact h.lower k (hsub k hk) o hio
    · intro m hmm
      rw [hmax] at hmm
      obtain ⟨k, hkm, o, h1, h2⟩ := h.upper m hmm
      refine ⟨k, ?_, o, by rw [hoff]; exact h1, h2⟩
      -- the witness is not the removed proxy: the task definition of the removed one has no offset
      obtain ⟨y, hy, hyk⟩ := mem_keys.mp hkm
      refine mem_keys.mpr ⟨y, List.mem_filter.mpr ⟨hy, ?_⟩, hyk⟩
      have hne : y.name ≠ x.name := by
        intro heq
        rw [← hyk] at h1
        simp only at h1
        rw [heq, ← hoff] at h1
        rw [h1] at hnone
        simp at hnone
      simp only [Bool.not_eq_true', Bool.and_eq_false_iff, beq_eq_false_iff_ne, ne_eq]
      exact Or.inr hne

theorem offinv_computeRunahead (g : Graph) (s : State) (f : Bool) (h : OffInv g s) : OffInv g (computeRunahead g s f) := by
  have hk : keys (computeRunahead g s f) = keys s := by unfold keys; rw [pool_computeRunahead]
  have ht := (tdefOff_computeRunahead g s f).1
  have hm := (tdefOff_computeRunahead g s f).2
  have ho : ∀ n, (computeRunahead g s f).offOf n = s.offOf n := offOf_congr ht
  refine ⟨?_, ?_, ?_, ?_⟩
  · intro k hkm o hio
    rw [hk] at hkm
    obtain ⟨o', h1, h2⟩ := h.touched k hkm o hio
    exact ⟨o', by rw [ho]; exact h1, h2⟩
  · intro k hkm o hio
    rw [hk] at hkm
    rw [hm]; exact h.lower k hkm o hio
  · intro m hmm
    rw [hm] at hmm
    obtain ⟨k, hkm, o, h1, h2⟩ := h.upper m hmm
    exact ⟨k, by rw [hk]; exact hkm, o, by rw [ho]; exact h1, h2⟩
  · intro n o hno
    rw [ho] at hno
    exact h.attained n o hno

theorem touched_iff (g : Graph) (s : State) (x : Proxy) : Touched g s x ↔ TouchedK g s (x.pt, x.name) := Iff.rfl

/-- the frame of the bracket invariant (no condition on the proxies) -/
theorem offFrame (g : Graph) : Frame g (fun _ => True) (OffInv g) where
  qupd := fun _ _ _ _ => trivial
  qspawn := fun _ _ _ _ _ _ => trivial
  qqueue := fun _ _ _ _ => trivial
  qlaunch := fun _ _ _ => trivial
  jcongr := offinv_congr g
  jtouch := fun s n p h => offinv_touch g s n p h
  jadd := fun s x h ht => offinv_add g s x h ht
  jdrop := fun s x h => offinv_dropKey g s x h
  jcompute := fun s f h => offinv_computeRunahead g s f h
  jlaunch := fun s x h _ _ => offinv_of_eq g s _ rfl rfl rfl h
  jclear := fun s h => offinv_of_eq g s _ rfl rfl rfl h

/-! ### every op, every run -/

def HoldsOff (g : Graph) (s : State) : Prop := Holds (fun _ => True) (OffInv g) s

theorem holdsOff_iff (g : Graph) (s : State) : HoldsOff g s ↔ OffInv g s :=
  ⟨fun h => h.2, fun h => ⟨fun _ _ => trivial, h⟩⟩

theorem offinv_empty (g : Graph) (s : State) (hp : s.pool = []) (hm : s.maxFut = none) (ht : s.tdefOff = []) :
    OffInv g s := by
  refine ⟨?_, ?_, ?_, ?_⟩
  · intro k hk; unfold keys at hk; rw [hp] at hk; simp at hk
  · intro k hk; unfold keys at hk; rw [hp] at hk; simp at hk
  · intro m h; rw [hm] at h; simp at h
  · intro n o h; unfold State.offOf at h; rw [ht] at h; simp at h

theorem keys_setStopPoint (s : State) (p : Int) : keys (setStopPoint s p) = keys s := by
  unfold setStopPoint
  split
  · rfl
  · simp only
    split
    · split
      · unfold keys
        simp only [List.map_map]
        apply List.map_congr_left
        intro x _
        simp only [Function.comp]
        split
        · rw [reset_pt, reset_name]
        · rfl
      · rfl
    · rfl

theorem offinv_setStopPoint (g : Graph) (s : State) (p : Int) (h : OffInv g s) : OffInv g (setStopPoint s p) := by
  refine offinv_of_eq g s _ (keys_setStopPoint s p) ?_ ?_ h
  · unfold setStopPoint
    split
    · rfl
    · simp only
      split
      · split <;> rfl
      · rfl
  · unfold setStopPoint
    split
    · rfl
    · simp only
      split
      · split <;> rfl
      · rfl

theorem offinv_step (g : Graph) (s : State) (op : Op) (h : OffInv g s) : OffInv g (step g s op) := by
  have hh : HoldsOff g s := (holdsOff_iff g s).mpr h
  by_cases h1 : op = .loop
  · subst h1
    unfold step
    exact (holds_mainLoop (offFrame g) _ (holds_clearOp (offFrame g) s hh) (fun _ _ _ _ _ => trivial)).2
  · by_cases h3 : op = .restart
    · subst h3
      unfold step
      simp only
      refine (holds_restart (offFrame g) _ ?_ (fun _ _ => ⟨trivial, trivial⟩)).2
      exact ⟨fun x hx => trivial, offinv_empty g _ rfl rfl rfl⟩
    · by_cases h2 : ∃ p, op = .stopPoint p
      · obtain ⟨p, rfl⟩ := h2
        unfold step
        simp only
        exact offinv_setStopPoint g _ p (holds_clearOp (offFrame g) s hh).2
      · exact (holds_step_plain (offFrame g) s op hh h1 (fun p hp => h2 ⟨p, hp⟩) h3).2

theorem offinv_init (g : Graph) : OffInv g (init g) :=
  (holds_init (offFrame g) (offinv_empty g _ rfl rfl rfl) (fun _ _ _ _ _ _ _ => trivial)).2

/-- **the bracket holds in every state of every run** -/
theorem offinv_run (g : Graph) (ops : List Op) : ∀ s ∈ run g ops, OffInv g s :=
  run_inv (OffInv g) g (offinv_init g) (fun s op h => offinv_step g s op h) ops

/-! ### the bracket in the vocabulary of the specification (`Sched3FutSpec`: `lowOff`, `highOff`, `optLe`) -/

theorem optLe_refl (a : Option Int) : optLe a a = true := by
  cases a <;> simp [optLe]

theorem optLe_trans {a b c : Option Int} (h1 : optLe a b = true) (h2 : optLe b c = true) : optLe a c = true := by
  cases a with
  | none => simp [optLe]
  | some x =>
    cases b with
    | none => simp [optLe] at h1
    | some y =>
      cases c with
      | none => simp [optLe] at h2
      | some z =>
        simp only [optLe, decide_eq_true_eq] at h1 h2 ⊢
        omega

theorem optLe_optMax_left (a b : Option Int) : optLe a (optMax a b) = true := by
  cases a with
  | none => simp [optLe]
  | some x =>
    cases b with
    | none => simp [optMax, optLe]
    | some y =>
      simp only [optMax, optLe, decide_eq_true_eq]
      split <;> omega

theorem optLe_optMax_right (a b : Option Int) : optLe b (optMax a b) = true := by
  cases b with
  | none => simp [optLe]
  | some y =>
    cases a with
    | none => simp [optMax, optLe]
    | some x =>
      simp only [optMax, optLe, decide_eq_true_eq]
      split <;> omega

theorem optMax_le {a b m : Option Int} (h1 : optLe a m = true) (h2 : optLe b m = true) : optLe (optMax a b) m = true := by
  cases a with
  | none => simpa [optMax] using h2
  | some x =>
    cases b with
    | none => simpa [optMax] using h1
    | some y =>
      cases m with
      | none => simp [optLe] at h1
      | some z =>
        simp only [optMax, optLe, decide_eq_true_eq] at h1 h2 ⊢
        split <;> omega

theorem foldl_optMax_ge : ∀ (l : List (Option Int)) (acc : Option Int),
    optLe acc (l.foldl optMax acc) = true ∧ ∀ e ∈ l, optLe e (l.foldl optMax acc) = true := by
  intro l
  induction l with
  | nil => intro acc; exact ⟨optLe_refl acc, fun e he => by simp at he⟩
  | cons x l ih =>
    intro acc
    simp only [List.foldl_cons]
    obtain ⟨h1, h2⟩ := ih (optMax acc x)
    refine ⟨optLe_trans (optLe_optMax_left acc x) h1, ?_⟩
    intro e he
    rcases List.mem_cons.mp he with rfl | he
    · exact optLe_trans (optLe_optMax_right acc e) h1
    · exact h2 e he

theorem foldl_optMax_le (m : Option Int) : ∀ (l : List (Option Int)) (acc : Option Int),
    optLe acc m = true → (∀ e ∈ l, optLe e m = true) → optLe (l.foldl optMax acc) m = true := by
  intro l
  induction l with
  | nil => intro acc h _; exact h
  | cons x l ih =>
    intro acc h hl
    simp only [List.foldl_cons]
    exact ih _ (optMax_le h (hl x List.mem_cons_self)) (fun e he => hl e (List.mem_cons_of_mem _ he))

theorem le_maxOpt {l : List (Option Int)} {e m : Option Int} (he : e ∈ l) (h : optLe m e = true) :
    optLe m (maxOpt l) = true :=
  optLe_trans h ((foldl_optMax_ge l none).2 e he)

theorem maxOpt_le {l : List (Option Int)} {m : Option Int} (h : ∀ e ∈ l, optLe e m = true) :
    optLe (maxOpt l) m = true :=
  foldl_optMax_le m l none (by simp [optLe]) h

theorem instOff_le_taskMaxOff (g : Graph) (n : String) (p : Int) : optLe (instOff g n p) (taskMaxOff g n) = true := by
  unfold instOff taskMaxOff
  cases ht : g.task? n with
  | none => simp [optLe]
  | some t =>
    simp only [Option.bind_some]
    unfold TaskDefn.inst?
    cases hf : t.insts.find? (fun x => x.1 == p) with
    | none => simp [optLe]
    | some pd =>
      simp only [Option.map_some, Option.bind_some]
      apply le_maxOpt (e := pd.2.futOff) _ (optLe_refl _)
      exact List.mem_map.mpr ⟨pd, List.mem_of_find?_eq_some hf, rfl⟩

/-- the judge's clause R3 as a theorem: in every state of every run the cached maximum future offset lies between
the largest future offset of the pooled instances and the largest future offset of the pooled tasks -/
theorem offinv_bracket (g : Graph) (s : State) (h : OffInv g s) :
    optLe (lowOff g (keys s)) s.maxFut = true ∧ optLe s.maxFut (highOff g (keys s)) = true := by
  constructor
  · unfold lowOff
    apply maxOpt_le
    intro e he
    obtain ⟨k, hk, rfl⟩ := List.mem_map.mp he
    cases hi : instOff g k.2 k.1 with
    | none => simp [optLe]
    | some o =>
      obtain ⟨m, hm, hom⟩ := h.lower k hk o hi
      rw [hm]
      simp only [optLe, decide_eq_true_eq]
      exact hom
  · cases hm : s.maxFut with
    | none => simp [optLe]
    | some m =>
      obtain ⟨k, hk, o, ho, hmo⟩ := h.upper m hm
      obtain ⟨p, hp⟩ := h.attained k.2 o ho
      unfold highOff
      apply le_maxOpt (e := taskMaxOff g k.2) (List.mem_map.mpr ⟨k, hk, rfl⟩)
      have h1 := instOff_le_taskMaxOff g k.2 p
      rw [hp] at h1
      exact optLe_trans (show optLe (some m) (some o) = true by simp only [optLe, decide_eq_true_eq]; exact hmo) h1

end CylcModel.Sched3Fut
