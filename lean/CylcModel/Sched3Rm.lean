/-
`Sched3Rm` — the scheduler model with the **`cylc remove` command** (`commands.remove_tasks` →
`_remove_matched_tasks`, `TaskPool.remove`, `WorkflowDatabaseManager.remove_task_from_flows`,
`Prerequisite.unset_naturally_satisfied`, stand-down of downstream proxies, `kill_tasks`), with and without
`--flow`.  A copy of `Sched3Trig` (which already carries flows, the run-DB tables and the group trigger that is
needed to reach multi-flow states) + the op `rm`.  Header of `Sched3Trig` follows.

`Sched3Trig` — `Sched2` extended with flows (flow numbers as sets, `merge_flows`, flow-wait, the flow
counter), the `task_states` / `task_outputs` tables of the run database (queued inserts / updates,
flushed where the code calls `process_queued_ops`), the way each prerequisite atom was satisfied
(naturally / from the database / forced), manual submission (`is_manual_submit`, `waiting_on_job_prep`,
`tasks_to_trigger_now`, `pre_start_tasks_to_trigger`) and the **group trigger** command
(`commands.force_trigger_tasks` → `_force_trigger_tasks`, `_remove_matched_tasks`, `kill_tasks`,
`TaskPool._set_prereqs_tdef`, `queue_or_trigger`).  A copy of `Sched2`, whose header follows.

`Sched2` — `Sched` (v1) extended with holds, stop modes / stop point / stop task, pause and
clean restart (commands applied between main loops).  A copy, so that v1 and its proofs stay frozen.
Original header of v1 follows.

`Sched` — the scheduler core as one state machine (DESIGN §4 layer B), stage 1:
spawn-on-demand pool, runahead limiting, queue-if-ready / release, job messages,
completion-based removal, auto shutdown and stall detection, single original flow.

The model runs over an *instance graph*: for every task name and cycle point the
prerequisites (atoms + and/or expression), the graph children per output, the next
parentless point — i.e. what `TaskProxy.__init__` / `TaskDef` compute from the loaded
configuration (those static computations are the subject of C13–C16; here they are inputs).

Anchors: cylc/flow/task_pool.py (load_from_point, compute_runahead, release_runahead_tasks,
queue_if_ready, release_queued_tasks, spawn_on_output, spawn_task, remove, remove_if_complete,
is_stalled), cylc/flow/scheduler.py (_main_loop, workflow_shutdown, check_auto_shutdown,
process_queued_task_messages, check_workflow_stalled), cylc/flow/task_events_mgr.py
(process_message and helpers), cylc/flow/task_job_mgr.py (prep_submit_task_jobs).

Not modelled in this stage (never generated): commands, holds, several flows, flow-wait,
suicide triggers, xtriggers, clock expiry, queue limits, future-offset runahead extension,
stop points, Cylc-7 compatibility mode.  Core Lean only.
-/
namespace CylcModel.Sched3Rm

/-! ### Static instance graph -/

inductive Status where
  | waiting | expired | preparing | submitFailed | submitted | running | failed | succeeded
  deriving Repr, DecidableEq, Inhabited

/-- position in `TASK_STATUSES_ORDERED` -/
def Status.rank : Status → Nat
  | .waiting => 0 | .expired => 1 | .preparing => 2 | .submitFailed => 3
  | .submitted => 4 | .running => 5 | .failed => 6 | .succeeded => 7

def Status.str : Status → String
  | .waiting => "waiting" | .expired => "expired" | .preparing => "preparing"
  | .submitFailed => "submit-failed" | .submitted => "submitted" | .running => "running"
  | .failed => "failed" | .succeeded => "succeeded"

def Status.isFinal : Status → Bool
  | .expired | .submitFailed | .failed | .succeeded => true
  | _ => false

def Status.isActive : Status → Bool        -- TASK_STATUSES_ACTIVE
  | .submitted | .running => true
  | _ => false

structure Atom where
  pt : Int
  task : String
  out : String          -- the output *message*
  deriving Repr, DecidableEq, Inhabited

/-- and/or expression over atom indices (prerequisites) -/
inductive BE where
  | atom (i : Nat)
  | and (l r : BE)
  | or (l r : BE)
  deriving Repr, DecidableEq, Inhabited

/-- and/or expression over completion variables (trigger names with `-` → `_`) -/
inductive CE where
  | var (v : String)
  | and (l r : CE)
  | or (l r : CE)
  deriving Repr, DecidableEq, Inhabited

/-- `SatisfiedState` of a prerequisite atom: `False` | 'satisfied naturally' | 'satisfied from database' |
'force satisfied' -/
inductive Sat where
  | no | nat | db | forced
  deriving Repr, DecidableEq, Inhabited

def Sat.ok : Sat → Bool
  | .no => false
  | _ => true

def Sat.code : Sat → Nat
  | .no => 0 | .nat => 1 | .db => 2 | .forced => 3

structure Pre where
  atoms : List (Atom × Sat)       -- satisfaction state
  expr : Option BE                -- `none`: conjunction of all atoms
  deriving Repr, DecidableEq, Inhabited

structure Child where
  name : String
  pt : Int
  isAbs : Bool
  deriving Repr, DecidableEq, Inhabited

structure InstDef where
  pre : List Pre
  sui : List Pre
  children : List (String × List Child)     -- keyed by output message
  nextParentless : Option Int
  trigParents : List (Int × String) := []   -- (point, task) of `TaskDef.get_triggers(point)` (no suicide triggers)
  tdefAtoms : List Atom := []               -- atoms of `TaskDef.get_prereqs(point)`
  parentlessIcp : Bool := false             -- `TaskDef.is_parentless(point, cutoff = initial point)`
  deriving Repr, Inhabited

structure OutDef where
  trigger : String
  message : String
  deriving Repr, DecidableEq, Inhabited

structure TaskDefn where
  name : String
  insts : List (Int × InstDef)              -- valid points only
  firstParentless : Option Int
  completion : CE
  outputs : List OutDef
  execRetries : Nat := 0                    -- number of `execution retry delays`
  subRetries : Nat := 0                     -- number of `submission retry delays`
  hasAbs : Bool := false                    -- `TaskDef.has_abs_triggers`
  deriving Repr, Inhabited

structure Graph where
  icp : Int
  fcp : Int
  start : Int
  runahead : Nat                            -- `Pn`
  tasks : List TaskDefn                     -- in `task_name_list` order
  seqs : List (List Int)                    -- valid points of every sequence, ascending
  stopPoint : Option Int := none            -- `TaskPool.stop_point` (the final point unless set otherwise)
  cfgStop : Option Int := none              -- `[scheduling]stop after cycle point` of flow.cylc
  /-- behaviour flag (probed from the live code): the group trigger satisfies *every* prerequisite on a
  live group-start member that has *some* completed output (`true`, code as found) or only the
  prerequisites on its completed outputs (`false`, repaired) -/
  anyOutput : Bool := true
  /-- behaviour flag (probed from the live code): `_remove_matched_tasks` commits the pending DB operations before it
  starts and writes the erased history of each matched id to the database at once (`true`, repaired), or reads the
  committed rows only and leaves its operations queued until the next commit (`false`, code as found) -/
  rmCommits : Bool := false
  /-- behaviour flag (probed from the live code): a matched id whose pooled proxy is in none of the given flows is
  still removed from those flows in the DB and its children stand down (`true`, repaired); or nothing at all
  happens for it (`false`, code as found) -/
  rmAlwaysDb : Bool := false
  /-- behaviour flag (probed from the live code; C28): `_set_prereqs_tdef` hands back -- and `cylc trigger` then
  triggers -- the new object even when the pool already holds a proxy of that instance (`true`, code as found);
  `false`: such an object is dropped (repaired) -/
  triggerUnpooled : Bool := true
  /-- behaviour flag (probed from the live code; C29): `_load_historical_outputs` also inserts the DB rows of a proxy
  whose flows overlap an existing row of the instance without being equal to any (`true`, repaired); `false`: only
  when no row overlaps (code as found) -/
  dbRowPerFlowSet : Bool := false
  /-- behaviour flag (probed from the live code; C28): `_load_historical_outputs`, rows overlap the proxy's flows but
  none is of exactly its flows: fresh rows are queued `0` never, `1` always (ec8c5af), `2` unless the proxy is a finished
  and complete instance; `dbRowPerFlowSet` above is kept for old recorded inputs and read as mode 1 -/
  rowInsertMode : Nat := 0
  /-- behaviour flags (probed from the live code; C28), `false` = code as first found: `queue_or_trigger` returns early
  for a proxy already waiting on job preparation (6e65a44); `release_held_active_task` queues through `queue_if_ready`,
  which leaves a manually triggered proxy alone (e8480f1) -/
  qotSkipsPrepped : Bool := false
  releaseQueueIfReady : Bool := false
  deriving Repr, Inhabited

/-- number of instances + 2: bounds the `spawn_task` ↔ `spawn_on_all_outputs` recursion -/
def Graph.fuel (g : Graph) : Nat := (g.tasks.foldl (fun n t => n + t.insts.length) 0) + 2

def Graph.task? (g : Graph) (name : String) : Option TaskDefn := g.tasks.find? (·.name == name)

def TaskDefn.inst? (t : TaskDefn) (p : Int) : Option InstDef := (t.insts.find? (·.1 == p)).map (·.2)

/-! ### Dynamic state -/

structure Proxy where
  pt : Int
  name : String
  status : Status := .waiting
  held : Bool := false
  queued : Bool := false
  runahead : Bool := true
  flows : List Nat := [1]
  submitNum : Nat := 0
  done : List String := []                  -- completed output *messages*
  pre : List Pre := []
  sui : List Pre := []
  upd : Bool := false                       -- TaskState.is_updated
  execTry : Nat := 0                        -- try_timers[EXECUTION_RETRY].num
  subTry : Nat := 0                         -- try_timers[SUBMISSION_RETRY].num
  retryWait : Bool := false                 -- an unsatisfied `_cylc_retry` / `_cylc_submit_retry` xtrigger
  live : Bool := false                      -- `run_mode == LIVE` (set at job preparation, lost on restart)
  timers : Bool := false                    -- `try_timers` exist (created at the first preparation, saved in the DB)
  flowWait : Bool := false                  -- `flow_wait`
  manual : Bool := false                    -- `is_manual_submit`
  wjp : Bool := false                       -- `waiting_on_job_prep`
  removed : Bool := false                   -- `itask.removed` (removed by command; a transient object)
  deriving Repr, Inhabited

/-- a row of table `task_states` (primary key name, cycle, flow_nums) -/
structure StRow where
  name : String
  pt : Int
  flows : List Nat
  submitNum : Nat
  flowWait : Bool
  status : Status
  manual : Bool
  deriving Repr, DecidableEq, Inhabited

/-- a row of table `task_outputs` (primary key cycle, name, flow_nums); `outs`: completed output messages in
definition order (= the JSON text of the column, up to a bijection) -/
structure OutRow where
  name : String
  pt : Int
  flows : List Nat
  outs : List String
  deriving Repr, DecidableEq, Inhabited

/-- queued UPDATE statements on `task_states`; `kind` = the statement text (updates are executed grouped by
statement text, in order of first occurrence in the batch) -/
inductive StUpd where
  | state (name : String) (pt : Int) (flows : List Nat) (status : Status) (fw manual : Bool) (sn : Option Nat)
  | pool (name : String) (pt : Int) (flows : List Nat) (sn : Nat) (status : Status) (manual : Bool)
  | flowWait (name : String) (pt : Int) (flows : List Nat) (fw : Bool)
  | rmAll (name : String) (pt : Int)
  | rmSome (name : String) (pt : Int) (old new : List Nat)
  deriving Repr, Inhabited

def StUpd.kind : StUpd → Nat
  | .state _ _ _ _ _ _ (some _) => 0
  | .state _ _ _ _ _ _ none => 1
  | .pool .. => 2
  | .flowWait .. => 3
  | .rmAll .. => 4
  | .rmSome .. => 5

inductive OutUpd where
  | outs (name : String) (pt : Int) (flows : List Nat) (outs : List String)
  | rmAll (name : String) (pt : Int)
  | rmSome (name : String) (pt : Int) (old new : List Nat)
  deriving Repr, Inhabited

def OutUpd.kind : OutUpd → Nat
  | .outs .. => 0
  | .rmAll .. => 1
  | .rmSome .. => 2

structure Msg where
  pt : Int
  name : String
  submitNum : Nat
  text : String
  deriving Repr, Inhabited

structure State where
  pool : List Proxy := []
  stRows : List StRow := []                 -- table `task_states` (committed)
  outRows : List OutRow := []               -- table `task_outputs` (committed)
  qStIns : List StRow := []                 -- queued INSERT OR REPLACE
  qStUpd : List StUpd := []                 -- queued UPDATE
  qOutIns : List OutRow := []
  qOutUpd : List OutUpd := []
  flowCounter : Nat := 0                    -- `FlowMgr.counter`
  flowsKnown : List Nat := []               -- keys of `FlowMgr.flows`
  flowsDb : List Nat := []                  -- table `workflow_flows`
  toTrigger : List (Int × String) := []     -- `tasks_to_trigger_now`
  preStart : List (String × Int) := []      -- `pre_start_tasks_to_trigger`
  groups : List (List (Int × String)) := [] -- connected groups of the trigger command of the current op
  phantoms : List Proxy := []               -- triggered objects that are not the pooled proxy of their key
  rhLimit : Option Int := none
  prevBase : Option Int := none
  prevSeqPts : List Int := []
  stalled : Bool := false
  stop : Option String := none
  schedUpd : Bool := true                   -- Scheduler.is_updated
  queue : List Msg := []                    -- Scheduler.message_queue
  launched : List (Int × String × Nat) := []  -- launches of the current op
  launchX : List (Int × String × Nat × List Nat × Bool) := []   -- ... with flows and the manual-submit flag
  polls : List (Int × String) := []           -- polls requested in the current op
  absDone : List Atom := []                   -- `abs_outputs_done`
  tasksToHold : List (String × Int) := []     -- `tasks_to_hold`
  holdPoint : Option Int := none              -- `hold_point`
  stopPoint : Option Int := none              -- `TaskPool.stop_point` (dynamic: `cylc stop <point>`)
  stopMode : Option String := none            -- `Scheduler.stop_mode` (requested), `stop` = SchedulerStop raised
  stopTask : Option (Int × String) := none    -- `stop_task_id`
  stopTaskFinished : Bool := false
  paused : Bool := false
  dbStopCp : Option Int := none               -- workflow_params `stopcp` in the DB
  restartWait : Bool := false                 -- `is_restart_timeout_wait`
  db : Option (List Proxy) := none            -- `task_pool` DB table as committed by the latest main loop
  ghosts : List Proxy := []                   -- proxies removed during the current op (`transient` objects
                                              -- still referenced by the message batch being processed)
  deriving Repr, Inhabited

/-! ### Expressions -/

def BE.eval (sat : Nat → Bool) : BE → Bool
  | .atom i => sat i
  | .and l r => l.eval sat && r.eval sat
  | .or l r => l.eval sat || r.eval sat

def CE.eval (σ : String → Bool) : CE → Bool
  | .var v => σ v
  | .and l r => l.eval σ && r.eval σ
  | .or l r => l.eval σ || r.eval σ

def Pre.isSatisfied (p : Pre) : Bool :=
  match p.expr with
  | none => p.atoms.all (·.2.ok)
  | some e => e.eval fun i => match p.atoms[i]? with | some a => a.2.ok | none => false

/-- `Prerequisite.satisfy_me` for one output of one upstream instance (only if not satisfied already) -/
def Pre.satisfy (p : Pre) (a : Atom) : Pre :=
  { p with atoms := p.atoms.map fun (b, s) => if b == a && !s.ok then (b, .nat) else (b, s) }

/-- `Prerequisite.set_satisfied`: every unsatisfied atom becomes 'force satisfied' -/
def Pre.setSatisfied (p : Pre) : Pre :=
  { p with atoms := p.atoms.map fun (b, s) => if s.ok then (b, s) else (b, .forced) }

/-- `TaskProxy.force_satisfy` on one prerequisite -/
def Pre.forceSatisfy (p : Pre) (which : List Atom) (setAll : Bool) : Pre :=
  { p with atoms := p.atoms.map fun (b, s) =>
      if (setAll || which.contains b) && !s.ok then (b, .forced) else (b, s) }

/-- `Prerequisite.unset_naturally_satisfied(id)`: `(new prerequisite, changed)` -/
def Pre.unsetNatural (p : Pre) (pt : Int) (name : String) : Pre × Bool :=
  let hit (b : Atom) (s : Sat) : Bool := b.pt == pt && b.task == name && s.ok && s != .forced
  ({ p with atoms := p.atoms.map fun (b, s) => if hit b s then (b, .no) else (b, s) },
   p.atoms.any fun (b, s) => hit b s)

def Proxy.prereqsSatisfied (x : Proxy) : Bool := x.pre.all Pre.isSatisfied

def Proxy.satisfyMe (x : Proxy) (a : Atom) : Proxy :=
  { x with pre := x.pre.map (·.satisfy a), sui := x.sui.map (·.satisfy a) }

def compVar (trigger : String) : String := trigger.replace "-" "_"

/-- `TaskOutputs.is_complete` -/
def isComplete (t : TaskDefn) (done : List String) : Bool :=
  t.completion.eval fun v =>
    t.outputs.any fun o => compVar o.trigger == v && done.contains o.message

def Proxy.key (x : Proxy) : Int × String := (x.pt, x.name)

/-! ### Flow numbers (sets of naturals, kept sorted) -/

def insertNat (x : Nat) : List Nat → List Nat
  | [] => [x]
  | y :: ys => if x < y then x :: y :: ys else if x == y then y :: ys else y :: insertNat x ys

def sortNat (l : List Nat) : List Nat := l.foldl (fun acc x => insertNat x acc) []

def unionF (a b : List Nat) : List Nat := sortNat (a ++ b)

def interF (a b : List Nat) : List Nat := a.filter b.contains

def diffF (a b : List Nat) : List Nat := a.filter fun x => !b.contains x

/-- `serialise_set`: the JSON text of the sorted list, e.g. `[1, 2]` (rows of one task come back from SQLite
in the binary order of this text, the last column of the primary key) -/
def serFlows (f : List Nat) : String := "[" ++ ", ".intercalate (f.map toString) ++ "]"

/-- `FlowMgr.get_flow(flow_num)` for a given number: recorded if unknown -/
def State.useFlow (s : State) (n : Nat) : State :=
  if s.flowsKnown.contains n then s
  else { s with flowsKnown := s.flowsKnown ++ [n],
                flowsDb := if s.flowsDb.contains n then s.flowsDb else s.flowsDb ++ [n] }

def skipKnown (known : List Nat) : Nat → Nat → Nat
  | 0, c => c
  | fuel + 1, c => if known.contains c then skipKnown known fuel (c + 1) else c

/-- `FlowMgr.get_flow()`: the next unused number -/
def State.newFlow (s : State) : State × Nat :=
  let c := skipKnown s.flowsKnown s.flowsKnown.length (s.flowCounter + 1)
  (({ s with flowCounter := c }).useFlow c, c)

/-! ### Pool primitives -/

def State.get? (s : State) (p : Int) (n : String) : Option Proxy :=
  s.pool.find? fun x => x.pt == p && x.name == n

def State.put (s : State) (x : Proxy) : State :=
  { s with pool := s.pool.map fun y => if y.pt == x.pt && y.name == x.name then x else y }

/-- `add_to_pool`: no-op when the key is present -/
def State.add (s : State) (x : Proxy) : State :=
  if (s.get? x.pt x.name).isSome then s else { s with pool := s.pool ++ [x] }

/-- `TaskState.reset` for the flags used here; sets `upd` when anything changed -/
def Proxy.reset (x : Proxy) (status : Option Status := none) (queued : Option Bool := none)
    (runahead : Option Bool := none) (held : Option Bool := none) : Proxy :=
  let y := { x with status := status.getD x.status, queued := queued.getD x.queued,
                    runahead := runahead.getD x.runahead, held := held.getD x.held }
  if y.status == x.status && y.queued == x.queued && y.runahead == x.runahead && y.held == x.held then x
  else { y with upd := true }

/-- `can_be_spawned` + proxy construction; `none` when out of bounds / off sequence -/
def mkProxy (g : Graph) (name : String) (p : Int) : Option Proxy := do
  let t ← g.task? name
  if p < g.icp || p > g.fcp then none
  let d ← t.inst? p
  pure { pt := p, name := name, pre := d.pre, sui := d.sui }

/-! ### The `task_states` / `task_outputs` tables -/

/-- completed outputs in definition order (`TaskOutputs.get_completed_outputs`) -/
def canonOuts (g : Graph) (name : String) (done : List String) : List String :=
  match g.task? name with
  | some t => (t.outputs.filter fun o => done.contains o.message).map (·.message)
  | none => done

def Proxy.stRow (x : Proxy) : StRow := ⟨x.name, x.pt, x.flows, x.submitNum, x.flowWait, x.status, x.manual⟩

/-- `db_add_new_flow_rows`: queue a `task_states` row and an empty `task_outputs` row for the proxy's flows -/
def dbAddNewFlowRows (s : State) (x : Proxy) : State :=
  { s with qStIns := s.qStIns ++ [x.stRow], qOutIns := s.qOutIns ++ [⟨x.name, x.pt, x.flows, []⟩] }

/-- `put_update_task_state` (a transient object does not write its submit number) -/
def putUpdateTaskState (s : State) (x : Proxy) (transient : Bool) : State :=
  { s with qStUpd := s.qStUpd ++
      [.state x.name x.pt x.flows x.status x.flowWait x.manual (if transient then none else some x.submitNum)] }

/-- `put_update_task_outputs` -/
def putUpdateTaskOutputs (g : Graph) (s : State) (x : Proxy) : State :=
  { s with qOutUpd := s.qOutUpd ++ [.outs x.name x.pt x.flows (canonOuts g x.name x.done)] }

def insertStRow (rows : List StRow) (r : StRow) : List StRow :=
  (rows.filter fun q => !(q.name == r.name && q.pt == r.pt && q.flows == r.flows)) ++ [r]

def insertOutRow (rows : List OutRow) (r : OutRow) : List OutRow :=
  (rows.filter fun q => !(q.name == r.name && q.pt == r.pt && q.flows == r.flows)) ++ [r]

def insertByStr {α} (key : α → String) (x : α) : List α → List α
  | [] => [x]
  | y :: ys => if key x < key y then x :: y :: ys else y :: insertByStr key x ys

/-- rows of one task in the order SQLite returns them (primary-key index: binary order of `flow_nums`) -/
def selectStates (s : State) (name : String) (p : Int) : List StRow :=
  (s.stRows.filter fun r => r.name == name && r.pt == p).foldl
    (fun acc r => insertByStr (fun q : StRow => serFlows q.flows) r acc) []

def selectOutRows (s : State) (name : String) (p : Int) : List OutRow :=
  (s.outRows.filter fun r => r.name == name && r.pt == p).foldl
    (fun acc r => insertByStr (fun q : OutRow => serFlows q.flows) r acc) []

/-- `select_task_outputs`: a dict keyed by the *outputs text*: of several rows with equal outputs only the
flow numbers of the last one survive -/
def selectOutputs (s : State) (name : String) (p : Int) : List (List String × List Nat) :=
  (selectOutRows s name p).foldl (fun acc r =>
    if acc.any (fun e => e.1 == r.outs) then acc.map fun e => if e.1 == r.outs then (e.1, r.flows) else e
    else acc ++ [(r.outs, r.flows)]) []

/-- `UPDATE OR REPLACE ... SET flow_nums = new WHERE cycle, name [, flow_nums = old]` on `task_states`:
rows are updated one at a time, an updated row deletes the row that already has its new key -/
def stSetFlows (rows : List StRow) (name : String) (p : Int) (old : Option (List Nat)) (new : List Nat) : List StRow :=
  let hits := rows.filter fun r => r.name == name && r.pt == p && (match old with | some o => r.flows == o | none => true)
  hits.foldl (fun acc h =>
    if !(acc.any fun r => r == h) then acc else
    (acc.filter fun r => r == h || !(r.name == name && r.pt == p && r.flows == new)).map
      fun r => if r == h then { r with flows := new } else r) rows

def outSetFlows (rows : List OutRow) (name : String) (p : Int) (old : Option (List Nat)) (new : List Nat) : List OutRow :=
  let hits := rows.filter fun r => r.name == name && r.pt == p && (match old with | some o => r.flows == o | none => true)
  hits.foldl (fun acc h =>
    if !(acc.any fun r => r == h) then acc else
    (acc.filter fun r => r == h || !(r.name == name && r.pt == p && r.flows == new)).map
      fun r => if r == h then { r with flows := new } else r) rows

def applyStUpd (rows : List StRow) : StUpd → List StRow
  | .state n p f st fw man sn => rows.map fun r =>
      if r.name == n && r.pt == p && r.flows == f then
        { r with status := st, flowWait := fw, manual := man, submitNum := sn.getD r.submitNum } else r
  | .pool n p f sn st man => rows.map fun r =>
      if r.name == n && r.pt == p && r.flows == f then { r with submitNum := sn, status := st, manual := man } else r
  | .flowWait n p f fw => rows.map fun r =>
      if r.name == n && r.pt == p && r.flows == f then { r with flowWait := fw } else r
  | .rmAll n p => stSetFlows rows n p none []
  | .rmSome n p old new => stSetFlows rows n p (some old) new

def applyOutUpd (rows : List OutRow) : OutUpd → List OutRow
  | .outs n p f o => rows.map fun r => if r.name == n && r.pt == p && r.flows == f then { r with outs := o } else r
  | .rmAll n p => outSetFlows rows n p none []
  | .rmSome n p old new => outSetFlows rows n p (some old) new

/-- the statement kinds of a batch in order of first occurrence -/
def kindsOf (ks : List Nat) : List Nat := ks.foldl (fun acc k => if acc.contains k then acc else acc ++ [k]) []

/-- `process_queued_ops` for the two tables: inserts, then updates grouped by statement text -/
def dbFlush (s : State) : State :=
  let st := s.qStIns.foldl insertStRow s.stRows
  let st := (kindsOf (s.qStUpd.map (·.kind))).foldl (fun rows k =>
      (s.qStUpd.filter (·.kind == k)).foldl applyStUpd rows) st
  let out := s.qOutIns.foldl insertOutRow s.outRows
  let out := (kindsOf (s.qOutUpd.map (·.kind))).foldl (fun rows k =>
      (s.qOutUpd.filter (·.kind == k)).foldl applyOutUpd rows) out
  { s with stRows := st, outRows := out, qStIns := [], qStUpd := [], qOutIns := [], qOutUpd := [] }

/-- `remove_task_from_flows`: queue the flow-number updates of both tables; returns the removed flow numbers
(read from the committed tables) -/
def removeTaskFromFlows (s : State) (name : String) (p : Int) (flows : List Nat) : State × List Nat :=
  let stF := (selectStates s name p).map (·.flows)
  let outF := (selectOutRows s name p).map (·.flows)
  if flows.isEmpty then
    ({ s with qStUpd := s.qStUpd ++ [.rmAll name p], qOutUpd := s.qOutUpd ++ [.rmAll name p] },
     sortNat ((stF ++ outF).flatten))
  else
    let hit (f : List Nat) : Bool := !(interF f flows).isEmpty
    ({ s with qStUpd := s.qStUpd ++ (stF.filter hit).map (fun f => StUpd.rmSome name p f (diffF f flows)),
              qOutUpd := s.qOutUpd ++ (outF.filter hit).map (fun f => OutUpd.rmSome name p f (diffF f flows)) },
     sortNat (((stF ++ outF).filter hit).map (fun f => interF f flows)).flatten)

/-- `_get_task_history`: (submit number, status, flow-wait) of earlier instances in the given flows -/
def taskHistory (s : State) (name : String) (p : Int) (flows : List Nat) : Nat × Option Status × Bool :=
  let info := selectStates s name p
  let sn := info.foldl (fun m r => max m r.submitNum) 0
  let r := info.foldl (fun (acc : Option Status × Bool × Bool) r =>
      if acc.2.2 then acc
      else if !(interF flows r.flows).isEmpty then (some r.status, r.flowWait, r.status.isFinal)
      else acc) (none, false, false)
  (sn, r.1, r.2.1)

/-- `hold_active_task` on a proxy that need not be in the pool yet -/
def holdProxy (s : State) (x : Proxy) : State × Proxy :=
  let s := if s.tasksToHold.contains (x.name, x.pt) then s
           else { s with tasksToHold := s.tasksToHold ++ [(x.name, x.pt)] }
  (s, x.reset (held := some true))

/-- `TaskOutputs.is_complete` of a task by name (an unknown task counts as complete) -/
def completeOf (g : Graph) (name : String) (done : List String) : Bool :=
  match g.task? name with | some t => isComplete t done | none => true

/-- `_load_db_task_proxy`: build the proxy and load its completed outputs from the `task_outputs` rows of
its flows (queueing fresh rows if there are none) -/
def loadDbTaskProxy (g : Graph) (s : State) (name : String) (p : Int) (flows : List Nat)
    (status : Status) (flowWait : Bool) (sn : Nat) : State × Option Proxy :=
  match mkProxy g name p with
  | none => (s, none)
  | some x =>
    let x := { x with flows := flows, status := status, flowWait := flowWait, submitNum := sn }
    let info := selectOutputs s name p
    if info.isEmpty then (dbAddNewFlowRows s x, some x)
    else
      let seen := info.filter fun e => !(interF flows e.2).isEmpty
      let x := seen.foldl (fun (y : Proxy) e =>
          e.1.foldl (fun (z : Proxy) m => if z.done.contains m then z else { z with done := z.done ++ [m] }) y) x
      -- no row of exactly these flows (`itask.flow_nums not in info.values()`)
      let noExact := !(info.any fun e => e.2 == flows)
      let extra := match (if g.dbRowPerFlowSet then 1 else g.rowInsertMode) with
        | 0 => false
        | 1 => noExact
        | _ => noExact && !(status.isFinal && completeOf g name x.done)
      if seen.isEmpty || extra then (dbAddNewFlowRows s x, some x) else (s, some x)

/-- children of an output of an instance (`graph_children`) -/
def childrenOfInst (g : Graph) (name : String) (p : Int) (out : String) : List Child :=
  match (g.task? name).bind (·.inst? p) with
  | none => []
  | some d => match d.children.find? (·.1 == out) with
    | some (_, cs) => cs
    | none => []

/-- `spawn_on_all_outputs(itask, completed_only=True)` over a given `spawn_task` -/
def spawnOnAllWith (spawn : State → String → Int → List Nat → State × Option Proxy)
    (g : Graph) (s : State) (x : Proxy) : State :=
  if x.flows.isEmpty then s else
  let outs : List String := match g.task? x.name with
    | some t => (t.outputs.filter fun o => x.done.contains o.message).map (·.message)
    | none => []
  outs.foldl (fun st m =>
    (childrenOfInst g x.name x.pt m).foldl (fun st c =>
      if (st.get? c.pt c.name).isSome then st else
      match spawn st c.name c.pt x.flows with
      | (st, none) => st
      | (st, some y) => st.add (y.satisfyMe ⟨x.pt, x.name, m⟩)) st) s

/-- `_spawn_after_flow_wait` over a given `spawn_task`: spawn on all completed outputs, clear the flag -/
def spawnAfterFlowWait (spawn : State → String → Int → List Nat → State × Option Proxy)
    (g : Graph) (s : State) (x : Proxy) : State × Proxy :=
  let s := spawnOnAllWith spawn g s x
  let x := { x with flowWait := false }
  ({ s with qStUpd := s.qStUpd ++ [.flowWait x.name x.pt x.flows false] }, x)

/-- `spawn_task`: a new proxy is held when a hold was requested for it earlier or it lies beyond the hold point -/
def holdOnSpawn (s : State) (x : Proxy) (name : String) (p : Int) : State × Proxy :=
  if s.tasksToHold.contains (name, p) then holdProxy s x
  else match s.holdPoint with
    | some hp => if p > hp then holdProxy s x else (s, x)
    | none => (s, x)

/-- `spawn_task`: satisfy absolute triggers from the record of completed absolute outputs -/
def absSatisfy (g : Graph) (s : State) (x : Proxy) (name : String) : Proxy :=
  match g.task? name with
  | some t => if t.hasAbs && !(x.prereqsSatisfied && x.sui.all Pre.isSatisfied) then
      s.absDone.foldl (fun z a => z.satisfyMe a) x else x
  | none => x

/-- the end of `spawn_task` for a proxy that is going to be handed out: hold, absolute triggers, fresh DB rows for
a new instance -/
def spawnFinish (g : Graph) (s : State) (x : Proxy) (name : String) (p : Int) (isNew : Bool) : State × Option Proxy :=
  let r := holdOnSpawn s x name p
  let x := absSatisfy g r.1 r.2 name
  (if isNew then dbAddNewFlowRows r.1 x else r.1, some x)

/-- is the status found in the DB history a final one -/
def finalOf (prev : Option Status) : Bool :=
  match prev with | some st => st.isFinal | none => false

/-- `spawn_task`: consult the DB history of the instance in the given flows, then build the proxy; a new
proxy is held when a hold was requested for it earlier or it lies beyond the hold point -/
def spawnTaskF (g : Graph) : Nat → State → String → Int → List Nat → Bool → State × Option Proxy
  | 0, s, _, _, _, _ => (s, none)
  | fuel + 1, s, name, p, flows, flowWait =>
    let h := taskHistory s name p flows          -- (submit number, previous status, previous flow-wait)
    -- warm start: pre-start instances count as run in flow 1, unless manually triggered
    if h.2.1.isNone && p < g.start && flows.contains 1 && !s.preStart.contains (name, p) then (s, none) else
    match loadDbTaskProxy g s name p flows (h.2.1.getD .waiting) flowWait h.1 with
    | (s, none) => (s, none)
    | (s, some x) =>
      if h.2.1.isSome && x.done.isEmpty then (s, none) else     -- "task was removed"
      let complete := completeOf g name x.done
      let final := finalOf h.2.1
      -- `_spawn_after_flow_wait`
      let r := if final && h.2.2 then
          spawnAfterFlowWait (fun st n q f => spawnTaskF g fuel st n q f false) g s x
        else (s, x)
      if final && complete then (r.1, none) else       -- finished and complete: a transient object, not handed out
      spawnFinish g r.1 r.2 name p h.2.1.isNone

def spawnTask (g : Graph) (s : State) (name : String) (p : Int) (flows : List Nat) (flowWait : Bool := false) :
    State × Option Proxy :=
  spawnTaskF g g.fuel s name p flows flowWait

def spawnOnAll (g : Graph) (s : State) (x : Proxy) : State :=
  spawnOnAllWith (fun st n q f => spawnTask g st n q f) g s x

/-- `merge_flows` on a pooled proxy -/
def mergeFlows (g : Graph) (s : State) (x : Proxy) (flows : List Nat) : State :=
  if flows.isEmpty || flows == x.flows then s else
  let noFlow := x.flows.isEmpty
  let x := { x with flows := unionF x.flows flows }
  let s := dbAddNewFlowRows (s.put x) x
  let complete := completeOf g x.name x.done
  if x.status.isFinal && !complete then
    -- incomplete task absorbed by the new flow: re-queued to run again
    s.put ((x.reset (status := some .waiting)).reset (queued := some true))
  else if noFlow || x.flowWait then
    let x := { x with flowWait := false }
    spawnOnAll g (s.put x) x
  else s

/-- `get_or_spawn_task` + `add_to_pool` as used by parentless spawning -/
def spawnAndAdd (g : Graph) (s : State) (name : String) (p : Int) (flows : List Nat) : State :=
  match s.get? p name with
  | some y => mergeFlows g s y flows
  | none => match spawnTask g s name p flows with
    | (s, some x) => s.add x
    | (s, none) => s

def nextParentless (g : Graph) (x : Proxy) : Option Int := do
  let t ← g.task? x.name
  let d ← t.inst? x.pt
  d.nextParentless

/-- `spawn_next_parentless` -/
def spawnNextParentless (g : Graph) (s : State) (x : Proxy) : State :=
  if x.flows.isEmpty || x.pt < g.start then s
  else match nextParentless g x with
    | some np => spawnAndAdd g s x.name np x.flows
    | none => s

/-! ### Runahead -/

def insertSorted (x : Int) : List Int → List Int
  | [] => [x]
  | y :: ys => if x < y then x :: y :: ys else if x == y then y :: ys else y :: insertSorted x ys

def sortDedup (l : List Int) : List Int := l.foldl (fun acc x => insertSorted x acc) []

def minOf : List Int → Option Int
  | [] => none
  | x :: xs => some (xs.foldl min x)

/-- `compute_runahead` (count-cycles limit `Pn`, no future offsets); the flag is its return value -/
def computeRunaheadB (g : Graph) (s : State) (force : Bool := false) : State × Bool :=
  let base : Option Int :=
    if s.pool.isEmpty then minOf (g.seqs.filterMap fun q => q.find? (· ≥ g.start))
    else minOf (s.pool.map (·.pt))
  match base with
  | none => (s, false)
  | some b =>
    let prevBase := s.prevBase.getD b
    let s := { s with prevBase := some prevBase }
    if !force && s.rhLimit.isSome && (b == prevBase || s.rhLimit == s.stopPoint) then (s, false)
    else
      let pts : List Int :=
        if !force && !s.prevSeqPts.isEmpty && b == prevBase then s.prevSeqPts
        else sortDedup (g.seqs.flatMap fun q => (q.filter (· ≥ b)).take (g.runahead + 1))
      let limit0 : Int :=
        match (pts.take (g.runahead + 1)).getLast? with
        | none => b
        | some l => l
      let limit : Int := match s.stopPoint with
        | some sp => min sp limit0
        | none => limit0
      ({ s with prevSeqPts := pts, prevBase := some b, rhLimit := some limit }, true)

def computeRunahead (g : Graph) (s : State) (force : Bool := false) : State := (computeRunaheadB g s force).1

/-- `release_runahead_tasks`; returns whether anything was released -/
def releaseRunahead (g : Graph) (s : State) : State × Bool :=
  match s.rhLimit with
  | none => (s, false)
  | some lim =>
    if s.pool.isEmpty then (s, false) else
    let rel := s.pool.filter fun x => x.pt ≤ lim && x.runahead
    let s' := rel.foldl (fun (st : State) x =>
        let st := match st.get? x.pt x.name with
          | some y => st.put (y.reset (runahead := some false))
          | none => st
        spawnNextParentless g st x) s
    (s', !rel.isEmpty)

def releaseRunaheadN (g : Graph) : Nat → State → State
  | 0, s => s
  | n + 1, s => let (s', r) := releaseRunahead g s; if r then releaseRunaheadN g n s' else s'

/-! ### Queueing and release -/

def Proxy.isReadyToRun (x : Proxy) : Bool :=
  !x.held && x.status == .waiting && x.prereqsSatisfied && !x.retryWait

/-- `queue_if_ready` (a manually triggered task is never queued this way) -/
def queueIfReady (s : State) (x : Proxy) : State :=
  if !x.queued && !x.runahead && !x.manual && x.isReadyToRun then s.put (x.reset (queued := some true)) else s

/-- `hold_active_task` on a pooled proxy -/
def holdActive (s : State) (x : Proxy) : State :=
  let s := s.put (x.reset (held := some true))
  if s.tasksToHold.contains (x.name, x.pt) then s
  else { s with tasksToHold := s.tasksToHold ++ [(x.name, x.pt)] }

/-- `release_held_active_task` on a pooled proxy -/
def releaseHeldActive (s : State) (x : Proxy) (qir : Bool := false) : State :=
  let s :=
    if x.held then
      let y := x.reset (held := some false)
      -- (`qir`: through `queue_if_ready`, which leaves a manually triggered proxy alone)
      let y := if !y.runahead && y.isReadyToRun && !(qir && y.manual) then y.reset (queued := some true) else y
      s.put y
    else s
  { s with tasksToHold := s.tasksToHold.filter (· != (x.name, x.pt)) }

/-- `load_from_point` (the original flow is the first flow number handed out) -/
def loadFromPoint (g : Graph) : State :=
  let s : State := { stopPoint := g.stopPoint }
  let (s, f) := s.newFlow
  let s := g.tasks.foldl (fun st t =>
      match t.firstParentless with
      | some p => spawnAndAdd g st t.name p [f]
      | none => st) s
  let s := computeRunahead g s
  let s := releaseRunaheadN g 10 s
  s.pool.foldl (fun st x => match st.get? x.pt x.name with
    | some y => queueIfReady st y | none => st) s

/-- `prep_submit_task_jobs` with the stub job runner on one proxy: next submit number unless it is
preparing already, retry timers, launch; as in live mode the manual-submit flag is cleared at hand-over -/
def submitOne (s : State) (x : Proxy) : State :=
  let y := if x.status == .preparing then x
           else { (x.reset (status := some .preparing)) with submitNum := x.submitNum + 1 }
  let y := { y with live := true, timers := true, wjp := false, manual := false }
  { (s.put y) with launched := s.launched ++ [(y.pt, y.name, y.submitNum)],
                   launchX := s.launchX ++ [(y.pt, y.name, y.submitNum, y.flows, x.manual)] }

/-- `release_tasks_to_run` (not stopping): the manually triggered tasks, and unless paused the tasks released
from the (unlimited) queue plus every proxy still waiting on job preparation; paused: the latter only -/
def releaseAndSubmit (s : State) : State :=
  let now := s.toTrigger
  let s := { s with toTrigger := [] }
  let s := if s.paused then s else
    (s.pool.filter fun x => x.queued && !x.held).foldl (fun (st : State) x =>
      st.put { (x.reset (queued := some false)) with wjp := true }) s
  let pre := s.pool.filter fun x => x.wjp || now.contains (x.pt, x.name)
  let ph := s.phantoms
  if pre.isEmpty && ph.isEmpty then s else
  let s := pre.foldl submitOne s
  -- a phantom is prepared and launched like any other object, and then forgotten
  let s := ph.foldl (fun (st : State) x =>
    { st with launched := st.launched ++ [(x.pt, x.name, x.submitNum + 1)],
              launchX := st.launchX ++ [(x.pt, x.name, x.submitNum + 1, x.flows, x.manual)] }) s
  { s with schedUpd := true, phantoms := [] }

/-! ### Removal and spawning on outputs -/

/-- `remove` -/
def remove (g : Graph) (s : State) (x : Proxy) : State :=
  let s := releaseHeldActive s x g.releaseQueueIfReady
  let x := (s.get? x.pt x.name).getD x
  let s := if !x.flows.isEmpty && x.runahead then spawnNextParentless g s x else s
  if (s.get? x.pt x.name).isNone then s else
  let s := { s with pool := s.pool.filter (fun y => !(y.pt == x.pt && y.name == x.name)),
                    toTrigger := s.toTrigger.filter (· != (x.pt, x.name)),
                    preStart := s.preStart.filter (· != (x.name, x.pt)),
                    ghosts := (s.ghosts.filter fun y => !(y.pt == x.pt && y.name == x.name)) ++ [x] }
  -- final update of the `task_states` row (the object is transient by now), written at once
  dbFlush (putUpdateTaskState s x true)

/-- `remove_if_complete` -/
def removeIfComplete (g : Graph) (s : State) (x : Proxy) : State :=
  if !x.status.isFinal then s
  else
  let s := if s.stopTask == some (x.pt, x.name) then { s with stopTaskFinished := true } else s
  match g.task? x.name with
    | none => s
    | some t => if isComplete t x.done then remove g s x else s

def childrenOf (g : Graph) (x : Proxy) (out : String) : List Child := childrenOfInst g x.name x.pt out

def Proxy.suicideNow (x : Proxy) : Bool := !x.sui.isEmpty && x.sui.all Pre.isSatisfied

/-- one child of `spawn_on_output`: record an absolute output, find (merging the parent's flows) or spawn the
child, satisfy the prerequisite (for an absolute trigger: of every pooled instance of the child task),
collect suicides -/
def spawnChild (g : Graph) (p : Int) (n out : String) (flows : List Nat) (acc : State × List (Int × String))
    (c : Child) : State × List (Int × String) :=
  let (st, sui) := acc
  let atom : Atom := ⟨p, n, out⟩
  let st := if c.isAbs then
      dbFlush (if st.absDone.contains atom then st else { st with absDone := st.absDone ++ [atom] })
    else st
  let inPool := (st.get? c.pt c.name).isSome
  let (st, child) : State × Option Proxy :=
    match st.get? c.pt c.name with
    | some y =>
      if c.pt == p && c.name == n then (st, some y)       -- (avoid self-suicide: A => !A)
      else
        let st := mergeFlows g st y flows
        (st, st.get? c.pt c.name)
    | none => if flows.isEmpty then (st, none) else spawnTask g st c.name c.pt flows
  match child with
  | none => (st, sui)
  | some y =>
    let st := if inPool then st else st.add (y.satisfyMe atom)
    let targets : List (Int × String) :=
      if c.isAbs then
        let others := (st.pool.filter fun z => z.name == c.name).map fun z => (z.pt, z.name)
        if others.contains (c.pt, c.name) then others else others ++ [(c.pt, c.name)]
      else [(c.pt, c.name)]
    targets.foldl (fun (a : State × List (Int × String)) k =>
      match a.1.get? k.1 k.2 with
      | none => a
      | some z =>
        let z := z.satisfyMe atom
        (a.1.put z, if z.suicideNow && !a.2.contains k then a.2 ++ [k] else a.2)) (st, sui)

/-- `spawn_on_output` -/
def spawnOnOutput (g : Graph) (s : State) (p : Int) (n : String) (out : String) : State :=
  match s.get? p n with
  | none => s
  | some x =>
    let cs := if x.flows.isEmpty then [] else childrenOf g x out
    if x.flowWait && !cs.isEmpty then removeIfComplete g s x else     -- flow wait: not spawning
    let (s, suicides) := cs.foldl (spawnChild g p n out x.flows) (s, [])
    let s := suicides.foldl (fun (st : State) k => match st.get? k.1 k.2 with
      | some z => remove g st z
      | none => st) s
    let s := if suicides.isEmpty then s else dbFlush s
    match s.get? p n with
    | some x' => removeIfComplete g s x'
    | none => s

/-! ### Messages -/

def Proxy.isDone (x : Proxy) (msg : String) : Bool := x.done.contains msg

def hasOutput (g : Graph) (x : Proxy) (msg : String) : Bool :=
  match g.task? x.name with
  | some t => t.outputs.any (·.message == msg)
  | none => false

/-- `set_message_complete`: `some true` newly completed, `some false` already, `none` no such output -/
def setComplete (g : Graph) (x : Proxy) (msg : String) : Proxy × Option Bool :=
  if !hasOutput g x msg then (x, none)
  else if x.isDone msg then (x, some false)
  else ({ x with done := x.done ++ [msg] }, some true)

inductive Flag where | internal | received | polled
  deriving Repr, DecidableEq

/-- the live proxy, or the transient object of an instance removed earlier in this op -/
def lookup (s : State) (p : Int) (n : String) (ghostOnly : Bool := false) : Option (Proxy × Bool) :=
  match (if ghostOnly then none else s.get? p n) with
  | some x => some (x, false)
  | none => (s.ghosts.find? fun x => x.pt == p && x.name == n).map fun x => (x, true)

def store (s : State) (x : Proxy) (transient : Bool) : State :=
  if transient then
    { s with ghosts := s.ghosts.map fun y => if y.pt == x.pt && y.name == x.name then x else y }
  else s.put x

/-- `spawn_children`: the `task_outputs` row is updated; transient objects do not spawn -/
def spawnChildren (g : Graph) (s : State) (p : Int) (n : String) (out : String) (transient : Bool) : State :=
  let s := match lookup s p n transient with
    | some (x, _) => putUpdateTaskOutputs g s x
    | none => s
  if transient then s else spawnOnOutput g s p n out

/-- `process_message` for one (non-forced) message; returns the new state and whether a poll is
requested.  `fuel` bounds the implied-output recursion (depth ≤ 3).  `gh`: the message is processed on the
*transient object* of a proxy removed earlier in this op even if an instance with the same key has entered the
pool again since (`kill_tasks` holds the removed objects themselves). -/
def processMessageG (g : Graph) (gh : Bool) : Nat → State → Int → String → Flag → Nat → String → State × Bool
  | 0, s, _, _, _, _, _ => (s, false)
  | fuel + 1, s, p, n, flag, sn, msg =>
    match lookup s p n gh with
    | none => (s, false)
    | some (x, tr) =>
      -- _process_message_check (a transient object skips the checks)
      if !tr && flag == .received && sn != x.submitNum then (s, false) else
      -- a waiting task with a retry lined up ignores (late) messages
      if !tr && x.status == .waiting && x.live && (x.subTry > 0 || x.execTry > 0) then (s, false) else
      -- complete the corresponding output
      let (x, completed) :=
        if msg == "submit-failed" || msg == "failed" then (x, some false)
        else setComplete g x msg
      let s := store s x tr
      -- implied outputs first
      let implied : List String :=
        (if msg == "succeeded" || msg == "failed" then ["submitted", "started"]
         else if msg == "started" then ["submitted"] else []).filter fun m => !x.isDone m
      let s := implied.foldl (fun st m => (processMessageG g gh fuel st p n .internal sn m).1) s
      match lookup s p n gh with
      | none => (s, false)
      | some (x, tr) =>
      if msg == "started" then
        if flag == .received && x.status.rank > Status.running.rank then (s, true) else
        -- submission was successful: the submission try number is reset
        let s := store s { (x.reset (status := some .running)) with subTry := 0 } tr
        (spawnChildren g s p n "started" tr, false)
      else if msg == "succeeded" then
        let s := store s (x.reset (status := some .succeeded)) tr
        (spawnChildren g s p n "succeeded" tr, false)
      else if msg == "failed" then
        if flag == .received && x.status.rank > Status.failed.rank then (s, true) else
        let maxTry := match g.task? n with | some t => t.execRetries | none => 0
        if x.timers && x.execTry < maxTry then
          -- an execution retry is lined up: back to waiting behind a retry xtrigger
          let y := { (x.reset (status := some .waiting)) with execTry := x.execTry + 1, retryWait := true }
          (store s y tr, false)
        else
        -- definitive failure
        let y := x.reset (status := some .failed)
        let (y, _) := if x.status != .failed then setComplete g y "failed" else (y, none)
        let s := store s y tr
        -- a proxy removed by command is not part of the pool update: its row is written here
        let s := if x.status != .failed && x.removed then putUpdateTaskState s y true else s
        (spawnChildren g s p n "failed" tr, false)
      else if msg == "submit-failed" then
        if flag == .received && x.status.rank > Status.submitFailed.rank then (s, true) else
        let maxTry := match g.task? n with | some t => t.subRetries | none => 0
        if x.timers && x.subTry < maxTry then
          let y := { (x.reset (status := some .waiting)) with subTry := x.subTry + 1, retryWait := true }
          (store s y tr, false)
        else
        let y := x.reset (status := some .submitFailed)
        let (y, _) := if x.status != .submitFailed then setComplete g y "submit-failed" else (y, none)
        let s := store s y tr
        let s := if x.status != .submitFailed && x.removed then putUpdateTaskState s y true else s
        (spawnChildren g s p n "submit-failed" tr, false)
      else if msg == "submitted" then
        if flag == .received && x.status.rank ≥ Status.submitted.rank then (s, true) else
        let s := if x.status == .preparing then
            store s ((x.reset (status := some .submitted)).reset (queued := some false)) tr else s
        (spawnChildren g s p n "submitted" tr, false)
      else if completed == some true then
        (spawnChildren g s p n msg tr, false)
      else (s, false)

def processMessage (g : Graph) : Nat → State → Int → String → Flag → Nat → String → State × Bool :=
  processMessageG g false

/-- group queued messages by task id in order of first arrival (`dict.setdefault`) -/
def groupMsgs (q : List Msg) : List ((Int × String) × List Msg) :=
  q.foldl (fun acc m =>
    if acc.any (fun e => e.1 == (m.pt, m.name)) then
      acc.map fun e => if e.1 == (m.pt, m.name) then (e.1, e.2 ++ [m]) else e
    else acc ++ [((m.pt, m.name), [m])]) []

/-- `process_queued_task_messages` -/
def processQueue (g : Graph) (s : State) : State :=
  let groups := groupMsgs s.queue
  let s := { s with queue := [] }
  groups.foldl (fun (st : State) grp =>
    let (p, n) := grp.1
    match st.get? p n with
    | none => st                                   -- no proxy: job-only processing
    | some _ =>
      let (st, poll) := grp.2.foldl (fun (acc : State × Bool) m =>
          let (st', pl) := processMessage g 4 acc.1 p n .received m.submitNum m.text
          (st', acc.2 || pl)) (st, false)
      if poll then { st with polls := st.polls ++ [(p, n)] } else st) s

/-! ### Stall and shutdown -/

/-- `TaskPool.is_stalled` (no stop point) -/
def isStalled (g : Graph) (s : State) : Bool :=
  if s.pool.any (fun x => x.status.isActive || x.status == .preparing ||
      (x.status == .waiting && !x.runahead && x.prereqsSatisfied)) then false
  else
    let incomplete := s.pool.any fun x => x.status.isFinal &&
      (match g.task? x.name with | some t => !isComplete t x.done | none => false)
    let beyond (p : Int) : Bool := match s.stopPoint with | some sp => p > sp | none => false
    let unsatisfied := s.pool.any fun x => !beyond x.pt && x.pre.any fun pr =>
      !pr.isSatisfied && pr.atoms.any (fun a => !a.2.ok && !beyond a.1.pt)
    incomplete || unsatisfied

/-- `check_workflow_stalled` -/
def checkStalled (g : Graph) (s : State) : State :=
  if s.stalled then s else if s.paused then s else if isStalled g s then { s with stalled := true } else s

/-- `check_auto_shutdown` (with its stall-check side effect) -/
def checkAutoShutdown (g : Graph) (s : State) : State × Bool :=
  if s.paused || s.restartWait then (s, false) else
  let s := checkStalled g s
  if s.stalled then (s, false)
  else if s.pool.any (fun x => x.status == .preparing || x.status == .submitted ||
      x.status == .running || (x.status == .waiting && !x.runahead)) then (s, false)
  else ({ s with dbStopCp := none }, true)      -- the stop point is forgotten once reached

/-! ### Operations -/

/-- `--flow=` of a command after validation: default `[]`, `new`, `none`, or integers -/
inductive FlowSpec where
  | dflt | new | none | nums (ns : List Nat)
  deriving Repr, DecidableEq, Inhabited

/-- iteration orders of one connected group that come out of Python sets / the pool's point buckets (taken
from the implementation; any lists are admissible: unknown members keep the model's own order) -/
structure GroupHint where
  ids : List (Int × String) := []      -- the members (identifies the group)
  act : List (Int × String) := []      -- order of the active members (`TaskPool.get_itasks`)
  rm : List (Int × String) := []       -- order of the ids in `_remove_matched_tasks`
  sp : List (Int × String) := []       -- order of the respawns (`_set_prereqs_tdef` calls)
  fn : List Nat := []                  -- the flow numbers used (read only by the most-recent-flow fallback)
  ch : List ((Int × String) × List (Int × String)) := []   -- per removed id: the order of its graph children (a set)
  deriving Repr, Inhabited

/-- `l` reordered: first its members named by the hint, in hint order, then the rest in their own order -/
def orderBy (hint l : List (Int × String)) : List (Int × String) :=
  (hint.foldl (fun acc k => if l.contains k && !acc.contains k then acc ++ [k] else acc) []) ++
    l.filter fun k => !hint.contains k

inductive Op where
  | loop
  | subres (pt : Int) (name : String) (ok : Bool) (sn : Nat)
  | msg (pt : Int) (name : String) (sn : Nat) (text : String)
  | hold (ids : List (Int × String))
  | release (ids : List (Int × String))
  | setHoldPoint (p : Int)
  | releaseHoldPoint
  | stop (mode : String)                  -- "REQUEST(CLEAN)" | "REQUEST(NOW)" | "REQUEST(NOW-NOW)"
  | stopPoint (p : Int)
  | stopTask (pt : Int) (name : String)
  | pause
  | resume
  | restart
  | trigger (ids : List (Int × String)) (flow : FlowSpec) (wait : Bool) (hint : List GroupHint)
  /-- `cylc remove ids [--flow=n ...]`; `order`: the iteration order of the matched id *set* (taken from the
  implementation; any list is admissible, ids it does not name keep their own order) -/
  | rm (ids : List (Int × String)) (flows : List Nat) (order : List (Int × String))
       (chs : List ((Int × String) × List (Int × String)) := [])
  deriving Repr

def clearOp (s : State) : State :=
  { s with launched := [], launchX := [], polls := [], ghosts := [], db := none, groups := [] }

/-- the queue-if-ready sweep over waiting, unqueued, released proxies -/
def sweepQueue (s : State) : State :=
  s.pool.foldl (fun st x => match st.get? x.pt x.name with
    | some y =>
      if y.status == .waiting && !y.queued && !y.runahead then
        -- zero-delay retry clock triggers are satisfied by the time of the next sweep
        let y := { y with retryWait := false }
        queueIfReady (st.put y) y
      else st
    | none => st) s

/-- end of the main loop: updated flags, DB commit of the task pool, stall check -/
def finishLoop (g : Graph) (s : State) : State :=
  let hasUpd := s.schedUpd || s.pool.any (·.upd)
  let s := if s.pool.any (·.upd) then { s with restartWait := false } else s
  -- put_task_pool: the `task_states` rows of the proxies whose state changed are updated
  let s := if hasUpd then
      { s with qStUpd := s.qStUpd ++ (s.pool.filter (·.upd)).map fun x =>
          StUpd.pool x.name x.pt x.flows x.submitNum x.status x.manual }
    else s
  let s := if hasUpd then
      { s with stalled := false, schedUpd := false, pool := s.pool.map fun x => { x with upd := false } }
    else s
  let s := { s with db := some s.pool }      -- put_task_pool + process_queued_ops
  let s := dbFlush s
  if !hasUpd && s.stopMode.isNone then checkStalled g s else s

/-- `TaskPool.can_stop` -/
def canStop (s : State) : Bool :=
  match s.stopMode with
  | none => false
  | some m =>
    if m == "REQUEST(NOW-NOW)" then true
    else !(s.pool.any fun x => (m == "REQUEST(CLEAN)" || m == "REQUEST(KILL)") && x.status.isActive)

/-- `stop_task_done` -/
def stopTaskDone (s : State) : State × Bool :=
  if s.stopTask.isSome && s.stopTaskFinished then
    ({ s with stopTask := none, stopTaskFinished := false }, true)
  else (s, false)

/-- one iteration of `Scheduler._main_loop` -/
def mainLoop (g : Graph) (s : State) : State :=
  if s.stop.isSome then s else
  let s := computeRunahead g s
  let s := (releaseRunahead g s).1
  -- workflow_shutdown
  let s :=
    if s.stopMode.isNone then
      let (s, std) := stopTaskDone s
      if std then { s with stopMode := some "AUTOMATIC" }
      else
        let (s, auto) := checkAutoShutdown g s
        if auto then { s with stopMode := some "AUTOMATIC" } else s
    else s
  if canStop s then { s with stop := s.stopMode } else
  let s := sweepQueue s
  let s := if s.stopMode.isNone then releaseAndSubmit s else s
  let s := processQueue g s
  finishLoop g s

/-- `set_stop_point` -/
def setStopPoint (s : State) (p : Int) : State :=
  if s.stopPoint == some p then s else
  let s := { s with stopPoint := some p, dbStopCp := some p }
  match s.rhLimit with
  | some l =>
    if l > p then
      { s with rhLimit := some p,
               pool := s.pool.map fun x =>
                 if x.pt > p && x.status == .waiting then x.reset (runahead := some true) else x }
    else s
  | none => s

/-- `set_hold_point` -/
def setHoldPoint (s : State) (p : Int) : State :=
  let s := { s with holdPoint := some p }
  s.pool.foldl (fun st x => if x.pt > p then
      match st.get? x.pt x.name with | some y => holdActive st y | none => st
    else st) s

/-- `hold_tasks` (ids are valid instances: pooled ones are held, future ones recorded) -/
def holdTasks (s : State) (ids : List (Int × String)) : State :=
  ids.foldl (fun st k => match st.get? k.1 k.2 with
    | some y => holdActive st y
    | none => if st.tasksToHold.contains (k.2, k.1) then st
              else { st with tasksToHold := st.tasksToHold ++ [(k.2, k.1)] }) s

/-- `release_held_tasks`: only ids currently in `tasks_to_hold` are matched -/
def releaseTasks (s : State) (ids : List (Int × String)) (qir : Bool := false) : State :=
  ids.foldl (fun st k =>
    if !st.tasksToHold.contains (k.2, k.1) then st else
    match st.get? k.1 k.2 with
    | some y => releaseHeldActive st y qir
    | none => { st with tasksToHold := st.tasksToHold.filter (· != (k.2, k.1)) }) s

/-- `release_hold_point` -/
def releaseHoldPoint (s : State) (qir : Bool := false) : State :=
  let s := { s with holdPoint := none }
  let s := s.pool.foldl (fun st x => match st.get? x.pt x.name with
    | some y => releaseHeldActive st y qir | none => st) s
  { s with tasksToHold := [] }

/-- clean restart from the database written at shutdown (`load_db_task_pool_for_restart`, `configure`) -/
def restart (g : Graph) (s : State) : State :=
  -- shutdown: `put_task_pool` (rows of the proxies changed since the last main loop), then the queue is written
  let shut : List StUpd := (s.pool.filter (·.upd)).map fun x =>
      StUpd.pool x.name x.pt x.flows x.submitNum x.status x.manual
  let s := dbFlush { s with qStUpd := s.qStUpd ++ shut }
  let restore (x : Proxy) : Proxy :=
    let (status, sn) := if x.status == .preparing then (Status.waiting, x.submitNum - 1) else (x.status, x.submitNum)
    let keepOut := status == .running || status == .failed || status == .succeeded
    let final := status == .failed || status == .succeeded || status == .expired
    { x with status := status, submitNum := sn, done := if keepOut then x.done else [],
             queued := false, runahead := !final && !x.manual, retryWait := false, live := false, wjp := false,
             upd := (x.status == .preparing) || final || x.manual }
  -- stop point: DB `stopcp`, else flow.cylc, else the final point
  let cfgStop : Option Int := match s.dbStopCp with | some p => some p | none => g.cfgStop
  -- `select_task_pool_for_restart`: `task_pool` JOIN `task_states` on (cycle, name, flow_nums) -- a pooled proxy
  -- without a `task_states` row for exactly its flows is not loaded; submit number, flow-wait and manual-submit
  -- flags come from that row, the completed outputs from the `task_outputs` row of the same key (LEFT JOIN)
  let joined : List Proxy := s.pool.filterMap fun x =>
    match s.stRows.find? fun r => r.name == x.name && r.pt == x.pt && r.flows == x.flows with
    | none => none
    | some r =>
      let outs := match s.outRows.find? fun o => o.name == x.name && o.pt == x.pt && o.flows == x.flows with
        | some o => o.outs
        | none => []
      some { x with submitNum := r.submitNum, flowWait := r.flowWait, manual := r.manual, done := outs }
  let pool := joined.map restore
  let wait := pool.isEmpty || (match cfgStop with
    | some sp => pool.all (fun x => x.pt > sp)
    | none => false)
  let s' : State :=
    { pool := pool, absDone := s.absDone,
      tasksToHold := s.tasksToHold, holdPoint := s.holdPoint, stopPoint := some (cfgStop.getD g.fcp),
      dbStopCp := s.dbStopCp, restartWait := wait,
      stopTask := s.stopTask, stopTaskFinished := false, schedUpd := true,
      stRows := s.stRows, outRows := s.outRows, flowsDb := s.flowsDb,
      -- `FlowMgr.load_from_db`: the counter is the largest recorded flow number
      flowCounter := s.flowsDb.foldl max 0,
      flowsKnown := s.flowsDb.filter fun f => pool.any (·.flows.contains f) }
  -- `configure` re-applies the hold point after the pool is loaded
  match s'.holdPoint with
  | some hp => setHoldPoint s' hp
  | none => s'

/-! ### Group trigger (`cylc trigger`) -/

/-- `TaskProxy.match_flows`: empty argument = all flows; a no-flow proxy matches nothing -/
def Proxy.matchFlows (x : Proxy) (flows : List Nat) : List Nat :=
  if flows.isEmpty || x.flows.isEmpty then x.flows else interF x.flows flows

/-- `_get_active_flow_nums`: the flows of the pool, else the flows of the most recent `task_states` row
that has flows, else flow 1 -/
def activeFlowNums (s : State) (hint : List Nat := []) : List Nat :=
  let a := sortNat (s.pool.flatMap (·.flows))
  if !a.isEmpty then a else
  -- `select_latest_flow_nums`: the row with the latest creation *time stamp* (one-second resolution: among the
  -- rows created within the same second the choice is SQLite's); the hint names the row the implementation
  -- picked and is used when it is the flow-number set of some row, else the last row inserted
  let rows := s.stRows.filter fun r => !r.flows.isEmpty
  if !hint.isEmpty && rows.any (·.flows == hint) then hint else
  match rows.getLast? with
  | some r => r.flows
  | none => [1]

/-- `FlowMgr.cli_to_flow_nums` -/
def cliToFlowNums (s : State) : FlowSpec → State × List Nat
  | .dflt => (s, [])
  | .none => (s, [])
  | .new => let (s, f) := s.newFlow; (s, [f])
  | .nums ns => (ns.foldl State.useFlow s, sortNat ns)

/-- the proxy after `queue_or_trigger` (unlimited queue: never pushed; a queued task leaves the queue):
manual, waiting, not queued, waiting on job preparation -/
def triggeredProxy (x : Proxy) : Proxy :=
  let y := ({ x with manual := true }).reset (status := some .waiting)
  let z := if y.queued then y.reset (queued := some false) else y
  { z with wjp := true }

/-- `queue_or_trigger` on a pooled proxy -/
def queueOrTrigger (s : State) (x : Proxy) : State :=
  let s := s.put (triggeredProxy x)
  if s.toTrigger.contains (x.pt, x.name) then s else { s with toTrigger := s.toTrigger ++ [(x.pt, x.name)] }

/-- `queue_or_trigger` with the early return for a proxy that is already waiting on job preparation (`skip`) -/
def queueOrTriggerG (skip : Bool) (s : State) (x : Proxy) : State :=
  if skip && x.wjp then s.put { x with manual := true } else queueOrTrigger s x

def instOf (g : Graph) (k : Int × String) : Option InstDef := (g.task? k.2).bind (·.inst? k.1)

/-- all graph children of an instance (over all outputs), without duplicates -/
def allChildren (g : Graph) (k : Int × String) : List (Int × String) :=
  match instOf g k with
  | none => []
  | some d => (d.children.flatMap fun e => e.2.map fun c => (c.pt, c.name)).foldl
      (fun acc c => if acc.contains c then acc else acc ++ [c]) []

def Proxy.anySatisfied (x : Proxy) : Bool := x.pre.any fun p => p.atoms.any (·.2.ok)

def storeGhost (s : State) (x : Proxy) : State :=
  { s with ghosts := s.ghosts.map fun y => if y.pt == x.pt && y.name == x.name then x else y }

/-- `Scheduler.kill_tasks` (simulation mode: jobless) on the transient objects of proxies removed by command:
held, then a preparing one fails its submission, an active one is set failed directly -/
def killTasks (g : Graph) (s : State) (keys : List (Int × String)) : State :=
  keys.foldl (fun (st : State) k =>
    match st.ghosts.find? fun y => y.pt == k.1 && y.name == k.2 with
    | none => st
    | some x =>
      if !(x.status == .preparing || x.status.isActive) then st else
      let st := storeGhost st (x.reset (held := some true))
      let st := if st.tasksToHold.contains (x.name, x.pt) then st
                else { st with tasksToHold := st.tasksToHold ++ [(x.name, x.pt)] }
      if x.status == .preparing then
        let st := storeGhost st { (x.reset (held := some true)) with wjp := false, manual := false, timers := true }
        (processMessageG g true 4 st k.1 k.2 .internal x.submitNum "submit-failed").1
      else (processMessageG g true 4 st k.1 k.2 .received x.submitNum "failed").1) s

/-- `_remove_matched_tasks`, inner loop: one graph child `ck` of the matched id `k`.  A pooled child in the
flows concerned has its prerequisites that `k` satisfied naturally unset; if it is then no longer ready (not yet
preparing, in no other flow, not all prerequisites satisfied) it leaves the queue, and if moreover it is not itself
matched and has no satisfied prerequisite left it is removed from the pool and from those flows in the DB.  The
flag records whether any prerequisite changed. -/
def standDown (g : Graph) (ids : List (Int × String)) (k : Int × String) (flows : List Nat)
    (acc : State × Bool) (ck : Int × String) : State × Bool :=
  let (st, any) := acc
  match st.get? ck.1 ck.2 with
  | none => acc
  | some c =>
    let fr := c.matchFlows flows
    if fr.isEmpty then acc else
    let pre := c.pre.map fun p => p.unsetNatural k.1 k.2
    let sui := c.sui.map fun p => p.unsetNatural k.1 k.2
    if !(pre.any (·.2) || sui.any (·.2)) then acc else
    let c := { c with pre := pre.map (·.1), sui := sui.map (·.1) }
    let st := st.put c
    if c.status.rank ≥ Status.preparing.rank || c.flows != fr || c.prereqsSatisfied then (st, true) else
    let c := c.reset (queued := some false)          -- unqueue_task
    let st := st.put c
    if ids.contains ck || c.anySatisfied then (st, true) else
    let st := remove g st c
    ((removeTaskFromFlows st c.name c.pt fr).1, true)

/-- the matched id is removed from the flows in the DB tables (`remove_task_from_flows`); with the repaired code
the queued operations are written at once, with the code as found they stay queued until the next commit -/
def eraseHistory (g : Graph) (s : State) (k : Int × String) (flows : List Nat) : State × List Nat :=
  let (s, dbRemoved) := removeTaskFromFlows s k.2 k.1 flows
  (if g.rmCommits then dbFlush s else s, dbRemoved)

/-- the part of `_remove_matched_tasks` after the pool removal of one id: downstream proxies stand down, then
the id is removed from the flows in the DB tables -/
def removeDownstream (g : Graph) (s : State) (ids : List (Int × String)) (k : Int × String) (flows : List Nat)
    (ch : List (Int × String) := []) : State × Bool :=
  -- (the graph children are a Python set: `ch` = the order in which the implementation walked them)
  let (s, any) := (orderBy ch (allChildren g k)).foldl (standDown g ids k flows) (s, false)
  let (s, dbRemoved) := eraseHistory g s k flows
  (s, any || !dbRemoved.isEmpty)

/-- `_remove_matched_tasks`, the pool part for a matched id that is in the pool as `x`, `fr` = the flows to
remove (`match_flows`, not empty): out of the pool if no flow is left (the object lives on as a transient
one, marked `removed`, to be killed), else only the flow numbers go -/
def removePooled (g : Graph) (st : State) (x : Proxy) (fr : List Nat) : State :=
  if fr == x.flows then
    let st := remove g st x
    match st.ghosts.find? fun y => y.pt == x.pt && y.name == x.name with
    | some y => storeGhost st { y with removed := true, flows := [] }
    | none => st
  else st.put { x with flows := diffF x.flows fr }

/-- `_remove_matched_tasks`, outer loop: one matched id -/
def removeOne (g : Graph) (ids : List (Int × String)) (flows : List Nat)
    (chs : List ((Int × String) × List (Int × String)))
    (acc : State × List (Int × String) × Bool) (k : Int × String) : State × List (Int × String) × Bool :=
  let (st, toKill, any) := acc
  let ch := ((chs.find? (·.1 == k)).map (·.2)).getD []
  match st.get? k.1 k.2 with
  | some x =>
    let fr := x.matchFlows flows
    if fr.isEmpty then
      -- not removable from the pool; code as found: nothing at all happens for this id
      if g.rmAlwaysDb then
        let (st, ch) := removeDownstream g st ids k flows ch
        (st, toKill, any || ch)
      else acc
    else
    let st := removePooled g st x fr
    let toKill := if fr == x.flows then toKill ++ [k] else toKill
    let (st, _) := removeDownstream g st ids k flows ch
    (st, toKill, true)
  | none =>
    let (st, ch) := removeDownstream g st ids k flows ch
    (st, toKill, any || ch)

def removeCore (g : Graph) (s : State) (ids : List (Int × String)) (flows : List Nat)
    (chs : List ((Int × String) × List (Int × String)) := []) : State × List (Int × String) × Bool :=
  ids.foldl (removeOne g ids flows chs) (s, [], false)

/-- `_remove_matched_tasks(ids, flow_nums)` -/
def removeMatched (g : Graph) (s : State) (ids : List (Int × String)) (flows : List Nat)
    (chs : List ((Int × String) × List (Int × String)) := []) : State :=
  -- (repaired code) pending DB operations are written first: `remove_task_from_flows` reads the committed rows
  let s := if g.rmCommits then dbFlush s else s
  let (s, toKill, any) := removeCore g s ids flows chs
  let s := if toKill.isEmpty then s else killTasks g s toKill
  if any then
    let (s, changed) := computeRunaheadB g s
    if changed then (releaseRunahead g s).1 else s
  else s

/-- `_set_prereqs_tdef`: spawn an inactive task with the given prerequisites forced; `some key` if the new
proxy entered the pool.  (If the key is in the pool already the new object is not added; it is kept as a
*phantom* when it is then triggered -- see `forceTriggerGroup`.) -/
def setPrereqsTdef (g : Graph) (s : State) (k : Int × String) (atoms : List Atom) (setAll : Bool)
    (flows : List Nat) (wait : Bool) : State × Option Proxy × Bool :=
  match spawnTask g s k.2 k.1 flows wait with
  | (s, none) => (s, none, false)
  | (s, some x) =>
    let s := dbAddNewFlowRows s x
    let x := { x with pre := x.pre.map (·.forceSatisfy atoms setAll), retryWait := false }
    if (s.get? k.1 k.2).isSome then (s, some x, false) else (s.add x, some x, true)

/-- completed outputs of the live (submitted / running) group-start members seen so far -/
abbrev Completed := List ((Int × String) × List String)

/-- `_force_trigger_tasks`, first loop, one active member `k`: a member with an in-group trigger parent is
queued for removal; a group-start member that is live (preparing / submitted / running) only has the flows
merged; any other group-start member gets all prerequisites satisfied, the flows merged, and is triggered -/
def trigActiveOne (g : Graph) (group : List (Int × String)) (flow : FlowSpec) (flowNums : List Nat)
    (acc : State × List (Int × String) × Completed) (k : Int × String) : State × List (Int × String) × Completed :=
  let (st, toRemove, completed) := acc
  match st.get? k.1 k.2, instOf g k with
  | some x, some d =>
    if d.trigParents.any group.contains then (st, toRemove ++ [k], completed) else
    if flow == .none && !x.flows.isEmpty then acc else      -- already active: no-flow trigger ignored
    let completed := if x.status.isActive && !x.done.isEmpty then completed ++ [(k, x.done)] else completed
    if x.status == .preparing || x.status.isActive then
      (mergeFlows g st x flowNums, toRemove, completed)
    else
      let x := { x with pre := x.pre.map Pre.setSatisfied, retryWait := false }
      let st := mergeFlows g (st.put x) x flowNums
      match st.get? k.1 k.2 with
      | some x => (queueOrTriggerG g.qotSkipsPrepped st x, toRemove, completed)
      | none => (st, toRemove, completed)
  | _, _ => acc

/-- the prerequisite atoms `_force_trigger_tasks` force-satisfies in a removed member that is not parentless:
the off-group atoms of its TaskDef, and the atoms on live group-start members -- on their *completed*
outputs (`anyOutput = false`), or on any output once they have completed some output (`anyOutput = true`) -/
def respawnAtoms (anyOutput : Bool) (group : List (Int × String)) (completed : Completed) (d : InstDef) : List Atom :=
  let off := d.tdefAtoms.filter fun a => !group.contains (a.pt, a.task)
  let done := d.tdefAtoms.filter fun a =>
    match completed.find? (·.1 == (a.pt, a.task)) with
    | some e => anyOutput || e.2.contains a.out
    | none => false
  off ++ done

/-- `_force_trigger_tasks`, last loop, one removed member `k`: respawn with the off-group prerequisites
satisfied; trigger it if it has no in-group prerequisite -/
def respawnOne (g : Graph) (group : List (Int × String)) (completed : Completed) (flowNums : List Nat) (wait : Bool)
    (st : State) (k : Int × String) : State :=
  match instOf g k with
  | none => st
  | some d =>
    let (st, j, pooled, inFlow) : State × Option Proxy × Bool × Bool :=
      if d.parentlessIcp then
        let (st, j, pooled) := setPrereqsTdef g st k [] true flowNums wait
        (st, j, pooled, false)
      else
        let inFlow := d.tdefAtoms.any fun a => group.contains (a.pt, a.task)
        let atoms := respawnAtoms g.anyOutput group completed d
        if atoms.isEmpty then (st, none, false, inFlow) else
        let (st, j, pooled) := setPrereqsTdef g st k atoms false flowNums wait
        (st, j, pooled, inFlow)
    match j with
    | none => st
    | some x =>
      if inFlow then st else
      if pooled then
        match st.get? k.1 k.2 with
        | some y => queueOrTriggerG g.qotSkipsPrepped st y
        | none => st
      else if !g.triggerUnpooled then st
      else
        -- the object is not the pooled proxy: it is triggered all the same
        { st with phantoms := st.phantoms ++ [{ (x.reset (status := some .waiting)) with manual := true, wjp := true }] }

/-- `_force_trigger_tasks` on one connected group -/
def forceTriggerGroup (g : Graph) (s : State) (group : List (Int × String)) (flow : FlowSpec) (wait : Bool)
    (h : GroupHint := {}) : State :=
  let active := orderBy h.act ((s.pool.filter fun x => group.contains (x.pt, x.name)).map fun x => (x.pt, x.name))
  let inactive := group.filter fun k => !active.contains k
  let (s, flowNums) : State × List Nat :=
    if flow != .dflt || active.isEmpty then
      let (s, f) := cliToFlowNums s flow
      if flow != .none && f.isEmpty then (s, activeFlowNums s h.fn) else (s, f)
    else (s, sortNat (s.pool.flatMap fun x => if group.contains (x.pt, x.name) then x.flows else []))
  -- active members: group-start ones are triggered now (live ones left alone), the others are to be removed
  let (s, toRemove, completed) := active.foldl (trigActiveOne g group flow flowNums) (s, [], [])
  let ids := orderBy h.rm (toRemove ++ inactive)
  let s :=
    if flow == .none then s else
    let s := removeMatched g s ids flowNums h.ch
    let s := { s with preStart := ids.foldl (fun acc k =>
        if k.1 < g.start && !acc.contains (k.2, k.1) then acc ++ [(k.2, k.1)] else acc) s.preStart }
    dbFlush (releaseTasks s ids g.releaseQueueIfReady)
  -- respawn the removed members with their off-group prerequisites satisfied; group-start ones are triggered
  let s := (orderBy h.sp (inactive ++ toRemove)).foldl (respawnOne g group completed flowNums wait) s
  (releaseRunahead g s).1

/-- members `a`, `b` are adjacent when one has a trigger on the other -/
def adjacent (g : Graph) (a b : Int × String) : Bool :=
  (match instOf g a with | some d => d.trigParents.contains b | none => false) ||
  (match instOf g b with | some d => d.trigParents.contains a | none => false)

/-- one round: every id adjacent to a member of the component joins it -/
def growGroup (g : Graph) (ids comp : List (Int × String)) : List (Int × String) :=
  ids.foldl (fun c k => if !c.contains k && c.any (adjacent g k) then c ++ [k] else c) comp

def closeGroup (g : Graph) (ids : List (Int × String)) : Nat → List (Int × String) → List (Int × String)
  | 0, comp => comp
  | n + 1, comp => closeGroup g ids n (growGroup g ids comp)

/-- connected components of the undirected graph "member has a trigger on member" -/
def groupsOf (g : Graph) (ids : List (Int × String)) : List (List (Int × String)) :=
  ids.foldl (fun (acc : List (List (Int × String))) k =>
    if acc.any (·.contains k) then acc else acc ++ [closeGroup g ids ids.length [k]]) []

def sameMembers (a b : List (Int × String)) : Bool := a.all b.contains && b.all a.contains

/-- `force_trigger_tasks`: the ids (valid instances) are split into connected groups, each triggered on its
own.  The order of the groups is a Python set order: taken from the hint when it is a permutation of the
groups computed here. -/
def forceTrigger (g : Graph) (s : State) (ids : List (Int × String)) (flow : FlowSpec) (wait : Bool)
    (hint : List GroupHint) : State :=
  let ids := ids.foldl (fun acc k => if acc.contains k || (instOf g k).isNone then acc else acc ++ [k]) []
  let groups := groupsOf g ids
  let order : List (List (Int × String) × GroupHint) :=
    if hint.length == groups.length && hint.all (fun h => groups.any (sameMembers h.ids)) &&
       groups.all (fun q => hint.any (fun h => sameMembers q h.ids)) then
      hint.filterMap fun h => (groups.find? (sameMembers h.ids)).map fun q => (q, h)
    else groups.map fun q => (q, {})
  let s := { s with groups := groups }
  order.foldl (fun st grp => forceTriggerGroup g st grp.1 flow wait grp.2) s

/-- `remove_tasks` (`cylc remove`): the ids that name task instances of the graph (`id_match`; anything else is
reported as unmatched), the `--flow` numbers through `FlowMgr.cli_to_flow_nums` (an unknown number is recorded as
a new flow -- only when something matched), then `_remove_matched_tasks` -/
def removeTasks (g : Graph) (s : State) (ids : List (Int × String)) (flows : List Nat)
    (order : List (Int × String)) (chs : List ((Int × String) × List (Int × String)) := []) : State :=
  let ids := ids.foldl (fun acc k => if acc.contains k || (instOf g k).isNone then acc else acc ++ [k]) []
  if ids.isEmpty then s else
  let s := flows.foldl State.useFlow s
  removeMatched g s (orderBy order ids) (sortNat flows) chs

def step (g : Graph) (s : State) (op : Op) : State :=
  let s := clearOp s
  match op with
  | .loop => mainLoop g s
  | .subres p n ok sn =>
      (processMessage g 4 s p n .internal sn (if ok then "submitted" else "submit-failed")).1
  | .msg p n sn text => { s with queue := s.queue ++ [⟨p, n, sn, text⟩] }
  | .hold ids => holdTasks s ids
  | .release ids => releaseTasks s ids g.releaseQueueIfReady
  | .setHoldPoint p => setHoldPoint s p
  | .releaseHoldPoint => releaseHoldPoint s g.releaseQueueIfReady
  | .stop mode => { s with stopMode := some mode }
  | .stopPoint p => setStopPoint s p
  | .stopTask p n => { s with stopTask := some (p, n), stopTaskFinished := false }
  | .pause => { s with paused := true }
  | .resume => { s with paused := false }
  | .restart => restart g s
  | .trigger ids flow wait hint => forceTrigger g s ids flow wait hint
  | .rm ids flows order chs => removeTasks g s ids flows order chs

def init (g : Graph) : State :=
  dbFlush (loadFromPoint g)

/-- all states of a run: after start-up, then after each op -/
def run (g : Graph) (ops : List Op) : List State :=
  (ops.foldl (fun (acc : List State × State) op =>
    let s' := step g acc.2 op
    (acc.1 ++ [s'], s')) ([init g], init g)).1

end CylcModel.Sched3Rm
