/-
`Sched3Crash` — `Sched2` extended with the private run database AS COMMITTED, kept apart from the memory of the
scheduler process, and with abrupt death + restart from that database (property C20):

* `Db` = the committed image of the tables a restart reads: `task_states` ⋈ `task_outputs` (`rows`), the
  `task_pool` / `task_prerequisites` / `task_action_timers` snapshot written by `put_task_pool` (`pool`),
  `abs_outputs`, `tasks_to_hold`, the `workflow_params` rows holdcp / stopcp / is_paused / stop_task;
* `DbQ` = the database operations queued in memory (`db_inserts_map` / `db_updates_map` / `db_deletes_map`);
* `commit` = `WorkflowDatabaseManager.process_queued_ops` (one transaction: everything queued becomes visible at
  once), called exactly where the code calls it: `TaskPool.remove`, after recording an absolute output, after
  event-driven suicides, at the end of the main loop, at start-up, at shutdown;
* `spawn_task` reads its history from the COMMITTED rows (`_get_task_history`, `_load_historical_outputs` are
  SELECTs on the private database: queued operations are invisible to them);
* ops `crash` (the process dies between two ops), `loopCrash k` (it dies inside a main loop at its k-th commit
  boundary; a death inside the transaction leaves the same database, C21) and `pollres` (one line of the result of
  the restart poll); `crashRestart` = a new scheduler started from `Db` alone.
A copy of `Sched2`, so that `Sched2` and its proofs stay frozen.  Original header of `Sched2` / v1 follows.

`Sched2` — `Sched` (v1) extended with holds, stop modes / stop point / stop task, pause and
clean restart (commands applied between main loops).  A copy, so that v1 and its proofs stay frozen.
Original header of v1 follows.

`Sched` — the scheduler core as one state machine (DESIGN §4 layer B), stage 1:
spawn-on-demand pool, runahead limiting, queue-if-ready / release, job messages,
completion-based removal, auto shutdown and stall detection, single original flow.

The model runs over an *instance graph*: for every task name and cycle point the
prerequisites (atoms + and/or expression), the graph children per output, the next
parentless point — i.e. what `TaskProxy.__init__` / `TaskDef` compute from the loaded
configuration (those static computations are the subject of C13–C16; here they are inputs).

Anchors: cylc/flow/task_pool.py (load_from_point, compute_runahead, release_runahead_tasks,
queue_if_ready, release_queued_tasks, spawn_on_output, spawn_task, remove, remove_if_complete,
is_stalled), cylc/flow/scheduler.py (_main_loop, workflow_shutdown, check_auto_shutdown,
process_queued_task_messages, check_workflow_stalled), cylc/flow/task_events_mgr.py
(process_message and helpers), cylc/flow/task_job_mgr.py (prep_submit_task_jobs).

Not modelled in this stage (never generated): commands, holds, several flows, flow-wait,
suicide triggers, xtriggers, clock expiry, queue limits, future-offset runahead extension,
stop points, Cylc-7 compatibility mode.  Core Lean only.
-/
namespace CylcModel.Sched3Crash

/-! ### Static instance graph -/

inductive Status where
  | waiting | expired | preparing | submitFailed | submitted | running | failed | succeeded
  deriving Repr, DecidableEq, Inhabited

/-- position in `TASK_STATUSES_ORDERED` -/
def Status.rank : Status → Nat
  | .waiting => 0 | .expired => 1 | .preparing => 2 | .submitFailed => 3
  | .submitted => 4 | .running => 5 | .failed => 6 | .succeeded => 7

def Status.str : Status → String
  | .waiting => "waiting" | .expired => "expired" | .preparing => "preparing"
  | .submitFailed => "submit-failed" | .submitted => "submitted" | .running => "running"
  | .failed => "failed" | .succeeded => "succeeded"

def Status.isFinal : Status → Bool
  | .expired | .submitFailed | .failed | .succeeded => true
  | _ => false

def Status.isActive : Status → Bool        -- TASK_STATUSES_ACTIVE
  | .submitted | .running => true
  | _ => false

structure Atom where
  pt : Int
  task : String
  out : String          -- the output *message*
  deriving Repr, DecidableEq, Inhabited

/-- and/or expression over atom indices (prerequisites) -/
inductive BE where
  | atom (i : Nat)
  | and (l r : BE)
  | or (l r : BE)
  deriving Repr, DecidableEq, Inhabited

/-- and/or expression over completion variables (trigger names with `-` → `_`) -/
inductive CE where
  | var (v : String)
  | and (l r : CE)
  | or (l r : CE)
  deriving Repr, DecidableEq, Inhabited

structure Pre where
  atoms : List (Atom × Bool)      -- satisfied flag
  expr : Option BE                -- `none`: conjunction of all atoms
  deriving Repr, DecidableEq, Inhabited

structure Child where
  name : String
  pt : Int
  isAbs : Bool
  deriving Repr, DecidableEq, Inhabited

structure InstDef where
  pre : List Pre
  sui : List Pre
  children : List (String × List Child)     -- keyed by output message
  nextParentless : Option Int
  deriving Repr, Inhabited

structure OutDef where
  trigger : String
  message : String
  deriving Repr, DecidableEq, Inhabited

structure TaskDefn where
  name : String
  insts : List (Int × InstDef)              -- valid points only
  firstParentless : Option Int
  completion : CE
  outputs : List OutDef
  execRetries : Nat := 0                    -- number of `execution retry delays`
  subRetries : Nat := 0                     -- number of `submission retry delays`
  hasAbs : Bool := false                    -- `TaskDef.has_abs_triggers`
  deriving Repr, Inhabited

structure Graph where
  icp : Int
  fcp : Int
  start : Int
  runahead : Nat                            -- `Pn`
  tasks : List TaskDefn                     -- in `task_name_list` order
  seqs : List (List Int)                    -- valid points of every sequence, ascending
  stopPoint : Option Int := none            -- `TaskPool.stop_point` (the final point unless set otherwise)
  cfgStop : Option Int := none              -- `[scheduling]stop after cycle point` of flow.cylc
  /-- behaviour flags (probed from the live code, `Generated/CrashFlags.lean`): the early commits of `TaskPool` —
  in `remove`, after recording an absolute output, after event-driven suicides — also write the task pool table
  (true: repaired, the tables a restart joins describe the same moment at every commit; false: code as found) -/
  poolAtRemove : Bool := false
  poolAtAbs : Bool := false
  poolAtSuicide : Bool := false
  /-- ... and so does the commit at the end of start-up (`Scheduler.configure`) -/
  poolAtStart : Bool := false
  deriving Repr, Inhabited

def Graph.task? (g : Graph) (name : String) : Option TaskDefn := g.tasks.find? (·.name == name)

def TaskDefn.inst? (t : TaskDefn) (p : Int) : Option InstDef := (t.insts.find? (·.1 == p)).map (·.2)

/-! ### Dynamic state -/

structure Proxy where
  pt : Int
  name : String
  status : Status := .waiting
  held : Bool := false
  queued : Bool := false
  runahead : Bool := true
  flows : List Nat := [1]
  submitNum : Nat := 0
  done : List String := []                  -- completed output *messages*
  pre : List Pre := []
  sui : List Pre := []
  upd : Bool := false                       -- TaskState.is_updated
  execTry : Nat := 0                        -- try_timers[EXECUTION_RETRY].num
  subTry : Nat := 0                         -- try_timers[SUBMISSION_RETRY].num
  retryWait : Bool := false                 -- an unsatisfied `_cylc_retry` / `_cylc_submit_retry` xtrigger
  live : Bool := false                      -- `run_mode == LIVE` (set at job preparation, lost on restart)
  timers : Bool := false                    -- `try_timers` exist (created at the first preparation, saved in the DB)
  deriving Repr, Inhabited

/-- one row of `task_states` together with the `task_outputs` row of the same key (single flow `[1]`) -/
structure Row where
  pt : Int
  name : String
  status : Status
  submitNum : Nat
  outs : List String := []                  -- completed output messages (`task_outputs.outputs`)
  deriving Repr, Inhabited

/-- the UPDATE statement templates used on `task_states` (distinguished by their SET columns) and `task_outputs` -/
inductive UpdKind where
  | stateTransient                          -- `put_update_task_state` of a removed (transient) proxy: status only
  | pool                                    -- the `task_states` update of `put_task_pool`: status + submit number
  | outputs                                 -- `put_update_task_outputs`
  deriving Repr, DecidableEq, Inhabited

/-- a queued UPDATE of the row (point, name) -/
structure Upd where
  kind : UpdKind
  pt : Int
  name : String
  status : Status
  submitNum : Nat
  outs : List String := []
  deriving Repr, Inhabited

/-- the private database as committed: what survives the death of the scheduler process -/
structure Db where
  rows : List Row := []                       -- `task_states` ⋈ `task_outputs`
  pool : List Proxy := []                     -- `task_pool` + `task_prerequisites` + `task_action_timers` as written by
                                              -- the latest `put_task_pool` (read: status, held, flows, pre, try state)
  abs : List Atom := []                       -- `abs_outputs`
  hold : List (String × Int) := []            -- `tasks_to_hold`
  holdCp : Option Int := none                 -- `workflow_params.holdcp`
  stopCp : Option Int := none                 -- `workflow_params.stopcp`
  paused : Bool := false                      -- `workflow_params.is_paused`
  stopTask : Option (Int × String) := none    -- `workflow_params.stop_task`
  deriving Repr, Inhabited

/-- database operations queued in the memory of the scheduler process (lost when it dies) -/
structure DbQ where
  ins : List Row := []                        -- INSERT OR REPLACE of `task_states` + `task_outputs` rows
  upd : List Upd := []                        -- UPDATEs of those rows
  pool : Option (List Proxy) := none          -- `put_task_pool`: delete everything, insert the pool
  abs : List Atom := []                       -- `put_insert_abs_output`
  hold : Option (List (String × Int)) := none -- `put_tasks_to_hold`: replace the table
  holdCp : Option (Option Int) := none
  stopCp : Option (Option Int) := none
  paused : Option Bool := none
  stopTask : Option (Option (Int × String)) := none
  deriving Repr, Inhabited

structure Msg where
  pt : Int
  name : String
  submitNum : Nat
  text : String
  deriving Repr, Inhabited

structure State where
  pool : List Proxy := []
  cdb : Db := {}                              -- the private database as committed
  q : DbQ := {}                               -- queued database operations
  fuse : Option Nat := none                   -- `some k`: the process dies at its k-th commit boundary from now
  dead : Bool := false                        -- the process has died (nothing it does from here on exists)
  ncommit : Nat := 0                          -- commit boundaries passed in the current op
  crashed : Bool := false                     -- the current op ended with a death + restart
  deadDb : Option Db := none                  -- the database file as the process that died in the current op left it
  rhLimit : Option Int := none
  prevBase : Option Int := none
  prevSeqPts : List Int := []
  stalled : Bool := false
  stop : Option String := none
  schedUpd : Bool := true                   -- Scheduler.is_updated
  queue : List Msg := []                    -- Scheduler.message_queue
  launched : List (Int × String × Nat) := []  -- launches of the current op
  polls : List (Int × String) := []           -- polls requested in the current op
  absDone : List Atom := []                   -- `abs_outputs_done`
  tasksToHold : List (String × Int) := []     -- `tasks_to_hold`
  holdPoint : Option Int := none              -- `hold_point`
  stopPoint : Option Int := none              -- `TaskPool.stop_point` (dynamic: `cylc stop <point>`)
  stopMode : Option String := none            -- `Scheduler.stop_mode` (requested), `stop` = SchedulerStop raised
  stopTask : Option (Int × String) := none    -- `stop_task_id`
  stopTaskFinished : Bool := false
  paused : Bool := false
  restartWait : Bool := false                 -- `is_restart_timeout_wait`
  db : Option (List Proxy) := none            -- `task_pool` DB table as committed by the latest main loop
  ghosts : List Proxy := []                   -- proxies removed during the current op (`transient` objects
                                              -- still referenced by the message batch being processed)
  deriving Repr, Inhabited

/-! ### Expressions -/

def BE.eval (sat : Nat → Bool) : BE → Bool
  | .atom i => sat i
  | .and l r => l.eval sat && r.eval sat
  | .or l r => l.eval sat || r.eval sat

def CE.eval (σ : String → Bool) : CE → Bool
  | .var v => σ v
  | .and l r => l.eval σ && r.eval σ
  | .or l r => l.eval σ || r.eval σ

def Pre.isSatisfied (p : Pre) : Bool :=
  match p.expr with
  | none => p.atoms.all (·.2)
  | some e => e.eval fun i => match p.atoms[i]? with | some a => a.2 | none => false

/-- `Prerequisite.satisfy_me` for one output of one upstream instance -/
def Pre.satisfy (p : Pre) (a : Atom) : Pre :=
  { p with atoms := p.atoms.map fun (b, s) => if b == a then (b, true) else (b, s) }

def Proxy.prereqsSatisfied (x : Proxy) : Bool := x.pre.all Pre.isSatisfied

def Proxy.satisfyMe (x : Proxy) (a : Atom) : Proxy :=
  { x with pre := x.pre.map (·.satisfy a), sui := x.sui.map (·.satisfy a) }

/-- `trigger_to_completion_variable`: `-` → `_` (character-wise, so that the kernel can evaluate it) -/
def compVar (trigger : String) : String :=
  String.ofList (trigger.toList.map fun c => if c == '-' then '_' else c)

/-- `TaskOutputs.is_complete` -/
def isComplete (t : TaskDefn) (done : List String) : Bool :=
  t.completion.eval fun v =>
    t.outputs.any fun o => compVar o.trigger == v && done.contains o.message

def Proxy.key (x : Proxy) : Int × String := (x.pt, x.name)

/-! ### Pool primitives -/

def State.get? (s : State) (p : Int) (n : String) : Option Proxy :=
  s.pool.find? fun x => x.pt == p && x.name == n

def State.put (s : State) (x : Proxy) : State :=
  { s with pool := s.pool.map fun y => if y.pt == x.pt && y.name == x.name then x else y }

/-- `add_to_pool`: no-op when the key is present -/
def State.add (s : State) (x : Proxy) : State :=
  if (s.get? x.pt x.name).isSome then s else { s with pool := s.pool ++ [x] }

/-- `TaskState.reset` for the flags used here; sets `upd` when anything changed -/
def Proxy.reset (x : Proxy) (status : Option Status := none) (queued : Option Bool := none)
    (runahead : Option Bool := none) (held : Option Bool := none) : Proxy :=
  let y := { x with status := status.getD x.status, queued := queued.getD x.queued,
                    runahead := runahead.getD x.runahead, held := held.getD x.held }
  if y.status == x.status && y.queued == x.queued && y.runahead == x.runahead && y.held == x.held then x
  else { y with upd := true }

/-- `can_be_spawned` + proxy construction; `none` when out of bounds / off sequence -/
def mkProxy (g : Graph) (name : String) (p : Int) : Option Proxy := do
  let t ← g.task? name
  if p < g.icp || p > g.fcp then none
  let d ← t.inst? p
  pure { pt := p, name := name, pre := d.pre, sui := d.sui }

/-! ### The private database: queued operations and the commit -/

def Row.isKey (r : Row) (p : Int) (n : String) : Bool := r.pt == p && r.name == n

/-- completed outputs of a proxy as stored in `task_outputs` (definition order) -/
def outsOf (g : Graph) (x : Proxy) : List String :=
  match g.task? x.name with
  | some t => (t.outputs.filter fun o => x.done.contains o.message).map (·.message)
  | none => []

/-- `db_add_new_flow_rows`: INSERT OR REPLACE of the `task_states` and `task_outputs` rows of the proxy (queued) -/
def dbInsert (s : State) (x : Proxy) : State :=
  { s with q := { s.q with ins := s.q.ins ++
      [{ pt := x.pt, name := x.name, status := x.status, submitNum := x.submitNum, outs := [] }] } }

def dbQueue (s : State) (kind : UpdKind) (x : Proxy) (outs : List String := []) : State :=
  { s with q := { s.q with upd := s.q.upd ++
      [{ kind := kind, pt := x.pt, name := x.name, status := x.status, submitNum := x.submitNum, outs := outs }] } }

/-- `put_update_task_outputs` -/
def dbUpdateOutputs (g : Graph) (s : State) (x : Proxy) : State := dbQueue s .outputs x (outsOf g x)

/-- `put_tasks_to_hold`: the queued replacement of the table is itself replaced -/
def dbPutHold (s : State) : State := { s with q := { s.q with hold := some s.tasksToHold } }

def Upd.apply (u : Upd) (r : Row) : Row :=
  if !r.isKey u.pt u.name then r else
  match u.kind with
  | .stateTransient => { r with status := u.status }
  | .pool => { r with status := u.status, submitNum := u.submitNum }
  | .outputs => { r with outs := u.outs }

def insRow (rows : List Row) (r : Row) : List Row := (rows.filter fun q => !q.isKey r.pt r.name) ++ [r]

def updKinds (upd : List Upd) : List UpdKind :=
  upd.foldl (fun acc u => if acc.contains u.kind then acc else acc ++ [u.kind]) []

/-- `execute_queued_items` on `task_states` / `task_outputs`: all INSERTs (in order), then the UPDATEs grouped by
statement template (groups in order of first use) -/
def flushRows (rows : List Row) (ins : List Row) (upd : List Upd) : List Row :=
  (updKinds upd).foldl (fun (rows : List Row) k =>
      (upd.filter (·.kind == k)).foldl (fun (rows : List Row) u => rows.map u.apply) rows)
    (ins.foldl insRow rows)

def addAbs (l : List Atom) (a : Atom) : List Atom := if l.contains a then l else l ++ [a]

/-- one transaction: everything queued becomes part of the committed database -/
def applyQ (d : Db) (q : DbQ) : Db :=
  { rows := flushRows d.rows q.ins q.upd,
    pool := q.pool.getD d.pool,
    abs := q.abs.foldl addAbs d.abs,
    hold := q.hold.getD d.hold,
    holdCp := q.holdCp.getD d.holdCp,
    stopCp := q.stopCp.getD d.stopCp,
    paused := q.paused.getD d.paused,
    stopTask := q.stopTask.getD d.stopTask }

/-- `WorkflowDatabaseManager.process_queued_ops`: a commit boundary.  With a burning fuse the process dies at the
boundary the fuse points to: that commit and everything after it never happens. -/
def commit (s : State) : State :=
  if s.dead then s
  else match s.fuse with
    | some 0 => { s with dead := true }
    | some (k + 1) => { s with cdb := applyQ s.cdb s.q, q := {}, fuse := some k, ncommit := s.ncommit + 1 }
    | none => { s with cdb := applyQ s.cdb s.q, q := {}, ncommit := s.ncommit + 1 }

/-- `put_task_pool`: the pool table (with prerequisites and timers) is replaced by the current pool, and the
`task_states` row of every proxy whose state changed since the last call is updated (all queued) -/
def putTaskPool (s : State) : State :=
  let s1 := s.pool.foldl (fun st x => if x.upd then dbQueue st .pool x else st) s
  { s1 with q := { s1.q with pool := some s1.pool } }

/-- an early commit of `TaskPool`: with the behaviour flag up the task pool table is written along -/
def commitP (withPool : Bool) (s : State) : State :=
  if withPool then commit (putTaskPool s) else commit s

/-- `_get_task_history` / `select_task_outputs`: the COMMITTED row of the instance -/
def histOf (s : State) (p : Int) (n : String) : Option Row := s.cdb.rows.find? fun r => r.isKey p n

/-- the proxy `spawn_task` would put into the pool given the history row: `none` = not spawned -/
def revive (g : Graph) (name : String) (x : Proxy) : Option Row → Option Proxy
  | none => some x
  | some h =>
    if h.outs.isEmpty then none                 -- "task was removed" (suicide leaves no outputs)
    else
      let y := { x with status := h.status, submitNum := h.submitNum, done := h.outs }
      if h.status.isFinal then
        match g.task? name with
        | some t => if isComplete t h.outs then none else some y    -- finished and complete: not re-run
        | none => none
      else some y

/-- a new proxy is held when a hold was requested for it earlier, or when it lies beyond the hold point (then the
hold is recorded); `hold_active_task` queues the replacement of the `tasks_to_hold` table -/
def holdNew (s : State) (name : String) (p : Int) (y : Proxy) : State × Proxy :=
  if s.tasksToHold.contains (name, p) then (dbPutHold s, y.reset (held := some true))
  else match s.holdPoint with
    | some hp => if p > hp then
        (dbPutHold { s with tasksToHold := s.tasksToHold ++ [(name, p)] }, y.reset (held := some true))
      else (s, y)
    | none => (s, y)

/-- absolute triggers are satisfied from the record of completed absolute outputs -/
def absSat (g : Graph) (s : State) (name : String) (y : Proxy) : Proxy :=
  match g.task? name with
  | some t => if t.hasAbs && !y.prereqsSatisfied then s.absDone.foldl (fun z a => z.satisfyMe a) y else y
  | none => y

/-- `spawn_task` (single flow): consult the DB history of the instance, then build the proxy;
a new proxy is held when a hold was requested for it earlier or it lies beyond the hold point -/
def spawnTask (g : Graph) (s : State) (name : String) (p : Int) : State × Option Proxy :=
  if (histOf s p name).isNone && p < g.start then (s, none)       -- warm start: pre-start instances count as run
  else match mkProxy g name p with
    | none => (s, none)
    | some x =>
      -- `_load_historical_outputs`: no committed row: new rows are queued
      let s1 := if (histOf s p name).isNone then dbInsert s x else s
      match revive g name x (histOf s p name) with
      | none => (s1, none)
      | some y =>
        let H := holdNew s1 name p y
        let y2 := absSat g H.1 name H.2
        -- a task that has not run before gets its rows (again)
        (if (histOf s p name).isNone then dbInsert H.1 y2 else H.1, some y2)

/-- `get_or_spawn_task` + `add_to_pool` as used by parentless spawning -/
def spawnAndAdd (g : Graph) (s : State) (name : String) (p : Int) : State :=
  if (s.get? p name).isSome then s            -- merge_flows: same flow, nothing to do
  else match spawnTask g s name p with
    | (s, some x) => s.add x
    | (s, none) => s

def nextParentless (g : Graph) (x : Proxy) : Option Int := do
  let t ← g.task? x.name
  let d ← t.inst? x.pt
  d.nextParentless

/-- `spawn_next_parentless` -/
def spawnNextParentless (g : Graph) (s : State) (x : Proxy) : State :=
  if x.flows.isEmpty || x.pt < g.start then s
  else match nextParentless g x with
    | some np => spawnAndAdd g s x.name np
    | none => s

/-! ### Runahead -/

def insertSorted (x : Int) : List Int → List Int
  | [] => [x]
  | y :: ys => if x < y then x :: y :: ys else if x == y then y :: ys else y :: insertSorted x ys

def sortDedup (l : List Int) : List Int := l.foldl (fun acc x => insertSorted x acc) []

def minOf : List Int → Option Int
  | [] => none
  | x :: xs => some (xs.foldl min x)

/-- `compute_runahead` (count-cycles limit `Pn`, no future offsets, no stop point) -/
def computeRunahead (g : Graph) (s : State) (force : Bool := false) : State :=
  let base : Option Int :=
    if s.pool.isEmpty then minOf (g.seqs.filterMap fun q => q.find? (· ≥ g.start))
    else minOf (s.pool.map (·.pt))
  match base with
  | none => s
  | some b =>
    let prevBase := s.prevBase.getD b
    let s := { s with prevBase := some prevBase }
    if !force && s.rhLimit.isSome && (b == prevBase || s.rhLimit == s.stopPoint) then s
    else
      let pts : List Int :=
        if !force && !s.prevSeqPts.isEmpty && b == prevBase then s.prevSeqPts
        else sortDedup (g.seqs.flatMap fun q => (q.filter (· ≥ b)).take (g.runahead + 1))
      let limit0 : Int :=
        match (pts.take (g.runahead + 1)).getLast? with
        | none => b
        | some l => l
      let limit : Int := match s.stopPoint with
        | some sp => min sp limit0
        | none => limit0
      { s with prevSeqPts := pts, prevBase := some b, rhLimit := some limit }

/-- `release_runahead_tasks`; returns whether anything was released -/
def releaseRunahead (g : Graph) (s : State) : State × Bool :=
  match s.rhLimit with
  | none => (s, false)
  | some lim =>
    if s.pool.isEmpty then (s, false) else
    let rel := s.pool.filter fun x => x.pt ≤ lim && x.runahead
    let s' := rel.foldl (fun (st : State) x =>
        let st := match st.get? x.pt x.name with
          | some y => st.put (y.reset (runahead := some false))
          | none => st
        spawnNextParentless g st x) s
    (s', !rel.isEmpty)

def releaseRunaheadN (g : Graph) : Nat → State → State
  | 0, s => s
  | n + 1, s => let (s', r) := releaseRunahead g s; if r then releaseRunaheadN g n s' else s'

/-! ### Queueing and release -/

def Proxy.isReadyToRun (x : Proxy) : Bool :=
  !x.held && x.status == .waiting && x.prereqsSatisfied && !x.retryWait

/-- `queue_if_ready` -/
def queueIfReady (s : State) (x : Proxy) : State :=
  if !x.queued && !x.runahead && x.isReadyToRun then s.put (x.reset (queued := some true)) else s

/-- `hold_active_task` on a pooled proxy -/
def holdActive (s : State) (x : Proxy) : State :=
  let s := s.put (x.reset (held := some true))
  dbPutHold (if s.tasksToHold.contains (x.name, x.pt) then s
    else { s with tasksToHold := s.tasksToHold ++ [(x.name, x.pt)] })

/-- `release_held_active_task` on a pooled proxy -/
def releaseHeldActive (s : State) (x : Proxy) : State :=
  let s :=
    if x.held then
      let y := x.reset (held := some false)
      let y := if !y.runahead && y.isReadyToRun then y.reset (queued := some true) else y
      s.put y
    else s
  dbPutHold { s with tasksToHold := s.tasksToHold.filter (· != (x.name, x.pt)) }

/-- `load_from_point` -/
def loadFromPoint (g : Graph) : State :=
  let s : State := { stopPoint := g.stopPoint }
  let s := g.tasks.foldl (fun st t =>
      match t.firstParentless with
      | some p => spawnAndAdd g st t.name p
      | none => st) s
  let s := computeRunahead g s
  let s := releaseRunaheadN g 10 s
  s.pool.foldl (fun st x => match st.get? x.pt x.name with
    | some y => queueIfReady st y | none => st) s

/-- `release_queued_tasks` (unlimited queues) + `prep_submit_task_jobs` with the stub job runner:
every queued task enters `preparing` under the next submit number and is launched. -/
def releaseAndSubmit (s : State) : State :=
  let rel := s.pool.filter fun x => x.queued && !x.held
  if rel.isEmpty then s else
  let s := rel.foldl (fun (st : State) x =>
      let y := x.reset (queued := some false)
      let y := { (y.reset (status := some .preparing)) with submitNum := x.submitNum + 1, live := true, timers := true }
      { (st.put y) with launched := st.launched ++ [(x.pt, x.name, x.submitNum + 1)] }) s
  { s with schedUpd := true }

/-! ### Removal and spawning on outputs -/

/-- the proxy leaves the pool; its object lives on as a transient one while the current op still refers to it -/
def dropFromPool (s : State) (x : Proxy) : State :=
  { s with pool := s.pool.filter (fun y => !(y.pt == x.pt && y.name == x.name)), ghosts := s.ghosts ++ [x] }

/-- `remove` -/
def remove (g : Graph) (s : State) (x : Proxy) : State :=
  let s := releaseHeldActive s x
  let x := (s.get? x.pt x.name).getD x
  let s := if !x.flows.isEmpty && x.runahead then spawnNextParentless g s x else s
  -- the final `task_states` update of the (now transient) proxy, written to the DB before moving on
  commitP g.poolAtRemove (dbQueue (dropFromPool s x) .stateTransient x)

/-- `remove_if_complete` -/
def removeIfComplete (g : Graph) (s : State) (x : Proxy) : State :=
  if !x.status.isFinal then s
  else
  let s := if s.stopTask == some (x.pt, x.name) then { s with stopTaskFinished := true } else s
  match g.task? x.name with
    | none => s
    | some t => if isComplete t x.done then remove g s x else s

def childrenOf (g : Graph) (x : Proxy) (out : String) : List Child :=
  match (g.task? x.name).bind (·.inst? x.pt) with
  | none => []
  | some d => match d.children.find? (·.1 == out) with
    | some (_, cs) => cs
    | none => []

def Proxy.suicideNow (x : Proxy) : Bool := !x.sui.isEmpty && x.sui.all Pre.isSatisfied

/-- the absolute output of `spawn_on_output` is recorded and committed at once -/
def recordAbs (g : Graph) (st : State) (atom : Atom) (isAbs : Bool) : State :=
  if isAbs then
    commitP g.poolAtAbs { st with absDone := addAbs st.absDone atom, q := { st.q with abs := st.q.abs ++ [atom] } }
  else st

/-- the child of `spawn_on_output`: the pooled instance, or a new one -/
def findOrSpawnChild (g : Graph) (st : State) (c : Child) : State × Option Proxy :=
  match st.get? c.pt c.name with
  | some y => (st, some y)
  | none => spawnTask g st c.name c.pt

/-- `satisfy_me` of the targets of one child of `spawn_on_output`, collecting the suicides -/
def satisfyTargets (atom : Atom) (targets : List (Int × String)) (acc : State × List (Int × String)) :
    State × List (Int × String) :=
  targets.foldl (fun (a : State × List (Int × String)) k =>
    match a.1.get? k.1 k.2 with
    | none => a
    | some z =>
      (a.1.put (z.satisfyMe atom),
       if (z.satisfyMe atom).suicideNow && !a.2.contains k then a.2 ++ [k] else a.2)) acc

/-- one child of `spawn_on_output`: record an absolute output, find or spawn the child, satisfy the
prerequisite (for an absolute trigger: of every pooled instance of the child task), collect suicides -/
def spawnChild (g : Graph) (p : Int) (n out : String) (acc : State × List (Int × String)) (c : Child) :
    State × List (Int × String) :=
  let atom : Atom := ⟨p, n, out⟩
  let st0 := recordAbs g acc.1 atom c.isAbs
  let inPool := (st0.get? c.pt c.name).isSome
  let R := findOrSpawnChild g st0 c
  match R.2 with
  | none => (R.1, acc.2)
  | some y =>
    let st := if inPool then R.1 else R.1.add (y.satisfyMe atom)
    let targets : List (Int × String) :=
      if c.isAbs then
        let others := (st.pool.filter fun z => z.name == c.name).map fun z => (z.pt, z.name)
        if others.contains (c.pt, c.name) then others else others ++ [(c.pt, c.name)]
      else [(c.pt, c.name)]
    satisfyTargets atom targets (st, acc.2)

/-- event-driven suicide: the collected tasks are removed -/
def removeSuicides (g : Graph) (s : State) (ks : List (Int × String)) : State :=
  ks.foldl (fun (st : State) k => match st.get? k.1 k.2 with
    | some z => remove g st z
    | none => st) s

/-- `spawn_on_output` -/
def spawnOnOutput (g : Graph) (s : State) (p : Int) (n : String) (out : String) : State :=
  match s.get? p n with
  | none => s
  | some x =>
    let R := (if x.flows.isEmpty then [] else childrenOf g x out).foldl (spawnChild g p n out) (s, [])
    let s3 := removeSuicides g R.1 R.2
    -- "update DB now in case of very quick respawn attempt"
    let s4 := if R.2.isEmpty then s3 else commitP g.poolAtSuicide s3
    match s4.get? p n with
    | some x' => removeIfComplete g s4 x'
    | none => s4

/-! ### Messages -/

def Proxy.isDone (x : Proxy) (msg : String) : Bool := x.done.contains msg

def hasOutput (g : Graph) (x : Proxy) (msg : String) : Bool :=
  match g.task? x.name with
  | some t => t.outputs.any (·.message == msg)
  | none => false

/-- `set_message_complete`: `some true` newly completed, `some false` already, `none` no such output -/
def setComplete (g : Graph) (x : Proxy) (msg : String) : Proxy × Option Bool :=
  if !hasOutput g x msg then (x, none)
  else if x.isDone msg then (x, some false)
  else ({ x with done := x.done ++ [msg] }, some true)

inductive Flag where | internal | received | polled
  deriving Repr, DecidableEq

/-- the live proxy, or the transient object of an instance removed earlier in this op -/
def lookup (s : State) (p : Int) (n : String) : Option (Proxy × Bool) :=
  match s.get? p n with
  | some x => some (x, false)
  | none => (s.ghosts.find? fun x => x.pt == p && x.name == n).map fun x => (x, true)

def store (s : State) (x : Proxy) (transient : Bool) : State :=
  if transient then
    { s with ghosts := s.ghosts.map fun y => if y.pt == x.pt && y.name == x.name then x else y }
  else s.put x

/-- `spawn_children`: the outputs row is rewritten (queued); transient objects do not spawn -/
def spawnChildren (g : Graph) (s : State) (p : Int) (n : String) (out : String) (transient : Bool) : State :=
  let s := match lookup s p n with
    | some xt => dbUpdateOutputs g s xt.1
    | none => s
  if transient then s else spawnOnOutput g s p n out

/-- `get_incomplete_implied`: the earlier outputs implied by a message that the proxy has not completed yet -/
def impliedOutputs (msg : String) (x : Proxy) : List String :=
  (if msg == "succeeded" || msg == "failed" then ["submitted", "started"]
   else if msg == "started" then ["submitted"] else []).filter fun m => !x.isDone m

/-- the output of the message is completed (failures complete theirs later) -/
def completeOutput (g : Graph) (x : Proxy) (msg : String) : Proxy × Option Bool :=
  if msg == "submit-failed" || msg == "failed" then (x, some false) else setComplete g x msg

/-- definitive failure: the failure output is completed with the status -/
def failedProxy (g : Graph) (x : Proxy) (st : Status) (out : String) : Proxy :=
  if x.status != st then (setComplete g (x.reset (status := some st)) out).1 else x.reset (status := some st)

/-- the part of `process_message` that follows the implied outputs: the status change and the spawning that the
message causes, for the proxy `x` (a transient object when `tr`) -/
def handleMessage (g : Graph) (s : State) (p : Int) (n : String) (flag : Flag) (msg : String)
    (completed : Option Bool) (x : Proxy) (tr : Bool) : State × Bool :=
  if msg == "started" then
    if flag == .received && x.status.rank > Status.running.rank then (s, true) else
    -- submission was successful: the submission try number is reset
    (spawnChildren g (store s { (x.reset (status := some .running)) with subTry := 0 } tr) p n "started" tr, false)
  else if msg == "succeeded" then
    (spawnChildren g (store s (x.reset (status := some .succeeded)) tr) p n "succeeded" tr, false)
  else if msg == "failed" then
    if flag == .received && x.status.rank > Status.failed.rank then (s, true) else
    if x.timers && x.execTry < (match g.task? n with | some t => t.execRetries | none => 0) then
      -- an execution retry is lined up: back to waiting behind a retry xtrigger
      (store s { (x.reset (status := some .waiting)) with execTry := x.execTry + 1, retryWait := true } tr, false)
    else
    -- definitive failure
    (spawnChildren g (store s (failedProxy g x .failed "failed") tr) p n "failed" tr, false)
  else if msg == "submit-failed" then
    if flag == .received && x.status.rank > Status.submitFailed.rank then (s, true) else
    if x.timers && x.subTry < (match g.task? n with | some t => t.subRetries | none => 0) then
      (store s { (x.reset (status := some .waiting)) with subTry := x.subTry + 1, retryWait := true } tr, false)
    else
    (spawnChildren g (store s (failedProxy g x .submitFailed "submit-failed") tr) p n "submit-failed" tr, false)
  else if msg == "submitted" then
    if flag == .received && x.status.rank ≥ Status.submitted.rank then (s, true) else
    (spawnChildren g (if x.status == .preparing then
        store s ((x.reset (status := some .submitted)).reset (queued := some false)) tr else s) p n "submitted" tr, false)
  else if completed == some true then
    (spawnChildren g s p n msg tr, false)
  else (s, false)

/-- `_process_message_check`: a received message of another job is ignored; a waiting task with a retry lined up
ignores (late) messages; a transient object skips the checks -/
def messageIgnored (x : Proxy) (tr : Bool) (flag : Flag) (sn : Nat) : Bool :=
  (!tr && flag == .received && sn != x.submitNum) ||
  (!tr && x.status == .waiting && x.live && (x.subTry > 0 || x.execTry > 0))

/-- `process_message` for one (non-forced) message; returns the new state and whether a poll is
requested.  `fuel` bounds the implied-output recursion (depth ≤ 3). -/
def processMessage (g : Graph) : Nat → State → Int → String → Flag → Nat → String → State × Bool
  | 0, s, _, _, _, _, _ => (s, false)
  | fuel + 1, s, p, n, flag, sn, msg =>
    match lookup s p n with
    | none => (s, false)
    | some xt =>
      if messageIgnored xt.1 xt.2 flag sn then (s, false) else
      -- complete the corresponding output, then the implied outputs first
      let C := completeOutput g xt.1 msg
      let s2 := (impliedOutputs msg C.1).foldl (fun st m => (processMessage g fuel st p n .internal sn m).1)
        (store s C.1 xt.2)
      match lookup s2 p n with
      | none => (s2, false)
      | some xt2 => handleMessage g s2 p n flag msg C.2 xt2.1 xt2.2

/-- one received message of a task's batch: (state, poll requested so far) -/
def processOne (g : Graph) (p : Int) (n : String) (acc : State × Bool) (m : Msg) : State × Bool :=
  let R := processMessage g 4 acc.1 p n .received m.submitNum m.text
  (R.1, acc.2 || R.2)

/-- the queued messages of one task -/
def processGroup (g : Graph) (st : State) (grp : (Int × String) × List Msg) : State :=
  match st.get? grp.1.1 grp.1.2 with
  | none => st                                   -- no proxy: job-only processing
  | some _ =>
    let R := grp.2.foldl (processOne g grp.1.1 grp.1.2) (st, false)
    if R.2 then { R.1 with polls := R.1.polls ++ [(grp.1.1, grp.1.2)] } else R.1

/-- group queued messages by task id in order of first arrival (`dict.setdefault`) -/
def groupMsgs (q : List Msg) : List ((Int × String) × List Msg) :=
  q.foldl (fun acc m =>
    if acc.any (fun e => e.1 == (m.pt, m.name)) then
      acc.map fun e => if e.1 == (m.pt, m.name) then (e.1, e.2 ++ [m]) else e
    else acc ++ [((m.pt, m.name), [m])]) []

/-- `process_queued_task_messages` -/
def processQueue (g : Graph) (s : State) : State :=
  (groupMsgs s.queue).foldl (processGroup g) { s with queue := [] }

/-! ### Stall and shutdown -/

/-- `TaskPool.is_stalled` (no stop point) -/
def isStalled (g : Graph) (s : State) : Bool :=
  if s.pool.any (fun x => x.status.isActive || x.status == .preparing ||
      (x.status == .waiting && !x.runahead && x.prereqsSatisfied)) then false
  else
    let incomplete := s.pool.any fun x => x.status.isFinal &&
      (match g.task? x.name with | some t => !isComplete t x.done | none => false)
    let beyond (p : Int) : Bool := match s.stopPoint with | some sp => p > sp | none => false
    let unsatisfied := s.pool.any fun x => !beyond x.pt && x.pre.any fun pr =>
      !pr.isSatisfied && pr.atoms.any (fun a => !a.2 && !beyond a.1.pt)
    incomplete || unsatisfied

/-- `check_workflow_stalled` -/
def checkStalled (g : Graph) (s : State) : State :=
  if s.stalled then s else if s.paused then s else if isStalled g s then { s with stalled := true } else s

/-- `check_auto_shutdown` (with its stall-check side effect) -/
def checkAutoShutdown (g : Graph) (s : State) : State × Bool :=
  if s.paused || s.restartWait then (s, false) else
  let s := checkStalled g s
  if s.stalled then (s, false)
  else if s.pool.any (fun x => x.status == .preparing || x.status == .submitted ||
      x.status == .running || (x.status == .waiting && !x.runahead)) then (s, false)
  else ({ s with q := { s.q with stopCp := some none } }, true)      -- the stop point is forgotten once reached

/-! ### Operations -/

inductive Op where
  | loop
  | subres (pt : Int) (name : String) (ok : Bool) (sn : Nat)
  | msg (pt : Int) (name : String) (sn : Nat) (text : String)
  | hold (ids : List (Int × String))
  | release (ids : List (Int × String))
  | setHoldPoint (p : Int)
  | releaseHoldPoint
  | stop (mode : String)                  -- "REQUEST(CLEAN)" | "REQUEST(NOW)" | "REQUEST(NOW-NOW)"
  | stopPoint (p : Int)
  | stopTask (pt : Int) (name : String)
  | pause
  | resume
  | restart
  | crash                                  -- the scheduler process dies between two ops; restart from the database
  | loopCrash (k : Nat)                    -- a main loop; the process dies at its k-th commit boundary; restart
  | pollres (pt : Int) (name : String) (sn : Nat) (text : String)   -- one line of a jobs-poll result
  deriving Repr

def clearOp (s : State) : State :=
  { s with launched := [], polls := [], ghosts := [], db := none, ncommit := 0, crashed := false, deadDb := none }

/-- the queue-if-ready sweep over waiting, unqueued, released proxies -/
def sweepQueue (s : State) : State :=
  s.pool.foldl (fun st x => match st.get? x.pt x.name with
    | some y =>
      if y.status == .waiting && !y.queued && !y.runahead then
        -- zero-delay retry clock triggers are satisfied by the time of the next sweep
        let y := { y with retryWait := false }
        queueIfReady (st.put y) y
      else st
    | none => st) s

/-- the updated flags of the scheduler and of every proxy are reset (a stall is over once anything was updated) -/
def clearUpd (s : State) : State :=
  { s with stalled := false, schedUpd := false, pool := s.pool.map fun x => { x with upd := false } }

/-- end of the main loop: `put_task_pool`, updated flags, DB commit, stall check.
(`update_data_structure` runs when anything was updated or the data store has pending deltas - any change of the
pool produces some: the pool table is rewritten whenever it could differ.) -/
def finishLoop (g : Graph) (s : State) : State :=
  let hasUpd := s.schedUpd || s.pool.any (·.upd)
  let s1 := if s.pool.any (·.upd) then { s with restartWait := false } else s
  let s2 := putTaskPool s1
  let s3 := commit (if hasUpd then clearUpd s2 else s2)          -- process_workflow_db_queue
  if !hasUpd && s3.stopMode.isNone then checkStalled g s3 else s3

/-- `TaskPool.can_stop` -/
def canStop (s : State) : Bool :=
  match s.stopMode with
  | none => false
  | some m =>
    if m == "REQUEST(NOW-NOW)" then true
    else !(s.pool.any fun x => (m == "REQUEST(CLEAN)" || m == "REQUEST(KILL)") && x.status.isActive)

/-- `stop_task_done` -/
def stopTaskDone (s : State) : State × Bool :=
  if s.stopTask.isSome && s.stopTaskFinished then
    ({ s with stopTask := none, stopTaskFinished := false, q := { s.q with stopTask := some none } }, true)
  else (s, false)

/-- one iteration of `Scheduler._main_loop` -/
def mainLoop (g : Graph) (s : State) : State :=
  if s.stop.isSome then s else
  let s := computeRunahead g s
  let s := (releaseRunahead g s).1
  -- workflow_shutdown
  let s :=
    if s.stopMode.isNone then
      let (s, std) := stopTaskDone s
      if std then { s with stopMode := some "AUTOMATIC" }
      else
        let (s, auto) := checkAutoShutdown g s
        if auto then { s with stopMode := some "AUTOMATIC" } else s
    else s
  if canStop s then { s with stop := s.stopMode } else
  let s := sweepQueue s
  let s := if s.stopMode.isNone && !s.paused then releaseAndSubmit s else s
  let s := processQueue g s
  finishLoop g s

/-- `set_stop_point` -/
def setStopPoint (s : State) (p : Int) : State :=
  if s.stopPoint == some p then s else
  let s := { s with stopPoint := some p, q := { s.q with stopCp := some (some p) } }
  match s.rhLimit with
  | some l =>
    if l > p then
      { s with rhLimit := some p,
               pool := s.pool.map fun x =>
                 if x.pt > p && x.status == .waiting then x.reset (runahead := some true) else x }
    else s
  | none => s

/-- `set_hold_point` -/
def setHoldPoint (s : State) (p : Int) : State :=
  let s := { s with holdPoint := some p }
  let s := s.pool.foldl (fun st x => if x.pt > p then
      match st.get? x.pt x.name with | some y => holdActive st y | none => st
    else st) s
  { s with q := { s.q with holdCp := some (some p) } }

/-- `hold_tasks` (ids are valid instances: pooled ones are held, future ones recorded) -/
def holdTasks (s : State) (ids : List (Int × String)) : State :=
  dbPutHold (ids.foldl (fun st k => match st.get? k.1 k.2 with
    | some y => holdActive st y
    | none => if st.tasksToHold.contains (k.2, k.1) then st
              else { st with tasksToHold := st.tasksToHold ++ [(k.2, k.1)] }) s)

/-- `release_held_tasks`: only ids currently in `tasks_to_hold` are matched -/
def releaseTasks (s : State) (ids : List (Int × String)) : State :=
  dbPutHold (ids.foldl (fun st k =>
    if !st.tasksToHold.contains (k.2, k.1) then st else
    match st.get? k.1 k.2 with
    | some y => releaseHeldActive st y
    | none => { st with tasksToHold := st.tasksToHold.filter (· != (k.2, k.1)) }) s)

/-- `release_hold_point` -/
def releaseHoldPoint (s : State) : State :=
  let s := { s with holdPoint := none }
  let s := s.pool.foldl (fun st x => match st.get? x.pt x.name with
    | some y => releaseHeldActive st y | none => st) s
  let s := dbPutHold { s with tasksToHold := [] }
  { s with q := { s.q with holdCp := some none } }

/-- one row of `task_pool` ⋈ `task_states` ⋈ `task_outputs` as loaded by `load_db_task_pool_for_restart`: the proxy
`x` of the pool table (status, held state, flows, prerequisite satisfaction, try state) with the submit number and
the outputs of its `task_states` / `task_outputs` row (no such row: dropped by the JOIN).  A task caught in job
preparation comes back waiting, to be prepared again under the same submit number; outputs are reloaded only for
running / failed / succeeded tasks; suicide prerequisites are not stored: they start afresh. -/
def restoreProxy (g : Graph) (rows : List Row) (x : Proxy) : Option Proxy :=
  match rows.find? fun r => r.isKey x.pt x.name with
  | none => none
  | some r =>
    let prep := x.status == .preparing
    let status := if prep then Status.waiting else x.status
    let sn := if prep then r.submitNum - 1 else r.submitNum
    let keepOut := status == .running || status == .failed || status == .succeeded
    let final := status == .failed || status == .succeeded || status == .expired
    let sui0 := match mkProxy g x.name x.pt with | some y => y.sui | none => []
    some { x with status := status, submitNum := sn, done := (if keepOut then r.outs else []), sui := sui0,
                  queued := false, runahead := !final, retryWait := false, live := false,
                  upd := prep || final }

/-- the state a new scheduler process loads from the committed database (`_load_pool_from_db`,
`_set_workflow_params`).  `launched` / `ncommit` are what the outside world saw of the current op and are kept for
the observation. -/
def loadDb (g : Graph) (s : State) : State :=
  -- stop point: DB `stopcp`, else flow.cylc, else the final point
  let cfgStop : Option Int := match s.cdb.stopCp with | some p => some p | none => g.cfgStop
  let pool := s.cdb.pool.filterMap (restoreProxy g s.cdb.rows)
  { pool := pool, cdb := s.cdb, absDone := s.cdb.abs,
    tasksToHold := s.cdb.hold, holdPoint := s.cdb.holdCp, stopPoint := some (cfgStop.getD g.fcp),
    restartWait := pool.isEmpty || (match cfgStop with
      | some sp => pool.all (fun x => x.pt > sp)
      | none => false),
    paused := s.cdb.paused,
    stopTask := s.cdb.stopTask, stopTaskFinished := false, schedUpd := true,
    launched := s.launched, ncommit := s.ncommit }

/-- `configure` re-applies the hold point after the pool is loaded -/
def reapplyHold (s : State) : State :=
  match s.holdPoint with
  | some hp => setHoldPoint s hp
  | none => s

/-- the commit at the end of start-up (`configure`): it belongs to start-up and is not counted -/
def startCommit (g : Graph) (s : State) : State :=
  let s3 := if g.poolAtStart then putTaskPool s else s
  { s3 with cdb := applyQ s3.cdb s3.q, q := {} }

/-- a new scheduler process started on the run directory: everything it knows comes from the committed database -/
def startFrom (g : Graph) (s : State) : State := startCommit g (reapplyHold (loadDb g s))

/-- clean restart: `shutdown` resumes a paused workflow, writes the task pool once more and commits; then a new
scheduler starts from the database -/
def restart (g : Graph) (s : State) : State :=
  let s1 := if s.paused then { s with paused := false, q := { s.q with paused := some false } } else s
  startFrom g (commit (putTaskPool s1))

/-- the scheduler process dies here and now, then a new one is started: memory (pool, queued database operations,
message queue, stop requests) is lost -/
def crashRestart (g : Graph) (s : State) : State :=
  { (startFrom g s) with crashed := true, deadDb := some s.cdb }

/-- a main loop during which the process dies at its `k`-th commit boundary (if it gets that far) -/
def loopCrash (g : Graph) (s : State) (k : Nat) : State :=
  let s1 := mainLoop g { s with fuse := some k }
  if s1.dead then crashRestart g s1 else { s1 with fuse := none }

/-- `_manip_task_jobs_callback` hands a poll result to the proxy found under point / name / CURRENT submit number
(proxies that were never submitted are not looked up) -/
def pollMatches (s : State) (p : Int) (n : String) (sn : Nat) : Bool :=
  match s.get? p n with
  | some x => x.submitNum == sn && sn != 0
  | none => false

/-- the `task_pool` table as the harness reads it after a main loop -/
def showDb (s : State) : State := if s.stop.isSome then s else { s with db := some s.cdb.pool }

def step (g : Graph) (s : State) (op : Op) : State :=
  let s := clearOp s
  match op with
  | .loop => showDb (mainLoop g s)
  | .subres p n ok sn =>
      (processMessage g 4 s p n .internal sn (if ok then "submitted" else "submit-failed")).1
  | .msg p n sn text => { s with queue := s.queue ++ [⟨p, n, sn, text⟩] }
  | .hold ids => holdTasks s ids
  | .release ids => releaseTasks s ids
  | .setHoldPoint p => setHoldPoint s p
  | .releaseHoldPoint => releaseHoldPoint s
  | .stop mode => { s with stopMode := some mode }
  | .stopPoint p => setStopPoint s p
  | .stopTask p n => { s with stopTask := some (p, n), stopTaskFinished := false,
                              q := { s.q with stopTask := some (some (p, n)) } }
  | .pause => if s.paused then s else { s with paused := true, q := { s.q with paused := some true } }
  | .resume => if s.paused then { s with paused := false, q := { s.q with paused := some false } } else s
  | .restart => restart g s
  | .crash => crashRestart g s
  | .loopCrash k => showDb (loopCrash g s k)
  | .pollres p n sn text =>
      if pollMatches s p n sn then (processMessage g 4 s p n .polled sn text).1 else s

/-- start-up of a new run: `load_from_point`, then `configure` commits what was queued -/
def init (g : Graph) : State := startCommit g (loadFromPoint g)

/-- all states of a run: after start-up, then after each op -/
def run (g : Graph) (ops : List Op) : List State :=
  (ops.foldl (fun (acc : List State × State) op =>
    let s' := step g acc.2 op
    (acc.1 ++ [s'], s')) ([init g], init g)).1

end CylcModel.Sched3Crash
