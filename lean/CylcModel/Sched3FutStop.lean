/-
C07F — stop point over `Sched3Fut` (future triggers, `cylc stop <point>` mid-run, restart): a pooled proxy beyond
the stop point is not queued and either still runahead-limited or never had a job and is not waiting; the runahead
limit never exceeds the stop point; no job is launched beyond the stop point.  An instance of the generic `Frame`
pass; `stopPoint` and `restart` ops are guarded as in C43 (`okStopPoint`, `okRestart`: a stop point lowered below a
queued / active proxy, or a restart with a finished proxy beyond the stop point, are the recorded findings).
Also: a proxy at or before the stop point never has a prerequisite atom beyond it (`AtomsOK`, the `spawn_task`
refusal), for op lists that do not move the stop point.
-/
import CylcModel.Sched3FutFrame

namespace CylcModel.Sched3Fut

/-! ### guarded op lists -/

/-- an op list all of whose ops satisfy the guard `ok` in the state they are applied to -/
def Guarded (g : Graph) (ok : State → Op → Bool) : State → List Op → Prop
  | _, [] => True
  | s, op :: ops => ok s op = true ∧ Guarded g ok (step g s op) ops

def guardedB (g : Graph) (ok : State → Op → Bool) : State → List Op → Bool
  | _, [] => true
  | s, op :: ops => ok s op && guardedB g ok (step g s op) ops

theorem guarded_of_b (g : Graph) (ok : State → Op → Bool) : ∀ (ops : List Op) (s : State),
    guardedB g ok s ops = true → Guarded g ok s ops := by
  intro ops
  induction ops with
  | nil => intro _ _; trivial
  | cons op ops ih =>
    intro s h
    unfold guardedB at h
    simp only [Bool.and_eq_true] at h
    exact ⟨h.1, ih _ h.2⟩

theorem run_inv_guarded (P : State → Prop) (g : Graph) (ok : State → Op → Bool) (h0 : P (init g))
    (hs : ∀ s op, P s → ok s op = true → P (step g s op)) :
    ∀ ops, Guarded g ok (init g) ops → ∀ s ∈ run g ops, P s := by
  intro ops
  unfold run
  have key : ∀ (ops : List Op) (acc : List State) (cur : State),
      (∀ s ∈ acc, P s) → P cur → Guarded g ok cur ops →
      ∀ s ∈ (ops.foldl (fun (a : List State × State) op =>
          let s' := step g a.2 op; (a.1 ++ [s'], s')) (acc, cur)).1, P s := by
    intro ops
    induction ops with
    | nil => intro acc cur hacc _ _ s hm; exact hacc s hm
    | cons op ops ih =>
      intro acc cur hacc hcur hg
      simp only [List.foldl_cons]
      obtain ⟨hok, hrest⟩ := hg
      apply ih
      · intro s hm
        rcases List.mem_append.mp hm with h | h
        · exact hacc s h
        · simp at h; subst h; exact hs _ _ hcur hok
      · exact hs _ _ hcur hok
      · exact hrest
  intro hg
  exact key ops [init g] (init g) (by intro s hm; simp at hm; subst hm; exact h0) h0 hg

/-! ### The stop-point invariant -/

/-- a pooled proxy beyond the stop point `sp` is not queued, and is either still runahead-limited or
has never had a job and is not waiting — so it can never become ready -/
def Good (sp : Int) (x : Proxy) : Prop :=
  sp < x.pt → x.queued = false ∧ (x.runahead = true ∨ (x.timers = false ∧ x.status ≠ .waiting))

theorem Good.upd {sp : Int} {x y : Proxy} (hx : Good sp x) (h : Upd x y) : Good sp y := by
  obtain ⟨a, _, b, c, d, e, _⟩ := h
  intro hlt
  rw [a] at hlt
  obtain ⟨hq, hr⟩ := hx hlt
  refine ⟨?_, ?_⟩
  · cases hyq : y.queued with
    | false => rfl
    | true => rw [b hyq] at hq; exact absurd hq (by decide)
  · rcases hr with hr | ⟨ht, hs⟩
    · exact Or.inl (c.trans hr)
    · refine Or.inr ⟨d.trans ht, ?_⟩
      intro hw
      rcases e hw with h' | h'
      · exact hs h'
      · rw [ht] at h'; exact absurd h' (by decide)

theorem good_of_le {sp : Int} {x : Proxy} (h : x.pt ≤ sp) : Good sp x := by
  intro hlt; omega

theorem good_of_fresh {sp : Int} {y : Proxy} (h : Fresh y) : Good sp y := fun _ => ⟨h.2, Or.inl h.1⟩

/-- a proxy that is ready to be queued lies at or before the stop point -/
theorem ready_le {sp : Int} {x : Proxy} (hx : Good sp x) (hr : x.runahead = false) (hw : x.status = .waiting) :
    x.pt ≤ sp := by
  by_cases hlt : sp < x.pt
  · obtain ⟨_, h⟩ := hx hlt
    rcases h with h | ⟨_, h⟩
    · rw [hr] at h; exact absurd h (by decide)
    · exact absurd hw h
  · omega

theorem queued_le {sp : Int} {x : Proxy} (hx : Good sp x) (hq : x.queued = true) : x.pt ≤ sp := by
  by_cases hlt : sp < x.pt
  · rw [(hx hlt).1] at hq; exact absurd hq (by decide)
  · omega

/-- the stop point is `sp`, the runahead limit does not exceed it, nothing was launched beyond it in this op -/
structure JS (sp : Int) (s : State) : Prop where
  stop : s.stopPoint = some sp
  lim : ∀ l, s.rhLimit = some l → l ≤ sp
  launch : ∀ l ∈ s.launched, l.1 ≤ sp

theorem js_of_eq {sp : Int} {s s' : State} (h1 : s'.stopPoint = s.stopPoint) (h2 : s'.rhLimit = s.rhLimit)
    (h3 : s'.launched = s.launched) (h : JS sp s) : JS sp s' :=
  ⟨h1 ▸ h.stop, fun l hl => h.lim l (h2 ▸ hl), fun l hl => h.launch l (h3 ▸ hl)⟩

theorem frame_touch (g : Graph) (s : State) (n : String) (p : Int) :
    (touch g s n p).stopPoint = s.stopPoint ∧ (touch g s n p).rhLimit = s.rhLimit ∧
    (touch g s n p).launched = s.launched := by
  unfold touch; split
  · exact ⟨rfl, rfl, rfl⟩
  · split
    · exact ⟨rfl, rfl, rfl⟩
    · split <;> exact ⟨rfl, rfl, rfl⟩

/-- `compute_runahead` caps the limit at the stop point -/
theorem js_computeRunahead {sp : Int} (g : Graph) (s : State) (f : Bool) (h : JS sp s) : JS sp (computeRunahead g s f) := by
  unfold computeRunahead
  simp only
  split
  · exact h
  · split
    · exact ⟨h.stop, h.lim, h.launch⟩
    · refine ⟨h.stop, ?_, h.launch⟩
      intro l hl
      simp only [h.stop, Option.some.injEq] at hl
      subst hl
      split <;> (unfold capAt; simp only; split <;> omega)

theorem js_setMaxFut {sp : Int} (g : Graph) (s : State) (h : JS sp s) : JS sp (setMaxFut g s) := by
  unfold setMaxFut
  simp only
  split
  · exact js_computeRunahead g _ true ⟨h.stop, h.lim, h.launch⟩
  · exact ⟨h.stop, h.lim, h.launch⟩

theorem js_ghostTouch {sp : Int} (g : Graph) (s : State) (x : Proxy) (h : JS sp s) : JS sp (ghostTouch g s x) := by
  unfold ghostTouch
  refine foldl_inv (JS sp) _ ?_ _ _ h
  intro st k hst
  obtain ⟨e1, e2, e3⟩ := frame_touch g st k.1 k.2
  exact js_of_eq e1 e2 e3 hst

theorem launchProxy_pt (x : Proxy) : (launchProxy x).pt = x.pt := by
  unfold launchProxy
  show ((x.reset (queued := some false)).reset (status := some .preparing)).pt = x.pt
  rw [reset_pt, reset_pt]

theorem stopFrame (g : Graph) (sp : Int) : Frame g (Good sp) (JS sp) where
  qupd := fun _ _ hx hu => hx.upd hu
  qspawn := fun _ _ _ _ _ hy => good_of_fresh (spawnTask_fresh hy)
  qqueue := by
    intro x hx hr hw
    apply good_of_le
    rw [reset_pt]
    exact ready_le hx hr hw
  qlaunch := by
    intro x hx hq
    apply good_of_le
    rw [launchProxy_pt]
    exact queued_le hx hq
  jcongr := fun s s' hc h =>
    js_of_eq (congrArg Core.stopPoint hc) (congrArg Core.rhLimit hc) (congrArg Core.launched hc) h
  jtouch := fun s n p h => by
    obtain ⟨e1, e2, e3⟩ := frame_touch g s n p
    exact js_of_eq e1 e2 e3 h
  jadd := by
    intro s x h _
    unfold State.add
    split
    · exact h
    · have h1 : JS sp (enterPool g s x) := by
        unfold enterPool
        exact js_ghostTouch g _ x ⟨h.stop, h.lim, h.launch⟩
      split
      · exact js_setMaxFut g _ h1
      · exact h1
  jdrop := by
    intro s x h
    unfold dropKey
    have h1 : JS sp (dropPool s x) := ⟨h.stop, h.lim, h.launch⟩
    split
    · exact js_setMaxFut g _ h1
    · exact h1
  jcompute := fun s f h => js_computeRunahead g s f h
  jlaunch := by
    intro s x h hx hq
    refine ⟨h.stop, h.lim, ?_⟩
    intro l hl
    simp only [List.mem_append, List.mem_singleton] at hl
    rcases hl with hl | rfl
    · exact h.launch l hl
    · exact queued_le hx hq
  jclear := fun s h => ⟨h.stop, h.lim, fun l hl => by simp [clearOp] at hl⟩

/-- **the stop-point invariant**: whatever the stop point is, the pool respects it -/
def SPInv (s : State) : Prop := ∀ sp, s.stopPoint = some sp → Holds (Good sp) (JS sp) s

/-- no job was launched beyond the stop point in the op that led to `s` -/
def LaunchOK (s : State) : Prop := ∀ sp, s.stopPoint = some sp → ∀ l ∈ s.launched, l.1 ≤ sp

theorem SPInv.launchOK {s : State} (h : SPInv s) : LaunchOK s := fun sp hsp => (h sp hsp).2.launch

/-- every other op preserves the stop point -/
theorem stopPoint_of_holds {sp : Int} {s : State} (h : Holds (Good sp) (JS sp) s) : s.stopPoint = some sp := h.2.stop

theorem spinv_of_holds {sp : Int} {s : State} (h : Holds (Good sp) (JS sp) s) : SPInv s := by
  intro sp' hsp'
  have := h.2.stop
  rw [this] at hsp'
  simp only [Option.some.injEq] at hsp'
  subst hsp'
  exact h

theorem hrel_good {sp : Int} : ∀ (st : State) (lim : Int) (y : Proxy), JS sp st → st.rhLimit = some lim → y.pt ≤ lim →
    Good sp y → Good sp (y.reset (runahead := some false)) := by
  intro st lim y hj hl hy _
  apply good_of_le
  rw [reset_pt]
  have := hj.lim lim hl
  omega

/-! ### Lowering the stop point, restart: the guards -/

/-- guard of a `stopPoint p` op: every pooled proxy beyond `p` is unqueued and either still
runahead-limited, or never had a job and is not waiting, or is waiting while the runahead limit is above
`p` (then `set_stop_point` puts it back under the runahead limit) -/
def okStopPoint (s : State) (p : Int) : Bool :=
  s.stopPoint == some p ||
  s.pool.all fun x => decide (x.pt ≤ p) ||
    (!x.queued && (x.runahead || (!x.timers && x.status != .waiting) ||
      (x.status == .waiting && match s.rhLimit with | some l => decide (l > p) | none => false)))

theorem okStopPoint_spec {s : State} {p : Int} (hne : ¬ (s.stopPoint == some p) = true) (hok : okStopPoint s p = true) :
    ∀ x ∈ s.pool, p < x.pt → x.queued = false ∧ (x.runahead = true ∨ (x.timers = false ∧ x.status ≠ .waiting) ∨
      (x.status = .waiting ∧ ∃ l, s.rhLimit = some l ∧ l > p)) := by
  intro x hx hlt
  unfold okStopPoint at hok
  simp only [Bool.or_eq_true, List.all_eq_true] at hok
  have h := (hok.resolve_left hne) x hx
  have hnle : ¬ x.pt ≤ p := by omega
  simp only [decide_eq_true_eq, hnle, false_or, Bool.and_eq_true, Bool.not_eq_eq_eq_not, Bool.not_true,
    Bool.or_eq_true, bne_iff_ne, ne_eq, beq_iff_eq] at h
  obtain ⟨hq, h2⟩ := h
  refine ⟨hq, ?_⟩
  rcases h2 with (h2 | h2) | ⟨h3, h4⟩
  · exact Or.inl h2
  · exact Or.inr (Or.inl h2)
  · refine Or.inr (Or.inr ⟨h3, ?_⟩)
    cases hrl : s.rhLimit with
    | none => simp [hrl] at h4
    | some l => simp only [hrl, decide_eq_true_eq] at h4; exact ⟨l, rfl, h4⟩

theorem reset_runahead_true' (x : Proxy) :
    (x.reset (runahead := some true)).queued = x.queued ∧ (x.reset (runahead := some true)).runahead = true := by
  unfold Proxy.reset
  simp only
  split
  · rename_i hsame
    simp only [Option.getD_none, Option.getD_some, beq_self_eq_true, Bool.true_and, Bool.and_true,
      beq_iff_eq] at hsame
    exact ⟨rfl, hsame.symm⟩
  · exact ⟨rfl, rfl⟩

theorem launched_setStopPoint (s : State) (p : Int) : (setStopPoint s p).launched = s.launched := by
  unfold setStopPoint
  split
  · rfl
  · simp only
    split
    · split <;> rfl
    · rfl

theorem spinv_setStopPoint (s : State) (p : Int) (hok : okStopPoint s p = true) (h : SPInv s)
    (hl0 : s.launched = []) : SPInv (setStopPoint s p) := by
  have hlaunch : ∀ sp' : Int, ∀ l ∈ (setStopPoint s p).launched, l.1 ≤ sp' := by
    intro sp' l hl; rw [launched_setStopPoint, hl0] at hl; simp at hl
  by_cases hsame : (s.stopPoint == some p) = true
  · have : setStopPoint s p = s := by unfold setStopPoint; simp [hsame]
    rw [this]; exact h
  · have spec := okStopPoint_spec hsame hok
    intro sp hsp
    have hspp : sp = p := by
      unfold setStopPoint at hsp
      simp only [hsame, Bool.false_eq_true, if_false] at hsp
      split at hsp
      · split at hsp <;> simp at hsp <;> exact hsp.symm
      · simp at hsp; exact hsp.symm
    subst hspp
    refine ⟨?_, hsp, ?_, hlaunch sp⟩
    · -- the pool
      intro y hy
      unfold setStopPoint at hy
      simp only [hsame, Bool.false_eq_true, if_false] at hy
      split at hy
      · rename_i l hrl
        split at hy
        · simp only [List.mem_map] at hy
          obtain ⟨x, hx, rfl⟩ := hy
          intro hlt
          by_cases hc : (decide (x.pt > sp) && x.status == .waiting) = true
          · simp only [hc, if_true] at hlt ⊢
            rw [reset_pt] at hlt
            obtain ⟨hq, _⟩ := spec x hx hlt
            obtain ⟨e1, e2⟩ := reset_runahead_true' x
            exact ⟨e1.trans hq, Or.inl e2⟩
          · simp only [hc, Bool.false_eq_true, if_false] at hlt ⊢
            obtain ⟨hq, h2⟩ := spec x hx hlt
            refine ⟨hq, ?_⟩
            rcases h2 with h2 | h2 | ⟨h3, _⟩
            · exact Or.inl h2
            · exact Or.inr h2
            · exfalso
              apply hc
              simp only [Bool.and_eq_true, decide_eq_true_eq, beq_iff_eq]
              exact ⟨hlt, h3⟩
        · rename_i hle
          intro hlt
          obtain ⟨hq, h2⟩ := spec y hy hlt
          refine ⟨hq, ?_⟩
          rcases h2 with h2 | h2 | ⟨_, l', hl', hgt⟩
          · exact Or.inl h2
          · exact Or.inr h2
          · have : s.rhLimit = some l' := hl'
            have hrl' : s.rhLimit = some l := hrl
            rw [hrl'] at this
            simp only [Option.some.injEq] at this
            omega
      · rename_i hrl
        intro hlt
        obtain ⟨hq, h2⟩ := spec y hy hlt
        refine ⟨hq, ?_⟩
        rcases h2 with h2 | h2 | ⟨_, l', hl', _⟩
        · exact Or.inl h2
        · exact Or.inr h2
        · have hrl' : s.rhLimit = none := hrl
          rw [hrl'] at hl'
          exact absurd hl' (by simp)
    · -- the limit
      intro l' hl'
      unfold setStopPoint at hl'
      simp only [hsame, Bool.false_eq_true, if_false] at hl'
      split at hl'
      · rename_i l hrl
        split at hl'
        · simp only [Option.some.injEq] at hl'; omega
        · have hrl' : s.rhLimit = some l := hrl
          have : s.rhLimit = some l' := hl'
          rw [hrl'] at this
          simp only [Option.some.injEq] at this
          omega
      · rename_i hrl
        have hrl' : s.rhLimit = none := hrl
        have : s.rhLimit = some l' := hl'
        rw [hrl'] at this
        exact absurd this (by simp)

/-- guard of a `restart` op: no pooled proxy beyond the restored stop point has finished a job
(the restart loads finished proxies as released from the runahead pool) -/
def okRestart (g : Graph) (s : State) : Bool :=
  s.pool.all fun x => decide (x.pt ≤ restoredStop g s) ||
    !(x.status == .failed || x.status == .succeeded || x.status == .expired) || !x.timers

theorem restoreProxy_spec (x : Proxy) :
    (restoreProxy x).pt = x.pt ∧ (restoreProxy x).name = x.name ∧ (restoreProxy x).queued = false ∧
    (restoreProxy x).timers = x.timers ∧
    ((restoreProxy x).runahead = false →
      (x.status == .failed || x.status == .succeeded || x.status == .expired) = true ∧
      (restoreProxy x).status ≠ .waiting) := by
  unfold restoreProxy
  refine ⟨rfl, rfl, rfl, rfl, ?_⟩
  cases hst : x.status <;> simp

theorem spinv_restart (g : Graph) (s : State) (hok : okRestart g s = true) : SPInv (restart g s) := by
  apply spinv_of_holds (sp := restoredStop g s)
  apply holds_restart (stopFrame g (restoredStop g s))
  · refine ⟨?_, rfl, ?_, ?_⟩
    · intro x hx; unfold restartBase at hx; simp at hx
    · intro l hl; unfold restartBase at hl; simp at hl
    · intro l hl; unfold restartBase at hl; simp at hl
  · intro x hx
    obtain ⟨a1, _, a2, a3, a4⟩ := restoreProxy_spec x
    refine ⟨fun _ => ⟨a2, Or.inl rfl⟩, ?_⟩
    intro hlt
    refine ⟨a2, ?_⟩
    cases hr : (restoreProxy x).runahead with
    | true => exact Or.inl rfl
    | false =>
      obtain ⟨hf, hw⟩ := a4 hr
      refine Or.inr ⟨?_, hw⟩
      unfold okRestart at hok
      have := List.all_eq_true.mp hok x hx
      rw [a1] at hlt
      have hnle : ¬ x.pt ≤ restoredStop g s := by omega
      simp only [Bool.or_eq_true, decide_eq_true_eq, hnle, false_or, hf, Bool.not_true, Bool.false_eq_true,
        Bool.not_eq_eq_eq_not] at this
      rw [a3]; exact this

/-! ### Start-up and the step theorem -/

/-- the guard of the partial stop-point theorem: `stopPoint` and `restart` ops are restricted -/
def okOp (g : Graph) (s : State) : Op → Bool
  | .stopPoint p => okStopPoint s p
  | .restart => okRestart g s
  | _ => true

theorem stopPoint_clearOp (s : State) : (clearOp s).stopPoint = s.stopPoint := rfl

theorem spinv_step (g : Graph) (s : State) (op : Op) (h : SPInv s) (hok : okOp g s op = true) :
    SPInv (step g s op) := by
  by_cases h3 : op = .restart
  · subst h3
    unfold step
    simp only
    exact spinv_restart g (clearOp s) hok
  · by_cases h2 : ∃ p, op = .stopPoint p
    · obtain ⟨p, rfl⟩ := h2
      unfold step
      simp only
      refine spinv_setStopPoint (clearOp s) p hok ?_ rfl
      intro sp hsp
      exact holds_clearOp (stopFrame g sp) s (h sp hsp)
    · -- the stop point does not move
      cases hsp : s.stopPoint with
      | none =>
        -- no stop point at all: it stays that way, so the invariant is vacuous
        intro sp' hsp'
        exfalso
        have key : ∀ st : State, st.stopPoint = none →
            Holds (fun _ => True) (fun t => t.stopPoint = none) st := fun st h => ⟨fun _ _ => trivial, h⟩
        have F0 : Frame g (fun _ => True) (fun t : State => t.stopPoint = none) := {
          qupd := fun _ _ _ _ => trivial
          qspawn := fun _ _ _ _ _ _ => trivial
          qqueue := fun _ _ _ _ => trivial
          qlaunch := fun _ _ _ => trivial
          jcongr := fun s s' hc h => (congrArg Core.stopPoint hc).trans h
          jtouch := fun s n p h => (frame_touch g s n p).1.trans h
          jadd := by
            intro s x h _
            unfold State.add
            split
            · exact h
            · have h1 : (enterPool g s x).stopPoint = none := by
                unfold enterPool ghostTouch
                exact foldl_inv (fun st : State => st.stopPoint = none) _
                  (fun st k hst => (frame_touch g st k.1 k.2).1.trans hst) _ _ h
              split
              · unfold setMaxFut; simp only; split
                · unfold computeRunahead; simp only; split
                  · exact h1
                  · split <;> exact h1
                · exact h1
              · exact h1
          jdrop := by
            intro s x h
            unfold dropKey
            have h1 : (dropPool s x).stopPoint = none := h
            split
            · unfold setMaxFut; simp only; split
              · unfold computeRunahead; simp only; split
                · exact h1
                · split <;> exact h1
              · exact h1
            · exact h1
          jcompute := by
            intro s f h
            unfold computeRunahead; simp only; split
            · exact h
            · split <;> exact h
          jlaunch := fun _ _ h _ _ => h
          jclear := fun _ h => h }
        have hres : (step g s op).stopPoint = none := by
          by_cases h1 : op = .loop
          · subst h1
            unfold step
            exact (holds_mainLoop F0 _ (holds_clearOp F0 s (key s hsp)) (fun _ _ _ _ _ => trivial)).2
          · exact (holds_step_plain F0 s op (key s hsp) h1 (fun p hp => h2 ⟨p, hp⟩) h3).2
        rw [hres] at hsp'
        simp at hsp'
      | some sp =>
        have hh := h sp hsp
        apply spinv_of_holds (sp := sp)
        by_cases h1 : op = .loop
        · subst h1
          unfold step
          refine holds_mainLoop (stopFrame g sp) _ (holds_clearOp (stopFrame g sp) s hh) ?_
          intro lim y hl hy hq
          exact hrel_good _ lim y (js_computeRunahead g _ false (holds_clearOp (stopFrame g sp) s hh).2) hl hy hq
        · exact holds_step_plain (stopFrame g sp) s op hh h1 (fun p hp => h2 ⟨p, hp⟩) h3

theorem spinv_init (g : Graph) : SPInv (init g) := by
  cases hsp : g.stopPoint with
  | none =>
    intro sp' hsp'
    exfalso
    -- without a configured stop point the start-up state has none
    have F0 : Frame g (fun _ => True) (fun t : State => t.stopPoint = g.stopPoint) := {
      qupd := fun _ _ _ _ => trivial
      qspawn := fun _ _ _ _ _ _ => trivial
      qqueue := fun _ _ _ _ => trivial
      qlaunch := fun _ _ _ => trivial
      jcongr := fun s s' hc h => (congrArg Core.stopPoint hc).trans h
      jtouch := fun s n p h => (frame_touch g s n p).1.trans h
      jadd := by
        intro s x h _
        unfold State.add
        split
        · exact h
        · have h1 : (enterPool g s x).stopPoint = g.stopPoint := by
            unfold enterPool ghostTouch
            exact foldl_inv (fun st : State => st.stopPoint = g.stopPoint) _
              (fun st k hst => (frame_touch g st k.1 k.2).1.trans hst) _ _ h
          split
          · unfold setMaxFut; simp only; split
            · unfold computeRunahead; simp only; split
              · exact h1
              · split <;> exact h1
            · exact h1
          · exact h1
      jdrop := by
        intro s x h
        unfold dropKey
        have h1 : (dropPool s x).stopPoint = g.stopPoint := h
        split
        · unfold setMaxFut; simp only; split
          · unfold computeRunahead; simp only; split
            · exact h1
            · split <;> exact h1
          · exact h1
        · exact h1
      jcompute := by
        intro s f h
        unfold computeRunahead; simp only; split
        · exact h
        · split <;> exact h
      jlaunch := fun _ _ h _ _ => h
      jclear := fun _ h => h }
    have := (holds_init F0 rfl (fun _ _ _ _ _ _ _ => trivial)).2
    rw [this, hsp] at hsp'
    simp at hsp'
  | some sp =>
    apply spinv_of_holds (sp := sp)
    refine holds_init (stopFrame g sp) ⟨hsp, ?_, ?_⟩ hrel_good
    · intro l hl; simp at hl
    · intro l hl; simp at hl

/-- op lists without `stopPoint` and `restart` ops satisfy the guard trivially -/
theorem guarded_of_plain (g : Graph) : ∀ (ops : List Op) (s : State),
    (∀ op ∈ ops, (∀ p, op ≠ .stopPoint p) ∧ op ≠ .restart) → Guarded g (okOp g) s ops := by
  intro ops
  induction ops with
  | nil => intro _ _; trivial
  | cons op ops ih =>
    intro s h
    refine ⟨?_, ih _ (fun o ho => h o (List.mem_cons_of_mem _ ho))⟩
    have := h op List.mem_cons_self
    cases op with
    | stopPoint p => exact absurd rfl (this.1 p)
    | restart => exact absurd rfl this.2
    | _ => rfl

/-- **the stop-point invariant holds in every state of every guarded run** -/
theorem spinv_run (g : Graph) (ops : List Op) (hg : Guarded g (okOp g) (init g) ops) : ∀ s ∈ run g ops, SPInv s :=
  run_inv_guarded SPInv g (okOp g) (spinv_init g) (fun s op h hok => spinv_step g s op h hok) ops hg

/-! ### a proxy at or before the stop point never depends on anything beyond it -/

/-- no prerequisite atom of a proxy at or before the stop point `sp` targets a point beyond `sp` -/
def AtomsOK (sp : Int) (x : Proxy) : Prop := x.pt ≤ sp → ∀ l ∈ atomKeys x, ∀ a ∈ l, a.pt ≤ sp

theorem stopPoint_computeRunahead (g : Graph) (s : State) (f : Bool) : (computeRunahead g s f).stopPoint = s.stopPoint := by
  unfold computeRunahead; simp only; split
  · rfl
  · split <;> rfl

theorem stopPoint_setMaxFut (g : Graph) (s : State) : (setMaxFut g s).stopPoint = s.stopPoint := by
  unfold setMaxFut; simp only; split
  · exact stopPoint_computeRunahead g _ _
  · rfl

theorem stopPoint_enterPool (g : Graph) (s : State) (x : Proxy) : (enterPool g s x).stopPoint = s.stopPoint := by
  unfold enterPool ghostTouch
  exact foldl_inv (fun st : State => st.stopPoint = s.stopPoint) _
    (fun st k hst => (frame_touch g st k.1 k.2).1.trans hst) _ _ rfl

theorem stopPoint_add (g : Graph) (s : State) (x : Proxy) : (State.add g s x).stopPoint = s.stopPoint := by
  unfold State.add
  split
  · rfl
  · split
    · rw [stopPoint_setMaxFut, stopPoint_enterPool]
    · exact stopPoint_enterPool g s x

theorem stopPoint_dropKey (g : Graph) (s : State) (x : Proxy) : (dropKey g s x).stopPoint = s.stopPoint := by
  unfold dropKey
  split
  · rw [stopPoint_setMaxFut]; rfl
  · rfl

theorem stopPoint_holdOnSpawn (s : State) (n : String) (p : Int) (y : Proxy) :
    (holdOnSpawn s n p y).1.stopPoint = s.stopPoint := by
  unfold holdOnSpawn
  split
  · rfl
  · split
    · split <;> rfl
    · rfl

theorem atomKeys_reset (x : Proxy) (a : Option Status) (b c d : Option Bool) : atomKeys (x.reset a b c d) = atomKeys x := by
  unfold atomKeys; rw [reset_pre]

theorem beyondStop_false {s : State} {sp p : Int} {y : Proxy} (hs : s.stopPoint = some sp)
    (h : beyondStop s p y = false) (hp : p ≤ sp) : ∀ l ∈ atomKeys y, ∀ a ∈ l, a.pt ≤ sp := by
  unfold beyondStop at h
  rw [hs] at h
  simp only [Bool.and_eq_false_iff, decide_eq_false_iff_not] at h
  rcases h with h | h
  · exact absurd hp h
  · intro l hl a ha
    unfold atomKeys at hl
    obtain ⟨pr, hpr, rfl⟩ := List.mem_map.mp hl
    obtain ⟨b, hb, rfl⟩ := List.mem_map.mp ha
    have h1 : (pr.atoms.any fun a => decide (a.1.pt > sp)) = false := by
      cases hc : (pr.atoms.any fun a => decide (a.1.pt > sp)) with
      | false => rfl
      | true =>
        have := List.any_eq_false.mp h pr hpr
        rw [hc] at this
        exact absurd this (by decide)
    have h2 : decide (b.1.pt > sp) = false := by
      cases hc : decide (b.1.pt > sp) with
      | false => rfl
      | true =>
        have := List.any_eq_false.mp h1 b hb
        rw [hc] at this
        exact absurd this (by decide)
    simp only [decide_eq_false_iff_not] at h2
    omega

theorem atomsFrame (g : Graph) (sp : Int) : Frame g (AtomsOK sp) (fun t => t.stopPoint = some sp) where
  qupd := by
    intro x y hx hu hp
    obtain ⟨a, _, _, _, _, _, f⟩ := hu
    rw [f]
    exact hx (a ▸ hp)
  qspawn := by
    intro s n p y hs hy hp
    obtain ⟨x, y0, hx, hy0, hb, heq⟩ := spawnTask_some_eq hy
    have hk := spawnTask_some hy
    rw [heq] at hy
    simp only [Option.some.injEq] at hy
    subst hy
    rw [(absSatisfy_fresh _ _ _ _ (holdOnSpawn_fresh _ _ _ _ (revive_fresh hy0 (mkProxy_fresh hx)).1).1).2]
    refine beyondStop_false ?_ hb (hk.1 ▸ hp)
    rw [stopPoint_holdOnSpawn, (frame_touch g s n p).1]
    exact hs
  qqueue := by
    intro x hx _ _ hp
    rw [atomKeys_reset]
    exact hx (reset_pt x _ _ _ _ ▸ hp)
  qlaunch := by
    intro x hx _ hp
    have hk : atomKeys (launchProxy x) = atomKeys x := by
      unfold launchProxy atomKeys
      show (((x.reset (queued := some false)).reset (status := some .preparing)).pre).map _ = _
      rw [reset_pre, reset_pre]
    rw [hk]
    exact hx (launchProxy_pt x ▸ hp)
  jcongr := fun s s' hc h => (congrArg Core.stopPoint hc).trans h
  jtouch := fun s n p h => (frame_touch g s n p).1.trans h
  jadd := fun s x h _ => (stopPoint_add g s x).trans h
  jdrop := fun s x h => (stopPoint_dropKey g s x).trans h
  jcompute := fun s f h => (stopPoint_computeRunahead g s f).trans h
  jlaunch := fun _ _ h _ _ => h
  jclear := fun _ h => h

/-- **the future-trigger exception of `spawn_task` as a run invariant**: as long as the stop point is not moved,
no pooled proxy at or before the stop point has a prerequisite atom beyond it -/
theorem atoms_ok_run (g : Graph) (sp : Int) (hsp : g.stopPoint = some sp) (ops : List Op)
    (hops : ∀ op ∈ ops, (∀ p, op ≠ .stopPoint p) ∧ op ≠ .restart) :
    ∀ s ∈ run g ops, Holds (AtomsOK sp) (fun t => t.stopPoint = some sp) s := by
  have hrel : ∀ (y : Proxy), AtomsOK sp y → AtomsOK sp (y.reset (runahead := some false)) := by
    intro y hy hp
    rw [atomKeys_reset]
    exact hy (reset_pt y _ _ _ _ ▸ hp)
  refine run_inv_ops _ (fun op => (∀ p, op ≠ .stopPoint p) ∧ op ≠ .restart) g ?_ ?_ ops hops
  · exact holds_init (atomsFrame g sp) hsp (fun _ _ y _ _ _ hq => hrel y hq)
  · intro s op hok h
    by_cases h1 : op = .loop
    · subst h1
      unfold step
      exact holds_mainLoop (atomsFrame g sp) _ (holds_clearOp (atomsFrame g sp) s h) (fun _ y _ _ hq => hrel y hq)
    · exact holds_step_plain (atomsFrame g sp) s op h h1 hok.1 hok.2

end CylcModel.Sched3Fut
