/-
Model of `cylc.flow.subprocpool.SubProcPool` (put_command / process / set_stopping / close /
terminate), as far as property C42 can see it: which commands are queued, started, called back
(and with which kind of result), and how many run at once.

Environment (inputs of the model, not decided by the pool): which running children are found
exited by `proc.poll()` during a `process()` / `terminate()` call, and the clock (`time()`), which
decides timeouts.  Commands are described by what they do when run:
  quick  - exits by itself with `code`
  slow   - exits with `code` once it has been released (its stdin closed), never before
  hang   - never exits by itself
  bad    - cannot be started (`OSError` from `procopen`)
A command may be `remote` (`cmd[0]` is ssh / rsync) and may carry a second callback (`cb255`), which
`_run_command_exit` calls instead of the ordinary one when the remote command exits 255.

Two behaviours of the code are parameters (`Flags`), probed from the live code into
`Generated/SubProcFlags.lean`:
  dropStop - `process()` drops the callback of a queued job-submit command met while stopping
  dropTerm - `terminate()` drops the callbacks of the commands it drains from the queue
-/
import CylcModel.Generated.SubProcFlags
namespace CylcModel.SubProc

inductive Kind where
  | quick | slow | hang | bad
  deriving DecidableEq, Repr, Inhabited

structure Cmd where
  id : Nat
  /-- `ctx.cmd_key == SubProcPool.JOBS_SUBMIT` -/
  submit : Bool
  kind : Kind
  code : Int
  /-- `ctx.cmd[0]` is `ssh` or `rsync`: exit status 255 means "host unreachable" -/
  remote : Bool
  /-- the command was put with a `callback_255` -/
  cb255 : Bool
  deriving DecidableEq, Repr, Inhabited

/-- an entry of `SubProcPool.runnings` -/
structure Run where
  cmd : Cmd
  /-- `ctx.timeout` -/
  deadline : Int
  deriving DecidableEq, Repr

structure Flags where
  dropStop : Bool
  dropTerm : Bool
  deriving DecidableEq, Repr

/-- the behaviour every command's caller relies on: no callback is ever dropped -/
def Flags.sound : Flags := ⟨false, false⟩
/-- the behaviour probed from the code under test -/
def Flags.code : Flags := ⟨codeDropStop, codeDropTerm⟩

/-- what the callback is told -/
inductive Outcome where
  | exit (code : Int)   -- the command ran and exited
  | host255             -- ssh / rsync exited 255 and the command has a 255 callback: that one is called INSTEAD
  | timeout             -- killed by the pool: ran longer than the pool timeout
  | killed              -- killed by `terminate()`
  | stopping            -- not run: pool closed / stopping (ret_code 999)
  | oserr               -- could not be started
  deriving DecidableEq, Repr

inductive Ev where
  | cb (id : Nat) (o : Outcome)
  | start (c : Cmd)
  deriving DecidableEq, Repr

structure State where
  size : Nat
  timeout : Int
  now : Int
  queue : List Cmd
  running : List Run
  closed : Bool
  stopping : Bool
  /-- slow commands whose stdin has been closed -/
  released : List Nat
  deriving Repr

def init (size : Nat) (timeout : Int) : State :=
  { size, timeout, now := 0, queue := [], running := [], closed := false, stopping := false, released := [] }

inductive Op where
  | put (c : Cmd)
  /-- `process()`; `exited` = ids of the running children whose `poll()` was not None -/
  | process (exited : List Nat)
  | advance (dt : Nat)
  | release (id : Nat)
  | setStopping
  | close
  /-- `terminate()`; `exited` = ids whose `poll()` was not None after the kill -/
  | terminate (exited : List Nat)
  deriving Repr

/-- the command has exited by itself (so a later kill does not change its exit status) -/
def finished (released : List Nat) (c : Cmd) : Bool :=
  c.kind == .quick || (c.kind == .slow && released.contains c.id)

/-- `_run_command_exit` for a command that ran: an ssh / rsync command that exited 255 is reported
through its `callback_255` when it has one (and only through that one), everything else through
the ordinary callback -/
def exitOutcome (c : Cmd) : Outcome :=
  if c.remote && c.code == 255 && c.cb255 then .host255 else .exit c.code

/-- first loop of `process()`: children found exited are called back, children past their
deadline are killed and called back, the others stay. `killedAll` = after `terminate()` killed
every child: one that had not finished by itself reports the kill. -/
def reap (now : Int) (exited : List Nat) (killedAll : Bool) (released : List Nat) :
    List Run → List Run × List Ev
  | [] => ([], [])
  | r :: rs =>
    let rest := reap now exited killedAll released rs
    if exited.contains r.cmd.id then
      let o := if killedAll && !finished released r.cmd then Outcome.killed else exitOutcome r.cmd
      (rest.1, .cb r.cmd.id o :: rest.2)
    else if now > r.deadline then (rest.1, .cb r.cmd.id .timeout :: rest.2)
    else (r :: rest.1, rest.2)

/-- second loop of `process()`: start queued commands while there is room. `dl` = deadline of
the commands started now. -/
def launch (fl : Flags) (size : Nat) (dl : Int) (stopping : Bool) :
    List Cmd → List Run → List Cmd × List Run × List Ev
  | [], rs => ([], rs, [])
  | c :: q, rs =>
    if rs.length < size then
      if stopping && c.submit then
        let r := launch fl size dl stopping q rs
        (r.1, r.2.1, if fl.dropStop then r.2.2 else .cb c.id .stopping :: r.2.2)
      else if c.kind == .bad then
        let r := launch fl size dl stopping q rs
        (r.1, r.2.1, .cb c.id .oserr :: r.2.2)
      else
        let r := launch fl size dl stopping q (rs ++ [⟨c, dl⟩])
        (r.1, r.2.1, .start c :: r.2.2)
    else (c :: q, rs, [])

def doProcess (fl : Flags) (s : State) (exited : List Nat) (killedAll : Bool) : State × List Ev :=
  let r1 := reap s.now exited killedAll s.released s.running
  let r2 := launch fl s.size (s.now + s.timeout) s.stopping s.queue r1.1
  ({ s with queue := r2.1, running := r2.2.1 }, r1.2 ++ r2.2.2)

def step (fl : Flags) (s : State) : Op → State × List Ev
  | .put c =>
    if s.closed || (s.stopping && c.submit) then (s, [.cb c.id .stopping])
    else ({ s with queue := s.queue ++ [c] }, [])
  | .process exited => doProcess fl s exited false
  | .advance dt => ({ s with now := s.now + dt }, [])
  | .release id => ({ s with released := id :: s.released }, [])
  | .setStopping => ({ s with stopping := true }, [])
  | .close => ({ s with stopping := true, closed := true }, [])
  | .terminate exited =>
    let ev0 := if fl.dropTerm then [] else s.queue.map fun c => Ev.cb c.id .stopping
    let r := doProcess fl { s with stopping := true, closed := true, queue := [] } exited true
    (r.1, ev0 ++ r.2)

/-- whole history: final state and all events -/
def exec (fl : Flags) (s : State) : List Op → State × List Ev
  | [] => (s, [])
  | op :: ops =>
    let r1 := step fl s op
    let r2 := exec fl r1.1 ops
    (r2.1, r1.2 ++ r2.2)

/-- per operation: events, queue length, number running (what the harness observes) -/
def trace (fl : Flags) (s : State) : List Op → List (List Ev × Nat × Nat)
  | [] => []
  | op :: ops =>
    let r1 := step fl s op
    (r1.2, r1.1.queue.length, r1.1.running.length) :: trace fl r1.1 ops

/-! ### counting -/

def isCb (id : Nat) : Ev → Bool
  | .cb i _ => i == id
  | .start _ => false

/-- number of callbacks command `id` got -/
def cbN (id : Nat) (evs : List Ev) : Nat := evs.countP (isCb id)
def qN (id : Nat) (q : List Cmd) : Nat := q.countP (·.id == id)
def rN (id : Nat) (rs : List Run) : Nat := rs.countP (·.cmd.id == id)

def isPut (id : Nat) : Op → Bool
  | .put c => c.id == id
  | _ => false
/-- number of times command `id` was put -/
def putN (id : Nat) (ops : List Op) : Nat := ops.countP (isPut id)

/-- job-submit commands among the started ones -/
def startedSubmits (evs : List Ev) : List Cmd :=
  evs.filterMap fun
    | .start c => if c.submit then some c else none
    | .cb _ _ => none

/-! ### the property as a monitor over observed histories (used by the driver as the judge)

The monitor sees the operations and, per operation, the events observed on the implementation
(`start` of a child process, callback). It knows nothing of the model's state. -/
namespace Spec

inductive Fail where
  | twice (k : Nat) (id : Nat)                 -- a second callback
  | unknown (k : Nat) (id : Nat)               -- callback / start of a command never put
  | overSize (k : Nat) (n size : Nat)          -- more children alive than the pool size
  | submitWhileStopping (k : Nat) (id : Nat)   -- job-submit command started after stop
  | startedTwice (k : Nat) (id : Nat)
  | noCallback (id : Nat) (why : String)       -- at quiescence: never called back
  deriving DecidableEq, Repr

structure Mon where
  put : List Nat := []        -- ids put so far
  submit : List Nat := []     -- the job-submit ones among them
  called : List Nat := []     -- ids called back
  started : List Nat := []    -- ids started
  stopping : Bool := false
  /-- pending (put, not started, not called back) when stop / terminate happened -/
  pendAtStop : List Nat := []
  pendAtTerm : List Nat := []
  terminated : Bool := false

def Mon.alive (m : Mon) : List Nat := m.started.filter fun i => !m.called.contains i
def Mon.pending (m : Mon) : List Nat :=
  m.put.filter fun i => !m.started.contains i && !m.called.contains i

def onEvent (size : Nat) (k : Nat) (m : Mon) : Ev → Except Fail Mon
  | .cb id _ =>
    if !m.put.contains id then .error (.unknown k id)
    else if m.called.contains id then .error (.twice k id)
    else .ok { m with called := id :: m.called }
  | .start c =>
    if !m.put.contains c.id then .error (.unknown k c.id)
    else if m.started.contains c.id then .error (.startedTwice k c.id)
    else if m.stopping && m.submit.contains c.id then .error (.submitWhileStopping k c.id)
    else
      let m' := { m with started := c.id :: m.started }
      if m'.alive.length > size then .error (.overSize k m'.alive.length size) else .ok m'

def onEvents (size : Nat) (k : Nat) (m : Mon) : List Ev → Except Fail Mon
  | [] => .ok m
  | e :: es => do
    let m1 ← onEvent size k m e
    onEvents size k m1 es

def onOp (m : Mon) : Op → Mon
  | .put c => { m with put := c.id :: m.put, submit := if c.submit then c.id :: m.submit else m.submit }
  | .setStopping | .close =>
    { m with stopping := true, pendAtStop := if m.stopping then m.pendAtStop else m.pending }
  | .terminate _ =>
    { m with stopping := true, terminated := true,
             pendAtStop := if m.stopping then m.pendAtStop else m.pending, pendAtTerm := m.pending }
  | _ => m

/-- monitor a whole history: `obs` = the events observed per operation -/
def monitor (size : Nat) : Nat → Mon → List Op → List (List Ev) → Except Fail Mon
  | _, m, [], _ => .ok m
  | k, m, op :: ops, obs => do
    let m1 ← onEvents size k (onOp m op) (obs.headD [])
    monitor size (k + 1) m1 ops obs.tail

/-- at the end of a history that was driven to quiescence (nothing queued, nothing running, or
terminated): every command put has been called back. The reason text starts with the key of the
recorded finding the loss belongs to, when it does. -/
def checkQuiescent (m : Mon) : Except Fail Unit :=
  match m.put.reverse.find? fun i => !m.called.contains i with
  | none => .ok ()
  | some id =>
    let why :=
      if m.started.contains id then
        if m.terminated then "terminate-no-wait: the command was running at terminate() and was never called back"
        else "the command was started and never called back"
      else if m.pendAtTerm.contains id then
        "terminate-drop: the command was queued at terminate() and was never called back"
      else if m.submit.contains id && m.pendAtStop.contains id then
        "stopping-drop: the job-submit command was queued when the pool was set stopping and was never called back"
      else "the command was never started and never called back"
    .error (.noCallback id why)

def judge (size : Nat) (ops : List Op) (obs : List (List Ev)) : Except Fail Unit := do
  let m ← monitor size 0 {} ops obs
  checkQuiescent m

end Spec

end CylcModel.SubProc
