/-
Component `Ident` (property C23): Cylc universal identifiers.

Executable model (core Lean only) of cylc/flow/id.py:
  * `tokenise`  (UNIVERSAL_ID, then RELATIVE_ID; `relative=True` prefixes `//`; `_dict_strip`),
  * `detokenise` (the loop over `IDTokens`, `*` fillers, `~user`, zero-padded job, selectors),
  * `legacy_tokenise` (LEGACY_TASK_DOT_CYCLE, LEGACY_CYCLE_SLASH_TASK) and `upgrade_legacy_ids`,
  * `Tokens.__eq__` / `__ne__` / `__hash__` (as the key it hashes) / `duplicate` / `task` / `workflow`.

The regular expressions are re-implemented as a hand-written splitter over `List Char`.  It is
deterministic because of how the character classes exclude the separators (the lemmas about that are in
`IdentLemmas.lean`); its equivalence with Python's `re` on these patterns is tied by correspondence only
(DESIGN §5 C23, level L).  The character classes themselves, the token order, the quantifier of the
legacy cycle patterns and the white-space set of `str.strip` are *generated* from the live source into
`Generated/IdentTables.lean` and consumed here.

How the patterns read (all classes exclude `\n`, so `$` = end of the string once one trailing `\n` is
dropped):

  UNIVERSAL_ID   [~user(/|$)] [workflow[:sel] [ // | //cycle[:sel][/[task[:sel][/[job[:sel]]]]] ]] $
                 workflow = non-empty segments joined by single `/`
  RELATIVE_ID    //cycle[:sel][/[task[:sel][/[job[:sel]]]]] $
  the cycle is matched lazily and may contain `:`; since whatever follows `cycle[:sel]` is `/` or the
  end, the text up to the next `/` is split at its LAST colon when both halves are legal, and is
  otherwise taken whole.
-/
import CylcModel.Generated.IdentTables

namespace CylcModel.Ident
open CylcModel.Generated.IdentTables

abbrev Str := List Char

/-! ## Character classes (generated tables) -/

/-- `[^...]` -/
def notIn (ex : List Char) (c : Char) : Bool := !ex.contains c

def userCh : Char → Bool := notIn userNot
def wfCh : Char → Bool := notIn workflowNot
def wfSelCh : Char → Bool := notIn workflowSelNot
def cyc0Ch : Char → Bool := notIn cycleFirstNot
def cycCh : Char → Bool := notIn cycleRestNot
def cycSelCh : Char → Bool := notIn cycleSelNot
def taskCh : Char → Bool := notIn taskNot
def taskSelCh : Char → Bool := notIn taskSelNot
def jobCh : Char → Bool := notIn jobNot
def jobSelCh : Char → Bool := notIn jobSelNot
def lgDotTaskCh : Char → Bool := notIn lgDotTaskNot
def lgDotCycCh : Char → Bool := notIn lgDotCycleNot
def lgDotSelCh : Char → Bool := notIn lgDotSelNot
def lgSlashTaskCh : Char → Bool := notIn lgSlashTaskNot
def lgSlashCycCh : Char → Bool := notIn lgSlashCycleNot
def lgSlashSelCh : Char → Bool := notIn lgSlashSelNot
/-- `\d` (ASCII part) -/
def digitCh (c : Char) : Bool := asciiDigits.contains c
/-- `c.isspace()` -/
def isWs (c : Char) : Bool := pyWhitespace.contains c

/-! ## Tokens -/

/-- The nine keys of a `Tokens` dictionary, each absent/`None` (`none`) or a string. -/
structure Tokens where
  user : Option Str := none
  workflow : Option Str := none
  workflowSel : Option Str := none
  cycle : Option Str := none
  cycleSel : Option Str := none
  task : Option Str := none
  taskSel : Option Str := none
  job : Option Str := none
  jobSel : Option Str := none
deriving DecidableEq, Repr, Inhabited

/-- `IDTokens` -/
inductive Key | user | workflow | cycle | task | job
deriving DecidableEq, Repr

def Key.ofName (n : List Char) : Option Key :=
  if n = ['u', 's', 'e', 'r'] then some .user
  else if n = ['w', 'o', 'r', 'k', 'f', 'l', 'o', 'w'] then some .workflow
  else if n = ['c', 'y', 'c', 'l', 'e'] then some .cycle
  else if n = ['t', 'a', 's', 'k'] then some .task
  else if n = ['j', 'o', 'b'] then some .job
  else none

/-- iteration order of `IDTokens` (generated) -/
def keyOrder : List Key := idTokens.filterMap Key.ofName

def Tokens.get (t : Tokens) : Key → Option Str
  | .user => t.user | .workflow => t.workflow | .cycle => t.cycle | .task => t.task | .job => t.job

/-- `tokens.get(key + '_sel')`; there is no `user_sel` key -/
def Tokens.getSel (t : Tokens) : Key → Option Str
  | .user => none | .workflow => t.workflowSel | .cycle => t.cycleSel | .task => t.taskSel | .job => t.jobSel

/-- Python truthiness of `str | None` -/
def truthy : Option Str → Bool
  | some (_ :: _) => true
  | _ => false

/-! ## str.strip, int(), format(n, '02') -/

def pyStrip (s : Str) : Str := ((s.dropWhile isWs).reverse.dropWhile isWs).reverse

def digitVal (c : Char) : Nat := c.toNat - 48

/-- decimal digits, single underscores allowed between digits (`prev` = previous character was a digit) -/
def parseDigits : Str → Nat → Bool → Option Nat
  | [], acc, prev => if prev then some acc else none
  | c :: cs, acc, prev =>
    if c = '_' then (if prev then parseDigits cs acc false else none)
    else if digitCh c then parseDigits cs (acc * 10 + digitVal c) true
    else none

/-- `int(s)` for ASCII input; `none` = ValueError -/
def pyInt (s : Str) : Option Int :=
  match pyStrip s with
  | '-' :: r => (parseDigits r 0 false).map fun n => -(n : Int)
  | '+' :: r => (parseDigits r 0 false).map fun n => (n : Int)
  | r => (parseDigits r 0 false).map fun n => (n : Int)

def digitChar (d : Nat) : Char := Char.ofNat (48 + d)

def natDigitsAux : Nat → Nat → Str → Str
  | 0, _, acc => acc
  | fuel + 1, n, acc =>
    if n < 10 then digitChar n :: acc else natDigitsAux fuel (n / 10) (digitChar (n % 10) :: acc)

/-- `str(n)` -/
def natDigits (n : Nat) : Str := natDigitsAux (n + 1) n []

/-- `f'{n:02}'` -/
def fmt02 (n : Int) : Str :=
  if n < 0 then '-' :: natDigits n.natAbs
  else
    let d := natDigits n.toNat
    if d.length < 2 then '0' :: d else d

def strNN : Str := ['N', 'N']

/-- the job part as `detokenise` writes it: `NN` stays, anything else goes through `int()` -/
def fmtJob (j : Str) : Option Str :=
  if j = strNN then some j else (pyInt j).map fmt02

/-! ## detokenise -/

def joinSlash : List Str → Str
  | [] => []
  | [x] => x
  | x :: y :: r => x ++ '/' :: joinSlash (y :: r)

/-- elements up to and including the first one satisfying `p` (all of them if there is none) -/
def takeThrough {α} (p : α → Bool) : List α → List α
  | [] => []
  | x :: xs => if p x then [x] else x :: takeThrough p xs

/-- the value appended for selector `sel` when selectors are wanted -/
def addSel (selectors : Bool) (v : Str) (sel : Option Str) : Str :=
  if selectors && truthy sel then v ++ ':' :: sel.getD [] else v

/-- one turn of the loop body of `detokenise`: `none` = exception, `some none` = `continue` -/
def detokPart (t : Tokens) (selectors isPartial : Bool) (k : Key) : Option (Option Str) :=
  let value := t.get k
  if !truthy value && k = .user then some none
  else
    let v1 : Option Str :=
      if k = .user then some ('~' :: value.getD [])
      else if k = .job && value != some strNN then
        (match value with
         | some j => (pyInt j).map fmt02
         | none => none)     -- int(None): TypeError
      else some (value.getD [])
    match v1 with
    | none => none
    | some v1 =>
      let v2 := if v1.isEmpty then ['*'] else v1
      let v3 := addSel selectors v2 (t.getSel k)
      let v4 := if k = .workflow && !isPartial then v3 ++ ['/'] else v3
      some (some v4)

def detokParts (t : Tokens) (selectors isPartial : Bool) : List Key → Option (List Str)
  | [] => some []
  | k :: ks =>
    match detokPart t selectors isPartial k with
    | none => none
    | some p =>
      match detokParts t selectors isPartial ks with
      | none => none
      | some r => some (match p with | some v => v :: r | none => r)

/-- `detokenise(tokens, selectors, relative)`; `none` = ValueError -/
def detokenise (t : Tokens) (selectors : Bool := false) (relative : Bool := false) : Option Str :=
  let has := fun k => truthy (t.get k)
  let isRelative := !has .user && !has .workflow
  let isPartial := !has .cycle && !has .task && !has .job
  if isRelative && isPartial then none
  else
    match (keyOrder.filter has).getLast? with
    | none => none
    | some lowest =>
      let highest := if isRelative then Key.cycle else Key.user
      let start : List Str := if isRelative && !relative then [['/']] else []
      let ks := takeThrough (· = lowest) (keyOrder.dropWhile (· != highest))
      match detokParts t selectors isPartial ks with
      | none => none
      | some parts => some (joinSlash (start ++ parts))

/-! ## The splitter -/

def spanP (p : Char → Bool) : Str → Str × Str
  | [] => ([], [])
  | c :: cs => if p c then ((c :: (spanP p cs).1), (spanP p cs).2) else ([], c :: cs)

/-- `$`: drop one trailing newline -/
def chomp : Str → Str
  | [] => []
  | [c] => if c = '\n' then [] else [c]
  | c :: d :: r => c :: chomp (d :: r)

/-- `(?::(?P<x_sel>cls+))?` with greedy `cls+`; `none` = the pattern cannot match here -/
def optSel (cls : Char → Bool) : Str → Option (Option Str × Str)
  | ':' :: r =>
    let x := spanP cls r
    if x.1.isEmpty then none else some (some x.1, x.2)
  | r => some (none, r)

/-- workflow: `[^:~\n/]+(/[^:~\n/]+)*`, greedy: stop at a `/` not followed by a workflow character -/
def wfSpan : Str → Str × Str
  | [] => ([], [])
  | c :: cs =>
    if wfCh c then (c :: (wfSpan cs).1, (wfSpan cs).2)
    else if c = '/' then
      match cs with
      | d :: _ => if wfCh d then (c :: (wfSpan cs).1, (wfSpan cs).2) else ([], c :: cs)
      | [] => ([], c :: cs)
    else ([], c :: cs)

/-- split at the last occurrence of `sep`: (before, after) -/
def splitLast (sep : Char) : Str → Option (Str × Str)
  | [] => none
  | c :: cs =>
    match splitLast sep cs with
    | some (a, b) => some (c :: a, b)
    | none => if c = sep then some ([], cs) else none

/-- split at the first occurrence of `sep` -/
def splitFirst (sep : Char) : Str → Option (Str × Str)
  | [] => none
  | c :: cs =>
    if c = sep then some ([], cs)
    else match splitFirst sep cs with
      | some (a, b) => some (c :: a, b)
      | none => none

def cycleOk : Str → Bool
  | [] => false
  | c :: cs => cyc0Ch c && cs.all cycCh

def selOk (cls : Char → Bool) (s : Str) : Bool := !s.isEmpty && s.all cls

/-- `cycle[:cycle_sel]` on the text up to the next `/`: lazy cycle = split at the last colon if legal -/
def cycleSeg (x : Str) : Option (Str × Option Str) :=
  match splitLast ':' x with
  | some (h, tl) =>
    if cycleOk h && selOk cycSelCh tl then some (h, some tl)
    else if cycleOk x then some (x, none) else none
  | none => if cycleOk x then some (x, none) else none

/-- `(?P<job>..)(:(?P<job_sel>..))?` then the end -/
def parseJob (t : Tokens) (r : Str) : Option Tokens :=
  let j := spanP jobCh r
  if j.1.isEmpty then none
  else match optSel jobSelCh j.2 with
    | some (sel, []) => some { t with job := some j.1, jobSel := sel }
    | _ => none

/-- `(?P<task>..)(:sel)?(/(job..)?)?` then the end -/
def parseTask (t : Tokens) (r : Str) : Option Tokens :=
  let k := spanP taskCh r
  if k.1.isEmpty then none
  else match optSel taskSelCh k.2 with
    | some (sel, []) => some { t with task := some k.1, taskSel := sel }
    | some (sel, ['/']) => some { t with task := some k.1, taskSel := sel }
    | some (sel, '/' :: r') => parseJob { t with task := some k.1, taskSel := sel } r'
    | _ => none

/-- RELATIVE_PATTERN then the end; `r` is the text after the leading `//` -/
def parseRel (t : Tokens) (r : Str) : Option Tokens :=
  let x := spanP (· != '/') r
  match cycleSeg x.1 with
  | none => none
  | some (c, sel) =>
    let t := { t with cycle := some c, cycleSel := sel }
    match x.2 with
    | [] => some t
    | [_] => some t                     -- "/" (the span stopped at a slash)
    | _ :: r' => parseTask t r'

/-- the optional workflow part of UNIVERSAL_ID then the end; `r` non-empty -/
def parseWf (t : Tokens) (r : Str) : Option Tokens :=
  match r with
  | [] => none
  | c :: _ =>
    if !wfCh c then none
    else
      let w := wfSpan r
      match optSel wfSelCh w.2 with
      | none => none
      | some (sel, r2) =>
        let t := { t with workflow := some w.1, workflowSel := sel }
        match r2 with
        | [] => some t
        | ['/', '/'] => some t
        | '/' :: '/' :: r3 => parseRel t r3
        | _ => none

/-- `UNIVERSAL_ID.match(s).groupdict()` -/
def universal (s : Str) : Option Tokens :=
  match chomp s with
  | [] => none
  | '~' :: r =>
    let u := spanP userCh r
    if u.1.isEmpty then none
    else
      let t : Tokens := { user := some u.1 }
      match u.2 with
      | [] => some t
      | ['/'] => some t
      | '/' :: r' => parseWf t r'
      | _ => none
  | r => parseWf {} r

/-- `RELATIVE_ID.match(s).groupdict()` (absent keys read as `None`) -/
def relativeId (s : Str) : Option Tokens :=
  match chomp s with
  | '/' :: '/' :: r => parseRel {} r
  | _ => none

/-- `value.strip() if value else None` -/
def stripOpt : Option Str → Option Str
  | some (c :: cs) => some (pyStrip (c :: cs))
  | _ => none

def dictStrip (t : Tokens) : Tokens :=
  { user := stripOpt t.user, workflow := stripOpt t.workflow, workflowSel := stripOpt t.workflowSel,
    cycle := stripOpt t.cycle, cycleSel := stripOpt t.cycleSel, task := stripOpt t.task,
    taskSel := stripOpt t.taskSel, job := stripOpt t.job, jobSel := stripOpt t.jobSel }

def startsSS : Str → Bool
  | '/' :: '/' :: _ => true
  | _ => false

/-- `tokenise(identifier, relative)`; `none` = ValueError -/
def tokenise (s : Str) (relative : Bool := false) : Option Tokens :=
  let s := if relative && !startsSS s then '/' :: '/' :: s else s
  match universal s with
  | some t => some (dictStrip t)
  | none =>
    match relativeId s with
    | some t => some (dictStrip t)
    | none => none

/-! ## Legacy identifiers -/

/-- result of `legacy_tokenise` (a plain dict with these three keys) -/
structure Legacy where
  cycle : Str
  task : Str
  taskSel : Option Str
deriving DecidableEq, Repr

/-- `\d[^~.:/\n]{min,}` -/
def lgCycleOk (cls : Char → Bool) (min : Nat) : Str → Bool
  | [] => false
  | c :: cs => digitCh c && cs.all cls && decide (min ≤ cs.length)

/-- the optional `:sel` tail shared by both legacy patterns: (text before the first colon, selector) -/
def lgSplitSel (cls : Char → Bool) (s : Str) : Option (Str × Option Str) :=
  match splitFirst ':' s with
  | some (a, sel) => if selOk cls sel then some (a, some sel) else none
  | none => some (s, none)

/-- LEGACY_TASK_DOT_CYCLE: greedy task, so the separating dot is the last one
(`min` = characters demanded after the leading digit of the cycle) -/
def legacyDotWith (min : Nat) (s : Str) : Option Legacy :=
  match lgSplitSel lgDotSelCh (chomp s) with
  | none => none
  | some (a, sel) =>
    match splitLast '.' a with
    | none => none
    | some (task, cyc) =>
      if selOk lgDotTaskCh task && lgCycleOk lgDotCycCh min cyc
      then some ⟨cyc, task, sel⟩ else none

def legacyDot (s : Str) : Option Legacy := legacyDotWith lgDotCycleMin s

/-- LEGACY_CYCLE_SLASH_TASK -/
def legacySlashWith (min : Nat) (s : Str) : Option Legacy :=
  match lgSplitSel lgSlashSelCh (chomp s) with
  | none => none
  | some (a, sel) =>
    match splitFirst '/' a with
    | none => none
    | some (cyc, task) =>
      if selOk lgSlashTaskCh task && lgCycleOk lgSlashCycCh min cyc
      then some ⟨cyc, task, sel⟩ else none

def legacySlash (s : Str) : Option Legacy := legacySlashWith lgSlashCycleMin s

/-- `legacy_tokenise` incl. `_dict_strip`; `none` = ValueError -/
def legacyTokenise (s : Str) : Option Legacy :=
  let strip := fun (l : Legacy) => (⟨pyStrip l.cycle, pyStrip l.task, stripOpt l.taskSel⟩ : Legacy)
  match legacyDot s with
  | some l => some (strip l)
  | none => (legacySlash s).map strip

def Legacy.toTokens (l : Legacy) : Tokens :=
  { cycle := some l.cycle, task := some l.task, taskSel := l.taskSel }

def upgradeAll (relative : Bool) : List Str → Option (List Str)
  | [] => some []
  | i :: is =>
    match legacyTokenise i with
    | none => none
    | some l =>
      match detokenise l.toTokens true relative, upgradeAll relative is with
      | some s, some r => some (s :: r)
      | _, _ => none

/-- `upgrade_legacy_ids(*ids, relative=...)` -/
def upgradeLegacyIds (ids : List Str) (relative : Bool := false) : List Str :=
  if relative then (upgradeAll true ids).getD ids
  else match ids with
    | first :: rest@(_ :: _) => ((upgradeAll false rest).map (first :: ·)).getD ids
    | _ => ids

/-! ## Tokens as a dictionary: `__eq__`, `__ne__`, `__hash__`, `duplicate`, `task`, `workflow` -/

inductive DKey | user | workflow | workflowSel | cycle | cycleSel | task | taskSel | job | jobSel
deriving DecidableEq, Repr

/-- a dictionary: keys present in insertion order, values may be `None` -/
abbrev Dict := List (DKey × Option Str)

def DKey.all : List DKey := [.user, .workflow, .workflowSel, .cycle, .cycleSel, .task, .taskSel, .job, .jobSel]

def Dict.lookup (d : Dict) (k : DKey) : Option Str :=
  match d.reverse.find? (·.1 = k) with
  | some (_, v) => v
  | none => none

/-- what `tokens[key]` reads for the nine keys -/
def Dict.toTokens (d : Dict) : Tokens :=
  { user := d.lookup .user, workflow := d.lookup .workflow, workflowSel := d.lookup .workflowSel,
    cycle := d.lookup .cycle, cycleSel := d.lookup .cycleSel, task := d.lookup .task,
    taskSel := d.lookup .taskSel, job := d.lookup .job, jobSel := d.lookup .jobSel }

def Tokens.read (t : Tokens) : DKey → Option Str
  | .user => t.user | .workflow => t.workflow | .workflowSel => t.workflowSel | .cycle => t.cycle
  | .cycleSel => t.cycleSel | .task => t.task | .taskSel => t.taskSel | .job => t.job | .jobSel => t.jobSel

/-- `Tokens.__eq__`: all nine keys read equal (`None` and `''` differ) -/
def Tokens.pyEq (a b : Tokens) : Bool := DKey.all.all fun k => a.read k == b.read k
/-- `Tokens.__ne__`: some key reads different -/
def Tokens.pyNe (a b : Tokens) : Bool := DKey.all.any fun k => a.read k != b.read k
/-- what `Tokens.__hash__` hashes: the truthy items -/
def Tokens.hashKey (t : Tokens) : List (DKey × Str) :=
  DKey.all.filterMap fun k => match t.read k with | some (c :: cs) => some (k, c :: cs) | _ => none

/-- `a.duplicate(*others, **kw)`: later dictionaries override, explicit `None`s included -/
def duplicate (a : Dict) (others : List Dict) (kw : Dict) : Tokens :=
  Dict.toTokens (a ++ others.flatten ++ kw)

/-- `Tokens.task` -/
def Tokens.taskPart (t : Tokens) : Tokens :=
  { cycle := t.cycle, cycleSel := t.cycleSel, task := t.task, taskSel := t.taskSel, job := t.job, jobSel := t.jobSel }
/-- `Tokens.workflow` -/
def Tokens.workflowPart (t : Tokens) : Tokens :=
  { user := t.user, workflow := t.workflow, workflowSel := t.workflowSel }

/-! ## Specification side (used by the theorems as hypotheses / expected values and by the judge)

Nothing below is called by the model functions above. -/

/-- a value that `str.strip()` leaves alone and that is not empty -/
def stripped : Str → Bool
  | [] => false
  | c :: cs => !isWs c && !isWs ((c :: cs).getLast?.getD c)

/-- a legal field: non-empty, every character in the class of its regex group, no outer white space -/
def fieldOk (cls : Char → Bool) (s : Str) : Bool := s.all cls && stripped s

/-- after a workflow character: workflow characters, or a single `/` followed by a workflow character -/
def wfBody : Str → Bool
  | [] => true
  | c :: cs =>
    if wfCh c then wfBody cs
    else c = '/' && (match cs with | d :: _ => wfCh d && wfBody cs | [] => false)

/-- hierarchical workflow name: non-empty segments of workflow characters joined by single `/` -/
def wfShape : Str → Bool
  | [] => false
  | c :: cs => wfCh c && wfBody cs

def workflowOk (w : Str) : Bool := wfShape w && stripped w
def cycleFieldOk (c : Str) : Bool := cycleOk c && stripped c
/-- a job is `NN` or a non-empty string of ASCII digits -/
def jobOk (j : Str) : Bool := j = strNN || (!j.isEmpty && j.all digitCh)

def optOk (p : Str → Bool) : Option Str → Bool
  | none => true
  | some s => p s

/-- Valid identifier tokens: every field present is legal for its position, a selector comes with its
token, a job with its task, a task with its cycle, `~user` + cycle with a workflow, and something is set. -/
def wf (t : Tokens) : Bool :=
  optOk (fieldOk userCh) t.user && optOk workflowOk t.workflow && optOk (fieldOk wfSelCh) t.workflowSel
  && optOk cycleFieldOk t.cycle && optOk (fieldOk cycSelCh) t.cycleSel
  && optOk (fieldOk taskCh) t.task && optOk (fieldOk taskSelCh) t.taskSel
  && optOk jobOk t.job && optOk (fieldOk jobSelCh) t.jobSel
  && (t.workflowSel.isNone || t.workflow.isSome) && (t.cycleSel.isNone || t.cycle.isSome)
  && (t.taskSel.isNone || t.task.isSome) && (t.jobSel.isNone || t.job.isSome)
  && (t.job.isNone || t.task.isSome) && (t.task.isNone || t.cycle.isSome)
  && (t.user.isNone || t.cycle.isNone || t.workflow.isSome)
  && (t.user.isSome || t.workflow.isSome || t.cycle.isSome)

/-- value of a string of decimal digits -/
def decVal (s : Str) : Nat := s.foldl (fun a c => a * 10 + digitVal c) 0

/-- job numbers are zero-padded to two digits; `NN` stays -/
def padJob (j : Str) : Str :=
  if j = strNN then j
  else
    let d := natDigits (decVal j)
    if d.length < 2 then '0' :: d else d

/-- the tokens expected back: job padded; selectors dropped when they were not written -/
def keepSel (selectors : Bool) (s : Option Str) : Option Str := if selectors then s else none

def expected (t : Tokens) (selectors : Bool) : Tokens :=
  { t with job := t.job.map padJob, workflowSel := keepSel selectors t.workflowSel,
           cycleSel := keepSel selectors t.cycleSel, taskSel := keepSel selectors t.taskSel,
           jobSel := keepSel selectors t.jobSel }

def selSuffix (selectors : Bool) : Option Str → Str
  | some s => if selectors then ':' :: s else []
  | none => []

def renderJob (t : Tokens) (selectors : Bool) : Str :=
  match t.job with
  | none => []
  | some j => '/' :: padJob j ++ selSuffix selectors t.jobSel

def renderTask (t : Tokens) (selectors : Bool) : Str :=
  match t.task with
  | none => []
  | some k => '/' :: k ++ (selSuffix selectors t.taskSel ++ renderJob t selectors)

/-- `cycle[:sel][/task[:sel][/job[:sel]]]` (no leading `//`) -/
def renderRel (t : Tokens) (selectors : Bool) : Str :=
  match t.cycle with
  | none => []
  | some c => c ++ (selSuffix selectors t.cycleSel ++ renderTask t selectors)

def renderWf (t : Tokens) (selectors : Bool) : Str :=
  match t.workflow with
  | none => []
  | some w => w ++ (selSuffix selectors t.workflowSel ++
      (if t.cycle.isSome then '/' :: '/' :: renderRel t selectors else []))

/-- The canonical identifier string `~user/workflow:sel//cycle:sel/task:sel/job:sel` of valid tokens. -/
def canonical (t : Tokens) (selectors : Bool) : Str :=
  match t.user with
  | some u =>
    '~' :: u ++ (if t.workflow.isSome then '/' :: renderWf t selectors else [])
  | none =>
    if t.workflow.isSome then renderWf t selectors else '/' :: '/' :: renderRel t selectors

/-- the cycle text is read back differently: it contains a colon followed by a non-empty colon-free
tail and no cycle selector is written after it (the last colon is then taken as the selector colon) -/
def cycleAmbiguous (t : Tokens) (selectors : Bool) : Bool :=
  match t.cycle with
  | none => false
  | some c =>
    (!selectors || t.cycleSel.isNone) &&
    (match splitLast ':' c with
     | some (_, tl) => !tl.isEmpty
     | none => false)

/-- parts of a legacy identifier -/
structure LegacyParts where
  dot : Bool            -- `task.cycle` (true) or `cycle/task` (false)
  task : Str
  cycle : Str
  sel : Option Str
deriving DecidableEq, Repr

def LegacyParts.text (p : LegacyParts) : Str :=
  (if p.dot then p.task ++ '.' :: p.cycle else p.cycle ++ '/' :: p.task) ++ selSuffix true p.sel

/-- legacy cycles start with a digit; `.` is not allowed in them -/
def lgCycleFieldOk (cls : Char → Bool) : Str → Bool
  | [] => false
  | c :: cs => digitCh c && cs.all cls && stripped (c :: cs)

def LegacyParts.ok (p : LegacyParts) : Bool :=
  if p.dot then
    fieldOk lgDotTaskCh p.task && lgCycleFieldOk lgDotCycCh p.cycle && optOk (fieldOk lgDotSelCh) p.sel
  else
    fieldOk lgSlashTaskCh p.task && lgCycleFieldOk lgSlashCycCh p.cycle && optOk (fieldOk lgSlashSelCh) p.sel

/-- the tokens of the contemporary form `//cycle/task[:sel]` -/
def LegacyParts.tokens (p : LegacyParts) : Tokens :=
  { cycle := some p.cycle, task := some p.task, taskSel := p.sel }

/-- characters the pattern of this form requires after the leading digit of the cycle -/
def LegacyParts.minLen (p : LegacyParts) : Nat := if p.dot then lgDotCycleMin else lgSlashCycleMin

/-- the contemporary spelling: `//cycle/task[:sel]`, or `cycle/task[:sel]` in a relative list -/
def LegacyParts.contemporary (p : LegacyParts) (relative : Bool) : Str :=
  if relative then renderRel p.tokens true else canonical p.tokens true

end CylcModel.Ident
