/-
`Sched3Exp` — `Sched2` extended with CLOCK EXPIRY (C32): a virtual clock (`now`, op `tick`), the clock-expire time of
every task instance (`InstDef.expire` = `TaskProxy.expire_time`, read off the real proxies), `TaskPool.clock_expire_tasks`
(called in the main loop between the queue-if-ready sweep and the release of tasks to run), `TaskProxy.clock_expire`,
the `expired` branch of `process_message` / `_process_message_expired` (+ `TaskProxy.state_reset` clearing the queued
and runahead flags for status `expired`), spawning on the `expired` output, and the manual submission of a single
pooled task by `cylc trigger` (`is_manual_submit`, `waiting_on_job_prep`, `tasks_to_trigger_now`; op `trig`), because
manually triggered tasks are exempt from expiry.  Every transition into `expired` is logged (`State.expLog`) with the
state of the proxy immediately before and the effect of the `expired` output on the pool; the log is part of the
observation compared with the real scheduler.  A copy of Sched2, so that Sched2 and its proofs stay frozen.
Header of Sched2 follows.

`Sched2` — `Sched` (v1) extended with holds, stop modes / stop point / stop task, pause and
clean restart (commands applied between main loops).  A copy, so that v1 and its proofs stay frozen.
Original header of v1 follows.

`Sched` — the scheduler core as one state machine (DESIGN §4 layer B), stage 1:
spawn-on-demand pool, runahead limiting, queue-if-ready / release, job messages,
completion-based removal, auto shutdown and stall detection, single original flow.

The model runs over an *instance graph*: for every task name and cycle point the
prerequisites (atoms + and/or expression), the graph children per output, the next
parentless point — i.e. what `TaskProxy.__init__` / `TaskDef` compute from the loaded
configuration (those static computations are the subject of C13–C16; here they are inputs).

Anchors: cylc/flow/task_pool.py (load_from_point, compute_runahead, release_runahead_tasks,
queue_if_ready, release_queued_tasks, spawn_on_output, spawn_task, remove, remove_if_complete,
is_stalled), cylc/flow/scheduler.py (_main_loop, workflow_shutdown, check_auto_shutdown,
process_queued_task_messages, check_workflow_stalled), cylc/flow/task_events_mgr.py
(process_message and helpers), cylc/flow/task_job_mgr.py (prep_submit_task_jobs).

Not modelled in this stage (never generated): commands, holds, several flows, flow-wait,
suicide triggers, xtriggers, clock expiry, queue limits, future-offset runahead extension,
stop points, Cylc-7 compatibility mode.  Core Lean only.
-/
import CylcModel.Generated.ExpFlags
namespace CylcModel.Sched3Exp

/-! ### Static instance graph -/

inductive Status where
  | waiting | expired | preparing | submitFailed | submitted | running | failed | succeeded
  deriving Repr, DecidableEq, Inhabited

/-- position in `TASK_STATUSES_ORDERED` -/
def Status.rank : Status → Nat
  | .waiting => 0 | .expired => 1 | .preparing => 2 | .submitFailed => 3
  | .submitted => 4 | .running => 5 | .failed => 6 | .succeeded => 7

def Status.str : Status → String
  | .waiting => "waiting" | .expired => "expired" | .preparing => "preparing"
  | .submitFailed => "submit-failed" | .submitted => "submitted" | .running => "running"
  | .failed => "failed" | .succeeded => "succeeded"

def Status.isFinal : Status → Bool
  | .expired | .submitFailed | .failed | .succeeded => true
  | _ => false

def Status.isActive : Status → Bool        -- TASK_STATUSES_ACTIVE
  | .submitted | .running => true
  | _ => false

structure Atom where
  pt : Int
  task : String
  out : String          -- the output *message*
  deriving Repr, DecidableEq, Inhabited

/-- and/or expression over atom indices (prerequisites) -/
inductive BE where
  | atom (i : Nat)
  | and (l r : BE)
  | or (l r : BE)
  deriving Repr, DecidableEq, Inhabited

/-- and/or expression over completion variables (trigger names with `-` → `_`) -/
inductive CE where
  | var (v : String)
  | and (l r : CE)
  | or (l r : CE)
  deriving Repr, DecidableEq, Inhabited

structure Pre where
  atoms : List (Atom × Bool)      -- satisfied flag
  expr : Option BE                -- `none`: conjunction of all atoms
  deriving Repr, DecidableEq, Inhabited

structure Child where
  name : String
  pt : Int
  isAbs : Bool
  deriving Repr, DecidableEq, Inhabited

structure InstDef where
  pre : List Pre
  sui : List Pre
  children : List (String × List Child)     -- keyed by output message
  nextParentless : Option Int
  expire : Option Int := none               -- `TaskProxy.expire_time` (seconds on the virtual clock), `none`: no clock-expire
  deriving Repr, Inhabited

structure OutDef where
  trigger : String
  message : String
  deriving Repr, DecidableEq, Inhabited

structure TaskDefn where
  name : String
  insts : List (Int × InstDef)              -- valid points only
  firstParentless : Option Int
  completion : CE
  outputs : List OutDef
  execRetries : Nat := 0                    -- number of `execution retry delays`
  subRetries : Nat := 0                     -- number of `submission retry delays`
  hasAbs : Bool := false                    -- `TaskDef.has_abs_triggers`
  deriving Repr, Inhabited

structure Graph where
  icp : Int
  fcp : Int
  start : Int
  runahead : Nat                            -- `Pn`
  tasks : List TaskDefn                     -- in `task_name_list` order
  seqs : List (List Int)                    -- valid points of every sequence, ascending
  stopPoint : Option Int := none            -- `TaskPool.stop_point` (the final point unless set otherwise)
  cfgStop : Option Int := none              -- `[scheduling]stop after cycle point` of flow.cylc
  now0 : Int := 0                           -- the virtual clock when the scheduler starts
  deriving Repr, Inhabited

def Graph.task? (g : Graph) (name : String) : Option TaskDefn := g.tasks.find? (·.name == name)

def TaskDefn.inst? (t : TaskDefn) (p : Int) : Option InstDef := (t.insts.find? (·.1 == p)).map (·.2)

/-! ### Dynamic state -/

structure Proxy where
  pt : Int
  name : String
  status : Status := .waiting
  held : Bool := false
  queued : Bool := false
  runahead : Bool := true
  flows : List Nat := [1]
  submitNum : Nat := 0
  done : List String := []                  -- completed output *messages*
  pre : List Pre := []
  sui : List Pre := []
  upd : Bool := false                       -- TaskState.is_updated
  execTry : Nat := 0                        -- try_timers[EXECUTION_RETRY].num
  subTry : Nat := 0                         -- try_timers[SUBMISSION_RETRY].num
  retryWait : Bool := false                 -- an unsatisfied `_cylc_retry` / `_cylc_submit_retry` xtrigger
  live : Bool := false                      -- `run_mode == LIVE` (set at job preparation, lost on restart)
  timers : Bool := false                    -- `try_timers` exist (created at the first preparation, saved in the DB)
  expire : Option Int := none               -- `expire_time`
  manual : Bool := false                    -- `is_manual_submit`
  wjp : Bool := false                       -- `waiting_on_job_prep`
  dbManual : Bool := false                  -- `is_manual_submit` of the `task_states` row (written with the task pool)
  deriving Repr, Inhabited

structure Hist where                        -- a removed instance as recorded in the DB
  pt : Int
  name : String
  status : Status
  submitNum : Nat
  done : List String := []                  -- completed output messages (`task_outputs` table)
  deriving Repr, Inhabited

structure Msg where
  pt : Int
  name : String
  submitNum : Nat
  text : String
  deriving Repr, Inhabited

/-- one transition into `expired` (`TaskProxy.state_reset(expired)` that changed the state): the proxy immediately
before, the clock, whether the object had already left the pool (`tr`), and what the processing of the `expired`
output then did: children pooled before, keys added, keys removed, children whose prerequisite on the output is
satisfied afterwards -/
structure ExpEvent where
  pt : Int
  name : String
  frm : Status
  manual : Bool
  held : Bool
  queued : Bool
  runahead : Bool
  sn : Nat
  exp : Option Int
  now : Int
  tr : Bool
  flows : List Nat := [1]
  pooledKids : List (Int × String) := []
  added : List (Int × String) := []
  removed : List (Int × String) := []
  sat : List (Int × String) := []
  deriving Repr, Inhabited

structure State where
  pool : List Proxy := []
  hist : List Hist := []
  rhLimit : Option Int := none
  prevBase : Option Int := none
  prevSeqPts : List Int := []
  stalled : Bool := false
  stop : Option String := none
  schedUpd : Bool := true                   -- Scheduler.is_updated
  queue : List Msg := []                    -- Scheduler.message_queue
  launched : List (Int × String × Nat) := []  -- launches of the current op
  polls : List (Int × String) := []           -- polls requested in the current op
  absDone : List Atom := []                   -- `abs_outputs_done`
  tasksToHold : List (String × Int) := []     -- `tasks_to_hold`
  holdPoint : Option Int := none              -- `hold_point`
  stopPoint : Option Int := none              -- `TaskPool.stop_point` (dynamic: `cylc stop <point>`)
  stopMode : Option String := none            -- `Scheduler.stop_mode` (requested), `stop` = SchedulerStop raised
  stopTask : Option (Int × String) := none    -- `stop_task_id`
  stopTaskFinished : Bool := false
  paused : Bool := false
  dbStopCp : Option Int := none               -- workflow_params `stopcp` in the DB
  restartWait : Bool := false                 -- `is_restart_timeout_wait`
  db : Option (List Proxy) := none            -- `task_pool` DB table as committed by the latest main loop
  ghosts : List Proxy := []                   -- proxies removed during the current op (`transient` objects
                                              -- still referenced by the message batch being processed)
  now : Int := 0                              -- the virtual clock (`time()` as read by `TaskProxy.clock_expire`)
  toTrigger : List (Int × String) := []       -- `tasks_to_trigger_now`
  expLog : List ExpEvent := []                -- transitions into `expired` of the current op
  deriving Repr, Inhabited

/-! ### Expressions -/

def BE.eval (sat : Nat → Bool) : BE → Bool
  | .atom i => sat i
  | .and l r => l.eval sat && r.eval sat
  | .or l r => l.eval sat || r.eval sat

def CE.eval (σ : String → Bool) : CE → Bool
  | .var v => σ v
  | .and l r => l.eval σ && r.eval σ
  | .or l r => l.eval σ || r.eval σ

def Pre.isSatisfied (p : Pre) : Bool :=
  match p.expr with
  | none => p.atoms.all (·.2)
  | some e => e.eval fun i => match p.atoms[i]? with | some a => a.2 | none => false

/-- `Prerequisite.satisfy_me` for one output of one upstream instance -/
def Pre.satisfy (p : Pre) (a : Atom) : Pre :=
  { p with atoms := p.atoms.map fun (b, s) => if b == a then (b, true) else (b, s) }

def Proxy.prereqsSatisfied (x : Proxy) : Bool := x.pre.all Pre.isSatisfied

def Proxy.satisfyMe (x : Proxy) (a : Atom) : Proxy :=
  { x with pre := x.pre.map (·.satisfy a), sui := x.sui.map (·.satisfy a) }

/-- the completion variable of a trigger: `-` becomes `_` (character by character, so that the kernel can evaluate it) -/
def compVar (trigger : String) : String :=
  String.ofList (trigger.toList.map fun c => if c == '-' then '_' else c)

/-- `TaskOutputs.is_complete` -/
def isComplete (t : TaskDefn) (done : List String) : Bool :=
  t.completion.eval fun v =>
    t.outputs.any fun o => compVar o.trigger == v && done.contains o.message

def Proxy.key (x : Proxy) : Int × String := (x.pt, x.name)

/-! ### Pool primitives -/

def State.get? (s : State) (p : Int) (n : String) : Option Proxy :=
  s.pool.find? fun x => x.pt == p && x.name == n

def State.put (s : State) (x : Proxy) : State :=
  { s with pool := s.pool.map fun y => if y.pt == x.pt && y.name == x.name then x else y }

/-- position of a new proxy in `get_tasks()` order (the order `clock_expire_tasks` walks): `active_tasks` is a dict
of cycle buckets (in creation order; an emptied bucket is deleted) of dicts of proxies (insertion order), so the
flat list keeps the proxies of one point together: a new proxy goes behind the last proxy of its point, or at the
very end (new bucket) -/
def insertBucket (x : Proxy) : List Proxy → List Proxy
  | [] => [x]
  | y :: ys =>
    if ys.any (·.pt == x.pt) then y :: insertBucket x ys
    else if y.pt == x.pt then y :: x :: ys
    else y :: insertBucket x ys

/-- `add_to_pool`: no-op when the key is present -/
def State.add (s : State) (x : Proxy) : State :=
  if (s.get? x.pt x.name).isSome then s else { s with pool := insertBucket x s.pool }

/-- `TaskState.reset` for the flags used here; sets `upd` when anything changed -/
def Proxy.reset (x : Proxy) (status : Option Status := none) (queued : Option Bool := none)
    (runahead : Option Bool := none) (held : Option Bool := none) : Proxy :=
  let y := { x with status := status.getD x.status, queued := queued.getD x.queued,
                    runahead := runahead.getD x.runahead, held := held.getD x.held }
  if y.status == x.status && y.queued == x.queued && y.runahead == x.runahead && y.held == x.held then x
  else { y with upd := true }

/-- `can_be_spawned` + proxy construction; `none` when out of bounds / off sequence -/
def mkProxy (g : Graph) (name : String) (p : Int) : Option Proxy := do
  let t ← g.task? name
  if p < g.icp || p > g.fcp then none
  let d ← t.inst? p
  pure { pt := p, name := name, pre := d.pre, sui := d.sui, expire := d.expire }

/-- `spawn_task` (single flow): consult the DB history of the instance, then build the proxy;
a new proxy is held when a hold was requested for it earlier or it lies beyond the hold point -/
def spawnTask (g : Graph) (s : State) (name : String) (p : Int) : State × Option Proxy :=
  let hist := (s.hist.filter fun h => h.pt == p && h.name == name).getLast?
  if hist.isNone && p < g.start then (s, none)       -- warm start: pre-start instances count as run
  else match mkProxy g name p with
    | none => (s, none)
    | some x =>
      let revived : Option Proxy :=
        match hist with
        | none => some x
        | some h =>
          if h.done.isEmpty then none                 -- "task was removed" (suicide leaves no outputs)
          else
            let y := { x with status := h.status, submitNum := h.submitNum, done := h.done }
            if h.status.isFinal then
              match g.task? name with
              | some t => if isComplete t h.done then none else some y    -- finished and complete: not re-run
              | none => none
            else some y
      match revived with
      | none => (s, none)
      | some y =>
        -- hold (requested earlier, or beyond the hold point)
        let (s, y) :=
          if s.tasksToHold.contains (name, p) then (s, y.reset (held := some true))
          else match s.holdPoint with
            | some hp => if p > hp then
                ({ s with tasksToHold := s.tasksToHold ++ [(name, p)] }, y.reset (held := some true))
              else (s, y)
            | none => (s, y)
        -- satisfy absolute triggers from the record of completed absolute outputs
        let y := match g.task? name with
          | some t => if t.hasAbs && !y.prereqsSatisfied then s.absDone.foldl (fun z a => z.satisfyMe a) y else y
          | none => y
        (s, some y)

/-- `get_or_spawn_task` + `add_to_pool` as used by parentless spawning -/
def spawnAndAdd (g : Graph) (s : State) (name : String) (p : Int) : State :=
  if (s.get? p name).isSome then s            -- merge_flows: same flow, nothing to do
  else match spawnTask g s name p with
    | (s, some x) => s.add x
    | (s, none) => s

def nextParentless (g : Graph) (x : Proxy) : Option Int := do
  let t ← g.task? x.name
  let d ← t.inst? x.pt
  d.nextParentless

/-- `spawn_next_parentless` -/
def spawnNextParentless (g : Graph) (s : State) (x : Proxy) : State :=
  if x.flows.isEmpty || x.pt < g.start then s
  else match nextParentless g x with
    | some np => spawnAndAdd g s x.name np
    | none => s

/-! ### Runahead -/

def insertSorted (x : Int) : List Int → List Int
  | [] => [x]
  | y :: ys => if x < y then x :: y :: ys else if x == y then y :: ys else y :: insertSorted x ys

def sortDedup (l : List Int) : List Int := l.foldl (fun acc x => insertSorted x acc) []

def minOf : List Int → Option Int
  | [] => none
  | x :: xs => some (xs.foldl min x)

/-- `compute_runahead` (count-cycles limit `Pn`, no future offsets, no stop point) -/
def computeRunahead (g : Graph) (s : State) (force : Bool := false) : State :=
  let base : Option Int :=
    if s.pool.isEmpty then minOf (g.seqs.filterMap fun q => q.find? (· ≥ g.start))
    else minOf (s.pool.map (·.pt))
  match base with
  | none => s
  | some b =>
    let prevBase := s.prevBase.getD b
    let s := { s with prevBase := some prevBase }
    if !force && s.rhLimit.isSome && (b == prevBase || s.rhLimit == s.stopPoint) then s
    else
      let pts : List Int :=
        if !force && !s.prevSeqPts.isEmpty && b == prevBase then s.prevSeqPts
        else sortDedup (g.seqs.flatMap fun q => (q.filter (· ≥ b)).take (g.runahead + 1))
      let limit0 : Int :=
        match (pts.take (g.runahead + 1)).getLast? with
        | none => b
        | some l => l
      let limit : Int := match s.stopPoint with
        | some sp => min sp limit0
        | none => limit0
      { s with prevSeqPts := pts, prevBase := some b, rhLimit := some limit }

/-- `release_runahead_tasks`; returns whether anything was released -/
def releaseRunahead (g : Graph) (s : State) : State × Bool :=
  match s.rhLimit with
  | none => (s, false)
  | some lim =>
    if s.pool.isEmpty then (s, false) else
    let rel := s.pool.filter fun x => x.pt ≤ lim && x.runahead
    let s' := rel.foldl (fun (st : State) x =>
        let st := match st.get? x.pt x.name with
          | some y => st.put (y.reset (runahead := some false))
          | none => st
        spawnNextParentless g st x) s
    (s', !rel.isEmpty)

def releaseRunaheadN (g : Graph) : Nat → State → State
  | 0, s => s
  | n + 1, s => let (s', r) := releaseRunahead g s; if r then releaseRunaheadN g n s' else s'

/-! ### Queueing and release -/

def Proxy.isReadyToRun (x : Proxy) : Bool :=
  !x.held && x.status == .waiting && x.prereqsSatisfied && !x.retryWait

/-- `queue_if_ready` (a manually triggered task is never queued this way) -/
def queueIfReady (s : State) (x : Proxy) : State :=
  if !x.queued && !x.runahead && !x.manual && x.isReadyToRun then s.put (x.reset (queued := some true)) else s

/-- `hold_active_task` on a pooled proxy -/
def holdActive (s : State) (x : Proxy) : State :=
  let s := s.put (x.reset (held := some true))
  if s.tasksToHold.contains (x.name, x.pt) then s
  else { s with tasksToHold := s.tasksToHold ++ [(x.name, x.pt)] }

/-- `release_held_active_task` on a pooled proxy -/
def releaseHeldActive (s : State) (x : Proxy) : State :=
  let s :=
    if x.held then
      let y := x.reset (held := some false)
      -- `queue_if_ready` (not a manually triggered task: it is on its way to job submission already)
      let y := if !y.queued && !y.runahead && !y.manual && y.isReadyToRun then y.reset (queued := some true) else y
      s.put y
    else s
  { s with tasksToHold := s.tasksToHold.filter (· != (x.name, x.pt)) }

/-- `load_from_point` -/
def loadFromPoint (g : Graph) : State :=
  let s : State := { stopPoint := g.stopPoint }
  let s := g.tasks.foldl (fun st t =>
      match t.firstParentless with
      | some p => spawnAndAdd g st t.name p
      | none => st) s
  let s := computeRunahead g s
  let s := releaseRunaheadN g 10 s
  s.pool.foldl (fun st x => match st.get? x.pt x.name with
    | some y => queueIfReady st y | none => st) s

/-- `prep_submit_task_jobs` with the stub job runner on one proxy: next submit number unless it is preparing
already, retry timers, launch; as in live mode the manual-submit flag is cleared at hand-over -/
def submitOne (s : State) (x : Proxy) : State :=
  let y := if x.status == .preparing then x
           else { (x.reset (status := some .preparing)) with submitNum := x.submitNum + 1 }
  let y := { y with live := true, timers := true, wjp := false, manual := false }
  { (s.put y) with launched := s.launched ++ [(y.pt, y.name, y.submitNum)] }

/-- `release_queued_tasks` (unlimited queues) followed by job preparation, for one proxy: a queued, not held proxy
leaves its queue (unless the workflow is paused: `rel = false`); `waiting_on_job_prep` is set by the release and
cleared again by the preparation that follows in the same call, so it is not recorded in between -/
def releaseSubmitOne (rel : Bool) (s : State) (x : Proxy) : State :=
  submitOne s (if rel && x.queued && !x.held then x.reset (queued := some false) else x)

/-- the proxies handed to job preparation: released from a queue now, waiting on job preparation, or manually
triggered -/
def toSubmit (s : State) (rel : Bool) (trig : List (Int × String)) : List Proxy :=
  s.pool.filter fun x => (rel && x.queued && !x.held) || x.wjp || trig.contains (x.pt, x.name)

/-- `release_tasks_to_run` (not stopping): the manually triggered tasks, and unless paused the tasks released
from the (unlimited) queues plus every proxy still waiting on job preparation; paused: the latter only -/
def releaseAndSubmit (s : State) : State :=
  let trig := s.toTrigger
  let s := { s with toTrigger := [] }
  let pre := toSubmit s (!s.paused) trig
  if pre.isEmpty then s else
  let s := pre.foldl (releaseSubmitOne (!s.paused)) s
  { s with schedUpd := true }

/-! ### Removal and spawning on outputs -/

/-- `remove` -/
def remove (g : Graph) (s : State) (x : Proxy) : State :=
  let s := releaseHeldActive s x
  let x := (s.get? x.pt x.name).getD x
  let s := if !x.flows.isEmpty && x.runahead then spawnNextParentless g s x else s
  { s with pool := s.pool.filter (fun y => !(y.pt == x.pt && y.name == x.name)),
           hist := s.hist ++ [⟨x.pt, x.name, x.status, x.submitNum, x.done⟩],
           toTrigger := s.toTrigger.filter (· != (x.pt, x.name)),
           ghosts := s.ghosts ++ [x] }

/-- `remove_if_complete` -/
def removeIfComplete (g : Graph) (s : State) (x : Proxy) : State :=
  if !x.status.isFinal then s
  else
  let s := if s.stopTask == some (x.pt, x.name) then { s with stopTaskFinished := true } else s
  match g.task? x.name with
    | none => s
    | some t => if isComplete t x.done then remove g s x else s

def childrenOf (g : Graph) (x : Proxy) (out : String) : List Child :=
  match (g.task? x.name).bind (·.inst? x.pt) with
  | none => []
  | some d => match d.children.find? (·.1 == out) with
    | some (_, cs) => cs
    | none => []

def Proxy.suicideNow (x : Proxy) : Bool := !x.sui.isEmpty && x.sui.all Pre.isSatisfied

/-- one child of `spawn_on_output`: record an absolute output, find or spawn the child, satisfy the
prerequisite (for an absolute trigger: of every pooled instance of the child task), collect suicides -/
def spawnChild (g : Graph) (p : Int) (n out : String) (acc : State × List (Int × String)) (c : Child) :
    State × List (Int × String) :=
  let (st, sui) := acc
  let atom : Atom := ⟨p, n, out⟩
  let st := if c.isAbs && !st.absDone.contains atom then { st with absDone := st.absDone ++ [atom] } else st
  let inPool := (st.get? c.pt c.name).isSome
  let (st, child) : State × Option Proxy :=
    match st.get? c.pt c.name with
    | some y => (st, some y)
    | none => spawnTask g st c.name c.pt
  match child with
  | none => (st, sui)
  | some y =>
    let st := if inPool then st else st.add (y.satisfyMe atom)
    let targets : List (Int × String) :=
      if c.isAbs then
        let others := (st.pool.filter fun z => z.name == c.name).map fun z => (z.pt, z.name)
        if others.contains (c.pt, c.name) then others else others ++ [(c.pt, c.name)]
      else [(c.pt, c.name)]
    targets.foldl (fun (a : State × List (Int × String)) k =>
      match a.1.get? k.1 k.2 with
      | none => a
      | some z =>
        let z := z.satisfyMe atom
        (a.1.put z, if z.suicideNow && !a.2.contains k then a.2 ++ [k] else a.2)) (st, sui)

/-- `spawn_on_output` -/
def spawnOnOutput (g : Graph) (s : State) (p : Int) (n : String) (out : String) : State :=
  match s.get? p n with
  | none => s
  | some x =>
    let cs := if x.flows.isEmpty then [] else childrenOf g x out
    let (s, suicides) := cs.foldl (spawnChild g p n out) (s, [])
    let s := suicides.foldl (fun (st : State) k => match st.get? k.1 k.2 with
      | some z => remove g st z
      | none => st) s
    match s.get? p n with
    | some x' => removeIfComplete g s x'
    | none => s

/-! ### Messages -/

def Proxy.isDone (x : Proxy) (msg : String) : Bool := x.done.contains msg

def hasOutput (g : Graph) (x : Proxy) (msg : String) : Bool :=
  match g.task? x.name with
  | some t => t.outputs.any (·.message == msg)
  | none => false

/-- `set_message_complete`: `some true` newly completed, `some false` already, `none` no such output -/
def setComplete (g : Graph) (x : Proxy) (msg : String) : Proxy × Option Bool :=
  if !hasOutput g x msg then (x, none)
  else if x.isDone msg then (x, some false)
  else ({ x with done := x.done ++ [msg] }, some true)

inductive Flag where | internal | received | polled
  deriving Repr, DecidableEq

/-- the live proxy, or the transient object of an instance removed earlier in this op -/
def lookup (s : State) (p : Int) (n : String) : Option (Proxy × Bool) :=
  match s.get? p n with
  | some x => some (x, false)
  | none => (s.ghosts.find? fun x => x.pt == p && x.name == n).map fun x => (x, true)

def store (s : State) (x : Proxy) (transient : Bool) : State :=
  if transient then
    { s with ghosts := s.ghosts.map fun y => if y.pt == x.pt && y.name == x.name then x else y }
  else s.put x

/-- `put_update_task_outputs` for a transient object: the `task_outputs` row of the removed instance follows the
object (recorded as a fresh copy of its latest history entry with the outputs of the object) -/
def histOutputs (s : State) (p : Int) (n : String) : State :=
  match s.ghosts.find? (fun x => x.pt == p && x.name == n),
        (s.hist.filter fun h => h.pt == p && h.name == n).getLast? with
  | some x, some h => if h.done == x.done then s else { s with hist := s.hist ++ [{ h with done := x.done }] }
  | _, _ => s

/-- `spawn_children`: transient objects do not spawn (their outputs still reach the DB) -/
def spawnChildren (g : Graph) (s : State) (p : Int) (n : String) (out : String) (transient : Bool) : State :=
  if transient then histOutputs s p n else spawnOnOutput g s p n out

/-- `TaskProxy.state_reset(expired)`: status `expired`, queued and runahead flags cleared -/
def Proxy.expireReset (x : Proxy) : Proxy :=
  x.reset (status := some .expired) (queued := some false) (runahead := some false)

def keysOf (l : List Proxy) : List (Int × String) := l.map fun x => (x.pt, x.name)

/-- the log entry of a transition into `expired` (effects filled in by `closeEvent`) -/
def mkEvent (s : State) (x : Proxy) (tr : Bool) : ExpEvent :=
  { pt := x.pt, name := x.name, frm := x.status, manual := x.manual, held := x.held, queued := x.queued,
    runahead := x.runahead, sn := x.submitNum, exp := x.expire, now := s.now, tr := tr, flows := x.flows }

/-- the effect of processing the `expired` output of `(p, n)`, from the pools before (`s0`) and after (`s1`) -/
def closeEvent (g : Graph) (s0 s1 : State) (x : Proxy) (e : ExpEvent) : ExpEvent :=
  let kids := (childrenOf g x "expired").map fun c => (c.pt, c.name)
  let before := keysOf s0.pool
  let gone := (keysOf (s1.ghosts.drop s0.ghosts.length))
  let atom : Atom := ⟨x.pt, x.name, "expired"⟩
  { e with
    pooledKids := kids.filter before.contains,
    added := ((keysOf s1.pool) ++ gone).filter fun k => !before.contains k,
    removed := gone,
    sat := kids.filter fun k => match s1.get? k.1 k.2 with
      | some c => (c.pre ++ c.sui).any fun pr => pr.atoms.any fun a => a.1 == atom && a.2
      | none => false }

/-- the `expired` branch of `process_message`: `_process_message_expired` (state reset; logged when it changed the
state) and `spawn_children` on the `expired` output -/
def processExpired (g : Graph) (s : State) (x : Proxy) (tr : Bool) : State :=
  let y := x.expireReset
  let changed := x.status != .expired
  let s0 := store s y tr
  let s1 := spawnChildren g s0 x.pt x.name "expired" tr
  if changed then
    { s1 with expLog := s1.expLog ++ [if tr then mkEvent s x tr else closeEvent g s0 s1 x (mkEvent s x tr)] }
  else s1

/-- `_process_message_check`: whether the message is dropped (a transient object skips the checks) -/
def pmSkip (x : Proxy) (tr : Bool) (flag : Flag) (sn : Nat) (msg : String) : Bool :=
  -- (repaired code only, see `ExpFlags.jobMsgExpires`: the `expired` message is the scheduler's own)
  (msg == "expired" && flag != .internal && !ExpFlags.jobMsgExpires) ||
  -- received messages of old jobs
  (!tr && flag == .received && sn != x.submitNum) ||
  -- (repaired code only, see `ExpFlags.expiredIgnoresMsgs`: an expired task has no job, job messages are dropped)
  (!tr && x.status == .expired && flag != .internal && ExpFlags.expiredIgnoresMsgs) ||
  -- a waiting task with a retry lined up ignores (late) messages; the scheduler's own `expired` is excepted
  (!tr && x.status == .waiting && msg != "expired" && x.live && (x.subTry > 0 || x.execTry > 0))

/-- complete the output that corresponds to the message (failure outputs are completed later) -/
def pmComplete (g : Graph) (x : Proxy) (msg : String) : Proxy × Option Bool :=
  if msg == "submit-failed" || msg == "failed" then (x, some false) else setComplete g x msg

/-- `get_incomplete_implied`: outputs implied by the message that are not complete yet -/
def impliedOf (x : Proxy) (msg : String) : List String :=
  (if msg == "succeeded" || msg == "failed" then ["submitted", "started"]
   else if msg == "started" then ["submitted"] else []).filter fun m => !x.isDone m

def maxExecTry (g : Graph) (n : String) : Nat := match g.task? n with | some t => t.execRetries | none => 0
def maxSubTry (g : Graph) (n : String) : Nat := match g.task? n with | some t => t.subRetries | none => 0

/-- definitive failure / submit failure: status, output, children -/
def pmFinal (g : Graph) (s : State) (p : Int) (n : String) (x : Proxy) (tr : Bool) (st : Status) (out : String) :
    State :=
  let y := x.reset (status := some st)
  let y := if x.status != st then (setComplete g y out).1 else y
  spawnChildren g (store s y tr) p n out tr

/-- the part of `process_message` that follows the implied outputs: one branch per kind of message -/
def pmDispatch (g : Graph) (s : State) (p : Int) (n : String) (flag : Flag) (msg : String)
    (completed : Option Bool) (x : Proxy) (tr : Bool) : State × Bool :=
  if msg == "started" then
    if flag == .received && x.status.rank > Status.running.rank then (s, true) else
    -- submission was successful: the submission try number is reset
    (spawnChildren g (store s { (x.reset (status := some .running)) with subTry := 0 } tr) p n "started" tr, false)
  else if msg == "succeeded" then
    (spawnChildren g (store s (x.reset (status := some .succeeded)) tr) p n "succeeded" tr, false)
  else if msg == "expired" then
    (processExpired g s x tr, false)
  else if msg == "failed" then
    if flag == .received && x.status.rank > Status.failed.rank then (s, true) else
    if x.timers && x.execTry < maxExecTry g n then
      -- an execution retry is lined up: back to waiting behind a retry xtrigger
      (store s { (x.reset (status := some .waiting)) with execTry := x.execTry + 1, retryWait := true } tr, false)
    else (pmFinal g s p n x tr .failed "failed", false)
  else if msg == "submit-failed" then
    if flag == .received && x.status.rank > Status.submitFailed.rank then (s, true) else
    if x.timers && x.subTry < maxSubTry g n then
      (store s { (x.reset (status := some .waiting)) with subTry := x.subTry + 1, retryWait := true } tr, false)
    else (pmFinal g s p n x tr .submitFailed "submit-failed", false)
  else if msg == "submitted" then
    if flag == .received && x.status.rank ≥ Status.submitted.rank then (s, true) else
    let s := if x.status == .preparing then
        store s ((x.reset (status := some .submitted)).reset (queued := some false)) tr else s
    (spawnChildren g s p n "submitted" tr, false)
  else if completed == some true then
    (spawnChildren g s p n msg tr, false)
  else (s, false)

/-- `process_message` for one (non-forced) message; returns the new state and whether a poll is
requested.  `fuel` bounds the implied-output recursion (depth ≤ 3). -/
def processMessage (g : Graph) : Nat → State → Int → String → Flag → Nat → String → State × Bool
  | 0, s, _, _, _, _, _ => (s, false)
  | fuel + 1, s, p, n, flag, sn, msg =>
    match lookup s p n with
    | none => (s, false)
    | some (x, tr) =>
      if pmSkip x tr flag sn msg then (s, false) else
      let r := pmComplete g x msg
      let s := store s r.1 tr
      -- implied outputs first
      let s := (impliedOf r.1 msg).foldl (fun st m => (processMessage g fuel st p n .internal sn m).1) s
      match lookup s p n with
      | none => (s, false)
      | some (x, tr) => pmDispatch g s p n flag msg r.2 x tr

/-- group queued messages by task id in order of first arrival (`dict.setdefault`) -/
def groupMsgs (q : List Msg) : List ((Int × String) × List Msg) :=
  q.foldl (fun acc m =>
    if acc.any (fun e => e.1 == (m.pt, m.name)) then
      acc.map fun e => if e.1 == (m.pt, m.name) then (e.1, e.2 ++ [m]) else e
    else acc ++ [((m.pt, m.name), [m])]) []

/-- `process_queued_task_messages` -/
def processQueue (g : Graph) (s : State) : State :=
  let groups := groupMsgs s.queue
  let s := { s with queue := [] }
  groups.foldl (fun (st : State) grp =>
    let (p, n) := grp.1
    match st.get? p n with
    | none => st                                   -- no proxy: job-only processing
    | some _ =>
      let (st, poll) := grp.2.foldl (fun (acc : State × Bool) m =>
          let (st', pl) := processMessage g 4 acc.1 p n .received m.submitNum m.text
          (st', acc.2 || pl)) (st, false)
      if poll then { st with polls := st.polls ++ [(p, n)] } else st) s

/-! ### Stall and shutdown -/

/-- `TaskPool.is_stalled` (no stop point) -/
def isStalled (g : Graph) (s : State) : Bool :=
  if s.pool.any (fun x => x.status.isActive || x.status == .preparing ||
      (x.status == .waiting && !x.runahead && x.prereqsSatisfied)) then false
  else
    let incomplete := s.pool.any fun x => x.status.isFinal &&
      (match g.task? x.name with | some t => !isComplete t x.done | none => false)
    let beyond (p : Int) : Bool := match s.stopPoint with | some sp => p > sp | none => false
    let unsatisfied := s.pool.any fun x => !beyond x.pt && x.pre.any fun pr =>
      !pr.isSatisfied && pr.atoms.any (fun a => !a.2 && !beyond a.1.pt)
    incomplete || unsatisfied

/-- `check_workflow_stalled` -/
def checkStalled (g : Graph) (s : State) : State :=
  if s.stalled then s else if s.paused then s else if isStalled g s then { s with stalled := true } else s

/-- `check_auto_shutdown` (with its stall-check side effect) -/
def checkAutoShutdown (g : Graph) (s : State) : State × Bool :=
  if s.paused || s.restartWait then (s, false) else
  let s := checkStalled g s
  if s.stalled then (s, false)
  else if s.pool.any (fun x => x.status == .preparing || x.status == .submitted ||
      x.status == .running || (x.status == .waiting && !x.runahead)) then (s, false)
  else ({ s with dbStopCp := none }, true)      -- the stop point is forgotten once reached

/-! ### Operations -/

inductive Op where
  | loop
  | subres (pt : Int) (name : String) (ok : Bool) (sn : Nat)
  | msg (pt : Int) (name : String) (sn : Nat) (text : String)
  | hold (ids : List (Int × String))
  | release (ids : List (Int × String))
  | setHoldPoint (p : Int)
  | releaseHoldPoint
  | stop (mode : String)                  -- "REQUEST(CLEAN)" | "REQUEST(NOW)" | "REQUEST(NOW-NOW)"
  | stopPoint (p : Int)
  | stopTask (pt : Int) (name : String)
  | pause
  | resume
  | restart
  | tick (dt : Int)                       -- the virtual clock advances
  | trig (pt : Int) (name : String)       -- `cylc trigger pt/name` (one task, default flow)
  deriving Repr

def clearOp (s : State) : State := { s with launched := [], polls := [], ghosts := [], db := none, expLog := [] }

/-- `TaskProxy.clock_expire`: an expiry time is configured, not expired yet, and the time is up -/
def Proxy.clockExpire (x : Proxy) (now : Int) : Bool :=
  match x.expire with
  | none => false
  | some t => x.status != .expired && !(now < t)

/-- the guard of `clock_expire_tasks`: not manually triggered, waiting, clock-expired -/
def Proxy.expireNow (x : Proxy) (now : Int) : Bool :=
  !x.manual && x.status == .waiting && x.clockExpire now

/-- one step of the loop of `clock_expire_tasks`, for the object listed under key `k` when the loop started
(the pooled proxy, or the transient object if the instance was removed earlier in this loop) -/
def clockExpireOne (g : Graph) (s : State) (k : Int × String) : State :=
  match lookup s k.1 k.2 with
  | none => s
  | some (x, _) =>
    if x.expireNow s.now then (processMessage g 4 s k.1 k.2 .internal x.submitNum "expired").1 else s

/-- `clock_expire_tasks`: over the task list as it was when the loop started -/
def clockExpireTasks (g : Graph) (s : State) : State :=
  (keysOf s.pool).foldl (clockExpireOne g) s

/-- the queue-if-ready sweep over waiting, unqueued, released proxies -/
def sweepQueue (s : State) : State :=
  s.pool.foldl (fun st x => match st.get? x.pt x.name with
    | some y =>
      if y.status == .waiting && !y.queued && !y.runahead then
        -- zero-delay retry clock triggers are satisfied by the time of the next sweep
        let y := { y with retryWait := false }
        queueIfReady (st.put y) y
      else st
    | none => st) s

/-- end of the main loop: updated flags, DB commit of the task pool, stall check -/
def finishLoop (g : Graph) (s : State) : State :=
  let hasUpd := s.schedUpd || s.pool.any (·.upd)
  let s := if s.pool.any (·.upd) then { s with restartWait := false } else s
  let s := if hasUpd then
      { s with stalled := false, schedUpd := false,
               pool := s.pool.map fun x => { x with upd := false, dbManual := if x.upd then x.manual else x.dbManual } }
    else s
  let s := { s with db := some s.pool }      -- put_task_pool + process_queued_ops
  if !hasUpd && s.stopMode.isNone then checkStalled g s else s

/-- `TaskPool.can_stop` -/
def canStop (s : State) : Bool :=
  match s.stopMode with
  | none => false
  | some m =>
    if m == "REQUEST(NOW-NOW)" then true
    else !(s.pool.any fun x => (m == "REQUEST(CLEAN)" || m == "REQUEST(KILL)") && x.status.isActive)

/-- `stop_task_done` -/
def stopTaskDone (s : State) : State × Bool :=
  if s.stopTask.isSome && s.stopTaskFinished then
    ({ s with stopTask := none, stopTaskFinished := false }, true)
  else (s, false)

/-- `workflow_shutdown`: an automatic stop is requested when the stop task is done or nothing is left to run -/
def loopShutdown (g : Graph) (s : State) : State :=
  if s.stopMode.isNone then
    let r := stopTaskDone s
    if r.2 then { r.1 with stopMode := some "AUTOMATIC" }
    else
      let r2 := checkAutoShutdown g r.1
      if r2.2 then { r2.1 with stopMode := some "AUTOMATIC" } else r2.1
  else s

/-- the head of a main loop: runahead computation and release, `workflow_shutdown` -/
def loopHead (g : Graph) (s : State) : State :=
  loopShutdown g (releaseRunahead g (computeRunahead g s)).1

/-- the queue-if-ready sweep followed by `clock_expire_tasks`: the state handed to `release_tasks_to_run` -/
def loopExpire (g : Graph) (s : State) : State := clockExpireTasks g (sweepQueue s)

/-- one iteration of `Scheduler._main_loop` -/
def mainLoop (g : Graph) (s : State) : State :=
  if s.stop.isSome then s else
  let s3 := loopHead g s
  if canStop s3 then { s3 with stop := s3.stopMode } else
  let s5 := loopExpire g s3
  let s6 := if s5.stopMode.isNone then releaseAndSubmit s5 else s5
  finishLoop g (processQueue g s6)

/-- `set_stop_point` -/
def setStopPoint (s : State) (p : Int) : State :=
  if s.stopPoint == some p then s else
  let s := { s with stopPoint := some p, dbStopCp := some p }
  match s.rhLimit with
  | some l =>
    if l > p then
      { s with rhLimit := some p,
               pool := s.pool.map fun x =>
                 if x.pt > p && x.status == .waiting then x.reset (runahead := some true) else x }
    else s
  | none => s

/-- `set_hold_point` -/
def setHoldPoint (s : State) (p : Int) : State :=
  let s := { s with holdPoint := some p }
  s.pool.foldl (fun st x => if x.pt > p then
      match st.get? x.pt x.name with | some y => holdActive st y | none => st
    else st) s

/-- `hold_tasks` (ids are valid instances: pooled ones are held, future ones recorded) -/
def holdTasks (s : State) (ids : List (Int × String)) : State :=
  ids.foldl (fun st k => match st.get? k.1 k.2 with
    | some y => holdActive st y
    | none => if st.tasksToHold.contains (k.2, k.1) then st
              else { st with tasksToHold := st.tasksToHold ++ [(k.2, k.1)] }) s

/-- `release_held_tasks`: only ids currently in `tasks_to_hold` are matched -/
def releaseTasks (s : State) (ids : List (Int × String)) : State :=
  ids.foldl (fun st k =>
    if !st.tasksToHold.contains (k.2, k.1) then st else
    match st.get? k.1 k.2 with
    | some y => releaseHeldActive st y
    | none => { st with tasksToHold := st.tasksToHold.filter (· != (k.2, k.1)) }) s

/-- `release_hold_point` -/
def releaseHoldPoint (s : State) : State :=
  let s := { s with holdPoint := none }
  let s := s.pool.foldl (fun st x => match st.get? x.pt x.name with
    | some y => releaseHeldActive st y | none => st) s
  { s with tasksToHold := [] }

/-- clean restart from the database written at shutdown (`load_db_task_pool_for_restart`, `configure`) -/
def restart (g : Graph) (s : State) : State :=
  let restore (x : Proxy) : Proxy :=
    let (status, sn) := if x.status == .preparing then (Status.waiting, x.submitNum - 1) else (x.status, x.submitNum)
    let keepOut := status == .running || status == .failed || status == .succeeded
    let final := status == .failed || status == .succeeded || status == .expired
    -- the shutdown writes the rows of the proxies changed since the last main loop
    let man := if x.upd then x.manual else x.dbManual
    { x with status := status, submitNum := sn, done := if keepOut then x.done else [],
             queued := false, runahead := !final && !man, retryWait := false, live := false,
             manual := man, dbManual := man, wjp := false,
             upd := (x.status == .preparing) || final || man }
  -- stop point: DB `stopcp`, else flow.cylc, else the final point
  let cfgStop : Option Int := match s.dbStopCp with | some p => some p | none => g.cfgStop
  let pool := s.pool.map restore
  let wait := pool.isEmpty || (match cfgStop with
    | some sp => pool.all (fun x => x.pt > sp)
    | none => false)
  let s' : State :=
    { pool := pool, hist := s.hist, absDone := s.absDone,
      tasksToHold := s.tasksToHold, holdPoint := s.holdPoint, stopPoint := some (cfgStop.getD g.fcp),
      dbStopCp := s.dbStopCp, restartWait := wait,
      stopTask := s.stopTask, stopTaskFinished := false, schedUpd := true, now := s.now }
  -- `configure` re-applies the hold point after the pool is loaded
  match s'.holdPoint with
  | some hp => setHoldPoint s' hp
  | none => s'

def Pre.setSatisfied (p : Pre) : Pre := { p with atoms := p.atoms.map fun a => (a.1, true) }

/-- the proxy after `queue_or_trigger` (unlimited queue: never pushed; a queued task leaves the queue):
manual, waiting, not queued, waiting on job preparation -/
def triggeredProxy (x : Proxy) : Proxy :=
  let y := ({ x with manual := true }).reset (status := some .waiting)
  let z := if y.queued then y.reset (queued := some false) else y
  { z with wjp := true }

/-- `queue_or_trigger` on a pooled proxy; one that is waiting on job preparation already (triggered before and
not yet prepared) only gets the flag -/
def queueOrTrigger (s : State) (x : Proxy) : State :=
  if x.wjp then s.put { x with manual := true } else
  let s := s.put (triggeredProxy x)
  if s.toTrigger.contains (x.pt, x.name) then s else { s with toTrigger := s.toTrigger ++ [(x.pt, x.name)] }

/-- `force_trigger_tasks` for ONE pooled task in the default flow (a group of one is its own group-start task):
a live one (preparing / submitted / running) is left alone; any other gets all prerequisites (and the retry
xtriggers) satisfied and is triggered; finally `release_runahead_tasks`.  An id that is not in the pool is
outside this model (never generated): nothing happens. -/
def trigger (g : Graph) (s : State) (p : Int) (n : String) : State :=
  match s.get? p n with
  | none => s
  | some x =>
    let s :=
      if x.status == .preparing || x.status.isActive then s
      else queueOrTrigger s { x with pre := x.pre.map Pre.setSatisfied, retryWait := false }
    (releaseRunahead g s).1

def step (g : Graph) (s : State) (op : Op) : State :=
  let s := clearOp s
  match op with
  | .loop => mainLoop g s
  | .subres p n ok sn =>
      (processMessage g 4 s p n .internal sn (if ok then "submitted" else "submit-failed")).1
  | .msg p n sn text => { s with queue := s.queue ++ [⟨p, n, sn, text⟩] }
  | .hold ids => holdTasks s ids
  | .release ids => releaseTasks s ids
  | .setHoldPoint p => setHoldPoint s p
  | .releaseHoldPoint => releaseHoldPoint s
  | .stop mode => { s with stopMode := some mode }
  | .stopPoint p => setStopPoint s p
  | .stopTask p n => { s with stopTask := some (p, n), stopTaskFinished := false }
  | .pause => { s with paused := true }
  | .resume => { s with paused := false }
  | .restart => restart g s
  | .tick dt => { s with now := s.now + dt }
  | .trig p n => trigger g s p n

def init (g : Graph) : State :=
  let s := loadFromPoint g
  { s with now := g.now0 }

/-- all states of a run: after start-up, then after each op -/
def run (g : Graph) (ops : List Op) : List State :=
  (ops.foldl (fun (acc : List State × State) op =>
    let s' := step g acc.2 op
    (acc.1 ++ [s'], s')) ([init g], init g)).1

end CylcModel.Sched3Exp
