/-
Model of `cylc/flow/cycling/iso8601.py` : the query methods of `ISO8601Sequence` and their
caches (C17).  Core Lean only.

What is modelled is the *wrapper*: `is_valid`, `is_on_sequence` (behind its `lru_cache`),
`get_next_point`, `get_next_point_on_sequence`, `get_prev_point`, `get_nearest_prev_point`,
`get_first_point`, `get_start_point`, `get_stop_point`, with the four caches
(`_cached_first_point_values`, `_cached_next_point_values`, `_cached_valid_point_booleans`,
`_cached_recent_valid_points`) and their evictions, ported statement by statement.

What is *abstract* (an input of the model): the isodatetime `TimeRecurrence` behind the sequence
(`Rec`): the list obtained by iterating it (instants, minutes since the epoch), its `get_next` /
`get_prev` as functions (the wrapper applies them to the point *re-parsed from its string*, which
for calendar durations need not agree with the iteration: hypotheses `NextOK` / `PrevOK` of the
theorems), the exclusion predicate, and `point_parse` (`val`: point string -> instant).  Recurrence
parsing (`CylcTimeParser`), calendar arithmetic and string formatting are not modelled.

Not modelled: `SequenceDegenerateError` (raised when a step returns the point it started from:
sub-minute durations under a minute-resolution dump format); Python's recursion limit.
-/
import CylcModel.Generated.IsoSeqCfg
namespace CylcModel.IsoSeq

/-- The `TimeRecurrence` behind a sequence, abstracted. -/
structure Rec where
  /-- `list(iter(recurrence))` as instants (all of it, or the window the harness enumerated) -/
  pts : List Int
  /-- `recurrence.get_next(point_parse(str(t)))` for a point `t` the wrapper holds (instant -> instant) -/
  next : Int → Option Int
  /-- `recurrence.get_prev(point_parse(str(t)))` for a point `t` the wrapper holds -/
  prevC : Int → Option Int
  /-- `recurrence.get_prev(point_parse(key))` for a point string given by the caller -/
  prevK : String → Option Int
  /-- the condition under which `get_stop_point` iterates: repetitions given, or both ends known -/
  bounded : Bool

structure Seq where
  rc : Rec
  /-- `point in self.exclusions` (exclusion points and exclusion recurrences), by instant -/
  excl : Int → Bool
  /-- `point_parse(point.value)`: the instant a point string denotes -/
  val : String → Int
  /-- `_LARGE_LRU_CACHE_SIZE` -/
  cap : Nat

/-- The mutable part of an `ISO8601Sequence`. Dicts are insertion-ordered association lists. -/
structure St where
  firstC : List (String × Int) := []    -- _cached_first_point_values : point string -> point
  nextC : List (String × Int) := []     -- _cached_next_point_values
  validC : List (String × Bool) := []   -- _cached_valid_point_booleans
  recent : List Int := []               -- _cached_recent_valid_points
  lru : List (String × Bool) := []      -- lru_cache of is_on_sequence, least recently used first

inductive Q where
  | valid (k : String)        -- is_valid
  | onSeq (k : String)        -- is_on_sequence
  | next (k : String)         -- get_next_point
  | prev (k : String)         -- get_prev_point
  | nearestPrev (k : String)  -- get_nearest_prev_point
  | first (k : String)        -- get_first_point
  | start                     -- get_start_point
  | stop                      -- get_stop_point
  deriving Repr, DecidableEq

inductive Ans where
  | bool (b : Bool)
  | pt (p : Option Int)
  | bogus                     -- `ISO8601Point(str(None))`: a point whose value is the text "None"
  deriving Repr, DecidableEq

/-- dict lookup -/
def look {α : Type} (k : String) : List (String × α) → Option α
  | [] => none
  | (k', v) :: t => if k' = k then some v else look k t

/-- `if len(d) > cap: d.popitem()` then `d[k] = v` (for a key that is not in `d`) -/
def dictPut {α : Type} (cap : Nat) (d : List (String × α)) (k : String) (v : α) : List (String × α) :=
  (if d.length > cap then d.dropLast else d) ++ [(k, v)]

/-- Follow `step` from `p` to the first point that is not excluded.
`get_next_point_on_sequence` (with `step = recurrence.get_next`) and the recursion of
`get_prev_point` (with `step = recurrence.get_prev`). `none` also when the fuel runs out. -/
def chase (step : Int → Option Int) (excl : Int → Bool) : Nat → Int → Option Int
  | 0, _ => none
  | f + 1, p =>
    match step p with
    | none => none
    | some q => if excl q then chase step excl f q else some q

/-- `get_next_point_on_sequence` -/
def nextOnSeq (s : Seq) (fuel : Nat) (p : Int) : Option Int := chase s.rc.next s.excl fuel p

/-- `while next_point is not None and <go next_point>: next_point = get_next_point_on_sequence(next_point)` -/
def advance (s : Seq) (fuel : Nat) (go : Int → Bool) : Nat → Int → Option Int
  | 0, _ => none
  | n + 1, cur =>
    if go cur then
      match nextOnSeq s fuel cur with
      | none => none
      | some c => advance s fuel go n c
    else some cur

/-- the loop of `_is_on_sequence` over `reversed(self._cached_recent_valid_points)` and its fall-back -/
def scanOn (s : Seq) (fuel : Nat) (p : Int) : List Int → Bool
  | [] => s.rc.pts.contains p                      -- recurrence.get_is_valid
  | v :: vs =>
    if v == p then true
    else if v > p then scanOn s fuel p vs
    else
      match advance s fuel (fun c => decide (c < p)) fuel v with
      | none => scanOn s fuel p vs
      | some c => if c == p then true else scanOn s fuel p vs

/-- `_is_on_sequence` -/
def isOnSeqRaw (s : Seq) (fuel : Nat) (st : St) (key : String) : Bool :=
  let p := s.val key
  if s.excl p then false else scanOn s fuel p st.recent.reverse

/-- `is_on_sequence` = `lru_cache(_LARGE_LRU_CACHE_SIZE)(_is_on_sequence)` -/
def isOnSeq (s : Seq) (fuel : Nat) (st : St) (key : String) : St × Bool :=
  if s.cap = 0 then (st, isOnSeqRaw s fuel st key)
  else
    match look key st.lru with
    | some b => ({ st with lru := st.lru.filter (fun e => e.1 != key) ++ [(key, b)] }, b)
    | none =>
      let b := isOnSeqRaw s fuel st key
      let l := st.lru ++ [(key, b)]
      ({ st with lru := if l.length > s.cap then l.tail else l }, b)

/-- `is_valid` -/
def isValid (s : Seq) (fuel : Nat) (st : St) (key : String) : St × Bool :=
  match look key st.validC with
  | some b => (st, b)
  | none =>
    let r := isOnSeq s fuel st key
    ({ r.1 with validC := dictPut s.cap r.1.validC key r.2 }, r.2)

/-- `_check_and_cache_next_point` -/
def cacheNext (s : Seq) (st : St) (key : String) (c : Int) : St :=
  let nc := dictPut s.cap st.nextC key c
  let rc := if s.cap != 0 && nc.length > s.cap then st.recent.tail else st.recent
  { st with nextC := nc, recent := rc ++ [c] }

/-- the two loops of `get_next_point`: recent valid points (newest first), then from the beginning -/
def scanNext (s : Seq) (fuel : Nat) (p : Int) : List Int → Option Int
  | [] => s.rc.pts.find? (fun x => decide (p < x) && !s.excl x)
  | v :: vs =>
    if v ≥ p then scanNext s fuel p vs
    else
      match advance s fuel (fun c => decide (c ≤ p)) fuel v with
      | none => scanNext s fuel p vs
      | some c => some c

/-- `get_next_point` -/
def getNext (s : Seq) (fuel : Nat) (st : St) (key : String) : St × Option Int :=
  match look key st.nextC with
  | some v => (st, some v)
  | none =>
    match scanNext s fuel (s.val key) st.recent.reverse with
    | none => (st, none)
    | some c => (cacheNext s st key c, some c)

/-- `get_first_point` -/
def getFirst (s : Seq) (fuel : Nat) (st : St) (key : String) : St × Option Int :=
  match look key st.firstC with
  | some v => (st, some v)
  | none =>
    let p := s.val key
    match s.rc.pts.find? (fun x => decide (p ≤ x)) with
    | none => (st, none)
    | some r =>
      if s.excl r then (st, nextOnSeq s fuel r)
      else ({ st with firstC := dictPut s.cap st.firstC key r }, some r)

/-- `get_prev_point` -/
def getPrev (s : Seq) (fuel : Nat) (key : String) : Option Int :=
  match s.rc.prevK key with
  | none => none
  | some r => if s.excl r then chase s.rc.prevC s.excl fuel r else some r

/-- the loop of `get_nearest_prev_point` over the recurrence -/
def nearestScan (excl : Int → Bool) (p : Int) : List Int → Option Int → Option Int
  | [], acc => acc
  | r :: rs, acc => if r > p then acc else nearestScan excl p rs (if excl r then acc else some r)

/-- `get_nearest_prev_point` -/
def getNearestPrev (s : Seq) (fuel : Nat) (st : St) (key : String) : St × Option Int :=
  let r := isOnSeq s fuel st key
  if r.2 then (r.1, getPrev s fuel key)
  else (r.1, nearestScan s.excl (s.val key) s.rc.pts none)

/-- `get_start_point` -/
def getStart (s : Seq) : Option Int := s.rc.pts.find? (fun x => !s.excl x)

/-- `curr`, `prev` after the loop of `get_stop_point` -/
def lastTwo : List Int → Option Int → Option Int → Option Int × Option Int
  | [], c, p => (c, p)
  | r :: rs, c, _ => lastTwo rs (some r) c

/-- `get_stop_point`.  Unpatched code: the last point, or the one before it when the last is
excluded (whatever that one is).  With `stopSkipsExcluded` (probed from the live code, see
findings/C17-fix-1.diff): the last point that is not excluded. -/
def getStop (s : Seq) : Ans :=
  if !s.rc.bounded then .pt none
  else if stopSkipsExcluded then
    .pt (s.rc.pts.foldl (fun acc r => if s.excl r then acc else some r) none)
  else
    match lastTwo s.rc.pts none none with
    | (none, _) => .bogus
    | (some c, pv) =>
      if s.excl c then (match pv with | some p => .pt (some p) | none => .bogus)
      else .pt (some c)

def step (s : Seq) (fuel : Nat) (st : St) : Q → St × Ans
  | .valid k => let r := isValid s fuel st k; (r.1, .bool r.2)
  | .onSeq k => let r := isOnSeq s fuel st k; (r.1, .bool r.2)
  | .next k => let r := getNext s fuel st k; (r.1, .pt r.2)
  | .prev k => (st, .pt (getPrev s fuel k))
  | .nearestPrev k => let r := getNearestPrev s fuel st k; (r.1, .pt r.2)
  | .first k => let r := getFirst s fuel st k; (r.1, .pt r.2)
  | .start => (st, .pt (getStart s))
  | .stop => (st, getStop s)

/-- state after a history of queries -/
def run (s : Seq) (fuel : Nat) (st : St) : List Q → St
  | [] => st
  | q :: qs => run s fuel (step s fuel st q).1 qs

/-- the answers of a history of queries, in order -/
def answers (s : Seq) (fuel : Nat) (st : St) : List Q → List Ans
  | [] => []
  | q :: qs => (step s fuel st q).2 :: answers s fuel (step s fuel st q).1 qs

end CylcModel.IsoSeq
