/-
The active-status invariant `SOK A` through the primitives used by `cylc set`.
-/
import CylcModel.Sched3XActive

namespace CylcModel.Sched3X

theorem loadHistoricalOutputs_status (g : Graph) (s : State) (x : Proxy) :
    (loadHistoricalOutputs g s x).2.status = x.status := by
  unfold loadHistoricalOutputs
  simp only
  have hfold : ∀ (info : List (List (String × Bool) × Flows)) (acc : Proxy × Bool),
      (info.foldl (fun (acc : Proxy × Bool) e =>
        if fMeets acc.1.flows e.2 then
          (e.1.foldl (fun (z : Proxy) m =>
            if hasOutput g z m.1 && !z.done.contains m.1 then { z with done := z.done ++ [m.1] } else z) acc.1, true)
        else acc) acc).1.status = acc.1.status := by
    intro info
    induction info with
    | nil => intro acc; rfl
    | cons e info ih =>
      intro acc
      simp only [List.foldl_cons]
      have inner : ∀ (ms : List (String × Bool)) (z : Proxy),
          (ms.foldl (fun (z : Proxy) m =>
            if hasOutput g z m.1 && !z.done.contains m.1 then { z with done := z.done ++ [m.1] } else z) z).status
            = z.status := by
        intro ms
        induction ms with
        | nil => intro z; rfl
        | cons m ms ihm =>
          intro z
          simp only [List.foldl_cons]
          split
          · exact ihm { z with done := z.done ++ [m.1] }
          · exact ihm z
      split
      · have h1 := ih (e.1.foldl (fun (z : Proxy) m =>
            if hasOutput g z m.1 && !z.done.contains m.1 then { z with done := z.done ++ [m.1] } else z) acc.1, true)
        simp only at h1
        exact h1.trans (inner e.1 acc.1)
      · exact ih acc
  split
  · rfl
  · have := hfold (selectTaskOutputs (rowsFor s x.pt x.name)) (x, false)
    split <;> exact this

theorem sok_loadHistoricalOutputs {A : Act} (g : Graph) (s : State) (x : Proxy) (h : SOK A s) (hx : AOK A x) :
    SOK A (loadHistoricalOutputs g s x).1 ∧ AOK A (loadHistoricalOutputs g s x).2 := by
  have hf := loadHistoricalOutputs_fields g s x
  have hs := loadHistoricalOutputs_status g s x
  have h2 : AOK A (loadHistoricalOutputs g s x).2 := aok_of_eq hf.1 hf.2.1 hs hx
  refine ⟨?_, h2⟩
  -- the state: unchanged, or one row of the loaded proxy inserted
  have key : (loadHistoricalOutputs g s x).1 = s ∨
      (loadHistoricalOutputs g s x).1 = dbInsert s (loadHistoricalOutputs g s x).2 := by
    unfold loadHistoricalOutputs
    simp only
    split
    · exact Or.inr rfl
    · split
      · exact Or.inl rfl
      · exact Or.inr rfl
  rcases key with e | e
  · rw [e]; exact h
  · rw [e]; exact sok_dbInsert _ h h2

theorem sok_holdNew {A : Act} (s : State) (x : Proxy) (h : SOK A s) (hx : AOK A x) :
    SOK A (holdNew s x).1 ∧ AOK A (holdNew s x).2 := by
  unfold holdNew
  split
  · exact ⟨h, aok_reset_none _ _ _ hx⟩
  · split
    · split
      · exact ⟨sok_same h rfl rfl rfl rfl rfl, aok_reset_none _ _ _ hx⟩
      · exact ⟨h, hx⟩
    · exact ⟨h, hx⟩

theorem foldl_satisfyMe_status (l : List Atom) (x : Proxy) :
    (l.foldl (fun z a => z.satisfyMe a) x).status = x.status := by
  induction l generalizing x with
  | nil => rfl
  | cons a l ih => simp only [List.foldl_cons]; rw [ih]; rfl

theorem sok_finishSpawn {A : Act} (t : TaskDefn) (s : State) (x : Proxy) (b : Bool) (h : SOK A s) (hx : AOK A x) :
    SOK A (finishSpawn t s x b).1 ∧ AOK A (finishSpawn t s x b).2 := by
  unfold finishSpawn
  dsimp only
  obtain ⟨h1, h2⟩ := sok_holdNew s x h hx
  generalize holdNew s x = H at h1 h2
  have hy : AOK A (if (t.hasAbs && !H.2.prereqsSatisfied) = true then
      H.1.absDone.foldl (fun z a => z.satisfyMe a) H.2 else H.2) := by
    split
    · have f := foldl_satisfyMe_fields H.1.absDone H.2
      exact aok_of_eq f.1 f.2.1 (foldl_satisfyMe_status _ _) h2
    · exact h2
  refine ⟨?_, hy⟩
  split
  · exact sok_dbInsert _ h1 hy
  · exact h1

def SpawnSok (A : Act) (spawn : State → String → Int → Flows → State × Option Proxy) : Prop :=
  ∀ st n q f, SOK A st → SOK A (spawn st n q f).1 ∧ ∀ y, (spawn st n q f).2 = some y → AOK A y

theorem sok_spawnOnAllOutputsWith {A : Act} (spawn : State → String → Int → Flows → State × Option Proxy)
    (hspawn : SpawnSok A spawn) (g : Graph) (s : State) (x : Proxy) (h : SOK A s) :
    SOK A (spawnOnAllOutputsWith spawn g s x) := by
  unfold spawnOnAllOutputsWith
  split
  · exact h
  · split
    · exact h
    · apply foldl_inv (SOK A)
      · intro st o hst
        apply foldl_inv (SOK A)
        · intro st c hst
          split
          · exact hst
          · have hs := hspawn st c.name c.pt x.flows hst
            split
            · rename_i st' y heq
              rw [heq] at hs
              exact sok_add hs.1 (aok_of_eq rfl rfl rfl (hs.2 y rfl))
            · rename_i st' heq
              rw [heq] at hs
              exact hs.1
        · exact hst
      · exact h

theorem mkProxy_status {g : Graph} {n : String} {p : Int} {x : Proxy} (h : mkProxy g n p = some x) :
    x.status = .waiting := by
  unfold mkProxy at h
  split at h
  · cases h
  · split at h
    · cases h
    · split at h
      · cases h
      · simp only [Option.some.injEq] at h
        rw [← h]

theorem sok_spawnTask {A : Act} (g : Graph) : ∀ (fuel : Nat) (fw : Bool) (s : State) (name : String) (p : Int) (F : Flows),
    SOK A s → SOK A (spawnTask g fuel s name p F fw).1 ∧ ∀ y, (spawnTask g fuel s name p F fw).2 = some y → AOK A y := by
  intro fuel
  induction fuel with
  | zero =>
    intro fw s name p F h
    unfold spawnTask
    exact ⟨h, by intro y hy; cases hy⟩
  | succ fuel ih =>
    intro fw s name p F h
    unfold spawnTask
    dsimp only
    split
    · exact ⟨h, by intro y hy; cases hy⟩
    · split
      · rename_i x0 t hmk _
        have hkey := mkProxy_key hmk
        -- the new proxy carries the status of a committed row, or `waiting`
        have hx : AOK A { x0 with flows := F, status := (taskHistory s name p F).2.1.getD Status.waiting,
                                  submitNum := (taskHistory s name p F).1, flowWait := fw } := by
          cases hh : (taskHistory s name p F).2.1 with
          | none => exact aok_nonactive rfl
          | some st =>
            obtain ⟨r, hr, hrp, hrn, hrs⟩ := taskHistory_status hh
            intro ha
            simp only [Option.getD_some] at ha ⊢
            have := h.rows r hr (by rw [hrs]; exact ha)
            rw [hrp, hrn, hrs] at this
            rw [hkey.1, hkey.2]; exact this
        have hL := sok_loadHistoricalOutputs g s _ h hx
        generalize loadHistoricalOutputs g s
          { x0 with flows := F, status := (taskHistory s name p F).2.1.getD Status.waiting,
                    submitNum := (taskHistory s name p F).1, flowWait := fw } = L at hL
        split
        · exact ⟨hL.1, by intro y hy; cases hy⟩
        · have hW : SOK A (if (histFinal (taskHistory s name p F).2.1 && (taskHistory s name p F).2.2) = true then
              afterFlowWait (spawnOnAllOutputsWith (fun st n q f => spawnTask g fuel st n q f false) g L.1 L.2) L.2
            else L).1 ∧ AOK A (if (histFinal (taskHistory s name p F).2.1 && (taskHistory s name p F).2.2) = true then
              afterFlowWait (spawnOnAllOutputsWith (fun st n q f => spawnTask g fuel st n q f false) g L.1 L.2) L.2
            else L).2 := by
            split
            · unfold afterFlowWait
              have hsp := sok_spawnOnAllOutputsWith (A := A) (fun st n q f => spawnTask g fuel st n q f false)
                (fun st n q f hst => ih false st n q f hst) g L.1 L.2 hL.1
              exact ⟨sok_dbQueue _ _ _ hsp (aok_of_eq rfl rfl rfl hL.2), aok_of_eq rfl rfl rfl hL.2⟩
            · exact hL
          generalize (if (histFinal (taskHistory s name p F).2.1 && (taskHistory s name p F).2.2) = true then
              afterFlowWait (spawnOnAllOutputsWith (fun st n q f => spawnTask g fuel st n q f false) g L.1 L.2) L.2
            else L) = W at hW
          split
          · exact ⟨hW.1, by intro y hy; cases hy⟩
          · have hF2 := sok_finishSpawn t W.1 W.2 (taskHistory s name p F).2.1.isNone hW.1 hW.2
            refine ⟨hF2.1, ?_⟩
            intro y hy
            simp only [Option.some.injEq] at hy
            rw [← hy]; exact hF2.2
      · exact ⟨h, by intro y hy; cases hy⟩

theorem sok_spawnOnAllOutputs {A : Act} (g : Graph) (s : State) (x : Proxy) (h : SOK A s) :
    SOK A (spawnOnAllOutputs g s x) := by
  unfold spawnOnAllOutputs
  exact sok_spawnOnAllOutputsWith _ (fun st n q f hst => sok_spawnTask g spawnFuel false st n q f hst) g s x h

theorem sok_mergeFlows {A : Act} (g : Graph) (s : State) (x : Proxy) (f : Flows) (h : SOK A s) (hx : AOK A x) :
    SOK A (mergeFlows g s x f) := by
  unfold mergeFlows
  split
  · exact h
  · dsimp only
    have hy : AOK A (x.merged f) := aok_of_eq rfl rfl rfl hx
    have h1 : SOK A (dbInsert (s.put (x.merged f)) (x.merged f)) := sok_dbInsert _ (sok_put h hy) hy
    generalize dbInsert (s.put (x.merged f)) (x.merged f) = s1 at h1
    split
    · apply sok_put h1
      unfold queueTask
      exact aok_reset_none _ _ _ (aok_reset_to _ _ _ _ _ rfl)
    · split
      · exact sok_spawnOnAllOutputs g _ _ (sok_put h1 (aok_of_eq rfl rfl rfl hy))
      · exact h1

theorem sok_spawnAndAdd {A : Act} (g : Graph) (s : State) (name : String) (p : Int) (F : Flows) (h : SOK A s) :
    SOK A (spawnAndAdd g s name p F) := by
  unfold spawnAndAdd
  split
  · rename_i y hy
    exact sok_mergeFlows g s y F h (aok_of_get? h hy)
  · have hs := sok_spawnTask (A := A) g spawnFuel false s name p F h
    split
    · rename_i heq; rw [heq] at hs; exact sok_add hs.1 (hs.2 _ rfl)
    · rename_i heq; rw [heq] at hs; exact hs.1

theorem sok_spawnNextParentless {A : Act} (g : Graph) (s : State) (x : Proxy) (h : SOK A s) :
    SOK A (spawnNextParentless g s x) := by
  unfold spawnNextParentless
  split
  · exact h
  · split
    · exact sok_spawnAndAdd g s _ _ _ h
    · exact h

theorem sok_releaseHeldActive {A : Act} (s : State) (x : Proxy) (h : SOK A s) (hx : AOK A x) :
    SOK A (releaseHeldActive s x) := by
  unfold releaseHeldActive
  dsimp only
  split
  · refine sok_same (s := s.put _) ?_ rfl rfl rfl rfl rfl
    apply sok_put h
    split
    · exact aok_reset_none _ _ _ (aok_reset_none _ _ _ hx)
    · exact aok_reset_none _ _ _ hx
  · exact sok_same h rfl rfl rfl rfl rfl

theorem sok_remove {A : Act} (g : Graph) (s : State) (x : Proxy) (h : SOK A s) (hx : AOK A x) :
    SOK A (remove g s x) := by
  unfold remove
  dsimp only
  have h1 := sok_releaseHeldActive s x h hx
  generalize releaseHeldActive s x = s1 at h1
  have hx1 : AOK A ((s1.get? x.pt x.name).getD x) := by
    cases hg : s1.get? x.pt x.name with
    | none => exact hx
    | some v => exact aok_of_get? h1 hg
  generalize (s1.get? x.pt x.name).getD x = x1 at hx1
  have h2 : SOK A (if (!x1.flows.isEmpty && x1.runahead) = true then spawnNextParentless g s1 x1 else s1) := by
    split
    · exact sok_spawnNextParentless g s1 x1 h1
    · exact h1
  generalize (if (!x1.flows.isEmpty && x1.runahead) = true then spawnNextParentless g s1 x1 else s1) = s2 at h2
  split
  · apply sok_flushDb
    apply sok_dbQueue _ _ _ _ hx1
    refine ⟨?_, ?_, h2.rows, h2.qIns, h2.qUpd⟩
    · intro y hy
      exact h2.pool y (List.mem_filter.mp hy).1
    · intro y hy
      rcases List.mem_append.mp hy with hm | hm
      · exact h2.ghosts y hm
      · simp at hm; rw [hm]; exact hx1
  · exact h2

theorem sok_removeIfComplete {A : Act} (g : Graph) (s : State) (x : Proxy) (h : SOK A s) (hx : AOK A x) :
    SOK A (removeIfComplete g s x) := by
  unfold removeIfComplete
  split
  · exact h
  · dsimp only
    have h1 : SOK A (if (s.stopTask == some (x.pt, x.name)) = true then { s with stopTaskFinished := true } else s) := by
      split
      · exact sok_same h rfl rfl rfl rfl rfl
      · exact h
    generalize (if (s.stopTask == some (x.pt, x.name)) = true then { s with stopTaskFinished := true } else s) = s1 at h1
    split
    · exact h1
    · split
      · exact sok_remove g s1 x h1 hx
      · exact h1

theorem sok_recordAbs {A : Act} (st : State) (atom : Atom) (b : Bool) (h : SOK A st) : SOK A (recordAbs st atom b) := by
  unfold recordAbs
  dsimp only
  have h1 : SOK A (if (b && !st.absDone.contains atom) = true then { st with absDone := st.absDone ++ [atom] } else st) := by
    split
    · exact sok_same h rfl rfl rfl rfl rfl
    · exact h
  generalize (if (b && !st.absDone.contains atom) = true then { st with absDone := st.absDone ++ [atom] } else st) = st1 at h1
  split
  · exact sok_flushDb h1
  · exact h1

theorem sok_findOrSpawnChild {A : Act} (g : Graph) (st : State) (p : Int) (n : String) (pf : Flows) (c : Child)
    (h : SOK A st) :
    SOK A (findOrSpawnChild g st p n pf c).1 ∧ ∀ y, (findOrSpawnChild g st p n pf c).2 = some y → AOK A y := by
  unfold findOrSpawnChild
  split
  · rename_i y0 hy0
    dsimp only
    have h1 : SOK A (if (c.pt == p && c.name == n) = true then st else mergeFlows g st y0 pf) := by
      split
      · exact h
      · exact sok_mergeFlows g st y0 pf h (aok_of_get? h hy0)
    exact ⟨h1, fun y hy => aok_of_get? h1 hy⟩
  · split
    · exact ⟨h, by intro y hy; cases hy⟩
    · exact sok_spawnTask (A := A) g spawnFuel false st c.name c.pt pf h

theorem sok_satisfyTargets {A : Act} (atom : Atom) (targets : List (Int × String)) (acc : State × List (Int × String))
    (h : SOK A acc.1) : SOK A (satisfyTargets atom targets acc).1 := by
  unfold satisfyTargets
  apply foldl_inv (fun (a : State × List (Int × String)) => SOK A a.1)
  · intro a k ha
    split
    · exact ha
    · rename_i z hz
      exact sok_put ha (aok_of_eq (x := z) rfl rfl rfl (aok_of_get? ha hz))
  · exact h

theorem sok_spawnChild {A : Act} (g : Graph) (p : Int) (n out : String) (acc : State × List (Int × String)) (c : Child)
    (h : SOK A acc.1) : SOK A (spawnChild g p n out acc c).1 := by
  unfold spawnChild
  dsimp only
  generalize parentFlows acc.1 p n = pf
  have h0 := sok_recordAbs acc.1 ⟨p, n, out⟩ c.isAbs h
  generalize recordAbs acc.1 ⟨p, n, out⟩ c.isAbs = st0 at h0
  have hR := sok_findOrSpawnChild g st0 p n pf c h0
  generalize findOrSpawnChild g st0 p n pf c = R at hR
  split
  · exact hR.1
  · rename_i y hy
    apply sok_satisfyTargets
    dsimp only
    split
    · exact hR.1
    · exact sok_add hR.1 (aok_of_eq (x := y) rfl rfl rfl (hR.2 y hy))

theorem sok_removeSuicides {A : Act} (g : Graph) (s : State) (ks : List (Int × String)) (h : SOK A s) :
    SOK A (removeSuicides g s ks) := by
  unfold removeSuicides
  apply foldl_inv (SOK A)
  · intro st k hst
    split
    · rename_i z hz
      exact sok_remove g st z hst (aok_of_get? hst hz)
    · exact hst
  · exact h

theorem sok_clearXtrigs {A : Act} (s : State) (p : Int) (n : String) (h : SOK A s) : SOK A (clearXtrigs s p n) := by
  unfold clearXtrigs
  split
  · rename_i x tr hl
    split
    · exact sok_store h (aok_of_eq (x := x) rfl rfl rfl (aok_of_lookup h hl))
    · exact h
  · exact h

theorem sok_spawnOnOutput {A : Act} (g : Graph) (s : State) (p : Int) (n out : String) (h : SOK A s) :
    SOK A (spawnOnOutput g s p n out) := by
  unfold spawnOnOutput
  split
  · exact h
  · rename_i x _ hl
    split
    · exact sok_removeIfComplete g s x h (aok_of_lookup h hl)
    · dsimp only
      have hR : SOK A (List.foldl (spawnChild g p n out) (clearXtrigs s p n, []) (childrenIfFlows g x out)).1 := by
        apply foldl_inv (fun (a : State × List (Int × String)) => SOK A a.1)
        · intro a c ha; exact sok_spawnChild g p n out a c ha
        · exact sok_clearXtrigs s p n h
      generalize (List.foldl (spawnChild g p n out) (clearXtrigs s p n, []) (childrenIfFlows g x out)) = R at hR
      have h3 := sok_removeSuicides g R.1 R.2 hR
      generalize removeSuicides g R.1 R.2 = s3 at h3
      have h4 : SOK A (if R.2.isEmpty = true then s3 else flushDb s3) := by
        split
        · exact h3
        · exact sok_flushDb h3
      generalize (if R.2.isEmpty = true then s3 else flushDb s3) = s4 at h4
      split
      · rename_i x' _ hl'
        exact sok_removeIfComplete g s4 x' h4 (aok_of_lookup h4 hl')
      · exact h4

theorem sok_spawnChildren {A : Act} (g : Graph) (s : State) (p : Int) (n out : String) (tr forced : Bool)
    (h : SOK A s) : SOK A (spawnChildren g s p n out tr forced) := by
  unfold spawnChildren
  dsimp only
  have h1 : ∀ s1, (s1 = (match lookup s p n with | some (x, _) => dbUpdateOutputs g s x | none => s)) → SOK A s1 := by
    intro s1 he; rw [he]
    split
    · rename_i x _ hl
      exact sok_dbQueue _ _ _ h (aok_of_lookup h hl)
    · exact h
  split
  · exact h1 _ rfl
  · exact sok_spawnOnOutput g _ p n out (h1 _ rfl)

end CylcModel.Sched3X
