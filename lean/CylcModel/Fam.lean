/-
Fam — executable model of family-trigger expansion in `cylc/flow/graph_parser.py`
(`GraphParser.parse_graph` → `_proc_dep_pair` → `_families_all_to_all` → `_compute_triggers`
→ `_set_triggers` / `_set_output_opt`) and of the family map built in
`WorkflowConfig._load_graph` (`cylc/flow/config.py`) from `[runtime]` inheritance.

The model works on the *structure* of a graph section (lines = chains of expression trees
over nodes); the text the code sees is `Tree.render`.  The qualifier tables and the character
classes of the node regexes come from `Generated/FamTables.lean`, regenerated from the live
source on every run.

Core Lean only (linked into the driver executable).
-/
import CylcModel.Generated.FamTables

namespace CylcModel.Fam
open CylcModel.Generated.FamTables

/-! ## Expression trees: the text structure of a trigger expression -/

/-- A trigger expression as written: `&`, `|`, explicit parentheses.  `tt`/`ff` are the empty
conjunction/disjunction (the content of `()` produced for a family without members). -/
inductive Tree (α : Type) where
  | leaf : α → Tree α
  | and : Tree α → Tree α → Tree α
  | or : Tree α → Tree α → Tree α
  | paren : Tree α → Tree α
  | tt : Tree α
  | ff : Tree α
  deriving Repr, DecidableEq, Inhabited

namespace Tree
variable {α β : Type}

/-- truth value under a valuation of the leaves -/
def den (σ : α → Bool) : Tree α → Bool
  | leaf a => σ a
  | and l r => l.den σ && r.den σ
  | or l r => l.den σ || r.den σ
  | paren t => t.den σ
  | tt => true
  | ff => false

/-- substitute a tree for every leaf -/
def bind (f : α → Tree β) : Tree α → Tree β
  | leaf a => f a
  | and l r => and (l.bind f) (r.bind f)
  | or l r => or (l.bind f) (r.bind f)
  | paren t => paren (t.bind f)
  | tt => tt
  | ff => ff

def leaves : Tree α → List α
  | leaf a => [a]
  | and l r => l.leaves ++ r.leaves
  | or l r => l.leaves ++ r.leaves
  | paren t => t.leaves
  | tt => []
  | ff => []

def hasOr : Tree α → Bool
  | leaf _ => false
  | and l r => l.hasOr || r.hasOr
  | or _ _ => true
  | paren t => t.hasOr
  | tt => false
  | ff => false

def hasParen : Tree α → Bool
  | leaf _ => false
  | and l r => l.hasParen || r.hasParen
  | or l r => l.hasParen || r.hasParen
  | paren _ => true
  | tt => false
  | ff => false

/-- the text: no implicit parentheses, no white space -/
def render (f : α → String) : Tree α → String
  | leaf a => f a
  | and l r => l.render f ++ "&" ++ r.render f
  | or l r => l.render f ++ "|" ++ r.render f
  | paren t => "(" ++ t.render f ++ ")"
  | tt => ""
  | ff => ""

def isOr : Tree α → Bool
  | or _ _ => true
  | _ => false

def isEmpty : Tree α → Bool
  | tt => true
  | ff => true
  | _ => false

/-- Well-formed = the text read with the usual precedence (`&` binds tighter than `|`)
has the structure of the tree: no bare `|` directly under `&`, empty only inside `()`. -/
def WF : Tree α → Bool
  | leaf _ => true
  | and l r => l.WF && r.WF && !l.isOr && !r.isOr && !l.isEmpty && !r.isEmpty
  | or l r => l.WF && r.WF && !l.isEmpty && !r.isEmpty
  | paren t => t.WF
  | tt => true
  | ff => true

end Tree

/-- `a & b & c` (right-nested); `tt` for the empty list -/
def bigAnd {α : Type} : List (Tree α) → Tree α
  | [] => .tt
  | [x] => x
  | x :: y :: r => .and x (bigAnd (y :: r))

/-- `a | b | c` (right-nested); `ff` for the empty list -/
def bigOr {α : Type} : List (Tree α) → Tree α
  | [] => .ff
  | [x] => x
  | x :: y :: r => .or x (bigOr (y :: r))

/-! ## Nodes -/

/-- one graph node `[!]NAME[OFFSET][:QUAL][?]`; xtriggers are nodes whose name starts with `@` -/
structure Node where
  name : String
  offset : String := ""     -- "" or "[...]"
  qual : String := ""       -- "" = no qualifier
  opt : Bool := false
  suicide : Bool := false
  deriving Repr, DecidableEq, Inhabited

def Node.isXtrig (n : Node) : Bool :=
  match n.name.toList with
  | '@' :: _ => true
  | _ => false

def Node.text (n : Node) : String :=
  (if n.suicide then "!" else "") ++ n.name ++ n.offset ++
    (if n.qual = "" then "" else ":" ++ n.qual) ++ (if n.opt then "?" else "")

/-- `{family: [member tasks]}` as passed to `GraphParser` -/
abbrev FamMap := List (String × List String)

/-! ## Node syntax (REC_NODE_FULL), from the generated character classes -/

def charsIn (cls : List Char) (s : String) : Bool := s.toList.all fun c => cls.contains c

def validName (s : String) : Bool :=
  match s.toList with
  | [] => false
  | c :: r => fullNameFirst.contains c && r.all fun d => fullNameRest.contains d

def validOffset (s : String) : Bool :=
  s = "" ||
    (match s.toList with
     | '[' :: r =>
        (match r.reverse with
         | ']' :: m => !m.isEmpty && m.all fun d => fullOffset.contains d
         | _ => false)
     | _ => false)

def Node.valid (n : Node) : Bool :=
  if n.isXtrig then
    (match n.name.toList with
     | _ :: r => !r.isEmpty && r.all fun d => xtrigChars.contains d
     | [] => false) && n.offset = "" && n.qual = "" && !n.opt
  else
    validName n.name && validOffset n.offset && (n.qual = "" || charsIn fullQual n.qual)

/-! ## Left-hand sides: `_proc_dep_pair` (per node) and `_families_all_to_all` -/

/-- `TaskTrigger.standardise_name` -/
def stdQual (q : String) : String := (altQualifiers.lookup q).getD q

/-- the qualifier a left node ends up with: explicit one standardised, none = succeeded -/
def stdN (n : Node) : Node :=
  if n.isXtrig then n
  else { n with qual := if n.qual = "" then outSucceeded else stdQual n.qual, opt := false }

/-- the checks of `_proc_dep_pair` on one left node (`false` = GraphParseError):
no suicide mark on the left; a family needs a qualifier ("Family trigger required") that is a
family trigger ("Illegal family trigger"); a non-family must not carry a family trigger. -/
def checkNode (fm : FamMap) (n : Node) : Bool :=
  !n.suicide &&
  (n.isXtrig ||
    (match fm.lookup n.name with
     | some _ => n.qual != "" && (famToMemTrigger.lookup (stdQual n.qual)).isSome
     | none => (famToMemTrigger.lookup (stdN n).qual).isNone))

/-- `NAME[OFFSET]:OUTPUT` -/
def atom (name off out : String) : String := name ++ off ++ ":" ++ out

/-- a member-level trigger; `finished` is replaced by `(succeeded|failed)` in `_compute_triggers` -/
def memberT (m off out : String) : Tree String :=
  if out = outFinished then
    .paren (.or (.leaf (atom m off outSucceeded)) (.leaf (atom m off outFailed)))
  else .leaf (atom m off out)

/-- expansion of one standardised left node (`_families_all_to_all` + finish replacement) -/
def expandLeaf (fm : FamMap) (n : Node) : Tree String :=
  if n.isXtrig then .leaf n.name
  else
    match fm.lookup n.name, famToMemTrigger.lookup n.qual with
    | some ms, some (ttype, all) =>
      .paren ((if all then bigAnd else bigOr) (ms.map fun m => memberT m n.offset ttype))
    | _, _ => memberT n.name n.offset n.qual

/-- the member-level expression of a left-hand side -/
def expand (fm : FamMap) (t : Tree Node) : Tree String := t.bind fun n => expandLeaf fm (stdN n)

/-- A left-hand side yields one expression if it is conditional or parenthesised, otherwise one
per `&`-separated node.  `none` = GraphParseError.  Each expression comes with its trigger list. -/
def leftExprs (fm : FamMap) (t : Tree Node) : Option (List (Tree String)) :=
  if !(t.leaves.all (checkNode fm)) then none
  else if t.hasOr || t.hasParen then some [expand fm t]
  else some (t.leaves.map fun n => expandLeaf fm (stdN n))

def exprText (e : Tree String) : String := e.render id

/-! ## Parser state: `triggers` and `task_output_opt` -/

/-- assoc-list update: replace the first entry with key `k` or append -/
def aset {κ β : Type} [BEq κ] (k : κ) (v : β) : List (κ × β) → List (κ × β)
  | [] => [(k, v)]
  | (k', v') :: r => if k' == k then (k, v) :: r else (k', v') :: aset k v r

/-- (is-optional, is-optional-by-family-default, is-fixed) -/
abbrev OptVal := Bool × Bool × Bool
abbrev Opts := List ((String × String) × OptVal)
/-- `triggers[name][expr] = (trigs, suicide)` -/
abbrev Trigs := List ((String × String) × (List String × Bool))

structure State where
  trigs : Trigs := []
  opts : Opts := []
  deriving Repr, Inhabited

/-- `_set_triggers` (expire_triggers off) -/
def setTrigger (tr : Trigs) (name : String) (suicide : Bool) (trigs : List String) (expr : String) :
    Option Trigs :=
  match tr.lookup (name, expr) with
  | some (_, osuicide) =>
    if expr != "" && osuicide != suicide then none
    else some (aset (name, expr) (trigs, suicide) tr)
  | none => some (aset (name, expr) (trigs, suicide) tr)

/-- the opposite output that must be optional too if both are used -/
def opposite (output : String) : Option String :=
  if output = outSucceeded then some outFailed
  else if output = outFailed then some outSucceeded
  else if output = outSubmitted then some outSubmitFailed
  else if output = outSubmitFailed then some outSubmitted
  else none

/-- `_set_output_opt`, first half: set the entry or check it against the previous one -/
def optUpd (opts : Opts) (name output : String) (optional famMember : Bool) : Option Opts :=
  match opts.lookup (name, output) with
  | none => some (aset (name, output) (optional, optional, !famMember) opts)
  | some (po, pd, pf) =>
    if pf then
      if famMember then some opts
      else if optional != po then none else some opts
    else
      if famMember then (if optional != pd then none else some opts)
      else some (aset (name, output) (optional, pd, true) opts)

/-- `_set_output_opt`, second half: opposite outputs must both be optional if both are used -/
def oppOk (o1 : Opts) (name output : String) (famMember : Bool) : Bool :=
  match opposite output with
  | none => true
  | some opp =>
    match o1.lookup (name, opp), o1.lookup (name, output) with
    | some (oo, od, ofx), some (co, _, _) =>
      if famMember || !ofx then !(!co || !od || !oo) else !(!co || !oo)
    | _, _ => true

/-- `_set_output_opt` for a real (non-`finished`) output, after the suicide / must-be-optional checks -/
def setOpt1 (opts : Opts) (name output : String) (optional famMember : Bool) : Option Opts :=
  match optUpd opts name output optional famMember with
  | none => none
  | some o1 => if oppOk o1 name output famMember then some o1 else none

/-- `_set_output_opt` -/
def setOutputOpt (opts : Opts) (name output : String) (optional suicide famMember : Bool) :
    Option Opts :=
  if suicide then some opts
  else if (output = outExpired || output = outSubmitFailed) && !optional then none
  else if output = outFinished then
    if optional then none
    else (setOpt1 opts name outSucceeded true famMember).bind
      fun o => setOpt1 o name outFailed true famMember
  else setOpt1 opts name output optional famMember

/-! ## Right-hand sides: `_compute_triggers` -/

/-- a family on the right: the (family qualifier, optional flag) it stands for.  A bare family that
is a lone / first node (no left expression) means `succeed-all`; the `finish` pseudo-output can't be
optional and makes succeeded/failed optional.  `none` = GraphParseError -/
def famRightQual (r : Node) (expr : String) : Option (String × Bool) :=
  if r.qual = "" && expr = "" then some (qualSucceedAll, r.opt)
  else if r.qual != "" && "finish".toList.isPrefixOf r.qual.toList then
    (if r.opt then none else some (r.qual, true))
  else some (r.qual, r.opt)

/-- what one right node means: (members, outputs, optional, is-family); `none` = GraphParseError -/
def rightSpec (fm : FamMap) (eoc : List String) (expr : String) (r : Node) :
    Option (List String × List String × Bool × Bool) :=
  match fm.lookup r.name with
  | some ms =>
    match famRightQual r expr with
    | none => none
    | some (output, optional) =>
      if output = "" then some (ms, [], optional, true)
      else
        match famToMemOutput.lookup output with
        | none => none
        | some outs => some (ms, outs, optional, true)
  | none =>
    let output :=
      if r.qual != "" then stdQual r.qual
      else if r.opt || (!(eoc.contains r.text) || expr = "") then outSucceeded
      else ""
    some ([r.name], if output = "" then [] else [output], r.opt, false)

def setOutputs (opts : Opts) (mem : String) (outs : List String) (optional suicide fam : Bool) :
    Option Opts :=
  outs.foldlM (fun o out => setOutputOpt o mem out optional suicide fam) opts

/-- one member in the loop of `_compute_triggers`: the trigger (unless the right node has an offset),
then the optionality of each output -/
def memberStep (r : Node) (trigs : List String) (expr : String) (outs : List String)
    (optional fam : Bool) (st : State) (mem : String) : Option State :=
  match (if r.offset = "" then setTrigger st.trigs mem r.suicide trigs expr else some st.trigs) with
  | none => none
  | some tr =>
    match setOutputs st.opts mem outs optional r.suicide fam with
    | none => none
    | some op => some { trigs := tr, opts := op }

/-- the member loop of `_compute_triggers` for one right node -/
def applyMembers (st : State) (mems : List String) (r : Node) (trigs : List String) (expr : String)
    (outs : List String) (optional fam : Bool) : Option State :=
  mems.foldlM (memberStep r trigs expr outs optional fam) st

def procRight (fm : FamMap) (eoc : List String) (expr : String) (trigs : List String)
    (st : State) (r : Node) : Option State :=
  if r.isXtrig then none else
  match rightSpec fm eoc expr r with
  | none => none
  | some (mems, outs, optional, fam) => applyMembers st mems r trigs expr outs optional fam

/-- `_compute_triggers`: one left expression (or none) against all right nodes -/
def computeTriggers (fm : FamMap) (eoc : List String) (e : Option (Tree String))
    (rights : List Node) (st : State) : Option State :=
  let expr := match e with | some t => exprText t | none => ""
  let trigs := match e with | some t => t.leaves | none => []
  rights.foldlM (procRight fm eoc expr trigs) st

/-! ## Pairs: `parse_graph` -/

structure Pair where
  left : Option (Tree Node)
  right : Tree Node
  deriving Repr, Inhabited

def nodeText (t : Tree Node) : String := t.render Node.text

/-- `str(pair[0])`: the sort key of `parse_graph` -/
def Pair.key (p : Pair) : String := match p.left with | some l => nodeText l | none => "None"
def Pair.rtext (p : Pair) : String := nodeText p.right

/-- pairs of one line: auto-trigger pairs `(None, node)` for the first element, then the chain -/
def linePairs (chain : List (Tree Node)) : List Pair :=
  let firsts : List Pair := match chain with
    | [] => []
    | e :: _ => (e.leaves.filter fun n => !n.isXtrig).map fun n => ⟨none, .leaf n⟩
  let rec links : List (Tree Node) → List Pair
    | a :: b :: r => ⟨some a, b⟩ :: links (b :: r)
    | _ => []
  firsts ++ links chain

def dedupPairs : List Pair → List Pair → List Pair
  | acc, [] => acc.reverse
  | acc, p :: r =>
    if acc.any (fun q => q.key == p.key && q.rtext == p.rtext && q.left.isSome == p.left.isSome)
    then dedupPairs acc r else dedupPairs (p :: acc) r

/-- `sorted(pairs, key=lambda p: str(p[0]))`; the order among equal keys (Python set order,
unspecified) is fixed by the harness to ascending / descending right-hand text -/
def sortPairs (desc : Bool) (ps : List Pair) : List Pair :=
  ps.mergeSort fun a b =>
    decide (a.key < b.key) ||
      (a.key == b.key && (if desc then decide (b.rtext ≤ a.rtext) else decide (a.rtext ≤ b.rtext)))

/-- `str.strip('()')` -/
def stripParens (s : String) : String :=
  let p (c : Char) : Bool := c == '(' || c == ')'
  String.ofList ((s.toList.dropWhile p).reverse.dropWhile p).reverse

/-- bookkeeping for the "offsets only on the right" check -/
structure Book where
  lefts : List String := []
  rights : List String := []
  checkTerminals : List String := []     -- right-hand texts with an offset and a left side

def procPair (fm : FamMap) (eoc : List String) (acc : State × Book) (p : Pair) :
    Option (State × Book) :=
  let (st, bk) := acc
  if p.right.hasOr then none else
  let rights := p.right.leaves
  let bk : Book := {
    lefts := bk.lefts ++ (match p.left with | some l => l.leaves.map Node.text | none => [])
    rights := bk.rights ++ (p.rtext.splitOn "&").map stripParens
    checkTerminals :=
      if p.left.isSome && rights.any (fun r => r.offset != "") then stripParens p.rtext :: bk.checkTerminals
      else bk.checkTerminals }
  match p.left with
  | none => (computeTriggers fm eoc none rights st).map fun s => (s, bk)
  | some l =>
    match leftExprs fm l with
    | none => none
    | some es =>
      (es.foldlM (fun s e => computeTriggers fm eoc (some e) rights s) st).map fun s => (s, bk)

structure Case where
  fm : FamMap
  lines : List (List (Tree Node))
  tieDesc : Bool := false
  deriving Inhabited

/-- `end_of_chain_nodes`: the `&`-separated texts of the last element of every chain -/
def endOfChain (lines : List (List (Tree Node))) : List String :=
  lines.flatMap fun ch => match ch.getLast? with
    | some e => (nodeText e).splitOn "&"
    | none => []

/-- `str.strip('?')` -/
def stripQ (s : String) : String :=
  String.ofList ((s.toList.dropWhile (· == '?')).reverse.dropWhile (· == '?')).reverse

/-- one terminal node in `WorkflowConfig.check_terminal_outputs` when `[runtime]` defines no custom
outputs: a qualified node passes iff its qualifier is in `TASK_QUALIFIERS` -/
def terminalOk (t : String) : Bool :=
  match t.splitOn ":" with
  | [_] => true
  | [_, out] => taskQualifiers.contains (stripQ out)
  | _ => false

/-- result of a successful parse: the recorded state and `parser.terminals` -/
structure Parsed where
  st : State
  terminals : List String
  deriving Repr, Inhabited

/-- `GraphParser(fm).parse_graph(text)`; `none` = GraphParseError -/
def parseGraph (c : Case) : Option Parsed :=
  if !(c.lines.all fun ch => ch.all fun e => e.leaves.all Node.valid) then none else
  let eoc := endOfChain c.lines
  let pairs := sortPairs c.tieDesc (dedupPairs [] (c.lines.flatMap linePairs))
  match pairs.foldlM (procPair c.fm eoc) (({} : State), ({} : Book)) with
  | none => none
  | some (st, bk) =>
    let terminals := bk.rights.filter fun r => !bk.lefts.contains r
    if terminals.any fun r => bk.checkTerminals.contains r then none else some ⟨st, terminals⟩

/-! ## The family map from `[runtime]` inheritance (`WorkflowConfig._load_graph`) -/

/-- `[runtime]` namespaces with their declared `inherit` lists (empty = root) -/
abbrev Decls := List (String × List String)

def rootName : String := "root"

def parentsOf (d : Decls) (n : String) : List String :=
  if n = rootName then [] else
  match d.lookup n with
  | some [] => [rootName]
  | some ps => ps
  | none => []

/-- all ancestors reachable in at most `fuel` inheritance steps (= the C3 linearisation as a set) -/
def ancestors (d : Decls) : Nat → String → List String
  | 0, _ => []
  | fuel + 1, n => parentsOf d n ++ (parentsOf d n).flatMap (ancestors d fuel)

def namespaces (d : Decls) : List String := (rootName :: d.map (·.1)).eraseDups

def descendants (d : Decls) (p : String) : List String :=
  (namespaces d).filter fun n => (ancestors d (namespaces d).length n).contains p

def isFamily (d : Decls) (n : String) : Bool := !(descendants d n).isEmpty

def insertStr (a : String) : List String → List String
  | [] => [a]
  | b :: r => if a ≤ b then a :: b :: r else b :: insertStr a r

/-- `sorted(...)` of strings (insertion sort: structural, so the kernel can evaluate it) -/
def sortStrings (l : List String) : List String := l.foldr insertStr []

/-- `family_map`: every namespace with descendants except root ↦ its sorted *task* descendants -/
def familyMap (d : Decls) : FamMap :=
  ((namespaces d).filter fun f => f != rootName && isFamily d f).map fun f =>
    (f, sortStrings ((descendants d f).filter fun t => !isFamily d t))

/-! ## Specification side (hand-written from the property text, independent of the generated tables) -/

/-- the seven family qualifiers of the property text -/
inductive Stem where
  | succeed | fail | finish | start | submit | submitFail | expire
  deriving Repr, DecidableEq, Inhabited

def Stem.all : List Stem := [.succeed, .fail, .finish, .start, .submit, .submitFail, .expire]

def Stem.name : Stem → String
  | .succeed => "succeed" | .fail => "fail" | .finish => "finish" | .start => "start"
  | .submit => "submit" | .submitFail => "submit-fail" | .expire => "expire"

/-- the member output a qualifier stands for (`finished` = succeeded or failed) -/
def Stem.output : Stem → String
  | .succeed => "succeeded" | .fail => "failed" | .finish => "finished" | .start => "started"
  | .submit => "submitted" | .submitFail => "submit-failed" | .expire => "expired"

/-- the real outputs a qualifier affects on the right of an arrow -/
def Stem.outputs : Stem → List String
  | .finish => ["succeeded", "failed"]
  | s => [s.output]

def Stem.famQual (s : Stem) (all : Bool) : String := s.name ++ (if all then "-all" else "-any")

/-- the fourteen family qualifiers `<q>-all`, `<q>-any` -/
def famQualTable : List (String × (Stem × Bool)) :=
  Stem.all.flatMap fun s => [(s.famQual true, (s, true)), (s.famQual false, (s, false))]

/-- read a family qualifier: `succeed-all` ↦ (succeed, all) -/
def famQual? (q : String) : Option (Stem × Bool) := famQualTable.lookup q

/-- the alternative task qualifiers and the outputs they stand for -/
def specAlt : List (String × String) := Stem.all.map fun s => (s.name, s.output)

/-- the standard output name of a task qualifier (`fail` ↦ `failed`; others unchanged) -/
def specStd (q : String) : String := (specAlt.lookup q).getD q

/-- "output `out` of task `m` at `off` is complete" under a valuation of atoms -/
def outSpec (σ : String → Bool) (m off out : String) : Bool :=
  if out = "finished" then σ (atom m off "succeeded") || σ (atom m off "failed")
  else σ (atom m off out)

/-- the meaning of one left node according to the property: a family with `<q>-all` is the AND
over its members of the member output, `<q>-any` the OR; a plain task its own output -/
def nodeSpec (fm : FamMap) (σ : String → Bool) (n : Node) : Bool :=
  if n.isXtrig then σ n.name
  else
    match fm.lookup n.name with
    | some ms =>
      (match famQual? n.qual with
       | some (s, true) => ms.all fun m => outSpec σ m n.offset s.output
       | some (s, false) => ms.any fun m => outSpec σ m n.offset s.output
       | none => false)
    | none => outSpec σ n.name n.offset (if n.qual = "" then "succeeded" else specStd n.qual)

/-- the meaning of a whole left-hand side -/
def specDen (fm : FamMap) (σ : String → Bool) (t : Tree Node) : Bool := t.den (nodeSpec fm σ)

/-- the atoms the specification of a node talks about -/
def nodeSpecAtoms (fm : FamMap) (n : Node) : List String :=
  if n.isXtrig then [n.name]
  else
    let outs (o : String) : List String := if o = "finished" then ["succeeded", "failed"] else [o]
    match fm.lookup n.name with
    | some ms =>
      (match famQual? n.qual with
       | some (s, _) => ms.flatMap fun m => (outs s.output).map fun o => atom m n.offset o
       | none => [])
    | none => (outs (if n.qual = "" then "succeeded" else specStd n.qual)).map fun o => atom n.name n.offset o

/-! ## A reader for trigger-expression text (used by the judge on the implementation's strings) -/

inductive Tok where
  | lp | rp | amp | bar
  | atom : String → Tok
  deriving Repr, DecidableEq, Inhabited

def tokenize (s : String) : List Tok :=
  let flush (cur : List Char) (acc : List Tok) : List Tok :=
    if cur.isEmpty then acc else Tok.atom (String.ofList cur.reverse) :: acc
  let rec go : List Char → List Char → List Tok → List Tok
    | [], cur, acc => (flush cur acc).reverse
    | c :: r, cur, acc =>
      if c = '(' then go r [] (Tok.lp :: flush cur acc)
      else if c = ')' then go r [] (Tok.rp :: flush cur acc)
      else if c = '&' then go r [] (Tok.amp :: flush cur acc)
      else if c = '|' then go r [] (Tok.bar :: flush cur acc)
      else go r (c :: cur) acc
  go s.toList [] []

/-- recursive descent with `&` binding tighter than `|`; level 0 = or, 1 = and, 2 = factor -/
def parseLvl : Nat → Nat → List Tok → Option (Tree String × List Tok)
  | 0, _, _ => none
  | fuel + 1, 2, toks =>
    (match toks with
     | Tok.atom a :: r => some (.leaf a, r)
     | Tok.lp :: r =>
       (match parseLvl fuel 0 r with
        | some (t, Tok.rp :: r') => some (.paren t, r')
        | _ => none)
     | _ => none)
  | fuel + 1, 1, toks =>
    (match parseLvl fuel 2 toks with
     | some (l, Tok.amp :: r) =>
       (match parseLvl fuel 1 r with
        | some (t, r') => some (.and l t, r')
        | none => none)
     | other => other)
  | fuel + 1, _, toks =>
    (match parseLvl fuel 1 toks with
     | some (l, Tok.bar :: r) =>
       (match parseLvl fuel 0 r with
        | some (t, r') => some (.or l t, r')
        | none => none)
     | other => other)

def parseExpr (s : String) : Option (Tree String) :=
  let toks := tokenize s
  match parseLvl (3 * toks.length + 3) 0 toks with
  | some (t, []) => some t
  | _ => none

end CylcModel.Fam
