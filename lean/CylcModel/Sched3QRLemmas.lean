/-
Lemmas for `Sched3QR` (= `Sched3QT` with retry delays that are not over at once): the clock-aware sweep keeps the
invariants of C05S and the control flags, so the generic main-loop lemmas of `Sched3QTLemmasC03b` apply to
`mainLoopR`; run invariants over `runR`; with no pending timer the main loop is the one of `Sched3QT`.
-/
import CylcModel.Sched3QR
import CylcModel.Sched3QTLemmasC03b
namespace CylcModel.Sched3QR
open CylcModel.Sched3QT

theorem mainLoopR_eq (g : Graph) (hold : List Key) (s : State) :
    mainLoopR g hold s = mainLoopW g (sweepQueueR hold) s := by
  unfold mainLoopR mainLoopW preLoop shutdownBlock relStep
  rfl

/-- with no retry timer pending in the future the sweep is the zero-delay sweep of `Sched3QT` -/
theorem sweepQueueR_nil (s : State) : sweepQueueR [] s = sweepQueue s := by
  unfold sweepQueueR sweepQueue
  congr 1

/-- ... and the main loop is the main loop of `Sched3QT` -/
theorem mainLoopR_nil (g : Graph) (s : State) : mainLoopR g [] s = mainLoop g s := by
  rw [mainLoopR_eq, mainLoop_eqW]
  unfold mainLoopW
  rw [sweepQueueR_nil]

theorem swKeep_sweepQueueR (hold : List Key) : SwKeep (sweepQueueR hold) := by
  intro c s h
  unfold sweepQueueR
  apply foldl_inv (Keep c)
  · intro st x hst
    split
    · split
      · exact keep_queueIfReady _ _ (keep_put _ _ hst)
      · exact hst
    · exact hst
  · exact h

theorem swCT_sweepQueueR (hold : List Key) : SwCT (sweepQueueR hold) := by
  intro c s h
  unfold sweepQueueR
  apply foldl_inv (CT c)
  · intro st x hst
    split
    · split
      · exact ct_queueIfReady _ _ (ct_put _ _ hst)
      · exact hst
    · exact hst
  · exact h

/-! ### run invariants -/

theorem runR_inv (P : StateR → Prop) (gr : GraphR) (h0 : P (initR gr)) (hs : ∀ sr op, P sr → P (stepR gr sr op)) :
    ∀ ops, ∀ sr ∈ runR gr ops, P sr := by
  intro ops
  unfold runR
  have key : ∀ (ops : List OpR) (acc : List StateR) (cur : StateR),
      (∀ s ∈ acc, P s) → P cur →
      ∀ s ∈ (ops.foldl (fun (acc : List StateR × StateR) op =>
        let s' := stepR gr acc.2 op
        (acc.1 ++ [s'], s')) (acc, cur)).1, P s := by
    intro ops
    induction ops with
    | nil => intro acc cur hacc _ s hm; exact hacc s hm
    | cons op ops ih =>
      intro acc cur hacc hcur
      simp only [List.foldl_cons]
      apply ih
      · intro s hm
        rcases List.mem_append.mp hm with h | h
        · exact hacc s h
        · simp at h; subst h; exact hs _ _ hcur
      · exact hs _ _ hcur
  exact key ops [initR gr] (initR gr) (by intro s hm; simp at hm; subst hm; exact h0) h0

/-- the pool / queue invariants of C05S are kept by every operation of `Sched3QR` -/
theorem keepQ_stepR (gr : GraphR) (sr : StateR) (op : OpR) (h : KeepQ gr.g sr.s) : KeepQ gr.g (stepR gr sr op).s := by
  cases op with
  | tick => exact keepQ_of_keep (keep_clearOp sr.s (keep_of_keepQ h))
  | base op =>
    cases op with
    | loop =>
      show KeepQ gr.g (mainLoopR gr.g sr.hold (clearOp sr.s))
      rw [mainLoopR_eq]
      exact keepQ_mainLoopW (swKeep_sweepQueueR sr.hold) _ (keepQ_of_keep (keep_clearOp sr.s (keep_of_keepQ h)))
    | _ => exact keepQ_step sr.s _ h

theorem keepQ_runR (gr : GraphR) (ops : List OpR) : ∀ sr ∈ runR gr ops, KeepQ gr.g sr.s :=
  runR_inv (fun sr => KeepQ gr.g sr.s) gr (keepQ_init gr.g) (fun sr op h => keepQ_stepR gr sr op h) ops

def finalR (gr : GraphR) (ops : List OpR) : StateR := ops.foldl (stepR gr) (initR gr)

theorem finalR_mem_runR (gr : GraphR) (ops : List OpR) : finalR gr ops ∈ runR gr ops := by
  unfold runR finalR
  have key : ∀ (ops : List OpR) (acc : List StateR) (cur : StateR), cur ∈ acc →
      ops.foldl (stepR gr) cur ∈ (ops.foldl (fun (acc : List StateR × StateR) op =>
        let s' := stepR gr acc.2 op
        (acc.1 ++ [s'], s')) (acc, cur)).1 := by
    intro ops
    induction ops with
    | nil => intro acc cur h; exact h
    | cons op ops ih =>
      intro acc cur _
      simp only [List.foldl_cons]
      exact ih _ _ (by simp)
  exact key ops [initR gr] (initR gr) (by simp)

/-! ### operations other than the main loop -/

theorem stepR_other (gr : GraphR) (sr : StateR) (op : OpR) (hne : op ≠ .base .loop) :
    ((stepR gr sr op).s.stalled = true → sr.s.stalled = true) ∧
    ((stepR gr sr op).s.stop.isSome = true → sr.s.stop.isSome = true) := by
  cases op with
  | tick => exact ⟨fun h => h, fun h => h⟩
  | base op =>
    have hne' : op ≠ .loop := fun h => hne (by rw [h])
    have := step_other gr.g sr.s op hne'
    cases op with
    | loop => exact absurd rfl hne'
    | _ => exact this

/-- the clock: a tick leaves no retry timer pending, and changes nothing else but the per-op logs -/
theorem stepR_tick (gr : GraphR) (sr : StateR) :
    (stepR gr sr .tick).hold = [] ∧ (stepR gr sr .tick).s = clearOp sr.s := ⟨rfl, rfl⟩

/-- the pending timers after an operation belong to pooled proxies that wait on their retry xtrigger -/
theorem hold_spec (gr : GraphR) (sr : StateR) (op : OpR) :
    ∀ k ∈ (stepR gr sr op).hold, ∃ y ∈ (stepR gr sr op).s.pool, (y.pt, y.name) = k ∧ y.retryWait = true := by
  intro k hk
  cases op with
  | tick => simp [stepR] at hk
  | base op =>
    simp only [stepR, holdAfter] at hk
    obtain ⟨y, hy, rfl⟩ := List.mem_map.mp hk
    have := List.mem_filter.mp hy
    simp only [Bool.and_eq_true] at this
    exact ⟨y, this.1, rfl, this.2.1⟩

/-! ### the manual-submit flag -/

/-- `prep_submit_task_jobs` + hand-over: the prepared proxy is `preparing` and its manual-submit flag is cleared -/
theorem prepSubmit_manual {st : State} {k : Key} {y : Proxy} (h : y ∈ (prepSubmit st k).pool)
    (hk : (y.pt, y.name) = k) (hs : (st.get? k.1 k.2).isSome = true) :
    y.manual = false ∧ y.status = .preparing := by
  unfold prepSubmit at h
  split at h
  · rename_i hx; rw [hx] at hs; cases hs
  · rename_i x hx
    obtain ⟨hxm, hp, hn⟩ := get?_some_mem hx
    simp only at h
    rcases mem_put h with ⟨rfl, _⟩ | ⟨hy, hne⟩
    · refine ⟨rfl, ?_⟩
      split
      · rename_i hst; simpa using hst
      · simp [reset_status_some]
    · exfalso
      apply hne
      have e1 := congrArg Prod.fst hk
      have e2 := congrArg Prod.snd hk
      simp only at e1 e2
      split <;> simp [hp, hn, e1, e2]

/-- `queue_if_ready` leaves a proxy with the manual-submit flag alone ... -/
theorem queueIfReady_manual (s : State) (x : Proxy) (h : x.manual = true) : queueIfReady s x = s := by
  unfold queueIfReady; simp [h]

/-- ... and queues a ready proxy without it -/
theorem queueIfReady_ready (s : State) (x : Proxy) (hm : x.manual = false) (hq : x.queued = false)
    (hr : x.runahead = false) (hrd : x.isReadyToRun = true) :
    queueIfReady s x = (s.put (x.reset (queued := some true))).push x := by
  unfold queueIfReady; simp [hm, hq, hr, hrd]

/-- the state the release step of a main loop works on: after `compute_runahead`, `release_runahead_tasks`, the
shutdown decision and the clock-aware sweep that queues ready tasks -/
def beforeReleaseR (g : Graph) (hold : List Key) (s : State) : State := sweepQueueR hold (preLoop g s)

end CylcModel.Sched3QR
