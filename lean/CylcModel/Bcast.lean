/-
Component `Bcast` (property C22): the broadcast store and its persistence.

Executable model (core Lean only) of
  * `BroadcastMgr.put_broadcast / clear_broadcast / expire_broadcast / get_broadcast /
    get_updated_rtconfig / load_db_broadcast_states` (cylc/flow/broadcast_mgr.py),
  * `get_broadcast_change_iter` (cylc/flow/broadcast_report.py),
  * `WorkflowDatabaseManager.put_broadcast` (cylc/flow/workflow_db_mgr.py) and the effect of
    `process_queued_ops` on the `broadcast_states` table (deletes, then inserts, primary key
    (point, namespace, key)).

Representation.  The nested dictionaries `broadcasts[point][namespace][section]...[key] = value`
are kept flat: an insertion-ordered association list from (point, namespace, key path) to the
value, i.e. one entry per leaf.  On the domain the code is used on (a key is either always a
section or always an item — guaranteed by the runtime configuration spec the settings are
validated against —, no empty sections) `addict` is "set every leaf", clearing + `_prune` is
"remove the leaves" and the two views are in bijection; the harness flattens the real
dictionaries the same way before comparing.  Empty branches left behind by the code (e.g.
`broadcasts['1'] = {}` after a rejected put) are therefore invisible here, and so are the
`bad_options` reports of clear/expire, which depend on them.

Values are opaque strings (coercion by `BroadcastConfigValidator` is environment); cycle points
are integer cycling points: `*` or a decimal number, standardised by dropping leading zeros.

Generated from the live source on every run (`CylcModel/Generated/BcastCfg.lean`):
`ALL_CYCLE_POINTS_STRS` and the probed behaviour `changeIterAllKeys` of
`get_broadcast_change_iter` (does a multi-key setting dictionary yield one change per item, or only
its first item?).
-/
import CylcModel.Generated.BcastCfg

namespace CylcModel.Bcast

abbrev Path := List String

structure Key where
  point : String
  ns : String
  path : Path
  deriving DecidableEq, Repr

/-- insertion-ordered dictionary -/
abbrev AList (κ : Type) := List (κ × String)

def lookup {κ} [DecidableEq κ] (s : AList κ) (k : κ) : Option String :=
  match s with
  | [] => none
  | (k', v) :: r => if k' = k then some v else lookup r k

/-- `d[k] = v` -/
def upsert {κ} [DecidableEq κ] (s : AList κ) (k : κ) (v : String) : AList κ :=
  match s with
  | [] => [(k, v)]
  | (k', v') :: r => if k' = k then (k, v) :: r else (k', v') :: upsert r k v

def upsertAll {κ} [DecidableEq κ] (s : AList κ) (kvs : List (κ × String)) : AList κ :=
  kvs.foldl (fun acc kv => upsert acc kv.1 kv.2) s

abbrev Store := AList Key

/-- one element of `settings`: the leaves of the (possibly multi-key, nested) dictionary in
document order -/
abbrev Setting := List (Path × String)

/-- `ALL_CYCLE_POINTS_STRS` -/
def allCycleNames : List String := Generated.BcastCfg.allCyclePointsStrs

/-! ## points -/

def isDigits (s : String) : Bool := !s.isEmpty && s.toList.all Char.isDigit

def stripZeros : List Char → List Char
  | '0' :: (c :: r) => stripZeros (c :: r)
  | l => l

/-- `standardise_point_string` for integer cycling: `none` = PointParsingError -/
def standardise (s : String) : Option String :=
  if isDigits s then some (String.ofList (stripZeros s.toList)) else none

def pointVal (s : String) : Nat := s.toList.foldl (fun n c => n * 10 + (c.toNat - '0'.toNat)) 0

/-! ## put -/

structure PutResult where
  store : Store
  /-- `modified_settings` (before `uniq`): (point, namespace, setting) -/
  modified : List (String × String × Setting)
  badPoints : List String
  badNamespaces : List String

/-- the point loop body: standardise, `'*'` passes as it is, anything else unparsable is bad -/
def putPoint (p : String) : Option String :=
  match standardise p with
  | some q => some q
  | none => if p = "*" then some "*" else none

/-- `put_broadcast` (settings already validated; platform/run-mode checks are environment) -/
def put (known : List String) (st : Store) (points nss : List String) (settings : List Setting) : PutResult :=
  settings.foldl (fun acc setting =>
    points.foldl (fun acc p =>
      match putPoint p with
      | none =>
        -- bad point: namespaces are still checked
        nss.foldl (fun acc ns =>
          if known.contains ns then acc else { acc with badNamespaces := acc.badNamespaces ++ [ns] })
          { acc with badPoints := acc.badPoints ++ [p] }
      | some q =>
        nss.foldl (fun acc ns =>
          if !known.contains ns then { acc with badNamespaces := acc.badNamespaces ++ [ns] }
          else
            { acc with
              modified := acc.modified ++ [(q, ns, setting)],
              store := upsertAll acc.store (setting.map fun (path, v) => (⟨q, ns, path⟩, v)) }) acc) acc)
    ⟨st, [], [], []⟩

/-! ## clear / expire -/

structure Filter where
  /-- `point_strings` (empty / None: all) -/
  points : List String
  namespaces : List String
  /-- key paths of `cancel_settings` (empty: all) -/
  cancel : List Path
  deriving Repr

def Filter.hits (f : Filter) (k : Key) : Bool :=
  (f.points.isEmpty || f.points.contains k.point) &&
  (f.namespaces.isEmpty || f.namespaces.contains k.ns) &&
  (f.cancel.isEmpty || f.cancel.contains k.path)

/-- `clear_broadcast`: (store left, removed entries = `modified_settings`) -/
def clear (st : Store) (f : Filter) : Store × List (Key × String) :=
  (st.filter fun e => !f.hits e.1, st.filter fun e => f.hits e.1)

/-- the points `expire_broadcast` hands to `clear_broadcast` (`cutoff = none`: every point) -/
def expirePoints (st : Store) (cutoff : Option Nat) : List String :=
  (st.map (·.1.point)).filter fun p =>
    match cutoff with
    | none => true
    | some c => !allCycleNames.contains p && pointVal p < c

/-- `expire_broadcast` -/
def expire (st : Store) (cutoff : Option Nat) : Store × List (Key × String) :=
  let pts := expirePoints st cutoff
  if pts.isEmpty then (st, []) else clear st ⟨pts, [], []⟩

/-! ## get -/

/-- the (cycle, namespace) sources of a task in increasing precedence:
all-cycle names then the task's own cycle, each from root through the ancestors to the task
(`ancestors` = `linearized_ancestors[task]`: the task first, root last) -/
def sources (ancestors : List String) (point : String) : List (String × String) :=
  (allCycleNames ++ [point]).flatMap fun c => ancestors.reverse.map fun ns => (c, ns)

/-- entries of one (cycle, namespace) dictionary -/
def entriesOf (st : Store) (c ns : String) : List (Path × String) :=
  st.filterMap fun (k, v) => if k.point = c ∧ k.ns = ns then some (k.path, v) else none

/-- `get_broadcast(tokens)`: `addict` of every source in order -/
def getBroadcast (st : Store) (ancestors : List String) (point : String) : AList Path :=
  (sources ancestors point).foldl (fun acc (c, ns) => upsertAll acc (entriesOf st c ns)) []

/-- `get_updated_rtconfig`: `poverride(rtconfig, overrides)` -/
def rtconfig (static : AList Path) (st : Store) (ancestors : List String) (point : String) : AList Path :=
  upsertAll static (getBroadcast st ancestors point)

/-! ## persistence -/

/-- the `key` column: `[sect][sect]item` -/
def renderKey : Path → String
  | [] => ""
  | [k] => k
  | s :: r => "[" ++ s ++ "]" ++ renderKey r

/-- `REC_SECTION.findall` (`\\[([^\\]]+)\\]`) as a scanner. `inside = some body`: after a `[`, `body` is
the run of non-`]` characters read so far (reversed). A `[` whose run reaches the end of the
text matches nothing, and then nothing after it can match either; `[]` matches nothing. -/
def findSections : List Char → Option (List Char) → List String
  | [], _ => []
  | c :: r, none => if c = '[' then findSections r (some []) else findSections r none
  | c :: r, some body =>
    if c = ']' then
      if body.isEmpty then findSections r none
      else String.ofList body.reverse :: findSections r none
    else findSections r (some (c :: body))

/-- text after the last `]` (`rsplit(']', 1)[-1]`) -/
def afterLastBracket (cs : List Char) : List Char :=
  (cs.reverse.takeWhile (· != ']')).reverse

/-- `load_db_broadcast_states`: key column → key path -/
def parseKey (key : String) : Path :=
  let cs := key.toList
  if cs.contains ']' then findSections cs none ++ [String.ofList (afterLastBracket cs)]
  else [key]

structure DbKey where
  point : String
  ns : String
  key : String
  deriving DecidableEq, Repr

/-- `broadcast_states` + the manager's pending deletes / inserts for it -/
structure Db where
  rows : AList DbKey := []
  dels : List DbKey := []
  inss : List (DbKey × String) := []
  deriving Repr

/-- `get_broadcast_change_iter`: the changes recorded for one modified setting -/
def changes (allKeys : Bool) (m : String × String × Setting) : List (DbKey × String) :=
  let leaves := if allKeys then m.2.2 else m.2.2.take 1
  leaves.map fun (path, v) => (⟨m.1, m.2.1, renderKey path⟩, v)

/-- `WorkflowDatabaseManager.put_broadcast(modified_settings)` -/
def Db.recordPut (allKeys : Bool) (db : Db) (modified : List (String × String × Setting)) : Db :=
  { db with inss := db.inss ++ modified.flatMap (changes allKeys) }

/-- `WorkflowDatabaseManager.put_broadcast(modified_settings, is_cancel=True)`:
a delete per change, and pending inserts of the same key are dropped -/
def Db.recordClear (db : Db) (removed : List (Key × String)) : Db :=
  removed.foldl (fun db (k, _) =>
    let dk : DbKey := ⟨k.point, k.ns, renderKey k.path⟩
    { db with dels := db.dels ++ [dk], inss := db.inss.filter fun e => e.1 != dk }) db

/-- insert-or-replace: the old row goes, the new one is appended -/
def replaceRow (rows : AList DbKey) (k : DbKey) (v : String) : AList DbKey :=
  rows.filter (fun e => e.1 != k) ++ [(k, v)]

/-- `process_queued_ops`: deletes, then inserts -/
def Db.flush (db : Db) : Db :=
  let rows := db.rows.filter fun e => !db.dels.contains e.1
  { rows := db.inss.foldl (fun acc (k, v) => replaceRow acc k v) rows, dels := [], inss := [] }

/-- a new `BroadcastMgr` loading every row of `broadcast_states` -/
def load (rows : AList DbKey) : Store :=
  rows.foldl (fun st (k, v) => upsert st ⟨k.point, k.ns, parseKey k.key⟩ v) []

/-! ## histories -/

inductive Op where
  | put (points nss : List String) (settings : List Setting)
  | clear (f : Filter)
  | expire (cutoff : Option Nat)
  | flush
  /-- clean stop (final flush) and restart: the store is rebuilt from the database -/
  | restart
  deriving Repr

structure State where
  store : Store := []
  db : Db := {}

def step (allKeys : Bool) (known : List String) (s : State) : Op → State
  | .put ps nss sets =>
    let r := put known s.store ps nss sets
    { store := r.store, db := s.db.recordPut allKeys r.modified }
  | .clear f =>
    let (st, removed) := clear s.store f
    { store := st, db := s.db.recordClear removed }
  | .expire c =>
    let (st, removed) := expire s.store c
    { store := st, db := s.db.recordClear removed }
  | .flush => { s with db := s.db.flush }
  | .restart =>
    let db := s.db.flush
    { store := load db.rows, db := db }

def run (allKeys : Bool) (known : List String) (ops : List Op) : State :=
  ops.foldl (step allKeys known) {}

end CylcModel.Bcast
