/-
C42: the property monitor `SubProc.Spec` accepts every run of the `SubProc` model
(coupling invariant between the pool's queue / runnings and the monitor's bookkeeping).
-/
import CylcModel.SubProcLemmas
import Mathlib.Data.List.Nodup
namespace CylcModel.SubProc

open Spec in
/-- coupling of the pool (queue, runnings) with the monitor -/
structure RI (fl : Flags) (size : Nat) (q : List Cmd) (rs : List Run) (m : Spec.Mon) : Prop where
  nd_q : (q.map (·.id)).Nodup
  nd_r : (rs.map (·.cmd.id)).Nodup
  disj : ∀ c ∈ q, ∀ r ∈ rs, c.id ≠ r.cmd.id
  q_fresh : ∀ c ∈ q, c.id ∈ m.put ∧ c.id ∉ m.started ∧ c.id ∉ m.called
  r_alive : ∀ r ∈ rs, r.cmd.id ∈ m.put ∧ r.cmd.id ∈ m.started ∧ r.cmd.id ∉ m.called
  st_acc : ∀ id ∈ m.started, id ∈ rs.map (·.cmd.id) ∨ id ∈ m.called
  st_nd : m.started.Nodup
  called_put : ∀ id ∈ m.called, id ∈ m.put
  sub_put : ∀ id ∈ m.submit, id ∈ m.put
  sub_ok : ∀ c ∈ q, c.id ∈ m.submit → c.submit = true
  size_ok : rs.length ≤ size
  all_acc : fl = Flags.sound → ∀ id ∈ m.put, id ∈ q.map (·.id) ∨ id ∈ rs.map (·.cmd.id) ∨ id ∈ m.called

/-- the parts of the monitor that events never touch -/
def SameOps (m m' : Spec.Mon) : Prop :=
  m'.put = m.put ∧ m'.submit = m.submit ∧ m'.stopping = m.stopping ∧ m'.pendAtStop = m.pendAtStop ∧
  m'.pendAtTerm = m.pendAtTerm ∧ m'.terminated = m.terminated

theorem SameOps.refl (m : Spec.Mon) : SameOps m m := ⟨rfl, rfl, rfl, rfl, rfl, rfl⟩
theorem SameOps.trans {a b c : Spec.Mon} (h1 : SameOps a b) (h2 : SameOps b c) : SameOps a c :=
  ⟨h2.1.trans h1.1, h2.2.1.trans h1.2.1, h2.2.2.1.trans h1.2.2.1, h2.2.2.2.1.trans h1.2.2.2.1,
   h2.2.2.2.2.1.trans h1.2.2.2.2.1, h2.2.2.2.2.2.trans h1.2.2.2.2.2⟩

theorem onEvent_cb (size k : Nat) (m : Spec.Mon) (id : Nat) (o : Outcome) (h1 : id ∈ m.put) (h2 : id ∉ m.called) :
    Spec.onEvent size k m (.cb id o) = .ok { m with called := id :: m.called } := by
  simp [Spec.onEvent, h1, h2]

theorem onEvents_cons_ok (size k : Nat) (m m1 : Spec.Mon) (e : Ev) (es : List Ev)
    (h : Spec.onEvent size k m e = .ok m1) : Spec.onEvents size k m (e :: es) = Spec.onEvents size k m1 es := by
  simp only [Spec.onEvents, h, bind, Except.bind]

theorem onEvents_append_ok (size k : Nat) (es1 es2 : List Ev) : ∀ (m m1 : Spec.Mon),
    Spec.onEvents size k m es1 = .ok m1 → Spec.onEvents size k m (es1 ++ es2) = Spec.onEvents size k m1 es2 := by
  induction es1 with
  | nil => intro m m1 h; simp only [Spec.onEvents] at h; cases h; rfl
  | cons e es ih =>
    intro m m1 h
    cases he : Spec.onEvent size k m e with
    | error f => simp only [Spec.onEvents, he, bind, Except.bind] at h; cases h
    | ok m0 =>
      rw [onEvents_cons_ok size k m m0 e es he] at h
      rw [List.cons_append, onEvents_cons_ok size k m m0 e _ he]
      exact ih m0 m1 h

/-- a command leaves the pool by being called back: from the queue -/
theorem RI.call_queued {fl : Flags} {size : Nat} {c : Cmd} {q : List Cmd} {rs : List Run} {m : Spec.Mon}
    (h : RI fl size (c :: q) rs m) : RI fl size q rs { m with called := c.id :: m.called } := by
  have hnd := h.nd_q
  simp only [List.map_cons, List.nodup_cons] at hnd
  refine ⟨hnd.2, h.nd_r, fun c' hc' => h.disj c' (List.mem_cons_of_mem _ hc'), ?_, ?_, ?_, h.st_nd, ?_, h.sub_put,
    fun c' hc' => h.sub_ok c' (List.mem_cons_of_mem _ hc'), h.size_ok, ?_⟩
  · intro c' hc'
    obtain ⟨a, b, d⟩ := h.q_fresh c' (List.mem_cons_of_mem _ hc')
    refine ⟨a, b, ?_⟩
    simp only [List.mem_cons, not_or]
    refine ⟨?_, d⟩
    intro he
    exact hnd.1 (by rw [← he]; exact List.mem_map.2 ⟨c', hc', rfl⟩)
  · intro r hr
    obtain ⟨a, b, d⟩ := h.r_alive r hr
    refine ⟨a, b, ?_⟩
    simp only [List.mem_cons, not_or]
    exact ⟨fun he => h.disj c (by simp) r hr he.symm, d⟩
  · intro id hid
    rcases h.st_acc id hid with h' | h'
    · exact Or.inl h'
    · exact Or.inr (List.mem_cons_of_mem _ h')
  · intro id hid
    rcases List.mem_cons.1 hid with rfl | hid
    · exact (h.q_fresh c (by simp)).1
    · exact h.called_put id hid
  · intro hs id hid
    rcases h.all_acc hs id hid with h' | h' | h'
    · simp only [List.map_cons, List.mem_cons] at h'
      rcases h' with rfl | h'
      · exact Or.inr (Or.inr (by simp))
      · exact Or.inl h'
    · exact Or.inr (Or.inl h')
    · exact Or.inr (Or.inr (List.mem_cons_of_mem _ h'))

/-- a queued command is dropped without callback (possible only with a dropping flag) -/
theorem RI.drop_queued {fl : Flags} {size : Nat} {c : Cmd} {q : List Cmd} {rs : List Run} {m : Spec.Mon}
    (h : RI fl size (c :: q) rs m) (hfl : fl ≠ Flags.sound) : RI fl size q rs m := by
  have hnd := h.nd_q
  simp only [List.map_cons, List.nodup_cons] at hnd
  exact ⟨hnd.2, h.nd_r, fun c' hc' => h.disj c' (List.mem_cons_of_mem _ hc'),
    fun c' hc' => h.q_fresh c' (List.mem_cons_of_mem _ hc'), h.r_alive, h.st_acc, h.st_nd, h.called_put, h.sub_put,
    fun c' hc' => h.sub_ok c' (List.mem_cons_of_mem _ hc'), h.size_ok, fun hs => absurd hs hfl⟩

/-- a running command leaves the pool by being called back -/
theorem RI.call_running {fl : Flags} {size : Nat} {q : List Cmd} {kept rs : List Run} {r : Run} {m : Spec.Mon}
    (h : RI fl size q (kept ++ r :: rs) m) :
    RI fl size q (kept ++ rs) { m with called := r.cmd.id :: m.called } := by
  have hnd := h.nd_r
  simp only [List.map_append, List.map_cons] at hnd
  obtain ⟨ndA, ndB, dAB⟩ := List.nodup_append.1 hnd
  obtain ⟨hrB, ndB'⟩ := List.nodup_cons.1 ndB
  have hrA : r.cmd.id ∉ kept.map (·.cmd.id) := fun hh => dAB _ hh _ (by simp) rfl
  have hne : ∀ r' ∈ kept ++ rs, r'.cmd.id ≠ r.cmd.id := by
    intro r' hr' he
    rcases List.mem_append.1 hr' with hr' | hr'
    · exact hrA (by rw [← he]; exact List.mem_map.2 ⟨r', hr', rfl⟩)
    · exact hrB (by rw [← he]; exact List.mem_map.2 ⟨r', hr', rfl⟩)
  have hsub : ∀ r' ∈ kept ++ rs, r' ∈ kept ++ r :: rs := by
    intro r' hr'
    rcases List.mem_append.1 hr' with hr' | hr'
    · exact List.mem_append_left _ hr'
    · exact List.mem_append_right _ (List.mem_cons_of_mem _ hr')
  have hmemr : r ∈ kept ++ r :: rs := List.mem_append_right _ (by simp)
  have hids : ∀ id, id ∈ (kept ++ r :: rs).map (·.cmd.id) → id = r.cmd.id ∨ id ∈ (kept ++ rs).map (·.cmd.id) := by
    intro id hid
    simp only [List.map_append, List.map_cons, List.mem_append, List.mem_cons] at hid ⊢
    rcases hid with hid | hid | hid
    · exact Or.inr (Or.inl hid)
    · exact Or.inl hid
    · exact Or.inr (Or.inr hid)
  refine ⟨h.nd_q, ?_, fun c hc r' hr' => h.disj c hc r' (hsub r' hr'), ?_, ?_, ?_, h.st_nd, ?_, h.sub_put, h.sub_ok,
    ?_, ?_⟩
  · simp only [List.map_append]
    exact List.nodup_append.2 ⟨ndA, ndB', fun a ha b hb => dAB a ha b (List.mem_cons_of_mem _ hb)⟩
  · intro c hc
    obtain ⟨a, b, d⟩ := h.q_fresh c hc
    refine ⟨a, b, ?_⟩
    simp only [List.mem_cons, not_or]
    exact ⟨h.disj c hc r hmemr, d⟩
  · intro r' hr'
    obtain ⟨a, b, d⟩ := h.r_alive r' (hsub r' hr')
    refine ⟨a, b, ?_⟩
    simp only [List.mem_cons, not_or]
    exact ⟨hne r' hr', d⟩
  · intro id hid
    rcases h.st_acc id hid with h' | h'
    · rcases hids id h' with h'' | h''
      · exact Or.inr (by rw [h'']; simp)
      · exact Or.inl h''
    · exact Or.inr (List.mem_cons_of_mem _ h')
  · intro id hid
    rcases List.mem_cons.1 hid with rfl | hid
    · exact (h.r_alive r hmemr).1
    · exact h.called_put id hid
  · have := h.size_ok
    simp only [List.length_append, List.length_cons] at this ⊢
    omega
  · intro hs id hid
    rcases h.all_acc hs id hid with h' | h' | h'
    · exact Or.inl h'
    · rcases hids id h' with h'' | h''
      · exact Or.inr (Or.inr (by rw [h'']; simp))
      · exact Or.inr (Or.inl h'')
    · exact Or.inr (Or.inr (List.mem_cons_of_mem _ h'))

theorem reap_mon (fl : Flags) (size k : Nat) (now : Int) (ex : List Nat) (ka : Bool) (rel : List Nat) (q : List Cmd) :
    ∀ (rs kept : List Run) (m : Spec.Mon), RI fl size q (kept ++ rs) m →
    ∃ m', Spec.onEvents size k m (reap now ex ka rel rs).2 = .ok m' ∧
      RI fl size q (kept ++ (reap now ex ka rel rs).1) m' ∧ SameOps m m' := by
  intro rs
  induction rs with
  | nil => intro kept m h; exact ⟨m, rfl, h, SameOps.refl m⟩
  | cons r rs ih =>
    intro kept m h
    have hr := h.r_alive r (List.mem_append_right _ (by simp))
    simp only [reap]
    split
    · obtain ⟨m', h1, h2, h3⟩ := ih kept _ h.call_running
      refine ⟨m', ?_, h2, ?_⟩
      · rw [onEvents_cons_ok size k m _ _ _ (onEvent_cb size k m _ _ hr.1 hr.2.2)]; exact h1
      · exact SameOps.trans ⟨rfl, rfl, rfl, rfl, rfl, rfl⟩ h3
    · split
      · obtain ⟨m', h1, h2, h3⟩ := ih kept _ h.call_running
        refine ⟨m', ?_, h2, ?_⟩
        · rw [onEvents_cons_ok size k m _ _ _ (onEvent_cb size k m _ _ hr.1 hr.2.2)]; exact h1
        · exact SameOps.trans ⟨rfl, rfl, rfl, rfl, rfl, rfl⟩ h3
      · have h' : RI fl size q ((kept ++ [r]) ++ rs) m := by simpa using h
        obtain ⟨m', h1, h2, h3⟩ := ih (kept ++ [r]) m h'
        exact ⟨m', h1, by simpa using h2, h3⟩

/-- a queued command is started -/
theorem RI.start_queued {fl : Flags} {size : Nat} {c : Cmd} {q : List Cmd} {rs : List Run} {m : Spec.Mon} (dl : Int)
    (h : RI fl size (c :: q) rs m) (hlt : rs.length < size) :
    RI fl size q (rs ++ [⟨c, dl⟩]) { m with started := c.id :: m.started } := by
  have hnd := h.nd_q
  simp only [List.map_cons, List.nodup_cons] at hnd
  obtain ⟨cput, cnst, cncl⟩ := h.q_fresh c (by simp)
  refine ⟨hnd.2, ?_, ?_, ?_, ?_, ?_, ?_, h.called_put, h.sub_put,
    fun c' hc' => h.sub_ok c' (List.mem_cons_of_mem _ hc'), ?_, ?_⟩
  · simp only [List.map_append, List.map_cons, List.map_nil]
    refine List.nodup_append.2 ⟨h.nd_r, by simp, ?_⟩
    intro a ha b hb
    simp only [List.mem_singleton] at hb
    subst hb
    obtain ⟨r, hr, rfl⟩ := List.mem_map.1 ha
    exact fun he => h.disj c (by simp) r hr he.symm
  · intro c' hc' r hr
    rcases List.mem_append.1 hr with hr | hr
    · exact h.disj c' (List.mem_cons_of_mem _ hc') r hr
    · simp only [List.mem_singleton] at hr
      subst hr
      intro he
      exact hnd.1 (by rw [← he]; exact List.mem_map.2 ⟨c', hc', rfl⟩)
  · intro c' hc'
    obtain ⟨a, b, d⟩ := h.q_fresh c' (List.mem_cons_of_mem _ hc')
    refine ⟨a, ?_, d⟩
    simp only [List.mem_cons, not_or]
    refine ⟨?_, b⟩
    intro he
    exact hnd.1 (by rw [← he]; exact List.mem_map.2 ⟨c', hc', rfl⟩)
  · intro r hr
    rcases List.mem_append.1 hr with hr | hr
    · obtain ⟨a, b, d⟩ := h.r_alive r hr
      exact ⟨a, List.mem_cons_of_mem _ b, d⟩
    · simp only [List.mem_singleton] at hr
      subst hr
      exact ⟨cput, by simp, cncl⟩
  · intro id hid
    rcases List.mem_cons.1 hid with rfl | hid
    · left; simp
    · rcases h.st_acc id hid with h' | h'
      · left
        simp only [List.map_append, List.mem_append]
        exact Or.inl h'
      · exact Or.inr h'
  · exact List.nodup_cons.2 ⟨cnst, h.st_nd⟩
  · simp only [List.length_append, List.length_cons, List.length_nil]
    omega
  · intro hs id hid
    rcases h.all_acc hs id hid with h' | h' | h'
    · simp only [List.map_cons, List.mem_cons] at h'
      rcases h' with rfl | h'
      · right; left; simp
      · exact Or.inl h'
    · right; left
      simp only [List.map_append, List.mem_append]
      exact Or.inl h'
    · exact Or.inr (Or.inr h')

theorem onEvent_start (fl : Flags) (size k : Nat) (c : Cmd) (q : List Cmd) (rs : List Run) (m : Spec.Mon)
    (h : RI fl size (c :: q) rs m) (hlt : rs.length < size) (hstop : m.stopping = true → c.submit = false) :
    Spec.onEvent size k m (.start c) = .ok { m with started := c.id :: m.started } := by
  obtain ⟨cput, cnst, cncl⟩ := h.q_fresh c (by simp)
  have e3 : (m.stopping && m.submit.contains c.id) = false := by
    cases hs : m.stopping with
    | false => rfl
    | true =>
      have hsub := hstop hs
      have : c.id ∉ m.submit := by
        intro hh
        have := h.sub_ok c (by simp) hh
        rw [hsub] at this
        cases this
      simpa using this
  have e4 : ¬ (({ m with started := c.id :: m.started } : Spec.Mon).alive.length > size) := by
    have hnd : ({ m with started := c.id :: m.started } : Spec.Mon).alive.Nodup := by
      simp only [Spec.Mon.alive]
      exact (List.nodup_cons.2 ⟨cnst, h.st_nd⟩).filter _
    have hsub : ({ m with started := c.id :: m.started } : Spec.Mon).alive ⊆ c.id :: rs.map (·.cmd.id) := by
      intro id hid
      simp only [Spec.Mon.alive, List.mem_filter, List.mem_cons, List.contains_eq_mem, Bool.not_eq_eq_eq_not,
        Bool.not_true, decide_eq_false_iff_not] at hid
      rcases hid.1 with rfl | hst
      · simp
      · rcases h.st_acc id hst with h' | h'
        · exact List.mem_cons_of_mem _ h'
        · exact absurd h' hid.2
    have := hnd.length_le_of_subset hsub
    simp only [List.length_cons, List.length_map] at this
    omega
  simp only [Spec.onEvent]
  have e1 : (!m.put.contains c.id) = false := by simpa using cput
  have e2 : m.started.contains c.id = false := by simpa using cnst
  simp only [e1, e2, e3, Bool.false_eq_true, if_false]
  rw [if_neg e4]

theorem launch_mon (fl : Flags) (size k : Nat) (dl : Int) (st : Bool) :
    ∀ (q : List Cmd) (rs : List Run) (m : Spec.Mon), RI fl size q rs m → m.stopping = st →
    ∃ m', Spec.onEvents size k m (launch fl size dl st q rs).2.2 = .ok m' ∧
      RI fl size (launch fl size dl st q rs).1 (launch fl size dl st q rs).2.1 m' ∧ SameOps m m' := by
  intro q
  induction q with
  | nil => intro rs m h _; exact ⟨m, rfl, h, SameOps.refl m⟩
  | cons c q ih =>
    intro rs m h hst
    obtain ⟨cput, cnst, cncl⟩ := h.q_fresh c (by simp)
    simp only [launch]
    split
    · rename_i hlt
      split
      · -- refused: the pool is stopping
        rename_i hcond
        cases hd : fl.dropStop with
        | true =>
          have hfl : fl ≠ Flags.sound := by intro he; rw [he] at hd; cases hd
          obtain ⟨m', h1, h2, h3⟩ := ih rs m (h.drop_queued hfl) hst
          refine ⟨m', ?_, h2, h3⟩
          simpa using h1
        | false =>
          obtain ⟨m', h1, h2, h3⟩ := ih rs { m with called := c.id :: m.called } h.call_queued hst
          refine ⟨m', ?_, h2, SameOps.trans ⟨rfl, rfl, rfl, rfl, rfl, rfl⟩ h3⟩
          simp only [Bool.false_eq_true, if_false]
          rw [onEvents_cons_ok size k m _ _ _ (onEvent_cb size k m _ _ cput cncl)]
          exact h1
      · split
        · -- cannot be started
          obtain ⟨m', h1, h2, h3⟩ := ih rs { m with called := c.id :: m.called } h.call_queued hst
          refine ⟨m', ?_, h2, SameOps.trans ⟨rfl, rfl, rfl, rfl, rfl, rfl⟩ h3⟩
          rw [onEvents_cons_ok size k m _ _ _ (onEvent_cb size k m _ _ cput cncl)]
          exact h1
        · -- started
          rename_i hcond _
          have hstop : m.stopping = true → c.submit = false := by
            intro hs
            rw [hst] at hs
            simpa [hs] using hcond
          obtain ⟨m', h1, h2, h3⟩ := ih (rs ++ [⟨c, dl⟩]) { m with started := c.id :: m.started } (h.start_queued dl hlt) hst
          refine ⟨m', ?_, h2, SameOps.trans ⟨rfl, rfl, rfl, rfl, rfl, rfl⟩ h3⟩
          rw [onEvents_cons_ok size k m _ _ _ (onEvent_start fl size k c q rs m h hlt hstop)]
          exact h1
    · exact ⟨m, rfl, h, SameOps.refl m⟩

theorem drain_mon (fl : Flags) (size k : Nat) (rs : List Run) :
    ∀ (q : List Cmd) (m : Spec.Mon), RI fl size q rs m →
    ∃ m', Spec.onEvents size k m (q.map fun c => Ev.cb c.id .stopping) = .ok m' ∧ RI fl size [] rs m' ∧ SameOps m m' := by
  intro q
  induction q with
  | nil => intro m h; exact ⟨m, rfl, h, SameOps.refl m⟩
  | cons c q ih =>
    intro m h
    obtain ⟨cput, _, cncl⟩ := h.q_fresh c (by simp)
    obtain ⟨m', h1, h2, h3⟩ := ih { m with called := c.id :: m.called } h.call_queued
    refine ⟨m', ?_, h2, SameOps.trans ⟨rfl, rfl, rfl, rfl, rfl, rfl⟩ h3⟩
    rw [List.map_cons, onEvents_cons_ok size k m _ _ _ (onEvent_cb size k m _ _ cput cncl)]
    exact h1

theorem RI.drop_all {fl : Flags} {size : Nat} {rs : List Run} {m : Spec.Mon} (hfl : fl ≠ Flags.sound) :
    ∀ q : List Cmd, RI fl size q rs m → RI fl size [] rs m := by
  intro q
  induction q with
  | nil => exact id
  | cons c q ih => intro h; exact ih (h.drop_queued hfl)

/-- the invariant reads only `put`, `submit`, `called`, `started` of the monitor -/
theorem RI.congr {fl : Flags} {size : Nat} {q : List Cmd} {rs : List Run} {m m' : Spec.Mon} (h : RI fl size q rs m)
    (e1 : m'.put = m.put) (e2 : m'.submit = m.submit) (e3 : m'.called = m.called) (e4 : m'.started = m.started) :
    RI fl size q rs m' := by
  refine ⟨h.nd_q, h.nd_r, h.disj, ?_, ?_, ?_, ?_, ?_, ?_, ?_, h.size_ok, ?_⟩
  · rw [e1, e3, e4]; exact h.q_fresh
  · rw [e1, e3, e4]; exact h.r_alive
  · rw [e3, e4]; exact h.st_acc
  · rw [e4]; exact h.st_nd
  · rw [e1, e3]; exact h.called_put
  · rw [e1, e2]; exact h.sub_put
  · rw [e2]; exact h.sub_ok
  · rw [e1, e3]; exact h.all_acc

/-- coupling of the whole pool state with the monitor -/
structure SI (fl : Flags) (s : State) (m : Spec.Mon) : Prop where
  ri : RI fl s.size s.queue s.running m
  stop_eq : m.stopping = s.stopping

theorem step_size (fl : Flags) (s : State) (op : Op) : (step fl s op).1.size = s.size := by
  cases op with
  | put c => simp only [step]; split <;> rfl
  | process ex => rfl
  | advance dt => rfl
  | release i => rfl
  | setStopping => rfl
  | close => rfl
  | terminate ex => rfl

theorem started_put {fl : Flags} {size : Nat} {q : List Cmd} {rs : List Run} {m : Spec.Mon} (h : RI fl size q rs m)
    (id : Nat) (hid : id ∈ m.started) : id ∈ m.put := by
  rcases h.st_acc id hid with h' | h'
  · obtain ⟨r, hr, rfl⟩ := List.mem_map.1 h'
    exact (h.r_alive r hr).1
  · exact h.called_put id h'

theorem step_mon (fl : Flags) (k : Nat) (s : State) (m : Spec.Mon) (op : Op) (h : SI fl s m)
    (hfresh : ∀ c, op = .put c → c.id ∉ m.put) :
    ∃ m', Spec.onEvents s.size k (Spec.onOp m op) (step fl s op).2 = .ok m' ∧ SI fl (step fl s op).1 m' ∧
      m'.put = (Spec.onOp m op).put := by
  cases op with
  | put c =>
    have hc : c.id ∉ m.put := hfresh c rfl
    have hcq : ∀ c' ∈ s.queue, c'.id ≠ c.id := fun c' hc' he => hc (by rw [← he]; exact (h.ri.q_fresh c' hc').1)
    have hcr : ∀ r ∈ s.running, r.cmd.id ≠ c.id := fun r hr he => hc (by rw [← he]; exact (h.ri.r_alive r hr).1)
    have hccl : c.id ∉ m.called := fun hh => hc (h.ri.called_put _ hh)
    have hcst : c.id ∉ m.started := fun hh => hc (started_put h.ri _ hh)
    have hcsub : c.id ∉ m.submit := fun hh => hc (h.ri.sub_put _ hh)
    simp only [step]
    split
    · -- refused at once
      refine ⟨{ Spec.onOp m (.put c) with called := c.id :: m.called }, ?_, ⟨?_, h.stop_eq⟩, rfl⟩
      · rw [onEvents_cons_ok _ k _ _ _ _ (onEvent_cb _ k _ _ _ (by simp [Spec.onOp]) (by simpa [Spec.onOp] using hccl))]
        rfl
      · refine ⟨h.ri.nd_q, h.ri.nd_r, h.ri.disj, ?_, ?_, ?_, h.ri.st_nd, ?_, ?_, ?_, h.ri.size_ok, ?_⟩
        · intro c' hc'
          obtain ⟨a, b, d⟩ := h.ri.q_fresh c' hc'
          exact ⟨List.mem_cons_of_mem _ a, b, by simp only [List.mem_cons, not_or]; exact ⟨hcq c' hc', d⟩⟩
        · intro r hr
          obtain ⟨a, b, d⟩ := h.ri.r_alive r hr
          exact ⟨List.mem_cons_of_mem _ a, b, by simp only [List.mem_cons, not_or]; exact ⟨hcr r hr, d⟩⟩
        · intro id hid
          rcases h.ri.st_acc id hid with h' | h'
          · exact Or.inl h'
          · exact Or.inr (List.mem_cons_of_mem _ h')
        · intro id hid
          rcases List.mem_cons.1 hid with rfl | hid
          · simp [Spec.onOp]
          · exact List.mem_cons_of_mem _ (h.ri.called_put id hid)
        · intro id hid
          simp only [Spec.onOp] at hid ⊢
          split at hid
          · rcases List.mem_cons.1 hid with rfl | hid
            · simp
            · exact List.mem_cons_of_mem _ (h.ri.sub_put id hid)
          · exact List.mem_cons_of_mem _ (h.ri.sub_put id hid)
        · intro c' hc' hsub
          simp only [Spec.onOp] at hsub
          split at hsub
          · rcases List.mem_cons.1 hsub with he | hsub
            · exact absurd he (hcq c' hc')
            · exact h.ri.sub_ok c' hc' hsub
          · exact h.ri.sub_ok c' hc' hsub
        · intro hs id hid
          simp only [Spec.onOp, List.mem_cons] at hid
          rcases hid with rfl | hid
          · exact Or.inr (Or.inr (by simp))
          · rcases h.ri.all_acc hs id hid with h' | h' | h'
            · exact Or.inl h'
            · exact Or.inr (Or.inl h')
            · exact Or.inr (Or.inr (List.mem_cons_of_mem _ h'))
    · -- queued
      refine ⟨Spec.onOp m (.put c), rfl, ⟨?_, h.stop_eq⟩, rfl⟩
      refine ⟨?_, h.ri.nd_r, ?_, ?_, ?_, h.ri.st_acc, h.ri.st_nd, ?_, ?_, ?_, h.ri.size_ok, ?_⟩
      · simp only [List.map_append, List.map_cons, List.map_nil]
        refine List.nodup_append.2 ⟨h.ri.nd_q, by simp, ?_⟩
        intro a ha b hb
        simp only [List.mem_singleton] at hb
        subst hb
        obtain ⟨c', hc', rfl⟩ := List.mem_map.1 ha
        exact hcq c' hc'
      · intro c' hc' r hr
        rcases List.mem_append.1 hc' with hc' | hc'
        · exact h.ri.disj c' hc' r hr
        · simp only [List.mem_singleton] at hc'
          subst hc'
          exact fun he => hcr r hr he.symm
      · intro c' hc'
        rcases List.mem_append.1 hc' with hc' | hc'
        · obtain ⟨a, b, d⟩ := h.ri.q_fresh c' hc'
          exact ⟨List.mem_cons_of_mem _ a, b, d⟩
        · simp only [List.mem_singleton] at hc'
          subst hc'
          exact ⟨by simp [Spec.onOp], hcst, hccl⟩
      · intro r hr
        obtain ⟨a, b, d⟩ := h.ri.r_alive r hr
        exact ⟨List.mem_cons_of_mem _ a, b, d⟩
      · intro id hid
        exact List.mem_cons_of_mem _ (h.ri.called_put id hid)
      · intro id hid
        simp only [Spec.onOp] at hid ⊢
        split at hid
        · rcases List.mem_cons.1 hid with rfl | hid
          · simp
          · exact List.mem_cons_of_mem _ (h.ri.sub_put id hid)
        · exact List.mem_cons_of_mem _ (h.ri.sub_put id hid)
      · intro c' hc' hsub
        simp only [Spec.onOp] at hsub
        rcases List.mem_append.1 hc' with hc' | hc'
        · split at hsub
          · rcases List.mem_cons.1 hsub with he | hsub
            · exact absurd he (hcq c' hc')
            · exact h.ri.sub_ok c' hc' hsub
          · exact h.ri.sub_ok c' hc' hsub
        · simp only [List.mem_singleton] at hc'
          subst hc'
          split at hsub
          · rename_i hcs; exact hcs
          · exact absurd hsub hcsub
      · intro hs id hid
        simp only [Spec.onOp, List.mem_cons] at hid
        rcases hid with rfl | hid
        · left; simp
        · rcases h.ri.all_acc hs id hid with h' | h' | h'
          · left
            simp only [List.map_append, List.mem_append]
            exact Or.inl h'
          · exact Or.inr (Or.inl h')
          · exact Or.inr (Or.inr h')
  | process ex =>
    simp only [step, doProcess, Spec.onOp]
    obtain ⟨m1, a1, a2, a3⟩ := reap_mon fl s.size k s.now ex false s.released s.queue s.running [] m
      (by simpa using h.ri)
    obtain ⟨m2, b1, b2, b3⟩ := launch_mon fl s.size k (s.now + s.timeout) s.stopping s.queue
      (reap s.now ex false s.released s.running).1 m1 (by simpa using a2) (by rw [a3.2.2.1]; exact h.stop_eq)
    refine ⟨m2, ?_, ⟨b2, ?_⟩, ?_⟩
    · rw [onEvents_append_ok _ k _ _ m m1 a1]; exact b1
    · rw [b3.2.2.1, a3.2.2.1]; exact h.stop_eq
    · rw [b3.1, a3.1]
  | advance dt => exact ⟨m, rfl, ⟨h.ri, h.stop_eq⟩, rfl⟩
  | release i => exact ⟨m, rfl, ⟨h.ri, h.stop_eq⟩, rfl⟩
  | setStopping =>
    exact ⟨Spec.onOp m .setStopping, rfl, ⟨h.ri.congr rfl rfl rfl rfl, rfl⟩, rfl⟩
  | close =>
    exact ⟨Spec.onOp m .close, rfl, ⟨h.ri.congr rfl rfl rfl rfl, rfl⟩, rfl⟩
  | terminate ex =>
    have h0 : RI fl s.size s.queue s.running (Spec.onOp m (.terminate ex)) := h.ri.congr rfl rfl rfl rfl
    simp only [step, doProcess, launch_nil]
    -- the queue is drained (with or without callbacks)
    have hdrain : ∃ m1, Spec.onEvents s.size k (Spec.onOp m (.terminate ex))
        (if fl.dropTerm = true then [] else s.queue.map fun c => Ev.cb c.id .stopping) = .ok m1 ∧
        RI fl s.size [] s.running m1 ∧ SameOps (Spec.onOp m (.terminate ex)) m1 := by
      cases hd : fl.dropTerm with
      | true =>
        have hfl : fl ≠ Flags.sound := by intro he; rw [he] at hd; cases hd
        exact ⟨_, rfl, RI.drop_all hfl _ h0, SameOps.refl _⟩
      | false => simpa using drain_mon fl s.size k s.running s.queue _ h0
    obtain ⟨m1, a1, a2, a3⟩ := hdrain
    obtain ⟨m2, b1, b2, b3⟩ := reap_mon fl s.size k s.now ex true s.released [] s.running [] m1 (by simpa using a2)
    refine ⟨m2, ?_, ⟨by simpa using b2, ?_⟩, ?_⟩
    · rw [onEvents_append_ok _ k _ _ _ m1 a1, List.append_nil]; exact b1
    · rw [b3.2.2.1, a3.2.2.1]; rfl
    · rw [b3.1, a3.1]

/-! ### whole histories -/

theorem monitor_run (fl : Flags) : ∀ (ops : List Op) (k : Nat) (s : State) (m : Spec.Mon), SI fl s m →
    (∀ id, putN id ops ≤ 1) → (∀ id ∈ m.put, putN id ops = 0) →
    ∃ m', Spec.monitor s.size k m ops ((trace fl s ops).map (·.1)) = .ok m' ∧ SI fl (exec fl s ops).1 m' := by
  intro ops
  induction ops with
  | nil => intro k s m h _ _; exact ⟨m, rfl, h⟩
  | cons op ops ih =>
    intro k s m h hd hp
    have hfresh : ∀ c, op = .put c → c.id ∉ m.put := by
      intro c hc hin
      have h0 := hp c.id hin
      rw [putN_cons, hc] at h0
      simp [putDelta, isPut] at h0
    obtain ⟨m1, e1, h1, hput⟩ := step_mon fl k s m op h hfresh
    have hd' : ∀ id, putN id ops ≤ 1 := by
      intro id
      have := hd id
      rw [putN_cons] at this
      omega
    have hp' : ∀ id ∈ m1.put, putN id ops = 0 := by
      intro id hid
      rw [hput] at hid
      have hdi := hd id
      rw [putN_cons] at hdi
      cases op with
      | put c =>
        simp only [Spec.onOp, List.mem_cons] at hid
        rcases hid with rfl | hid
        · simp only [putDelta, isPut, beq_self_eq_true, if_true] at hdi
          omega
        · have := hp id hid
          rw [putN_cons] at this
          omega
      | process ex => have := hp id hid; rw [putN_cons] at this; omega
      | advance dt => have := hp id hid; rw [putN_cons] at this; omega
      | release i => have := hp id hid; rw [putN_cons] at this; omega
      | setStopping => have := hp id (by simpa [Spec.onOp] using hid); rw [putN_cons] at this; omega
      | close => have := hp id (by simpa [Spec.onOp] using hid); rw [putN_cons] at this; omega
      | terminate ex => have := hp id (by simpa [Spec.onOp] using hid); rw [putN_cons] at this; omega
    obtain ⟨m', e2, h2⟩ := ih (k + 1) (step fl s op).1 m1 h1 hd' hp'
    refine ⟨m', ?_, ?_⟩
    · simp only [trace, List.map_cons, Spec.monitor, List.headD_cons, List.tail_cons, e1, bind, Except.bind]
      rw [step_size] at e2
      exact e2
    · simpa only [exec] using h2

theorem si_init (fl : Flags) (size : Nat) (timeout : Int) : SI fl (init size timeout) {} := by
  refine ⟨⟨by simp [init], by simp [init], by simp [init], by simp [init], by simp [init], by simp, by simp, by simp,
    by simp, by simp [init], by simp [init], by simp⟩, rfl⟩

end CylcModel.SubProc
