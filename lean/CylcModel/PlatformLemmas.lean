/-
Helper lemmas for the `Platform` model (C47).
-/
import CylcModel.Platform
namespace CylcModel.Platform

theorem getD_mem_cons {α} (x : α) (xs : List α) (i : Nat) : (x :: xs).getD i x ∈ x :: xs := by
  rw [List.getD_eq_getElem?_getD]
  cases h : (x :: xs)[i]? with
  | none => simp
  | some y => simpa using List.mem_of_getElem? h

/-- whatever the method and the random stream, a selection returns an element of the list -/
theorem pick_mem {α} {method : String} {x : α} {xs : List α} {cs cs' : List Nat} {y : α}
    (h : pick method x xs cs = .ok (y, cs')) : y ∈ x :: xs := by
  unfold pick at h
  split at h
  · cases h
  · cases h; simp
  · cases h; exact getD_mem_cons x xs _

theorem pick_error {α} {method : String} {x : α} {xs : List α} {cs : List Nat} {err : Err}
    (h : pick method x xs cs = .error err) : err = .method ∧ methodKind method = none := by
  unfold pick at h
  split at h
  · cases h; exact ⟨rfl, by assumption⟩
  · cases h
  · cases h

theorem pick_ok_of_supported {α} {method : String} (x : α) (xs : List α) (cs : List Nat)
    (hm : methodKind method ≠ none) : ∃ y cs', pick method x xs cs = .ok (y, cs') := by
  unfold pick
  split
  · contradiction
  · exact ⟨_, _, rfl⟩
  · exact ⟨_, _, rfl⟩

theorem mem_goodHosts {hosts bad : List Host} {h : Host} :
    h ∈ goodHosts hosts bad ↔ h ∈ hosts ∧ h ∉ bad := by
  unfold goodHosts
  by_cases hb : bad.isEmpty = true
  · have : bad = [] := List.isEmpty_iff.1 hb
    subst this
    simp
  · simp [hb]

/-! ### `lookupLast` -/

theorem lookupLast_some_iff (m : Nat → Bool) (n i : Nat) :
    lookupLast m n = some i ↔ i < n ∧ m i = true ∧ ∀ j, i < j → j < n → m j = false := by
  induction n with
  | zero => simp [lookupLast]
  | succ n ih =>
    unfold lookupLast
    by_cases hm : m n = true
    · simp only [hm, if_true, Option.some.injEq]
      constructor
      · intro h; subst h
        exact ⟨Nat.lt_succ_self _, hm, fun j h1 h2 => absurd h2 (by omega)⟩
      · rintro ⟨h1, h2, h3⟩
        by_cases hlt : i < n
        · have := h3 n hlt (Nat.lt_succ_self _); rw [hm] at this; cases this
        · omega
    · have hmf : m n = false := by simpa using hm
      simp only [hmf, Bool.false_eq_true, ↓reduceIte]
      rw [ih]
      constructor
      · rintro ⟨h1, h2, h3⟩
        refine ⟨by omega, h2, fun j h4 h5 => ?_⟩
        by_cases hj : j = n
        · subst hj; exact hmf
        · exact h3 j h4 (by omega)
      · rintro ⟨h1, h2, h3⟩
        have : i ≠ n := by intro h; subst h; rw [hmf] at h2; cases h2
        exact ⟨by omega, h2, fun j h4 h5 => h3 j h4 (by omega)⟩

theorem lookupLast_none_iff (m : Nat → Bool) (n : Nat) :
    lookupLast m n = none ↔ ∀ j, j < n → m j = false := by
  induction n with
  | zero => simp [lookupLast]
  | succ n ih =>
    unfold lookupLast
    by_cases hm : m n = true
    · simp only [hm, if_true]
      constructor
      · intro h; cases h
      · intro h; have := h n (Nat.lt_succ_self _); rw [hm] at this; cases this
    · have hmf : m n = false := by simpa using hm
      simp only [hmf, Bool.false_eq_true, ↓reduceIte]
      rw [ih]
      constructor
      · intro h j hj
        by_cases hjn : j = n
        · subst hjn; exact hmf
        · exact h j (by omega)
      · intro h j hj; exact h j (by omega)

/-! ### group resolution -/

/-- a member that matches no group pattern -/
def FlatName (e : Env) (m : Name) : Prop := lookupLast (e.gm m) e.groups.length = none

theorem resolveNoBad_flat {e : Env} {m : Name} (hf : FlatName e m) (cs : List Nat) :
    resolveNoBad e m cs = (match platformLookup e m with
      | .error x => .error x
      | .ok p => .ok (p, cs)) := by
  unfold resolveNoBad groupNoBad
  rw [hf]
  rfl

/-- for flat members, resolving them consumes no random numbers and pairs every member with the
hosts of the platform its name looks up -/
theorem resolveAll_flat {e : Env} : ∀ (ms : List Name) (cs : List Nat) (r : List (Name × List Host)) (cs' : List Nat),
    (∀ m ∈ ms, FlatName e m) → resolveAll e ms cs = .ok (r, cs') →
    cs' = cs ∧ r.map (·.1) = ms ∧ ∀ x ∈ r, ∃ p, platformLookup e x.1 = .ok p ∧ p.hosts = x.2
  | [], cs, r, cs', _, h => by
    simp only [resolveAll, Except.ok.injEq, Prod.mk.injEq] at h
    rcases h with ⟨h1, h2⟩; subst h1; subst h2; simp
  | m :: ms, cs, r, cs', hf, h => by
    unfold resolveAll at h
    rw [resolveNoBad_flat (hf m (by simp))] at h
    cases hp : platformLookup e m with
    | error x => rw [hp] at h; cases h
    | ok p =>
      rw [hp] at h
      simp only at h
      cases hr : resolveAll e ms cs with
      | error x => rw [hr] at h; cases h
      | ok v =>
        rcases v with ⟨rest, cs2⟩
        rw [hr] at h
        simp only [Except.ok.injEq, Prod.mk.injEq] at h
        rcases h with ⟨h1, h2⟩
        have ih := resolveAll_flat ms cs rest cs2 (fun m' hm' => hf m' (by simp [hm'])) hr
        rcases ih with ⟨i1, i2, i3⟩
        subst h1
        refine ⟨by rw [← h2, i1], by simp [i2], ?_⟩
        intro x hx
        rcases List.mem_cons.1 hx with hx | hx
        · subst hx; exact ⟨p, hp, rfl⟩
        · exact i3 x hx

/-- if resolving flat members fails, some member's own lookup fails with that error -/
theorem resolveAll_flat_error {e : Env} : ∀ (ms : List Name) (cs : List Nat) (x : Err),
    (∀ m ∈ ms, FlatName e m) → resolveAll e ms cs = .error x →
    ∃ m ∈ ms, platformLookup e m = .error x
  | [], cs, x, _, h => by simp [resolveAll] at h
  | m :: ms, cs, x, hf, h => by
    unfold resolveAll at h
    rw [resolveNoBad_flat (hf m (by simp))] at h
    cases hp : platformLookup e m with
    | error y => rw [hp] at h; simp only at h; cases h; exact ⟨m, by simp, hp⟩
    | ok p =>
      rw [hp] at h
      simp only at h
      cases hr : resolveAll e ms cs with
      | error y =>
        rw [hr] at h
        simp only [Except.error.injEq] at h
        subst h
        rcases resolveAll_flat_error ms cs y (fun m' hm' => hf m' (by simp [hm'])) hr with ⟨m', h1, h2⟩
        exact ⟨m', by simp [h1], h2⟩
      | ok v => rcases v with ⟨rest, cs2⟩; rw [hr] at h; cases h

theorem resolveAll_flat_ok {e : Env} : ∀ (ms : List Name) (cs : List Nat),
    (∀ m ∈ ms, FlatName e m) → (∀ m ∈ ms, ∃ p, platformLookup e m = .ok p) →
    ∃ r, resolveAll e ms cs = .ok (r, cs) := by
  intro ms cs hf hok
  cases h : resolveAll e ms cs with
  | error x =>
    rcases resolveAll_flat_error ms cs x hf h with ⟨m, h1, h2⟩
    rcases hok m h1 with ⟨p, hp⟩
    rw [hp] at h2; cases h2
  | ok v =>
    rcases v with ⟨r, cs'⟩
    have := (resolveAll_flat ms cs r cs' hf h).1
    subst this
    exact ⟨r, rfl⟩

theorem mem_aliveNames {ms : List (Name × List Host)} {bad : List Host} {n : Name} :
    n ∈ aliveNames ms bad ↔ ∃ hs, (n, hs) ∈ ms ∧ ∃ h ∈ hs, h ∉ bad := by
  unfold aliveNames subsetOf
  simp only [List.mem_map, List.mem_filter, Bool.not_eq_true', List.all_eq_false, List.contains_iff_mem]
  constructor
  · rintro ⟨⟨a, hs⟩, ⟨h1, h2⟩, h3⟩
    simp only at h3; subst h3
    exact ⟨hs, h1, by simpa using h2⟩
  · rintro ⟨hs, h1, h2⟩
    exact ⟨(n, hs), ⟨h1, by simpa using h2⟩, rfl⟩

end CylcModel.Platform
