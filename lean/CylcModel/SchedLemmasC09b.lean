/-
Helper lemmas for C09, part D: status / outputs consistency (implied outputs) as an invariant of every run
of the scheduler model, through a pool-only simulation of `Sched.processMessage` by `Msg.step` that needs no
assumption on transient objects.
-/
import CylcModel.SchedLemmasC09
namespace CylcModel.Sched
open CylcModel.Msg

/-! ### Part D: status / outputs consistency (implied outputs) in every run -/

/-- consistency of a DB record -/
def GoodSD (st : Status) (done : List String) : Prop :=
  ((st = .running ∨ st = .succeeded ∨ st = .failed) → "submitted" ∈ done ∧ "started" ∈ done) ∧
  (st = .submitted → "submitted" ∈ done) ∧
  (("succeeded" ∈ done ∨ "failed" ∈ done) → "submitted" ∈ done ∧ "started" ∈ done)

theorem good_iff (x : Proxy) : Good x ↔ GoodSD x.status x.done := Iff.rfl

/-- a DB record is consistent, or belongs to a finished and complete instance (never revived) -/
def HistOK (g : Graph) (h : Hist) : Prop :=
  GoodSD h.status h.done ∨
  (h.status.isFinal = true ∧ ∃ t, g.task? h.name = some t ∧ isComplete t h.done = true)

/-- a consistent proxy of a task of the graph -/
def GoodT (g : Graph) (y : Proxy) : Prop := Good y ∧ (g.task? y.name).isSome = true

/-- all pooled proxies other than (p, n) are consistent, all DB records are fine -/
def WK (g : Graph) (p : Int) (n : String) (s : State) : Prop :=
  (∀ y ∈ s.pool, ¬ (y.pt = p ∧ y.name = n) → GoodT g y) ∧ (∀ h ∈ s.hist, HistOK g h)

/-- the run invariant -/
def GoodState (g : Graph) (s : State) : Prop :=
  (∀ y ∈ s.pool, GoodT g y) ∧ (∀ h ∈ s.hist, HistOK g h)

theorem wk_of_good (g : Graph) (p : Int) (n : String) (s : State) (h : GoodState g s) : WK g p n s :=
  ⟨fun y hy _ => h.1 y hy, h.2⟩

theorem wk_eq (g : Graph) (p : Int) (n : String) (s s' : State) (hp : s'.pool = s.pool) (hh : s'.hist = s.hist)
    (h : WK g p n s) : WK g p n s' := by
  unfold WK at *; rw [hp, hh]; exact h

/-- `put` of a consistent proxy, or of a proxy for (p, n) itself -/
theorem wk_put (g : Graph) (p : Int) (n : String) (s : State) (z : Proxy)
    (hz : GoodT g z ∨ (z.pt = p ∧ z.name = n)) (h : WK g p n s) : WK g p n (s.put z) := by
  refine ⟨?_, h.2⟩
  intro y hy hne
  unfold State.put at hy
  obtain ⟨w, hw, rfl⟩ := List.mem_map.mp hy
  by_cases hc : (w.pt == z.pt && w.name == z.name) = true
  · simp only [hc, if_true] at hne ⊢
    rcases hz with hz | hz
    · exact hz
    · exact absurd hz hne
  · simp only [hc, Bool.false_eq_true, if_false] at hne ⊢
    exact h.1 w hw hne

theorem wk_add (g : Graph) (p : Int) (n : String) (s : State) (z : Proxy)
    (hz : GoodT g z ∨ (z.pt = p ∧ z.name = n)) (h : WK g p n s) : WK g p n (s.add z) := by
  unfold State.add
  split
  · exact h
  · refine ⟨?_, h.2⟩
    intro y hy hne
    rcases List.mem_append.mp hy with hy | hy
    · exact h.1 y hy hne
    · simp only [List.mem_singleton] at hy
      subst hy
      rcases hz with hz | hz
      · exact hz
      · exact absurd hz hne

theorem foldl_satisfyMe_status (l : List Atom) (y : Proxy) :
    (l.foldl (fun z a => z.satisfyMe a) y).status = y.status := by
  induction l generalizing y with
  | nil => rfl
  | cons a l ih => simp only [List.foldl_cons]; exact ih (y.satisfyMe a)

theorem absFix_status (g : Graph) (s : State) (nm : String) (y : Proxy) : (absFix g s nm y).status = y.status := by
  unfold absFix
  split
  · split
    · exact foldl_satisfyMe_status s.absDone y
    · rfl
  · rfl

theorem mkProxy_good (g : Graph) (nm : String) (q : Int) (x : Proxy) (h : mkProxy g nm q = some x) : Good x := by
  unfold mkProxy at h
  cases ht : g.task? nm with
  | none => simp [ht] at h
  | some t =>
    simp only [ht, Option.bind_eq_bind, Option.bind_some] at h
    split at h
    · simp at h
    · cases hi : t.inst? q with
      | none => simp [hi] at h
      | some d =>
        simp only [hi, Option.bind_some, Option.pure_def, Option.some.injEq] at h
        subst h
        unfold Good; simp

theorem lastHist_mem (s : State) (q : Int) (nm : String) (h : Hist) (hl : lastHist s q nm = some h) :
    h ∈ s.hist ∧ h.name = nm := by
  unfold lastHist at hl
  have hm := List.mem_of_getLast? hl
  have := List.mem_filter.mp hm
  refine ⟨this.1, ?_⟩
  have h2 := this.2
  simp only [Bool.and_eq_true, beq_iff_eq] at h2
  exact h2.2

theorem revive_good (g : Graph) (nm : String) (x r : Proxy) (hist : Option Hist) (hx : Good x)
    (hh : ∀ h, hist = some h → HistOK g h ∧ h.name = nm) (hr : revive g nm x hist = some r) : Good r := by
  unfold revive at hr
  cases hist with
  | none => simp only [Option.some.injEq] at hr; subst hr; exact hx
  | some h =>
    obtain ⟨hok, hn⟩ := hh h rfl
    simp only at hr
    by_cases he : h.done.isEmpty = true
    · simp [he] at hr
    · simp only [he, Bool.false_eq_true, if_false] at hr
      by_cases hf : h.status.isFinal = true
      · simp only [hf, if_true] at hr
        cases ht : g.task? nm with
        | none => simp [ht] at hr
        | some t =>
          simp only [ht] at hr
          by_cases hc : isComplete t h.done = true
          · simp [hc] at hr
          · simp only [hc, Bool.false_eq_true, if_false, Option.some.injEq] at hr
            subst hr
            rcases hok with hg | ⟨_, t', ht', hc'⟩
            · exact hg
            · rw [hn, ht] at ht'
              simp only [Option.some.injEq] at ht'
              subst ht'
              exact absurd hc' hc
      · simp only [hf, Bool.false_eq_true, if_false, Option.some.injEq] at hr
        subst hr
        rcases hok with hg | ⟨hfin, _⟩
        · exact hg
        · exact absurd hfin hf

theorem mkProxy_task (g : Graph) (nm : String) (q : Int) (x : Proxy) (h : mkProxy g nm q = some x) :
    (g.task? nm).isSome = true := by
  unfold mkProxy at h
  cases ht : g.task? nm with
  | none => simp [ht] at h
  | some t => rfl

/-- `spawn_task` yields a consistent proxy of a task of the graph when all DB records are fine -/
theorem spawnTask_good (g : Graph) (s : State) (nm : String) (q : Int) (y : Proxy)
    (hh : ∀ h ∈ s.hist, HistOK g h) (h : spawnTask g s nm q = some y) : GoodT g y := by
  have hspec := spawnTask_spec g s nm q y h
  rw [spawnTask_eq] at h
  by_cases hc : ((lastHist s q nm).isNone && decide (q < g.start)) = true
  · simp [hc] at h
  · simp only [hc, Bool.false_eq_true, if_false] at h
    cases hm : mkProxy g nm q with
    | none => simp [hm] at h
    | some x =>
      simp only [hm] at h
      cases hr : revive g nm x (lastHist s q nm) with
      | none => simp [hr] at h
      | some r =>
        simp only [hr, Option.map_some, Option.some.injEq] at h
        have hg : Good r := revive_good g nm x r _ (mkProxy_good g nm q x hm)
          (fun h0 hl => by
            obtain ⟨h1, h2⟩ := lastHist_mem s q nm h0 hl
            exact ⟨hh h0 h1, h2⟩) hr
        refine ⟨?_, by rw [hspec.2.1]; exact mkProxy_task g nm q x hm⟩
        subst h
        unfold Good at *
        rw [absFix_status, (absFix_fields g s nm r).2.2]
        exact hg

/-- one child of `spawn_on_output`: the parent's own proxy is left alone and all other proxies stay consistent -/
theorem spawnChild_keepW (g : Graph) (p : Int) (n out : String) (x : Proxy) (acc : State × List (Int × String))
    (c : Child) (hc : c.name = n → (c.pt ≠ p ∧ c.isAbs = false))
    (h : acc.1.get? p n = some x) (hng : WK g p n acc.1) (hs : ∀ k ∈ acc.2, k ≠ (p, n)) :
    (spawnChild g p n out acc c).1.get? p n = some x ∧ WK g p n (spawnChild g p n out acc c).1 ∧
    (∀ k ∈ (spawnChild g p n out acc c).2, k ≠ (p, n)) := by
  obtain ⟨st, sui⟩ := acc
  simp only at h hng hs
  unfold spawnChild
  simp only
  have h0 : (if (c.isAbs && !st.absDone.contains ⟨p, n, out⟩) = true then
      { st with absDone := st.absDone ++ [⟨p, n, out⟩] } else st).get? p n = some x := by
    split
    · exact h
    · exact h
  have g0 : WK g p n (if (c.isAbs && !st.absDone.contains ⟨p, n, out⟩) = true then
      { st with absDone := st.absDone ++ [⟨p, n, out⟩] } else st) := by
    split
    · exact wk_eq g p n _ _ rfl rfl hng
    · exact hng
  generalize (if (c.isAbs && !st.absDone.contains ⟨p, n, out⟩) = true then
      { st with absDone := st.absDone ++ [⟨p, n, out⟩] } else st) = st0 at h0 g0 ⊢
  -- the fold over the proxies whose prerequisites are satisfied
  have hfold : ∀ (ks : List (Int × String)), (∀ k ∈ ks, k ≠ (p, n)) → ∀ (a : State × List (Int × String)),
      a.1.get? p n = some x → WK g p n a.1 → (∀ k ∈ a.2, k ≠ (p, n)) →
      (ks.foldl (fun (a : State × List (Int × String)) k =>
        match a.1.get? k.1 k.2 with
        | none => a
        | some z =>
          let z := z.satisfyMe ⟨p, n, out⟩
          (a.1.put z, if (z.suicideNow && !a.2.contains k) = true then a.2 ++ [k] else a.2)) a).1.get? p n = some x ∧
      WK g p n (ks.foldl (fun (a : State × List (Int × String)) k =>
        match a.1.get? k.1 k.2 with
        | none => a
        | some z =>
          let z := z.satisfyMe ⟨p, n, out⟩
          (a.1.put z, if (z.suicideNow && !a.2.contains k) = true then a.2 ++ [k] else a.2)) a).1 ∧
      (∀ k ∈ (ks.foldl (fun (a : State × List (Int × String)) k =>
        match a.1.get? k.1 k.2 with
        | none => a
        | some z =>
          let z := z.satisfyMe ⟨p, n, out⟩
          (a.1.put z, if (z.suicideNow && !a.2.contains k) = true then a.2 ++ [k] else a.2)) a).2, k ≠ (p, n)) := by
    intro ks; induction ks with
    | nil => intro _ a ha hg hk; exact ⟨ha, hg, hk⟩
    | cons k ks ih =>
      intro hks a ha hg hk
      simp only [List.foldl_cons]
      apply ih (fun k' hk' => hks k' (List.mem_cons_of_mem _ hk'))
      · split
        · exact ha
        · rename_i z hz
          simp only
          have hzk := get?_some_key hz
          rw [get?_put_ne]
          · exact ha
          · simp only [satisfyMe_pt, satisfyMe_name]
            intro hcon
            apply hks k (List.mem_cons_self)
            rw [← hcon.1, ← hcon.2, hzk.1, hzk.2]
      · split
        · exact hg
        · rename_i z hz
          simp only
          have hzk := get?_some_key hz
          have hzm : z ∈ a.1.pool := List.mem_of_find?_eq_some hz
          apply wk_put g p n a.1 _ _ hg
          left
          have : GoodT g z := hg.1 z hzm (by
            intro hcon; apply hks k (List.mem_cons_self)
            rw [← hcon.1, ← hcon.2, hzk.1, hzk.2])
          exact this
      · split
        · exact hk
        · simp only
          split
          · intro k' hk'
            rcases List.mem_append.mp hk' with h1 | h1
            · exact hk k' h1
            · simp only [List.mem_singleton] at h1
              rw [h1]; exact hks k (List.mem_cons_self)
          · exact hk
  split
  · exact ⟨h0, g0, hs⟩
  · rename_i y hy
    apply hfold
    · -- the targets are not the parent
      intro k hk
      by_cases habs : c.isAbs = true
      · have hcn : c.name ≠ n := fun e => by have := (hc e).2; rw [habs] at this; exact absurd this (by decide)
        simp only [habs, if_true] at hk
        have hgen : ∀ (pl : List Proxy) (k : Int × String),
            k ∈ (if ((pl.filter fun z => z.name == c.name).map fun z => (z.pt, z.name)).contains (c.pt, c.name) = true
              then (pl.filter fun z => z.name == c.name).map fun z => (z.pt, z.name)
              else ((pl.filter fun z => z.name == c.name).map fun z => (z.pt, z.name)) ++ [(c.pt, c.name)]) →
            k.2 = c.name := by
          intro pl k hk
          have hm : ∀ k, k ∈ ((pl.filter fun z => z.name == c.name).map fun z => (z.pt, z.name)) → k.2 = c.name := by
            intro k hk
            obtain ⟨z, hz, rfl⟩ := List.mem_map.mp hk
            have := (List.mem_filter.mp hz).2
            simpa using this
          split at hk
          · exact hm k hk
          · rcases List.mem_append.mp hk with h1 | h1
            · exact hm k h1
            · simp only [List.mem_singleton] at h1; rw [h1]
        have hname : k.2 = c.name := hgen _ k hk
        intro e; rw [e] at hname; exact hcn hname.symm
      · simp only [habs, Bool.false_eq_true, if_false, List.mem_singleton] at hk
        rw [hk]
        intro e
        simp only [Prod.mk.injEq] at e
        exact (hc e.2).1 e.1
    · simp only
      split
      · exact h0
      · exact get?_add_some _ _ _ _ _ h0
    · simp only
      split
      · exact g0
      · rename_i hin
        have hnone : st0.get? c.pt c.name = none := by
          cases hg : st0.get? c.pt c.name with
          | none => rfl
          | some v => simp [hg] at hin
        rw [hnone] at hy
        simp only at hy
        have : GoodT g y := spawnTask_good g st0 c.name c.pt y g0.2 hy
        exact wk_add g p n st0 _ (Or.inl this) g0
    · exact hs



theorem wk_spawnAndAdd (g : Graph) (p : Int) (n : String) (s : State) (nm : String) (q : Int) (h : WK g p n s) :
    WK g p n (spawnAndAdd g s nm q) := by
  unfold spawnAndAdd
  split
  · exact h
  · split
    · rename_i y hy
      exact wk_add g p n s y (Or.inl (spawnTask_good g s nm q y h.2 hy)) h
    · exact h

theorem wk_spawnNextParentless (g : Graph) (p : Int) (n : String) (s : State) (z : Proxy) (h : WK g p n s) :
    WK g p n (spawnNextParentless g s z) := by
  unfold spawnNextParentless
  split
  · exact h
  · split
    · exact wk_spawnAndAdd g p n s _ _ h
    · exact h

theorem preRemove_pool_hist (g : Graph) (s : State) (z : Proxy) :
    (remove g s z).hist = (preRemove g s z).hist ++ [⟨z.pt, z.name, z.status, z.submitNum, z.done⟩] ∧
    ∀ y ∈ (remove g s z).pool, y ∈ (preRemove g s z).pool := by
  refine ⟨remove_hist g s z, ?_⟩
  intro y hy
  unfold remove at hy
  simp only at hy
  exact (List.mem_filter.mp hy).1

/-- `remove` of a proxy whose record is fine -/
theorem wk_remove (g : Graph) (p : Int) (n : String) (s : State) (z : Proxy)
    (hz : HistOK g ⟨z.pt, z.name, z.status, z.submitNum, z.done⟩) (h : WK g p n s) : WK g p n (remove g s z) := by
  have h1 : WK g p n (preRemove g s z) := by
    unfold preRemove; split
    · exact wk_spawnNextParentless g p n s z h
    · exact h
  obtain ⟨e1, e2⟩ := preRemove_pool_hist g s z
  refine ⟨fun y hy hne => h1.1 y (e2 y hy) hne, ?_⟩
  intro h0 hh0
  rw [e1] at hh0
  rcases List.mem_append.mp hh0 with hh0 | hh0
  · exact h1.2 h0 hh0
  · simp only [List.mem_singleton] at hh0; subst hh0; exact hz

theorem histOK_of_good (g : Graph) (z : Proxy) (h : Good z) :
    HistOK g ⟨z.pt, z.name, z.status, z.submitNum, z.done⟩ := Or.inl h

/-- removing another (consistent) proxy keeps the proxy of (p, n) and the consistency of the others -/
theorem remove_keepW (g : Graph) (s : State) (p : Int) (n : String) (x z : Proxy)
    (h : s.get? p n = some x) (hzs : s.get? z.pt z.name = some z) (hz : ¬ (z.pt = p ∧ z.name = n))
    (hw : WK g p n s) : (remove g s z).get? p n = some x ∧ WK g p n (remove g s z) := by
  constructor
  · rw [remove_get?_other g s z p n hz]
    unfold preRemove; split
    · exact get?_spawnNextParentless_some g s p n x z h
    · exact h
  · have hzm : z ∈ s.pool := List.mem_of_find?_eq_some hzs
    exact wk_remove g p n s z (histOK_of_good g z (hw.1 z hzm hz).1) hw

/-- `spawn_on_output` for the proxy `x` of (p, n): the others stay consistent, all DB records stay fine, and
(p, n) itself is kept, or removed when it is finished and complete -/
theorem spawnOnOutput_W (g : Graph) (hwf : noSelfChild g = true) (s : State) (p : Int) (n out : String)
    (x : Proxy) (h : s.get? p n = some x) (hw : WK g p n s) :
    (spawnOnOutput g s p n out).get? p n =
      (if (afterSpawn (g.task? n) ⟨x, false⟩).tr then none else some x) ∧
    WK g p n (spawnOnOutput g s p n out) := by
  have hk := get?_some_key h
  unfold spawnOnOutput
  simp only [h]
  have hcs : ∀ c ∈ (if x.flows.isEmpty = true then [] else childrenOf g x out),
      c.name = n → (c.pt ≠ p ∧ c.isAbs = false) := by
    intro c hc
    split at hc
    · simp at hc
    · have := wf_child g hwf x out c hc
      rw [hk.1, hk.2] at this; exact this
  generalize (if x.flows.isEmpty = true then [] else childrenOf g x out) = cs at hcs
  have h1 : ∀ (cs : List Child), (∀ c ∈ cs, c.name = n → (c.pt ≠ p ∧ c.isAbs = false)) →
      ∀ (acc : State × List (Int × String)), acc.1.get? p n = some x → WK g p n acc.1 → (∀ k ∈ acc.2, k ≠ (p, n)) →
      (cs.foldl (spawnChild g p n out) acc).1.get? p n = some x ∧ WK g p n (cs.foldl (spawnChild g p n out) acc).1 ∧
      (∀ k ∈ (cs.foldl (spawnChild g p n out) acc).2, k ≠ (p, n)) := by
    intro cs; induction cs with
    | nil => intro _ acc a b c; exact ⟨a, b, c⟩
    | cons c cs ih =>
      intro hcs acc a b d
      simp only [List.foldl_cons]
      obtain ⟨a', b', d'⟩ := spawnChild_keepW g p n out x acc c (hcs c List.mem_cons_self) a b d
      exact ih (fun c' hc' => hcs c' (List.mem_cons_of_mem _ hc')) _ a' b' d'
  have h2 : ∀ (ks : List (Int × String)), (∀ k ∈ ks, k ≠ (p, n)) → ∀ (st : State), st.get? p n = some x → WK g p n st →
      (ks.foldl (fun (st : State) k => match st.get? k.1 k.2 with
        | some z => remove g st z
        | none => st) st).get? p n = some x ∧
      WK g p n (ks.foldl (fun (st : State) k => match st.get? k.1 k.2 with
        | some z => remove g st z
        | none => st) st) := by
    intro ks; induction ks with
    | nil => intro _ st a b; exact ⟨a, b⟩
    | cons k ks ih =>
      intro hks st a b
      simp only [List.foldl_cons]
      have hstep : (match st.get? k.1 k.2 with | some z => remove g st z | none => st).get? p n = some x ∧
          WK g p n (match st.get? k.1 k.2 with | some z => remove g st z | none => st) := by
        split
        · rename_i z hz
          have hzk := get?_some_key hz
          exact remove_keepW g st p n x z a (by rw [hzk.1, hzk.2]; exact hz) (by
            intro hcon; apply hks k List.mem_cons_self
            rw [← hcon.1, ← hcon.2, hzk.1, hzk.2]) b
        · exact ⟨a, b⟩
      exact ih (fun k' hk' => hks k' (List.mem_cons_of_mem _ hk')) _ hstep.1 hstep.2
  obtain ⟨a1, b1, d1⟩ := h1 cs hcs (s, []) h hw (by intro k hk; simp at hk)
  generalize hR : List.foldl (spawnChild g p n out) (s, []) cs = R at a1 b1 d1
  obtain ⟨a2, b2⟩ := h2 R.2 d1 R.1 a1 b1
  generalize hS : (List.foldl (fun (st : State) k => match st.get? k.1 k.2 with
        | some z => remove g st z
        | none => st) R.1 R.2) = S at a2 b2
  simp only [a2]
  unfold removeIfComplete afterSpawn Msg.complete
  simp only [Bool.false_eq_true, if_false, hk.2]
  by_cases hfin : x.status.isFinal = true
  · simp only [hfin, Bool.not_true, Bool.false_eq_true, if_false, Bool.true_and]
    cases ht : g.task? n with
    | none => simp only [Bool.false_eq_true, if_false]; exact ⟨a2, b2⟩
    | some t =>
      simp only
      by_cases hcomp : isComplete t x.done = true
      · simp only [hcomp, if_true]
        refine ⟨by have := get?_remove_self g S x; rw [hk.1, hk.2] at this; exact this, ?_⟩
        apply wk_remove g p n S x _ b2
        right
        exact ⟨hfin, t, by rw [hk.2]; exact ht, hcomp⟩
      · simp only [hcomp, Bool.false_eq_true, if_false]
        exact ⟨a2, b2⟩
  · simp only [hfin, Bool.not_false, if_true, Bool.false_and, Bool.false_eq_true, if_false]
    exact ⟨a2, b2⟩

theorem lookup_absent_tr {s : State} {p : Int} {n : String} {x : Proxy} {tr : Bool}
    (hg : s.get? p n = none) (hl : lookup s p n = some (x, tr)) : tr = true := by
  rcases lookup_cases hl with ⟨_, h⟩ | ⟨h, _⟩
  · rw [hg] at h; simp at h
  · exact h

theorem store_true_pool (s : State) (y : Proxy) : (store s y true).pool = s.pool ∧ (store s y true).hist = s.hist := by
  unfold store; simp

/-- a message for an instance that is not in the pool (a transient object at most) touches neither the pool
nor the DB records -/
theorem pm_absent (g : Graph) : ∀ (fuel : Nat) (s : State) (p : Int) (n : String) (flag : Flag) (sn : Nat)
    (msg : String), s.get? p n = none →
    (processMessage g fuel s p n flag sn msg).1.pool = s.pool ∧
    (processMessage g fuel s p n flag sn msg).1.hist = s.hist := by
  intro fuel
  induction fuel with
  | zero => intro s p n flag sn msg _; unfold processMessage; exact ⟨rfl, rfl⟩
  | succ fuel ih =>
    intro s p n flag sn msg hg
    unfold processMessage
    split
    · exact ⟨rfl, rfl⟩
    · rename_i x tr hl
      have htr := lookup_absent_tr hg hl
      subst htr
      split
      · exact ⟨rfl, rfl⟩
      · split
        · exact ⟨rfl, rfl⟩
        · simp only
          have hget : ∀ (X : State), X.pool = s.pool → X.get? p n = none := by
            intro X hX; unfold State.get? at *; rw [hX]; exact hg
          have himp : ∀ (l : List String) (st : State), st.pool = s.pool → st.hist = s.hist →
              (l.foldl (fun st m => (processMessage g fuel st p n .internal sn m).1) st).pool = s.pool ∧
              (l.foldl (fun st m => (processMessage g fuel st p n .internal sn m).1) st).hist = s.hist := by
            intro l; induction l with
            | nil => intro st a b; exact ⟨a, b⟩
            | cons a l ihl =>
              intro st hp hh
              obtain ⟨e1, e2⟩ := ih st p n .internal sn a (hget st hp)
              exact ihl _ (e1.trans hp) (e2.trans hh)
          generalize hS : (List.foldl (fun st m => (processMessage g fuel st p n Flag.internal sn m).1) _ _) = S
          have hSp : S.pool = s.pool ∧ S.hist = s.hist := by
            rw [← hS]; exact himp _ _ (store_true_pool s _).1 (store_true_pool s _).2
          split
          · exact hSp
          · rename_i x2 tr2 hl2
            have htr2 := lookup_absent_tr (hget S hSp.1) hl2
            subst htr2
            have hst : ∀ (y : Proxy), (store S y true).pool = s.pool ∧ (store S y true).hist = s.hist :=
              fun y => ⟨(store_true_pool S y).1.trans hSp.1, (store_true_pool S y).2.trans hSp.2⟩
            repeat' split
            all_goals try (simp only [spawnChildren, if_true])
            all_goals first
              | exact hSp
              | exact hst _

/-- pool-only simulation relation: the other proxies and the DB records are fine, and (p, n) is in the pool
exactly as the live `ps`, or not in the pool at all -/
def SimP (g : Graph) (p : Int) (n : String) (s : State) (ps : PS) : Prop :=
  WK g p n s ∧ ((ps.tr = false ∧ s.get? p n = some ps.x) ∨ s.get? p n = none)

theorem simP_absent (g : Graph) (p : Int) (n : String) (s s' : State) (ps' : PS) (hw : WK g p n s)
    (hg : s.get? p n = none) (hp : s'.pool = s.pool) (hh : s'.hist = s.hist) : SimP g p n s' ps' := by
  refine ⟨wk_eq g p n s s' hp hh hw, Or.inr ?_⟩
  unfold State.get? at *; rw [hp]; exact hg

theorem simP_store (g : Graph) (p : Int) (n : String) (s : State) (x y : Proxy) (hw : WK g p n s)
    (hg : s.get? p n = some x) (hp : y.pt = p) (hn : y.name = n) :
    SimP g p n (store s y false) ⟨y, false⟩ := by
  unfold store
  simp only [Bool.false_eq_true, if_false]
  exact ⟨wk_put g p n s y (Or.inr ⟨hp, hn⟩) hw, Or.inl ⟨rfl, get?_put_same s p n x y hg hp hn⟩⟩

theorem simP_spawn (g : Graph) (hwf : noSelfChild g = true) (p : Int) (n out : String) (s : State) (x : Proxy)
    (hw : WK g p n s) (hg : s.get? p n = some x) :
    SimP g p n (spawnChildren g s p n out false) (afterSpawn (g.task? n) ⟨x, false⟩) := by
  unfold spawnChildren
  simp only [Bool.false_eq_true, if_false]
  obtain ⟨h1, h2⟩ := spawnOnOutput_W g hwf s p n out x hg hw
  refine ⟨h2, ?_⟩
  by_cases htr : (afterSpawn (g.task? n) ⟨x, false⟩).tr = true
  · right; rw [h1]; simp [htr]
  · left
    simp only [Bool.not_eq_true] at htr
    refine ⟨htr, ?_⟩
    rw [h1, afterSpawn_x]; simp [htr]

/-- **pool-only simulation** (no assumption on transient objects): while (p, n) is in the pool it evolves under
`processMessage` exactly as under `Msg.step`; all other proxies stay consistent and all DB records fine -/
theorem pm_simP (g : Graph) (hwf : noSelfChild g = true) (p : Int) (n : String) :
    ∀ (fuel : Nat) (s : State) (ps : PS) (flag : Flag) (sn : Nat) (msg : String), SimP g p n s ps →
      SimP g p n (processMessage g fuel s p n flag sn msg).1 (Msg.step (g.task? n) fuel ps flag sn msg).1 := by
  intro fuel; induction fuel with
  | zero => intro s ps flag sn msg h; unfold processMessage Msg.step; exact h
  | succ fuel ih =>
    intro s ps flag sn msg h
    obtain ⟨hw, hcase⟩ := h
    rcases hcase with ⟨htr, hget⟩ | habs
    · -- (p, n) is in the pool
      obtain ⟨x, tr⟩ := ps
      simp only at htr hget
      subst htr
      have hl : lookup s p n = some (x, false) := by unfold lookup; rw [hget]
      have hk := get?_some_key hget
      unfold processMessage
      rw [Msg.step]
      simp only [hl]
      unfold Msg.dropped
      by_cases g1 : (!false && flag == Flag.received && sn != x.submitNum) = true
      · simp only [g1, if_true, Bool.true_or]; exact ⟨hw, Or.inl ⟨rfl, hget⟩⟩
      · by_cases g2 : (!false && x.status == Status.waiting && decide (x.submitNum > 0) &&
                    (decide (x.subTry > 0) || decide (x.execTry > 0))) = true
        · simp only [g1, g2, if_true, Bool.or_true]; exact ⟨hw, Or.inl ⟨rfl, hget⟩⟩
        · simp only [g1, g2, Bool.false_eq_true, if_false, Bool.or_self]
          have e0 : (if (msg == "submit-failed" || msg == "failed") = true then (x, some false)
              else setComplete g x msg) = Msg.pre (g.task? n) x msg := by
            unfold Msg.pre; rw [setComplete_eq g x n msg hk.2]
          rw [e0]
          have hpk := pre_key (g.task? n) x msg
          have h1 : SimP g p n (store s (Msg.pre (g.task? n) x msg).1 false) ⟨(Msg.pre (g.task? n) x msg).1, false⟩ :=
            simP_store g p n s x _ hw hget (hpk.1.trans hk.1) (hpk.2.trans hk.2)
          have hfold : ∀ (l : List String) (st : State) (q : PS), SimP g p n st q →
              SimP g p n (l.foldl (fun st m => (processMessage g fuel st p n Flag.internal sn m).1) st)
                (l.foldl (fun st m => (Msg.step (g.task? n) fuel st Flag.internal sn m).1) q) := by
            intro l; induction l with
            | nil => intro st q hq; exact hq
            | cons a l ihl => intro st q hq; exact ihl _ _ (ih st q _ _ a hq)
          generalize hSF : List.foldl (fun st m => (processMessage g fuel st p n Flag.internal sn m).1) _ _ = SF
          have h2 : SimP g p n SF (List.foldl (fun st m => (Msg.step (g.task? n) fuel st Flag.internal sn m).1)
              ⟨(Msg.pre (g.task? n) x msg).1, false⟩ (Msg.implied (Msg.pre (g.task? n) x msg).1 msg)) := by
            rw [← hSF]; exact hfold _ _ _ h1
          generalize List.foldl (fun st m => (Msg.step (g.task? n) fuel st Flag.internal sn m).1)
              ⟨(Msg.pre (g.task? n) x msg).1, false⟩ (Msg.implied (Msg.pre (g.task? n) x msg).1 msg) = ps2 at h2 ⊢
          obtain ⟨hw2, hcase2⟩ := h2
          rcases hcase2 with ⟨htr2, hget2⟩ | habs2
          · -- still in the pool after the implied outputs
            obtain ⟨x2, tr2⟩ := ps2
            simp only at htr2 hget2
            subst htr2
            have hl2 : lookup SF p n = some (x2, false) := by unfold lookup; rw [hget2]
            simp only [hl2]
            have hk2 := get?_some_key hget2
            have hst : ∀ (y : Proxy), y.pt = x2.pt → y.name = x2.name →
                SimP g p n (store SF y false) ⟨y, false⟩ :=
              fun y a b => simP_store g p n SF x2 y hw2 hget2 (a.trans hk2.1) (b.trans hk2.2)
            have hsp : ∀ (out : String) (y : Proxy), y.pt = x2.pt → y.name = x2.name →
                SimP g p n (spawnChildren g (store SF y false) p n out false) (afterSpawn (g.task? n) ⟨y, false⟩) :=
              fun out y a b => simP_spawn g hwf p n out _ y (hst y a b).1
                (by have := (hst y a b).2; rcases this with ⟨_, h⟩ | h
                    · exact h
                    · unfold store at h; simp only [Bool.false_eq_true, if_false] at h
                      rw [get?_put_same SF p n x2 y hget2 (a.trans hk2.1) (b.trans hk2.2)] at h; simp at h)
            unfold Msg.finish
            by_cases m1 : (msg == "started") = true
            · simp only [m1, if_true]
              unfold Msg.finStarted
              by_cases c1 : (flag == Flag.received && decide (x2.status.rank > Status.running.rank)) = true
              · simp only [c1, if_true]; exact ⟨hw2, Or.inl ⟨rfl, hget2⟩⟩
              · simp only [c1, Bool.false_eq_true, if_false]
                exact hsp "started" _ (reset_pt ..) (reset_name ..)
            · simp only [m1, Bool.false_eq_true, if_false]
              by_cases m2 : (msg == "succeeded") = true
              · simp only [m2, if_true]
                unfold Msg.finSucceeded
                exact hsp "succeeded" _ (reset_pt ..) (reset_name ..)
              · simp only [m2, Bool.false_eq_true, if_false]
                by_cases m3 : (msg == "failed") = true
                · simp only [m3, if_true]
                  unfold Msg.finFailed
                  by_cases c1 : (flag == Flag.received && decide (x2.status.rank > Status.failed.rank)) = true
                  · simp only [c1, if_true]; exact ⟨hw2, Or.inl ⟨rfl, hget2⟩⟩
                  · simp only [c1, Bool.false_eq_true, if_false]
                    by_cases c2 : (decide (x2.submitNum > 0) && decide (x2.execTry < Msg.execMax (g.task? n))) = true
                    · unfold Msg.execMax at c2
                      have : SimP g p n (store SF { (x2.reset (status := some .waiting)) with
                          execTry := x2.execTry + 1, retryWait := true } false) _ :=
                        hst _ (reset_pt ..) (reset_name ..)
                      revert this
                      unfold Msg.execMax
                      cases ht : g.task? n <;> rw [ht] at c2 <;> simp only [] at c2 ⊢ <;> simp only [c2, if_true] <;>
                        intro this <;> exact this
                    · unfold Msg.execMax at c2
                      have e : (if (x2.status != Status.failed) = true then
                            setComplete g (x2.reset (some Status.failed)) "failed"
                          else (x2.reset (some Status.failed), none)).1 =
                          (if (x2.status != Status.failed) = true then
                            (Msg.setDone (g.task? n) (x2.reset (some Status.failed)) "failed").1
                          else x2.reset (some Status.failed)) := by
                        split
                        · rw [setComplete_eq g _ n "failed" ((reset_name ..).trans hk2.2)]
                        · rfl
                      rw [e]
                      have hyk : (if (x2.status != Status.failed) = true then
                            (Msg.setDone (g.task? n) (x2.reset (some Status.failed)) "failed").1
                          else x2.reset (some Status.failed)).pt = x2.pt ∧
                          (if (x2.status != Status.failed) = true then
                            (Msg.setDone (g.task? n) (x2.reset (some Status.failed)) "failed").1
                          else x2.reset (some Status.failed)).name = x2.name := by
                        constructor <;> split <;> simp [setDone_pt, setDone_name, reset_pt, reset_name]
                      generalize (if (x2.status != Status.failed) = true then
                            (Msg.setDone (g.task? n) (x2.reset (some Status.failed)) "failed").1
                          else x2.reset (some Status.failed)) = y at hyk ⊢
                      have := hsp "failed" y hyk.1 hyk.2
                      revert this
                      unfold Msg.execMax
                      cases ht : g.task? n <;> rw [ht] at c2 <;> simp only [] at c2 ⊢ <;>
                        simp only [c2, Bool.false_eq_true, if_false] <;> intro this <;> exact this
                · simp only [m3, Bool.false_eq_true, if_false]
                  by_cases m4 : (msg == "submit-failed") = true
                  · simp only [m4, if_true]
                    unfold Msg.finSubFailed
                    by_cases c1 : (flag == Flag.received && decide (x2.status.rank > Status.submitFailed.rank)) = true
                    · simp only [c1, if_true]; exact ⟨hw2, Or.inl ⟨rfl, hget2⟩⟩
                    · simp only [c1, Bool.false_eq_true, if_false]
                      by_cases c2 : (decide (x2.submitNum > 0) && decide (x2.subTry < Msg.subMax (g.task? n))) = true
                      · unfold Msg.subMax at c2
                        have : SimP g p n (store SF { (x2.reset (status := some .waiting)) with
                            subTry := x2.subTry + 1, retryWait := true } false) _ :=
                          hst _ (reset_pt ..) (reset_name ..)
                        revert this
                        unfold Msg.subMax
                        cases ht : g.task? n <;> rw [ht] at c2 <;> simp only [] at c2 ⊢ <;> simp only [c2, if_true] <;>
                          intro this <;> exact this
                      · unfold Msg.subMax at c2
                        have e : (if (x2.status != Status.submitFailed) = true then
                              setComplete g (x2.reset (some Status.submitFailed)) "submit-failed"
                            else (x2.reset (some Status.submitFailed), none)).1 =
                            (if (x2.status != Status.submitFailed) = true then
                              (Msg.setDone (g.task? n) (x2.reset (some Status.submitFailed)) "submit-failed").1
                            else x2.reset (some Status.submitFailed)) := by
                          split
                          · rw [setComplete_eq g _ n "submit-failed" ((reset_name ..).trans hk2.2)]
                          · rfl
                        rw [e]
                        have hyk : (if (x2.status != Status.submitFailed) = true then
                              (Msg.setDone (g.task? n) (x2.reset (some Status.submitFailed)) "submit-failed").1
                            else x2.reset (some Status.submitFailed)).pt = x2.pt ∧
                            (if (x2.status != Status.submitFailed) = true then
                              (Msg.setDone (g.task? n) (x2.reset (some Status.submitFailed)) "submit-failed").1
                            else x2.reset (some Status.submitFailed)).name = x2.name := by
                          constructor <;> split <;> simp [setDone_pt, setDone_name, reset_pt, reset_name]
                        generalize (if (x2.status != Status.submitFailed) = true then
                              (Msg.setDone (g.task? n) (x2.reset (some Status.submitFailed)) "submit-failed").1
                            else x2.reset (some Status.submitFailed)) = y at hyk ⊢
                        have := hsp "submit-failed" y hyk.1 hyk.2
                        revert this
                        unfold Msg.subMax
                        cases ht : g.task? n <;> rw [ht] at c2 <;> simp only [] at c2 ⊢ <;>
                          simp only [c2, Bool.false_eq_true, if_false] <;> intro this <;> exact this
                  · simp only [m4, Bool.false_eq_true, if_false]
                    by_cases m5 : (msg == "submitted") = true
                    · simp only [m5, if_true]
                      unfold Msg.finSubmitted
                      by_cases c1 : (flag == Flag.received && decide (x2.status.rank ≥ Status.submitted.rank)) = true
                      · simp only [c1, if_true]; exact ⟨hw2, Or.inl ⟨rfl, hget2⟩⟩
                      · simp only [c1, Bool.false_eq_true, if_false]
                        by_cases c2 : (x2.status == Status.preparing) = true
                        · simp only [c2, if_true]
                          exact hsp "submitted" _ (by simp [reset_pt]) (by simp [reset_name])
                        · simp only [c2, Bool.false_eq_true, if_false]
                          exact simP_spawn g hwf p n "submitted" SF x2 hw2 hget2
                    · simp only [m5, Bool.false_eq_true, if_false]
                      by_cases c1 : ((Msg.pre (g.task? n) x msg).2 == some true) = true
                      · simp only [c1, if_true]
                        exact simP_spawn g hwf p n msg SF x2 hw2 hget2
                      · simp only [c1, Bool.false_eq_true, if_false]
                        exact ⟨hw2, Or.inl ⟨rfl, hget2⟩⟩
          · -- removed from the pool while the implied outputs were processed: transient from here on
            have hrest : ∀ (X : State), X.pool = SF.pool → X.hist = SF.hist → ∀ (q : PS), SimP g p n X q :=
              fun X a b q => simP_absent g p n SF X q hw2 habs2 a b
            split
            · exact hrest _ rfl rfl _
            · rename_i x3 tr3 hl3
              have htr3 := lookup_absent_tr habs2 hl3
              subst htr3
              have hst : ∀ (y : Proxy) (q : PS), SimP g p n (store SF y true) q :=
                fun y q => hrest _ (store_true_pool SF y).1 (store_true_pool SF y).2 q
              repeat' split
              all_goals try (simp only [spawnChildren, if_true])
              all_goals first
                | exact hrest _ rfl rfl _
                | exact hst _ _
    · -- (p, n) is not in the pool
      obtain ⟨e1, e2⟩ := pm_absent g (fuel + 1) s p n flag sn msg habs
      exact simP_absent g p n s _ _ hw habs e1 e2

theorem stdOut_of_task (g : Graph) (hso : stdOutputs g = true) (n : String) (h : (g.task? n).isSome = true) :
    StdOut (g.task? n) := by
  cases ht : g.task? n with
  | none => rw [ht] at h; simp at h
  | some t =>
    have htm : t ∈ g.tasks := List.mem_of_find?_eq_some ht
    unfold stdOutputs at hso
    have := List.all_eq_true.mp hso t htm
    simpa [StdOut] using this

theorem get?_none_not_key (s : State) (p : Int) (n : String) (h : s.get? p n = none) :
    ∀ y ∈ s.pool, ¬ (y.pt = p ∧ y.name = n) := by
  intro y hy hk
  unfold State.get? at h
  have := List.find?_eq_none.mp h y hy
  simp [hk.1, hk.2] at this

/-- **one job message keeps every pooled proxy consistent** (any flag; graphs without self-children whose
tasks have the standard outputs) -/
theorem good_processMessage (g : Graph) (hwf : noSelfChild g = true) (hso : stdOutputs g = true) (s : State)
    (p : Int) (n : String) (flag : Flag) (sn : Nat) (msg : String) (hnd : NoDup s) (hg : GoodState g s) :
    GoodState g (processMessage g 4 s p n flag sn msg).1 := by
  cases hget : s.get? p n with
  | none =>
    obtain ⟨e1, e2⟩ := pm_absent g 4 s p n flag sn msg hget
    unfold GoodState; rw [e1, e2]; exact hg
  | some x =>
    have hxm : x ∈ s.pool := List.mem_of_find?_eq_some hget
    have hxk := get?_some_key hget
    obtain ⟨hgx, htx⟩ := hg.1 x hxm
    have hsim : SimP g p n s ⟨x, false⟩ := ⟨wk_of_good g p n s hg, Or.inl ⟨rfl, hget⟩⟩
    obtain ⟨hw', hcase⟩ := pm_simP g hwf p n 4 s ⟨x, false⟩ flag sn msg hsim
    have hnd' := nodup_processMessage g 4 s p n flag sn msg hnd
    have hst : StdOut (g.task? n) := stdOut_of_task g hso n (by rw [← hxk.2]; exact htx)
    have hgood' : GoodT g (Msg.step (g.task? n) 4 ⟨x, false⟩ flag sn msg).1.x := by
      refine ⟨good_step (g.task? n) hst 1 ⟨x, false⟩ flag sn msg hgx, ?_⟩
      rw [(step_frame (g.task? n) 4 ⟨x, false⟩ flag sn msg).name]
      exact htx
    refine ⟨?_, hw'.2⟩
    intro y hy
    by_cases hk : y.pt = p ∧ y.name = n
    · rcases hcase with ⟨_, hget'⟩ | habs'
      · have hm' := List.mem_of_find?_eq_some hget'
        have hk' := get?_some_key hget'
        have : y = (Msg.step (g.task? n) 4 ⟨x, false⟩ flag sn msg).1.x :=
          key_unique _ hnd' y hy _ hm' (by rw [hk.1, hk'.1]) (by rw [hk.2, hk'.2])
        rw [this]; exact hgood'
      · exact absurd hk (get?_none_not_key _ p n habs' y hy)
    · exact hw'.1 y hy hk

/-! #### the other primitives -/

theorem good_put (g : Graph) (s : State) (z : Proxy) (hz : GoodT g z) (h : GoodState g s) : GoodState g (s.put z) := by
  refine ⟨?_, h.2⟩
  intro y hy
  unfold State.put at hy
  obtain ⟨w, hw, rfl⟩ := List.mem_map.mp hy
  split
  · exact hz
  · exact h.1 w hw

theorem good_add (g : Graph) (s : State) (z : Proxy) (hz : GoodT g z) (h : GoodState g s) : GoodState g (s.add z) := by
  unfold State.add
  split
  · exact h
  · refine ⟨?_, h.2⟩
    intro y hy
    rcases List.mem_append.mp hy with hy | hy
    · exact h.1 y hy
    · simp only [List.mem_singleton] at hy; subst hy; exact hz

theorem good_eq (g : Graph) (s s' : State) (hp : s'.pool = s.pool) (hh : s'.hist = s.hist) (h : GoodState g s) :
    GoodState g s' := by
  unfold GoodState at *; rw [hp, hh]; exact h

theorem good_spawnAndAdd (g : Graph) (s : State) (nm : String) (q : Int) (h : GoodState g s) :
    GoodState g (spawnAndAdd g s nm q) := by
  unfold spawnAndAdd
  split
  · exact h
  · split
    · rename_i y hy
      exact good_add g s y (spawnTask_good g s nm q y h.2 hy) h
    · exact h

theorem good_spawnNextParentless (g : Graph) (s : State) (x : Proxy) (h : GoodState g s) :
    GoodState g (spawnNextParentless g s x) := by
  unfold spawnNextParentless
  split
  · exact h
  · split
    · exact good_spawnAndAdd _ _ _ _ h
    · exact h

theorem goodT_reset_none (g : Graph) (y : Proxy) (q r : Option Bool) (h : GoodT g y) : GoodT g (y.reset none q r) := by
  unfold GoodT Good at *
  rw [reset_status_none, reset_done, reset_name]; exact h

theorem good_computeRunahead (g : Graph) (s : State) (f : Bool) (h : GoodState g s) :
    GoodState g (computeRunahead g s f) :=
  good_eq g s _ (pool_computeRunahead g s f) (hist_computeRunahead g s f) h

theorem good_releaseRunahead (g : Graph) (s : State) (h : GoodState g s) : GoodState g (releaseRunahead g s).1 := by
  unfold releaseRunahead
  split
  · exact h
  · split
    · exact h
    · simp only
      apply foldl_inv (GoodState g) _ _ _ _ h
      intro st x hst
      apply good_spawnNextParentless
      split
      · rename_i y hy
        exact good_put g st _ (goodT_reset_none g y _ _ (hst.1 y (List.mem_of_find?_eq_some hy))) hst
      · exact hst

theorem good_releaseRunaheadN (g : Graph) : ∀ (n : Nat) (s : State), GoodState g s → GoodState g (releaseRunaheadN g n s) := by
  intro n; induction n with
  | zero => intro s h; exact h
  | succ n ih =>
    intro s h
    unfold releaseRunaheadN
    simp only
    split
    · exact ih _ (good_releaseRunahead g s h)
    · exact good_releaseRunahead g s h

theorem good_queueIfReady (g : Graph) (s : State) (x : Proxy) (hx : GoodT g x) (h : GoodState g s) :
    GoodState g (queueIfReady s x) := by
  unfold queueIfReady; split
  · exact good_put g s _ (goodT_reset_none g x _ _ hx) h
  · exact h

theorem good_empty (g : Graph) : GoodState g ({} : State) := by
  unfold GoodState; simp

theorem good_loadFromPoint (g : Graph) : GoodState g (loadFromPoint g) := by
  unfold loadFromPoint
  simp only
  apply foldl_inv (GoodState g)
  · intro st x hst
    split
    · rename_i y hy
      exact good_queueIfReady g st y (hst.1 y (List.mem_of_find?_eq_some hy)) hst
    · exact hst
  · apply good_releaseRunaheadN
    apply good_computeRunahead
    apply foldl_inv (GoodState g)
    · intro st t hst
      split
      · exact good_spawnAndAdd _ _ _ _ hst
      · exact hst
    · exact good_empty g

theorem good_sweepQueue (g : Graph) (s : State) (h : GoodState g s) : GoodState g (sweepQueue s) := by
  unfold sweepQueue
  apply foldl_inv (GoodState g) _ _ _ _ h
  intro st x hst
  split
  · rename_i y hy
    have hgy := hst.1 y (List.mem_of_find?_eq_some hy)
    split
    · have hgy' : GoodT g { y with retryWait := false } := hgy
      exact good_queueIfReady g _ _ hgy' (good_put g st _ hgy' hst)
    · exact hst
  · exact hst

/-- job preparation: waiting → preparing with the outputs unchanged -/
theorem goodT_prepare (g : Graph) (x : Proxy) (h : GoodT g x) :
    GoodT g { ((x.reset (queued := some false)).reset (status := some .preparing)) with submitNum := x.submitNum + 1 } := by
  unfold GoodT Good at *
  simp only [reset_status_some, reset_done, reset_name]
  refine ⟨⟨by intro hc; rcases hc with hc | hc | hc <;> exact absurd hc (by decide), by intro hc; exact absurd hc (by decide), h.1.2.2⟩, h.2⟩

theorem good_releaseAndSubmit (g : Graph) (s : State) (h : GoodState g s) : GoodState g (releaseAndSubmit s) := by
  unfold releaseAndSubmit
  simp only
  split
  · exact h
  · have hfold : ∀ (l : List Proxy), (∀ x ∈ l, GoodT g x) → ∀ (st : State), GoodState g st →
        GoodState g (l.foldl (fun (st : State) x =>
          let y := x.reset (queued := some false)
          let y := { (y.reset (status := some .preparing)) with submitNum := x.submitNum + 1 }
          { (st.put y) with launched := st.launched ++ [(x.pt, x.name, x.submitNum + 1)] }) st) := by
      intro l; induction l with
      | nil => intro _ st hst; exact hst
      | cons x l ih =>
        intro hl st hst
        simp only [List.foldl_cons]
        apply ih (fun x' hx' => hl x' (List.mem_cons_of_mem _ hx'))
        exact good_eq g (st.put _) _ rfl rfl
          (good_put g st _ (goodT_prepare g x (hl x List.mem_cons_self)) hst)
    have key := hfold (s.pool.filter (·.queued)) (fun x hx => h.1 x (List.mem_filter.mp hx).1) s h
    exact good_eq g _ _ rfl rfl key

theorem good_processQueue (g : Graph) (hwf : noSelfChild g = true) (hso : stdOutputs g = true) (s : State)
    (hnd : NoDup s) (h : GoodState g s) : NoDup (processQueue g s) ∧ GoodState g (processQueue g s) := by
  refine ⟨nodup_processQueue g s hnd, ?_⟩
  unfold processQueue
  have hI : ∀ (l : List ((Int × String) × List Msg)) (st : State), (NoDup st ∧ GoodState g st) →
      (NoDup (l.foldl (fun (st : State) grp =>
        let (p, n) := grp.1
        match st.get? p n with
        | none => st
        | some _ =>
          let (st, poll) := grp.2.foldl (fun (acc : State × Bool) m =>
              let (st', pl) := processMessage g 4 acc.1 p n .received m.submitNum m.text
              (st', acc.2 || pl)) (st, false)
          if poll then { st with polls := st.polls ++ [(p, n)] } else st) st) ∧
       GoodState g (l.foldl (fun (st : State) grp =>
        let (p, n) := grp.1
        match st.get? p n with
        | none => st
        | some _ =>
          let (st, poll) := grp.2.foldl (fun (acc : State × Bool) m =>
              let (st', pl) := processMessage g 4 acc.1 p n .received m.submitNum m.text
              (st', acc.2 || pl)) (st, false)
          if poll then { st with polls := st.polls ++ [(p, n)] } else st) st)) := by
    intro l
    apply foldl_inv (fun st => NoDup st ∧ GoodState g st)
    intro st grp hst
    simp only
    split
    · exact hst
    · have : ∀ (l : List Msg) (acc : State × Bool), (NoDup acc.1 ∧ GoodState g acc.1) →
          (NoDup (l.foldl (fun (acc : State × Bool) m =>
            let (st', pl) := processMessage g 4 acc.1 grp.1.1 grp.1.2 .received m.submitNum m.text
            (st', acc.2 || pl)) acc).1 ∧
           GoodState g (l.foldl (fun (acc : State × Bool) m =>
            let (st', pl) := processMessage g 4 acc.1 grp.1.1 grp.1.2 .received m.submitNum m.text
            (st', acc.2 || pl)) acc).1) := by
        intro l; induction l with
        | nil => intro acc ha; exact ha
        | cons m l ihl =>
          intro acc ha
          exact ihl ((processMessage g 4 acc.1 grp.1.1 grp.1.2 .received m.submitNum m.text).1,
              acc.2 || (processMessage g 4 acc.1 grp.1.1 grp.1.2 .received m.submitNum m.text).2)
            ⟨nodup_processMessage g 4 _ _ _ _ _ _ ha.1,
             good_processMessage g hwf hso acc.1 grp.1.1 grp.1.2 .received m.submitNum m.text ha.1 ha.2⟩
      have h2 := this grp.2 (st, false) hst
      split
      · exact ⟨h2.1, good_eq g _ _ rfl rfl h2.2⟩
      · exact h2
  exact (hI (groupMsgs s.queue) { s with queue := [] } ⟨hnd, good_eq g s _ rfl rfl h⟩).2

theorem good_checkStalled (g : Graph) (s : State) (h : GoodState g s) : GoodState g (checkStalled g s) := by
  unfold checkStalled; split
  · exact h
  · split
    · exact good_eq g s _ rfl rfl h
    · exact h

theorem good_checkAutoShutdown (g : Graph) (s : State) (h : GoodState g s) : GoodState g (checkAutoShutdown g s).1 := by
  unfold checkAutoShutdown
  simp only
  split
  · exact good_checkStalled _ _ h
  · split <;> exact good_checkStalled _ _ h

theorem good_finishLoop (g : Graph) (s : State) (h : GoodState g s) : GoodState g (finishLoop g s) := by
  unfold finishLoop
  simp only
  have h5 : GoodState g (if (s.schedUpd || s.pool.any (·.upd)) = true then
      { s with stalled := false, schedUpd := false, pool := s.pool.map fun x => { x with upd := false } }
    else s) := by
    split
    · refine ⟨?_, h.2⟩
      intro y hy
      obtain ⟨w, hw, rfl⟩ := List.mem_map.mp hy
      exact h.1 w hw
    · exact h
  generalize (if (s.schedUpd || s.pool.any (·.upd)) = true then
      { s with stalled := false, schedUpd := false, pool := s.pool.map fun x => { x with upd := false } }
    else s) = s5 at h5 ⊢
  have h6 : GoodState g { s5 with db := some s5.pool } := good_eq g s5 _ rfl rfl h5
  split
  · exact good_checkStalled _ _ h6
  · exact h6

theorem good_mainLoop (g : Graph) (hwf : noSelfChild g = true) (hso : stdOutputs g = true) (s : State)
    (hnd : NoDup s) (h : GoodState g s) : GoodState g (mainLoop g s) := by
  unfold mainLoop
  split
  · exact h
  · simp only
    have n1 := nodup_releaseRunahead g _ (nodup_computeRunahead g s false hnd)
    have n2 := nodup_checkAutoShutdown g _ n1
    have g1 := good_releaseRunahead g _ (good_computeRunahead g s false h)
    have g2 := good_checkAutoShutdown g _ g1
    split
    · exact good_eq g _ _ rfl rfl g2
    · have n3 := nodup_sweepQueue _ n2
      have n4 := nodup_releaseAndSubmit _ n3
      have g4 := good_releaseAndSubmit g _ (good_sweepQueue g _ g2)
      exact good_finishLoop g _ (good_processQueue g hwf hso _ n4 g4).2

/-- the op is not a vacation message found by a poll -/
def _root_.CylcModel.Msg.XOp.notVacation : XOp → Bool
  | .base _ => true
  | .poll _ _ _ text => !isVacated text

/-- a vacated job goes back to submitted: consistent when it had been submitted -/
theorem goodT_vacate (g : Graph) (x : Proxy) (h : GoodT g x) (hs : "submitted" ∈ x.done) : GoodT g (vacateProxy x) := by
  unfold vacateProxy
  split
  · exact h
  · split
    · exact h
    · unfold GoodT Good at *
      simp only [reset_status_some, reset_status_none, reset_done, reset_name]
      refine ⟨⟨by intro hc; rcases hc with hc | hc | hc <;> exact absurd hc (by decide), fun _ => hs, h.1.2.2⟩, h.2⟩

theorem good_stepX (g : Graph) (hwf : noSelfChild g = true) (hso : stdOutputs g = true) (s : State) (op : XOp)
    (hv : op.notVacation = true) (hnd : NoDup s) (h : GoodState g s) : GoodState g (stepX g s op) := by
  have hc : GoodState g (clearOp s) := good_eq g s _ rfl rfl h
  have nc : NoDup (clearOp s) := hnd
  cases op with
  | base op =>
    show GoodState g (step g s op)
    unfold step
    cases op with
    | loop => exact good_mainLoop g hwf hso _ nc hc
    | subres p n ok sn => exact good_processMessage g hwf hso _ _ _ _ _ _ nc hc
    | msg p n sn text => exact good_eq g (clearOp s) _ rfl rfl hc
  | poll p n sn text =>
    have hv' : isVacated text = false := by simpa [XOp.notVacation] using hv
    show GoodState g (if pollMatches s p n sn then
      (if isVacated text then (match (clearOp s).get? p n with
          | some x => (clearOp s).put (vacateProxy x)
          | none => clearOp s)
        else (processMessage g 4 (clearOp s) p n .polled sn text).1) else clearOp s)
    simp only [hv', Bool.false_eq_true, if_false]
    split
    · exact good_processMessage g hwf hso _ _ _ _ _ _ nc hc
    · exact hc

/-- a vacation message for a pooled proxy that has been submitted keeps the state consistent -/
theorem good_vacation (g : Graph) (s : State) (p : Int) (n : String) (x : Proxy) (h : GoodState g s)
    (hx : s.get? p n = some x) (hs : "submitted" ∈ x.done) : GoodState g (s.put (vacateProxy x)) :=
  good_put g s _ (goodT_vacate g x (h.1 x (List.mem_of_find?_eq_some hx)) hs) h

/-- **every pooled proxy of every state of every run is consistent** — in particular succeeded or failed
complete ⇒ submitted and started complete (op lists without vacation messages) -/
theorem good_runX (g : Graph) (hwf : noSelfChild g = true) (hso : stdOutputs g = true) (ops : List XOp)
    (hv : ∀ op ∈ ops, op.notVacation = true) : ∀ s ∈ runX g ops, NoDup s ∧ GoodState g s :=
  runX_inv_mem (fun s => NoDup s ∧ GoodState g s) g ops ⟨nodup_loadFromPoint g, good_loadFromPoint g⟩
    (fun s op hm h => ⟨nodup_stepX g s op h.1, good_stepX g hwf hso s op (hv op hm) h.1 h.2⟩)

/-- from any consistent state: the pooled proxy of (p, n) after a message is `Msg.step` of the one before -/
theorem pm_pool (g : Graph) (hwf : noSelfChild g = true) (s : State) (p : Int) (n : String) (x x' : Proxy)
    (hg : GoodState g s) (h : s.get? p n = some x) (flag : Flag) (sn : Nat) (msg : String)
    (h' : (processMessage g 4 s p n flag sn msg).1.get? p n = some x') :
    x' = (Msg.step (g.task? n) 4 ⟨x, false⟩ flag sn msg).1.x := by
  have hsim : SimP g p n s ⟨x, false⟩ := ⟨wk_of_good g p n s hg, Or.inl ⟨rfl, h⟩⟩
  obtain ⟨_, hcase⟩ := pm_simP g hwf p n 4 s ⟨x, false⟩ flag sn msg hsim
  rcases hcase with ⟨_, hget⟩ | habs
  · rw [h'] at hget; simp only [Option.some.injEq] at hget; exact hget
  · rw [h'] at habs; simp at habs
end CylcModel.Sched
