/-
Helper lemmas for C19 (stop-and-restart preserves the workflow state) over the frozen `Sched2` model.

* generic lifting (`foldl_inv`, `run_inv`) stated for `Sched2`;
* `Keep c` = "no two proxies share (point, name)" ∧ "the triple (stop reason, stop point, DB stop point) is `c`":
  one lemma per primitive of the model, so that both facts are carried through every op;
* `StopInv`: unless the scheduler shut down automatically (which forgets the stop point by design), the live
  stop point is the one a restart computes from the database / flow.cylc / final point;
* the field-by-field characterisation of `restart`.
-/
import CylcModel.Sched2

namespace CylcModel.Sched2

/-! ### Generic lifting (copies of the `Sched` v1 lemmas, stated for `Sched2`) -/

theorem foldl_inv {α σ} (P : σ → Prop) (f : σ → α → σ) (h : ∀ s a, P s → P (f s a)) :
    ∀ (l : List α) (s : σ), P s → P (l.foldl f s) := by
  intro l; induction l with
  | nil => intro s hs; exact hs
  | cons a l ih => intro s hs; exact ih _ (h s a hs)

/-- every state of a run satisfies `P` when the start-up state does and every step preserves it -/
theorem run_inv (P : State → Prop) (g : Graph) (h0 : P (init g)) (hs : ∀ s op, P s → P (step g s op)) :
    ∀ ops, ∀ s ∈ run g ops, P s := by
  intro ops
  unfold run
  have key : ∀ (ops : List Op) (acc : List State) (cur : State),
      (∀ s ∈ acc, P s) → P cur →
      ∀ s ∈ (ops.foldl (fun (a : List State × State) op =>
          let s' := step g a.2 op; (a.1 ++ [s'], s')) (acc, cur)).1, P s := by
    intro ops
    induction ops with
    | nil => intro acc cur hacc _ s hm; exact hacc s hm
    | cons op ops ih =>
      intro acc cur hacc hcur
      simp only [List.foldl_cons]
      apply ih
      · intro s hm
        rcases List.mem_append.mp hm with h | h
        · exact hacc s h
        · simp at h; subst h; exact hs _ _ hcur
      · exact hs _ _ hcur
  exact key ops [init g] (init g) (by intro s hm; simp at hm; subst hm; exact h0) h0

/-! ### Keys of the pool, and the stop triple -/

def keys (s : State) : List (Int × String) := s.pool.map fun x => (x.pt, x.name)

/-- no two proxies for the same (point, name) -/
def NoDup (s : State) : Prop := (keys s).Nodup

/-- what decides the stop point after a restart: the stop reason, the live stop point, the DB stop point -/
def sp (s : State) : Option String × Option Int × Option Int := (s.stop, s.stopPoint, s.dbStopCp)

def Keep (c : Option String × Option Int × Option Int) (s : State) : Prop := NoDup s ∧ sp s = c

theorem keys_put (s : State) (x : Proxy) : keys (s.put x) = keys s := by
  unfold keys State.put
  simp only [List.map_map]
  apply List.map_congr_left
  intro y _
  simp only [Function.comp]
  split
  · rename_i h
    simp only [Bool.and_eq_true, beq_iff_eq] at h
    rw [h.1, h.2]
  · rfl

theorem get?_none_not_mem (s : State) (p : Int) (n : String) (h : s.get? p n = none) :
    (p, n) ∉ keys s := by
  unfold State.get? at h
  unfold keys
  intro hm
  obtain ⟨y, hy, hk⟩ := List.mem_map.mp hm
  have := List.find?_eq_none.mp h y hy
  simp only [Prod.mk.injEq] at hk
  simp [hk.1, hk.2] at this

theorem nodup_add (s : State) (x : Proxy) (h : NoDup s) : NoDup (s.add x) := by
  unfold State.add
  split
  · exact h
  · rename_i hn
    have hn' : s.get? x.pt x.name = none := by
      cases hg : s.get? x.pt x.name with
      | none => rfl
      | some v => simp [hg] at hn
    unfold NoDup keys
    simp only [List.map_append, List.map_cons, List.map_nil]
    apply List.nodup_append.mpr
    refine ⟨h, by simp, ?_⟩
    intro a ha b hb
    simp at hb; subst hb
    intro heq; subst heq
    exact get?_none_not_mem s x.pt x.name hn' ha

theorem sp_add (s : State) (x : Proxy) : sp (s.add x) = sp s := by
  unfold State.add; split <;> rfl

theorem keep_add {c} (s : State) (x : Proxy) (h : Keep c s) : Keep c (s.add x) :=
  ⟨nodup_add s x h.1, by rw [sp_add]; exact h.2⟩

theorem keep_put {c} (s : State) (x : Proxy) (h : Keep c s) : Keep c (s.put x) :=
  ⟨by unfold NoDup; rw [keys_put]; exact h.1, h.2⟩

theorem nodup_filter (s : State) (f : Proxy → Bool) (h : NoDup s) :
    NoDup { s with pool := s.pool.filter f } := by
  unfold NoDup keys at *
  exact List.Nodup.sublist (List.Sublist.map _ List.filter_sublist) h

/-- a state that differs from `s` in neither the pool nor the stop triple -/
theorem keep_of_eq {c} {s t : State} (hp : t.pool = s.pool) (hs : sp t = sp s) (h : Keep c s) : Keep c t := by
  refine ⟨?_, by rw [hs]; exact h.2⟩
  have := h.1
  unfold NoDup keys at *
  rw [hp]; exact this

/-! ### `Keep c` is preserved by every primitive that does not touch the stop triple -/

theorem spawnTask_frame (g : Graph) (s : State) (n : String) (p : Int) :
    (spawnTask g s n p).1.pool = s.pool ∧ sp (spawnTask g s n p).1 = sp s := by
  unfold spawnTask
  simp only
  repeat' split
  all_goals first
    | exact ⟨rfl, rfl⟩
    | (rename_i h; simp only [Prod.mk.injEq] at h; obtain ⟨h1, _⟩ := h; subst h1; exact ⟨rfl, rfl⟩)

theorem keep_spawnTask {c} (g : Graph) (s : State) (n : String) (p : Int) (h : Keep c s) :
    Keep c (spawnTask g s n p).1 :=
  keep_of_eq (spawnTask_frame g s n p).1 (spawnTask_frame g s n p).2 h

theorem keep_spawnAndAdd {c} (g : Graph) (s : State) (n : String) (p : Int) (h : Keep c s) :
    Keep c (spawnAndAdd g s n p) := by
  unfold spawnAndAdd
  split
  · exact h
  · have hk := keep_spawnTask g s n p h
    split
    · rename_i heq; rw [heq] at hk; exact keep_add _ _ hk
    · rename_i heq; rw [heq] at hk; exact hk

theorem keep_spawnNextParentless {c} (g : Graph) (s : State) (x : Proxy) (h : Keep c s) :
    Keep c (spawnNextParentless g s x) := by
  unfold spawnNextParentless
  split
  · exact h
  · split
    · exact keep_spawnAndAdd _ _ _ _ h
    · exact h

theorem computeRunahead_frame (g : Graph) (s : State) (f : Bool) :
    (computeRunahead g s f).pool = s.pool ∧ sp (computeRunahead g s f) = sp s := by
  unfold computeRunahead
  simp only
  split
  · exact ⟨rfl, rfl⟩
  · split <;> exact ⟨rfl, rfl⟩

theorem keep_computeRunahead {c} (g : Graph) (s : State) (f : Bool) (h : Keep c s) :
    Keep c (computeRunahead g s f) :=
  keep_of_eq (computeRunahead_frame g s f).1 (computeRunahead_frame g s f).2 h

theorem keep_releaseRunahead {c} (g : Graph) (s : State) (h : Keep c s) : Keep c (releaseRunahead g s).1 := by
  unfold releaseRunahead
  split
  · exact h
  · split
    · exact h
    · simp only
      apply foldl_inv (Keep c) _ _ _ _ h
      intro st x hst
      apply keep_spawnNextParentless
      split
      · exact keep_put _ _ hst
      · exact hst

theorem keep_releaseRunaheadN {c} (g : Graph) : ∀ (n : Nat) (s : State), Keep c s → Keep c (releaseRunaheadN g n s) := by
  intro n; induction n with
  | zero => intro s h; exact h
  | succ n ih =>
    intro s h
    unfold releaseRunaheadN
    simp only
    split
    · exact ih _ (keep_releaseRunahead g s h)
    · exact keep_releaseRunahead g s h

theorem keep_queueIfReady {c} (s : State) (x : Proxy) (h : Keep c s) : Keep c (queueIfReady s x) := by
  unfold queueIfReady; split
  · exact keep_put _ _ h
  · exact h

theorem keep_holdActive {c} (s : State) (x : Proxy) (h : Keep c s) : Keep c (holdActive s x) := by
  unfold holdActive
  simp only
  split
  · exact keep_put _ _ h
  · exact keep_of_eq rfl rfl (keep_put _ _ h)

theorem keep_releaseHeldActive {c} (s : State) (x : Proxy) (h : Keep c s) : Keep c (releaseHeldActive s x) := by
  unfold releaseHeldActive
  simp only
  split
  · exact keep_of_eq rfl rfl (keep_put _ _ h)
  · exact keep_of_eq rfl rfl h

theorem nodup_empty (sp0 : Option Int) : Keep (none, sp0, none) ({ stopPoint := sp0 } : State) := by
  refine ⟨?_, rfl⟩
  unfold NoDup keys; simp

theorem keep_loadFromPoint (g : Graph) : Keep (none, g.stopPoint, none) (loadFromPoint g) := by
  unfold loadFromPoint
  simp only
  apply foldl_inv (Keep _)
  · intro st x hst
    split
    · exact keep_queueIfReady _ _ hst
    · exact hst
  · apply keep_releaseRunaheadN
    apply keep_computeRunahead
    apply foldl_inv (Keep _)
    · intro st t hst
      split
      · exact keep_spawnAndAdd _ _ _ _ hst
      · exact hst
    · exact nodup_empty _

theorem keep_releaseAndSubmit {c} (s : State) (h : Keep c s) : Keep c (releaseAndSubmit s) := by
  unfold releaseAndSubmit
  simp only
  split
  · exact h
  · apply keep_of_eq (s := List.foldl _ s _) rfl rfl
    apply foldl_inv (Keep c) _ _ _ _ h
    intro st x hst
    exact keep_of_eq rfl rfl (keep_put _ _ hst)

theorem keep_remove {c} (g : Graph) (s : State) (x : Proxy) (h : Keep c s) : Keep c (remove g s x) := by
  unfold remove
  simp only
  have h0 := keep_releaseHeldActive s x h
  generalize releaseHeldActive s x = s0 at h0 ⊢
  generalize (s0.get? x.pt x.name).getD x = x0
  have h1 : Keep c (if (!x0.flows.isEmpty && x0.runahead) = true then spawnNextParentless g s0 x0 else s0) := by
    split
    · exact keep_spawnNextParentless _ _ _ h0
    · exact h0
  generalize (if (!x0.flows.isEmpty && x0.runahead) = true then spawnNextParentless g s0 x0 else s0) = s1 at h1 ⊢
  exact ⟨nodup_filter _ _ h1.1, h1.2⟩

theorem keep_removeIfComplete {c} (g : Graph) (s : State) (x : Proxy) (h : Keep c s) :
    Keep c (removeIfComplete g s x) := by
  unfold removeIfComplete
  split
  · exact h
  · simp only
    have h0 : Keep c (if s.stopTask == some (x.pt, x.name) then { s with stopTaskFinished := true } else s) := by
      split
      · exact keep_of_eq rfl rfl h
      · exact h
    generalize (if s.stopTask == some (x.pt, x.name) then { s with stopTaskFinished := true } else s) = s0 at h0 ⊢
    split
    · exact h0
    · split
      · exact keep_remove _ _ _ h0
      · exact h0

theorem keep_spawnChild {c} (g : Graph) (p : Int) (n out : String) (acc : State × List (Int × String)) (ch : Child)
    (h : Keep c acc.1) : Keep c (spawnChild g p n out acc ch).1 := by
  obtain ⟨st, sui⟩ := acc
  unfold spawnChild
  simp only
  have h0 : Keep c (if (ch.isAbs && !st.absDone.contains ⟨p, n, out⟩) = true then
      { st with absDone := st.absDone ++ [⟨p, n, out⟩] } else st) := by
    split
    · exact keep_of_eq rfl rfl h
    · exact h
  generalize (if (ch.isAbs && !st.absDone.contains ⟨p, n, out⟩) = true then
      { st with absDone := st.absDone ++ [⟨p, n, out⟩] } else st) = st0 at h0 ⊢
  have hfold : ∀ (ks : List (Int × String)) (a : State × List (Int × String)), Keep c a.1 →
      Keep c (ks.foldl (fun (a : State × List (Int × String)) k =>
        match a.1.get? k.1 k.2 with
        | none => a
        | some z =>
          let z := z.satisfyMe ⟨p, n, out⟩
          (a.1.put z, if (z.suicideNow && !a.2.contains k) = true then a.2 ++ [k] else a.2)) a).1 := by
    intro ks; induction ks with
    | nil => intro a ha; exact ha
    | cons k ks ih =>
      intro a ha
      apply ih
      simp only
      split
      · exact ha
      · exact keep_put _ _ ha
  -- the child: pooled, or spawned now (which may record a hold)
  cases hg : st0.get? ch.pt ch.name with
  | some y =>
    simp only
    apply hfold
    simp only [Option.isSome_some, if_true]
    exact h0
  | none =>
    have h1 := keep_spawnTask g st0 ch.name ch.pt h0
    generalize spawnTask g st0 ch.name ch.pt = r at h1 ⊢
    obtain ⟨st1, child⟩ := r
    simp only at h1 ⊢
    cases child with
    | none => exact h1
    | some y =>
      simp only
      apply hfold
      simp only [Option.isSome_none, Bool.false_eq_true, if_false]
      exact keep_add _ _ h1

theorem keep_spawnOnOutput {c} (g : Graph) (s : State) (p : Int) (n out : String) (h : Keep c s) :
    Keep c (spawnOnOutput g s p n out) := by
  unfold spawnOnOutput
  split
  · exact h
  · simp only
    have h1 : ∀ (cs : List Child) (acc : State × List (Int × String)), Keep c acc.1 →
        Keep c (cs.foldl (spawnChild g p n out) acc).1 := by
      intro cs; induction cs with
      | nil => intro acc ha; exact ha
      | cons ch cs ih => intro acc ha; exact ih _ (keep_spawnChild g p n out acc ch ha)
    have h2 : ∀ (ks : List (Int × String)) (st : State), Keep c st →
        Keep c (ks.foldl (fun (st : State) k => match st.get? k.1 k.2 with
          | some z => remove g st z
          | none => st) st) := by
      intro ks; induction ks with
      | nil => intro st hst; exact hst
      | cons k ks ih =>
        intro st hst
        apply ih
        simp only
        split
        · exact keep_remove _ _ _ hst
        · exact hst
    generalize hR : (List.foldl (spawnChild g p n out) (s, []) _) = R
    have hRn : Keep c R.1 := by rw [← hR]; exact h1 _ _ h
    have h3 := h2 R.2 R.1 hRn
    split
    · exact keep_removeIfComplete _ _ _ h3
    · exact h3

theorem keep_store {c} (s : State) (x : Proxy) (tr : Bool) (h : Keep c s) : Keep c (store s x tr) := by
  unfold store; split
  · exact keep_of_eq rfl rfl h
  · exact keep_put _ _ h

theorem keep_spawnChildren {c} (g : Graph) (s : State) (p : Int) (n out : String) (tr : Bool) (h : Keep c s) :
    Keep c (spawnChildren g s p n out tr) := by
  unfold spawnChildren; split
  · exact h
  · exact keep_spawnOnOutput _ _ _ _ _ h

theorem keep_processMessage {c} (g : Graph) : ∀ (fuel : Nat) (s : State) (p : Int) (n : String) (flag : Flag)
    (sn : Nat) (msg : String), Keep c s → Keep c (processMessage g fuel s p n flag sn msg).1 := by
  intro fuel
  induction fuel with
  | zero => intro s p n flag sn msg h; exact h
  | succ fuel ih =>
    intro s p n flag sn msg h
    unfold processMessage
    split
    · exact h
    · rename_i x tr _
      split
      · exact h
      · split
        · exact h
        · simp only
          have hstore : ∀ (y : Proxy), Keep c (store s y tr) := fun y => keep_store _ _ _ h
          have himp : ∀ (l : List String) (st : State), Keep c st →
              Keep c (l.foldl (fun st m => (processMessage g fuel st p n .internal sn m).1) st) := by
            intro l; induction l with
            | nil => intro st hst; exact hst
            | cons a l ihl => intro st hst; exact ihl _ (ih _ _ _ _ _ _ hst)
          generalize hS : (List.foldl (fun st m => (processMessage g fuel st p n Flag.internal sn m).1) _ _) = S
          have hSn : Keep c S := by rw [← hS]; exact himp _ _ (hstore _)
          split
          · exact hSn
          · repeat' split
            all_goals first
              | exact hSn
              | exact keep_store _ _ _ hSn
              | exact keep_spawnChildren _ _ _ _ _ _ (keep_store _ _ _ hSn)
              | exact keep_spawnChildren _ _ _ _ _ _ hSn

theorem keep_processQueue {c} (g : Graph) (s : State) (h : Keep c s) : Keep c (processQueue g s) := by
  unfold processQueue
  apply foldl_inv (Keep c)
  · intro st grp hst
    simp only
    split
    · exact hst
    · have : ∀ (l : List Msg) (acc : State × Bool), Keep c acc.1 →
          Keep c (l.foldl (fun (acc : State × Bool) m =>
            let (st', pl) := processMessage g 4 acc.1 grp.1.1 grp.1.2 .received m.submitNum m.text
            (st', acc.2 || pl)) acc).1 := by
        intro l; induction l with
        | nil => intro acc ha; exact ha
        | cons m l ihl =>
          intro acc ha
          apply ihl
          exact keep_processMessage g 4 _ _ _ _ _ _ ha
      have h2 := this grp.2 (st, false) hst
      split
      · exact keep_of_eq rfl rfl h2
      · exact h2
  · exact keep_of_eq rfl rfl h

theorem keep_checkStalled {c} (g : Graph) (s : State) (h : Keep c s) : Keep c (checkStalled g s) := by
  unfold checkStalled; split
  · exact h
  · split
    · exact h
    · split
      · exact keep_of_eq rfl rfl h
      · exact h

theorem keep_sweepQueue {c} (s : State) (h : Keep c s) : Keep c (sweepQueue s) := by
  unfold sweepQueue
  apply foldl_inv (Keep c)
  · intro st x hst
    split
    · split
      · exact keep_queueIfReady _ _ (keep_put _ _ hst)
      · exact hst
    · exact hst
  · exact h

theorem keep_mapUpd {c} (s : State) (h : Keep c s) (a b : Bool) :
    Keep c { s with stalled := a, schedUpd := b, pool := s.pool.map fun x => { x with upd := false } } := by
  refine ⟨?_, h.2⟩
  have := h.1
  unfold NoDup keys at *
  simp only [List.map_map]
  exact this

theorem keep_finishLoop {c} (g : Graph) (s : State) (h : Keep c s) : Keep c (finishLoop g s) := by
  unfold finishLoop
  simp only
  have h4 : Keep c (if s.pool.any (·.upd) = true then { s with restartWait := false } else s) := by
    split
    · exact keep_of_eq rfl rfl h
    · exact h
  generalize (if s.pool.any (·.upd) = true then { s with restartWait := false } else s) = s4 at h4 ⊢
  have h5 : Keep c (if (s.schedUpd || s.pool.any (·.upd)) = true then
      { s4 with stalled := false, schedUpd := false, pool := s4.pool.map fun x => { x with upd := false } }
    else s4) := by
    split
    · exact keep_mapUpd _ h4 _ _
    · exact h4
  generalize (if (s.schedUpd || s.pool.any (·.upd)) = true then
      { s4 with stalled := false, schedUpd := false, pool := s4.pool.map fun x => { x with upd := false } }
    else s4) = s5 at h5 ⊢
  have h6 : Keep c { s5 with db := some s5.pool } := keep_of_eq rfl rfl h5
  split
  · exact keep_checkStalled _ _ h6
  · exact h6

theorem keep_setHoldPoint {c} (s : State) (p : Int) (h : Keep c s) : Keep c (setHoldPoint s p) := by
  unfold setHoldPoint
  simp only
  apply foldl_inv (Keep c)
  · intro st x hst
    split
    · split
      · exact keep_holdActive _ _ hst
      · exact hst
    · exact hst
  · exact keep_of_eq rfl rfl h

theorem keep_holdTasks {c} (s : State) (ids : List (Int × String)) (h : Keep c s) : Keep c (holdTasks s ids) := by
  unfold holdTasks
  apply foldl_inv (Keep c) _ _ _ _ h
  intro st k hst
  split
  · exact keep_holdActive _ _ hst
  · split
    · exact hst
    · exact keep_of_eq rfl rfl hst

theorem keep_releaseTasks {c} (s : State) (ids : List (Int × String)) (h : Keep c s) : Keep c (releaseTasks s ids) := by
  unfold releaseTasks
  apply foldl_inv (Keep c) _ _ _ _ h
  intro st k hst
  split
  · exact hst
  · split
    · exact keep_releaseHeldActive _ _ hst
    · exact keep_of_eq rfl rfl hst

theorem keep_releaseHoldPoint {c} (s : State) (h : Keep c s) : Keep c (releaseHoldPoint s) := by
  unfold releaseHoldPoint
  simp only
  apply keep_of_eq (s := List.foldl _ _ _) rfl rfl
  apply foldl_inv (Keep c)
  · intro st x hst
    split
    · exact keep_releaseHeldActive _ _ hst
    · exact hst
  · exact keep_of_eq rfl rfl h

/-! ### The stop-point invariant -/

/-- the stop point a restart computes: DB `stopcp`, else `stop after cycle point` of flow.cylc, else the final point -/
def restartStop (g : Graph) (s : State) : Option Int :=
  some ((match s.dbStopCp with | some p => some p | none => g.cfgStop).getD g.fcp)

/-- well-formed start: the live stop point at start-up is the configured one (no `--stopcp` option) -/
def WFStop (g : Graph) : Prop := g.stopPoint = some (g.cfgStop.getD g.fcp)

instance (g : Graph) : Decidable (WFStop g) := by unfold WFStop; exact inferInstance

/-- unless the scheduler shut down on its own (having reached the stop point, which it then forgets by design),
the live stop point is the one a restart would compute -/
def StopOK (g : Graph) (s : State) : Prop := s.stop ≠ some "AUTOMATIC" → s.stopPoint = restartStop g s

def Inv (g : Graph) (s : State) : Prop := NoDup s ∧ StopOK g s

theorem inv_of_keep {g : Graph} {s t : State} (hi : Inv g s) (hk : Keep (sp s) t) : Inv g t := by
  refine ⟨hk.1, ?_⟩
  have h2 := hk.2
  unfold sp at h2
  simp only [Prod.mk.injEq] at h2
  obtain ⟨h21, h22, h23⟩ := h2
  intro hne
  have := hi.2 (by rw [← h21]; exact hne)
  unfold restartStop at *
  rw [h22, h23]; exact this

theorem keep_self {s : State} (h : NoDup s) : Keep (sp s) s := ⟨h, rfl⟩

theorem canStop_automatic (s : State) (h : s.stopMode = some "AUTOMATIC") : canStop s = true := by
  unfold canStop
  rw [h]
  simp only
  have h1 : ("AUTOMATIC" == "REQUEST(NOW-NOW)") = false := by decide
  have h2 : ("AUTOMATIC" == "REQUEST(CLEAN)") = false := by decide
  have h3 : ("AUTOMATIC" == "REQUEST(KILL)") = false := by decide
  simp [h1, h2, h3]

theorem checkAutoShutdown_spec (g : Graph) (s : State) :
    (checkAutoShutdown g s).1.pool = s.pool ∧ (checkAutoShutdown g s).1.stop = s.stop ∧
    (checkAutoShutdown g s).1.stopMode = s.stopMode ∧
    (checkAutoShutdown g s).1.stopPoint = s.stopPoint ∧
    ((checkAutoShutdown g s).2 = false → (checkAutoShutdown g s).1.dbStopCp = s.dbStopCp) := by
  have hc : ∀ t : State, (checkStalled g t).pool = t.pool ∧ (checkStalled g t).stop = t.stop ∧
      (checkStalled g t).stopMode = t.stopMode ∧ (checkStalled g t).stopPoint = t.stopPoint ∧
      (checkStalled g t).dbStopCp = t.dbStopCp := by
    intro t
    unfold checkStalled
    split
    · exact ⟨rfl, rfl, rfl, rfl, rfl⟩
    · split
      · exact ⟨rfl, rfl, rfl, rfl, rfl⟩
      · split <;> exact ⟨rfl, rfl, rfl, rfl, rfl⟩
  unfold checkAutoShutdown
  split
  · exact ⟨rfl, rfl, rfl, rfl, fun _ => rfl⟩
  · simp only
    obtain ⟨c1, c2, c3, c4, c5⟩ := hc s
    split
    · exact ⟨c1, c2, c3, c4, fun _ => c5⟩
    · split
      · exact ⟨c1, c2, c3, c4, fun _ => c5⟩
      · exact ⟨c1, c2, c3, c4, fun h => by simp at h⟩

theorem inv_mainLoop (g : Graph) (s : State) (h : Inv g s) : Inv g (mainLoop g s) := by
  unfold mainLoop
  split
  · exact h
  · rename_i hstop
    have hs0 : s.stop = none := by
      cases hs : s.stop with
      | none => rfl
      | some v => simp [hs] at hstop
    simp only
    have k2 : Keep (sp s) (releaseRunahead g (computeRunahead g s)).1 :=
      keep_releaseRunahead g _ (keep_computeRunahead g s false (keep_self h.1))
    generalize (releaseRunahead g (computeRunahead g s)).1 = s2 at k2 ⊢
    have i2 : Inv g s2 := inv_of_keep h k2
    have hs2 : s2.stop = none := by
      have := k2.2; unfold sp at this; simp only [Prod.mk.injEq] at this; rw [this.1]; exact hs0
    -- the rest of the loop after the shutdown decision
    have rest : ∀ s3 : State, Inv g s3 → s3.stop = none →
        Inv g (finishLoop g (processQueue g
          (if ((sweepQueue s3).stopMode.isNone && !(sweepQueue s3).paused) = true then releaseAndSubmit (sweepQueue s3)
            else sweepQueue s3))) := by
      intro s3 i3 _
      apply inv_of_keep i3
      apply keep_finishLoop
      apply keep_processQueue
      split
      · exact keep_releaseAndSubmit _ (keep_sweepQueue _ (keep_self i3.1))
      · exact keep_sweepQueue _ (keep_self i3.1)
    -- the shutdown decision
    by_cases hm : s2.stopMode.isNone = true
    · simp only [hm, if_true]
      unfold stopTaskDone
      by_cases hstd : (s2.stopTask.isSome && s2.stopTaskFinished) = true
      · simp only [hstd, if_true]
        rw [if_pos (canStop_automatic _ rfl)]
        exact ⟨i2.1, fun hne => absurd rfl hne⟩
      · simp only [hstd, Bool.false_eq_true, if_false]
        obtain ⟨c1, c2, c3, c4, c5⟩ := checkAutoShutdown_spec g s2
        cases hauto : (checkAutoShutdown g s2).2 with
        | true =>
          simp only [if_true]
          rw [if_pos (canStop_automatic _ rfl)]
          refine ⟨?_, fun hne => absurd rfl hne⟩
          have := i2.1
          unfold NoDup keys at *
          show (List.map _ (checkAutoShutdown g s2).1.pool).Nodup
          rw [c1]; exact this
        | false =>
          simp only [Bool.false_eq_true, if_false]
          have i3 : Inv g (checkAutoShutdown g s2).1 := by
            apply inv_of_keep i2
            refine ⟨?_, ?_⟩
            · have := i2.1
              unfold NoDup keys at *
              rw [c1]; exact this
            · unfold sp; rw [c2, c4, c5 hauto]
          have hs3 : (checkAutoShutdown g s2).1.stop = none := by rw [c2]; exact hs2
          generalize (checkAutoShutdown g s2).1 = s3 at i3 hs3 ⊢
          split
          · refine ⟨i3.1, ?_⟩
            intro _
            exact i3.2 (by rw [hs3]; simp)
          · exact rest s3 i3 hs3
    · simp only [hm, Bool.false_eq_true, if_false]
      split
      · refine ⟨i2.1, ?_⟩
        intro _
        exact i2.2 (by rw [hs2]; simp)
      · exact rest s2 i2 hs2

theorem inv_setStopPoint (g : Graph) (s : State) (p : Int) (h : Inv g s) : Inv g (setStopPoint s p) := by
  unfold setStopPoint
  split
  · exact h
  · simp only
    have hsp : ∀ t : State, t.stopPoint = some p → t.dbStopCp = some p → StopOK g t := by
      intro t h1 h2 _
      unfold restartStop
      rw [h1, h2]; rfl
    split
    · split
      · refine ⟨?_, hsp _ rfl rfl⟩
        have := h.1
        unfold NoDup keys at *
        simp only [List.map_map]
        have heq : ((fun (x : Proxy) => (x.pt, x.name)) ∘ fun (x : Proxy) =>
            if (decide (x.pt > p) && x.status == Status.waiting) = true then x.reset (runahead := some true) else x) =
            fun (x : Proxy) => (x.pt, x.name) := by
          funext x
          simp only [Function.comp]
          split
          · unfold Proxy.reset; simp only; split <;> rfl
          · rfl
        rw [heq]; exact this
      · exact ⟨h.1, hsp _ rfl rfl⟩
    · exact ⟨h.1, hsp _ rfl rfl⟩

/-! ### `restart`, field by field -/

/-- what a restart does to one proxy (the documented normalisation): a task caught in job preparation comes back
waiting under the previous submit number; completed outputs are reloaded for running / failed / succeeded tasks
only; every task loads runahead-limited except the finished ones; queues are rebuilt -/
def restoreProxy (x : Proxy) : Proxy :=
  let (status, sn) := if x.status == .preparing then (Status.waiting, x.submitNum - 1) else (x.status, x.submitNum)
  let keepOut := status == .running || status == .failed || status == .succeeded
  let final := status == .failed || status == .succeeded || status == .expired
  { x with status := status, submitNum := sn, done := if keepOut then x.done else [],
           queued := false, runahead := !final, retryWait := false, live := false,
           upd := (x.status == .preparing) || final }

def restartCfgStop (g : Graph) (s : State) : Option Int :=
  match s.dbStopCp with | some p => some p | none => g.cfgStop

/-- the state loaded from the database, before `configure` re-applies the hold point -/
def restartBase (g : Graph) (s : State) : State :=
  { pool := s.pool.map restoreProxy, hist := s.hist, absDone := s.absDone,
    tasksToHold := s.tasksToHold, holdPoint := s.holdPoint, stopPoint := some ((restartCfgStop g s).getD g.fcp),
    dbStopCp := s.dbStopCp,
    restartWait := (s.pool.map restoreProxy).isEmpty || (match restartCfgStop g s with
      | some sp => (s.pool.map restoreProxy).all (fun x => x.pt > sp)
      | none => false),
    stopTask := s.stopTask, stopTaskFinished := false, schedUpd := true }

theorem restart_eq (g : Graph) (s : State) :
    restart g s = match s.holdPoint with
      | some hp => setHoldPoint (restartBase g s) hp
      | none => restartBase g s := rfl

/-- `hold_active_task` applied to a proxy beyond the hold point -/
def holdBeyond (p : Int) (x : Proxy) : Proxy := if x.pt > p then x.reset (held := some true) else x

def addHold (p : Int) (th : List (String × Int)) (x : Proxy) : List (String × Int) :=
  if x.pt > p then (if th.contains (x.name, x.pt) then th else th ++ [(x.name, x.pt)]) else th

theorem reset_held_key (x : Proxy) : (x.reset (held := some true)).pt = x.pt ∧ (x.reset (held := some true)).name = x.name := by
  unfold Proxy.reset; simp only; split <;> exact ⟨rfl, rfl⟩

theorem find?_append_of_none {α} (p : α → Bool) (l1 l2 : List α) (h : ∀ a ∈ l1, p a = false) :
    (l1 ++ l2).find? p = l2.find? p := by
  induction l1 with
  | nil => rfl
  | cons a l ih =>
    simp only [List.cons_append, List.find?_cons]
    rw [h a (List.mem_cons_self)]
    exact ih (fun b hb => h b (List.mem_cons_of_mem _ hb))

theorem map_id_of_forall {α} (f : α → α) (l : List α) (h : ∀ a ∈ l, f a = a) : l.map f = l := by
  induction l with
  | nil => rfl
  | cons a l ih =>
    simp only [List.map_cons]
    rw [h a (List.mem_cons_self), ih (fun b hb => h b (List.mem_cons_of_mem _ hb))]

theorem holdActive_spec (st : State) (x : Proxy) :
    holdActive st x = { (st.put (x.reset (held := some true))) with
      tasksToHold := if st.tasksToHold.contains (x.name, x.pt) then st.tasksToHold
                     else st.tasksToHold ++ [(x.name, x.pt)] } := by
  unfold holdActive
  simp only
  have : (st.put (x.reset (held := some true))).tasksToHold = st.tasksToHold := rfl
  rw [this]
  split <;> rfl

/-- the fold of `set_hold_point` over a duplicate-free pool: every proxy beyond the point is held in place,
and recorded in `tasks_to_hold` -/
theorem setHoldPoint_fold (p : Int) : ∀ (l done : List Proxy) (st : State),
    st.pool = done ++ l →
    (∀ a ∈ done, ∀ b ∈ l, ¬ (a.pt = b.pt ∧ a.name = b.name)) →
    (l.map fun x => (x.pt, x.name)).Nodup →
    l.foldl (fun st x => if x.pt > p then
        match st.get? x.pt x.name with | some y => holdActive st y | none => st
      else st) st =
      { st with pool := done ++ l.map (holdBeyond p), tasksToHold := l.foldl (addHold p) st.tasksToHold } := by
  intro l
  induction l with
  | nil =>
    intro done st hp _ _
    simp only [List.foldl_nil, List.map_nil, List.append_nil]
    rw [← (by simpa using hp : st.pool = done)]
  | cons x l ih =>
    intro done st hp hdis hnd
    simp only [List.foldl_cons]
    have hnd' : (l.map fun x => (x.pt, x.name)).Nodup := (List.nodup_cons.mp hnd).2
    have hxl : ∀ b ∈ l, ¬ (b.pt = x.pt ∧ b.name = x.name) := by
      intro b hb hk
      have := (List.nodup_cons.mp hnd).1
      apply this
      simp only [List.mem_map]
      exact ⟨b, hb, by rw [hk.1, hk.2]⟩
    by_cases hgt : x.pt > p
    · simp only [hgt, if_true]
      -- the proxy found under the key of `x` is `x` itself
      have hget : st.get? x.pt x.name = some x := by
        unfold State.get?
        rw [hp, find?_append_of_none]
        · simp
        · intro a ha
          have := hdis a ha x (List.mem_cons_self)
          simp only [Bool.and_eq_false_imp, beq_iff_eq]
          intro h1
          simp only [beq_eq_false_iff_ne, ne_eq]
          intro h2; exact this ⟨h1, h2⟩
      rw [hget]
      simp only
      -- `hold_active_task x`
      have hput : (st.put (x.reset (held := some true))).pool = (done ++ [x.reset (held := some true)]) ++ l := by
        unfold State.put
        simp only
        rw [hp, List.map_append, List.map_cons]
        have hk := reset_held_key x
        rw [map_id_of_forall _ done, map_id_of_forall _ l]
        · simp [hk.1, hk.2]
        · intro b hb
          have := hxl b hb
          rw [hk.1, hk.2]
          split
          · rename_i hc; simp only [Bool.and_eq_true, beq_iff_eq] at hc; exact absurd hc this
          · rfl
        · intro a ha
          have := hdis a ha x (List.mem_cons_self)
          rw [hk.1, hk.2]
          split
          · rename_i hc; simp only [Bool.and_eq_true, beq_iff_eq] at hc; exact absurd hc this
          · rfl
      have hdis' : ∀ a ∈ done ++ [x.reset (held := some true)], ∀ b ∈ l, ¬ (a.pt = b.pt ∧ a.name = b.name) := by
        intro a ha b hb
        rcases List.mem_append.mp ha with h | h
        · exact hdis a h b (List.mem_cons_of_mem _ hb)
        · simp only [List.mem_singleton] at h
          subst h
          have hk := reset_held_key x
          rw [hk.1, hk.2]
          intro hc; exact hxl b hb ⟨hc.1.symm, hc.2.symm⟩
      have hres : ∀ (st' : State), st'.pool = (done ++ [x.reset (held := some true)]) ++ l →
          l.foldl (fun st x => if x.pt > p then
              match st.get? x.pt x.name with | some y => holdActive st y | none => st
            else st) st' =
          { st' with pool := (done ++ [x.reset (held := some true)]) ++ l.map (holdBeyond p),
                     tasksToHold := l.foldl (addHold p) st'.tasksToHold } :=
        fun st' h' => ih _ st' h' hdis' hnd'
      have hres' := hres { (st.put (x.reset (held := some true))) with
        tasksToHold := if st.tasksToHold.contains (x.name, x.pt) then st.tasksToHold
                       else st.tasksToHold ++ [(x.name, x.pt)] } hput
      rw [holdActive_spec st x, hres']
      cases hc' : st.tasksToHold.contains (x.name, x.pt) with
      | true =>
        simp only [List.map_cons, List.foldl_cons, addHold, holdBeyond, hgt, if_true, hc', List.append_assoc,
          List.singleton_append]
        rfl
      | false =>
        simp only [List.map_cons, List.foldl_cons, addHold, holdBeyond, hgt, if_true, hc', List.append_assoc,
          List.singleton_append, Bool.false_eq_true, if_false]
        rfl
    · simp only [hgt, if_false]
      have hp' : st.pool = (done ++ [x]) ++ l := by rw [hp]; simp
      have hdis' : ∀ a ∈ done ++ [x], ∀ b ∈ l, ¬ (a.pt = b.pt ∧ a.name = b.name) := by
        intro a ha b hb
        rcases List.mem_append.mp ha with h | h
        · exact hdis a h b (List.mem_cons_of_mem _ hb)
        · simp only [List.mem_singleton] at h
          subst h
          intro hc; exact hxl b hb ⟨hc.1.symm, hc.2.symm⟩
      rw [ih _ st hp' hdis' hnd']
      simp only [List.map_cons, List.foldl_cons, addHold, holdBeyond, hgt, if_false, List.append_assoc,
        List.singleton_append]

theorem setHoldPoint_spec (s : State) (p : Int) (h : NoDup s) :
    setHoldPoint s p = { s with holdPoint := some p, pool := s.pool.map (holdBeyond p),
                                tasksToHold := s.pool.foldl (addHold p) s.tasksToHold } := by
  unfold setHoldPoint
  simp only
  have := setHoldPoint_fold p s.pool [] { s with holdPoint := some p } (by simp) (by intro a ha; simp at ha) h
  refine this.trans ?_
  simp

end CylcModel.Sched2
